//go:build verif

// Package sched is the harness side of the schedule points compiled into the
// library under the `verif` build tag.  A Table maps point names to a cyclic
// list of actions; "park" turns a known window into a deterministic case.  A
// parked goroutine is always released by a timeout, so the hook can never
// create a hang the library would not have.
package sched

import (
	"runtime"
	"sync"
	"time"

	kafka "github.com/segmentio/kafka-go"
)

// Action at a schedule point.
type Action struct {
	Kind  string `json:"kind"`            // pass | yield | sleep | park
	N     int    `json:"n,omitempty"`     // yield: Gosched count; sleep: microseconds
	Event string `json:"event,omitempty"` // park: released by Signal(Event) ("at:<point>" is signalled automatically when a point is reached)
	MaxMs int    `json:"max_ms,omitempty"`
}

// Table of actions per point.
type Table map[string][]Action

// Controller is an installed table.
type Controller struct {
	mu       sync.Mutex
	table    Table
	idx      map[string]int
	count    map[string]int
	events   map[string]chan struct{}
	Parked   int
	TimedOut int
}

var installMu sync.Mutex

// Install activates the table (one controller at a time per process).
func Install(t Table) *Controller {
	installMu.Lock()
	c := &Controller{table: t, idx: map[string]int{}, count: map[string]int{}, events: map[string]chan struct{}{}}
	kafka.SetVerifHook(c.hook)
	return c
}

// Uninstall removes the hook and releases everything parked.
func (c *Controller) Uninstall() {
	kafka.SetVerifHook(nil)
	c.mu.Lock()
	for _, ch := range c.events {
		select {
		case <-ch:
		default:
			close(ch)
		}
	}
	c.mu.Unlock()
	installMu.Unlock()
}

func (c *Controller) event(name string) chan struct{} {
	ch := c.events[name]
	if ch == nil {
		ch = make(chan struct{})
		c.events[name] = ch
	}
	return ch
}

// Signal releases goroutines parked on the event (now and in the future).
func (c *Controller) Signal(name string) {
	c.mu.Lock()
	ch := c.event(name)
	select {
	case <-ch:
	default:
		close(ch)
	}
	c.mu.Unlock()
}

// Count returns how often a point was reached.
func (c *Controller) Count(point string) int {
	c.mu.Lock()
	defer c.mu.Unlock()
	return c.count[point]
}

// Wait blocks until the point has been reached at least n times or the timeout expires.
func (c *Controller) Wait(point string, n int, max time.Duration) bool {
	deadline := time.Now().Add(max)
	for time.Now().Before(deadline) {
		if c.Count(point) >= n {
			return true
		}
		time.Sleep(100 * time.Microsecond)
	}
	return c.Count(point) >= n
}

func (c *Controller) hook(point string) {
	c.mu.Lock()
	c.count[point]++
	at := c.event("at:" + point)
	select {
	case <-at:
	default:
		close(at)
	}
	acts := c.table[point]
	var a Action
	if len(acts) > 0 {
		a = acts[c.idx[point]%len(acts)]
		c.idx[point]++
	}
	var ch chan struct{}
	if a.Kind == "park" {
		ch = c.event(a.Event)
		c.Parked++
	}
	c.mu.Unlock()
	switch a.Kind {
	case "yield":
		for i := 0; i < a.N; i++ {
			runtime.Gosched()
		}
	case "sleep":
		time.Sleep(time.Duration(a.N) * time.Microsecond)
	case "park":
		max := time.Duration(a.MaxMs) * time.Millisecond
		if max <= 0 {
			max = 250 * time.Millisecond
		}
		select {
		case <-ch:
		case <-time.After(max):
			c.mu.Lock()
			c.TimedOut++
			c.mu.Unlock()
		}
	}
}
