#!/usr/bin/env python3
"""Writes seeded/SUMMARY.md from the stored seeded changes (seeded/<Cxx>/<agent>-mN/meta.json)."""
import glob, json, os

ROOT = os.path.dirname(os.path.dirname(os.path.abspath(__file__)))

# What happened at the FIRST run of the property's check against the change (before any strengthening).
# "missed": the check of that time did not report it; what was added afterwards is named.
# "pre": the check was strengthened after I had read the agent's report but before the first run against the patch.
HISTORY = {
    "C08/A8-m2": ("missed", "C08 steady-stream stratum (messages held beyond BatchTimeout under continuous appends)"),
    "C09/A9-m2": ("missed", "C09 coordinator-error broker state + connection census"),
    "C03/A3-m2": ("missed", "gsim op commitclose (CommitMessages in flight when the reader is closed)"),
    "C04/A4-m2": ("missed", "the Conn-codec half of C04 did not exist yet: TestConnRequests / TestGroupRequests written"),
    "C12/A2-m2": ("missed", "requests on connections without an ApiVersions exchange are judged against the broker's own table"),
    "C06/A6-m1": ("missed", "probabilistic: TestConnHammer (spin-barrier rounds) + watchdog for calls that never return"),
    "C06/A6-m2": ("flaky", "caught in 1 of 2 first runs; the late-then-next stratum makes it deterministic"),
    "C08/B8-m2": ("missed", "NOT CAUGHT: needs a preemption inside a window of a few instructions (between Unlock and queue.Put) that no schedule point covers"),
    "C19/B8-m2": ("missed", "metamorphic unit TestReadPartitionsVersions (same query, Metadata v1 vs v6)"),
    "C02/B2-m2": ("missed", "logsim may lower the message format again inside a log (format downgrade)"),
    "C13/B2-m2": ("missed", "LeastBytes barrier rounds: N simultaneous calls from a balanced state must pick N distinct partitions"),
    "C13/B2-m1": ("pre", "TestCustomHasher: hash values chosen directly at the sign boundaries"),
    "C07/B7-m1": ("missed", "slow Logger (user callback as schedule perturbation) + timer-vs-full-batch stratum"),
    "C07/B7-m2": ("missed", "stampede stratum (simultaneous first submissions) + order rules evaluated even when Close hangs"),
    "C10/B10-m1": ("missed", "pause (plain sleep) at reader.closeMarked + rebalance events in group-reader programs"),
    "C10/B10-m2": ("pre", "doubleClose operation in codec programs"),
    "C11/B10-m1": ("missed", "TestApiVersionsErrors: error code on the implicit ApiVersions exchange"),
    "C11/B10-m2": ("missed", "fault kind no-response (deadline ends the wait, connection stays open)"),
    "C04/B4-m1": ("missed", "blobs around and beyond 64 KiB in the value generator"),
    "C04/B4-m2": ("missed", "Conn fetch responses compared record by record under chunked delivery"),
    "C15/B4-m1": ("pre", "ending event topic-deleted"),
    "C12/B1-m1": ("missed", "change op move_port + rule c12/broker-address"),
    "C12/B1-m2": ("missed", "bootstrap outage stratum + rule c12/cache-error-after-refresh"),
    "C14/B3-m1": ("missed", "partitions of different topics listed interleaved"),
    "C09/B9-m2": ("missed", "stall-commit broker state + blocked-commit stratum"),
    "C05/B5-m2": ("missed", "page-boundary sweep (first value ends just below a 64 KiB page)"),
    "C06/B6-m2": ("missed", "call kind offsets2 (request split into two sub-requests, first one delayed)"),
    # round 3
    "C03/D3-m1": ("missed", "quick tier only (thorough caught it): mixed-topic CommitMessages stratum (gsim Step.Mix)"),
    "C15/D3-m2": ("missed", "subscribed topic that is created only later (ending event topic-created after the watcher's baseline)"),
    "C04/D4-m1": ("missed", "TestProducePageBoundary: second record set swept across the 64 KiB page boundary of the encoder"),
    "C20/D4-m1": ("missed", "value classes a few bytes below / above the true length (true_m2..true_m20, true_half)"),
    "C16/D5-m2": ("missed", "WritePlan.Post: data written after ReadFrom has returned"),
    "C06/D6-m1": ("missed", "call kind fetchRecords: records (empty and null keys/values among them) consumed lazily while other calls run"),
    "C06/D6-m2": ("missed", "second and third Conn used at the same time, batches closed twice, same-shaped records; also uncovered a harness defect (the answer hook rewrote Seek's first/last offset lookups)"),
    "C07/D7-m2": ("missed", "memnet write stall (peer stops reading mid-request) + wsim fault write-stall + C07 stratum"),
    "C08/D7-m1": ("missed", "stratum with Writer.BatchBytes left at its default and messages around 1 MiB"),
    "C08/D7-m2": ("missed", "byte-exact variant of the full-batch stratum (small message, then one of exactly BatchBytes)"),
    "C11/D9-m2": ("missed", "TestConcurrentEarlyClose (C11) and readEarly + stream-misaligned rule (C06)"),
    "C19/D9-m1": ("missed", "fake cluster: open transactions / last stable offset; TestListOffsetsIsolation"),
    "C18/D10-m2": ("missed", "fault cut-raw-auth1 (raw answer ends inside the announced bytes); memnet sinks writes after death like TCP"),
    "C10/D8-m1": ("pre", "client variant tls-two-addresses"),
    "C10/D8-m2": ("pre", "batch operation readShort"),
    "C13/D8-m1": ("pre", "TestCustomHasherSequences (stateful user-supplied hasher)"),
    "C13/D8-m2": ("pre", "TestLeastBytesLargeTotals (per-partition totals beyond 2^32)"),
    "C09/D1-m2": ("pre", "small QueueCapacity in reader scenarios (partition readers parked on a full queue)"),
    "C12/D6-m1": ("pre", "broker id 0"),
    "C12/D6-m2": ("pre", "change op outage (nothing reachable for longer than the metadata TTL)"),
    # round 4
    "C01/E1-m1": ("missed", "error code -1 (UNKNOWN_SERVER_ERROR) among the permanent produce error codes"),
    "C02/E2-m2": ("missed", "step setoffset-race (SetOffset while a FetchMessage call is about to take a message of the old position)"),
    "C04/E4-m2": ("missed", "Conn.WriteMessages: key, value, timestamp and headers of every record on the wire compared with the call's messages"),
    "C08/E4-m2": ("missed", "Writers built by NewWriter(WriterConfig) (wsim ViaNewWriter) + lone message on an idle writer must leave after the configured BatchTimeout"),
    "C09/E5-m1": ("missed", "broker states stall-leave / leave-stall (LeaveGroup never answered)"),
    "C13/E5-m1": ("missed", "RoundRobin spin-barrier rounds: the answers of N simultaneous calls form the multiset every sequential order gives"),
    "C10/E6-m1": ("missed", "Conn operations seekCurNoCheck / seekAbsNoCheck (SeekDontCheck flag)"),
    "C10/E6-m2": ("missed", "the codec value the threads share is unused when they start (the setup blob is made with a copy)"),
    "C11/E7-m1": ("missed", "TestPartialReads: logs mixing plain and compressed batches, Batch closed after any number of messages, any following operation"),
    "C12/E8-m2": ("missed", "validate-only CreateTopics steps"),
    "C19/E9-m2": ("missed", "NOT CAUGHT, by decision: the change makes an empty non-nil OffsetFetchRequest.Topics ask for no topic instead of all; neither the statement nor the documentation says what an empty set asks for (nil = all is documented and checked)"),
    "C20/E10-m1": ("missed", "consumer-protocol values also sent through Client.DescribeGroups (entry describegroups), whose readers are not protocol.Unmarshal"),
    # round 5
    "C01/F1-m1": ("missed", "rule c01/offered-partitions: the balancer is offered the partitions of the message's own topic"),
    "C01/F1-m2": ("missed", "NOT CAUGHT by C01's check (a close-during-calls stratum was added, but the window is a few microseconds wide); reported by C09's check (c09/writer-close-hang / completion rules), whose clause it violates: what was accepted before Close is sent and completed before Close returns"),
    "C17/F2-m2": ("missed", "stalled connections with only the deadline of the operation's own direction set (SetWriteDeadline for writes, SetReadDeadline for reads)"),
    "C02/F2-m2": ("caught", "reported as a process crash after 40 minutes: some shards hung until the unit timeout; quick-tier unit timeouts are now capped at 15 minutes"),
    "C03/F3-m1": ("missed", "abandoned-commit stratum (CommitMessages gives up while its commit is in flight at a slow coordinator; the next one is refused on every attempt); gsim Step.TimeoutMs, fault kind slow"),
    "C03/F3-m2": ("missed", "small ReaderConfig.MaxBytes in group histories (fetch responses that end inside a batch); C02's check reported it as it was"),
    "C04/F4-m1": ("missed", "NOT CAUGHT, by decision: needs a broker whose advertised range lies entirely below the versions the Conn implements (Fetch <= v1, Produce <= v1, Metadata v0: brokers older than 0.10, which do not answer ApiVersions at all); the quantifier is 'every version in its supported range'. Adding such ceilings also makes the unchanged Conn send Metadata v1 unconditionally (Brokers / Controller / DialLeader), which the same reading puts outside the statement"),
    "C11/F4-m1": ("missed", "TestPartialReads: a read with a buffer shorter than the value (io.ErrShortBuffer keeps the Conn) before Close"),
    "C11/F4-m2": ("missed", "fault kind bad-length: size prefix and correlation id right, an inner string / array length points beyond the frame (fakecluster Action.MutateFrame)"),
    "C05/F5-m2": ("missed", "logsim generates batches with the LogAppendTime attribute bit (formats 1 and 2)"),
    "C12/F5-m2": ("missed", "coordinator stratum: the key whose coordinator moves is used before the move as well"),
    "C06/F6-m1": ("missed", "NOT CAUGHT by C06's check; reported by C16's check within seconds (read/snappy, history independence of pooled readers after a stream that ended in an error), whose clause it violates"),
    "C06/F6-m2": ("missed", "ended as a unit timeout (exit 2) instead of a violation: progress watchdog for Transport round trips, c06/transport/calls-never-returned"),
    "C15/F6-m2": ("missed", "upper bound on the heartbeat rate (from arrival times) + stratum with a HeartbeatInterval above a third of the SessionTimeout"),
    "C19/F8-m2": ("missed", "clusters whose node ids start at 0 (clusterSpec.ZeroID)"),
    "C10/F10-m2": ("missed", "Writers / Readers with a Logger and ErrorLogger (Program.Logger)"),
    "C13/F10-m2": ("missed", "TestConcurrentHash: one shared hashing balancer used by many goroutines, every answer compared with the reference; also in a race-detector build"),
    # round 6
    "C08/G1-m2": ("missed", "wsim: topic names that differ by trailing digits with two-digit partition numbers; C08 rule request-mixes-partitions (judged by where the balancer sent each record); C01's check reported it as it was once the names existed"),
    "C02/G2-m1": ("missed", "SetOffset beyond the end of the log, followed by appends that pass it"),
    "C11/G2-m2": ("missed", "operations SeekAbsolute (with bounds check), Offset and ReadAtPosition: a failed Seek must not move the position"),
    "C03/G3-m1": ("missed", "commit refusals that concern some partitions of a request only (fakecluster Action.ErrorSkipFirst, gsim fault code-not-first)"),
    "C03/G3-m2": ("missed", "members with different subscriptions (gsim NarrowMembers) + assignment coverage read off the wire (leader's JoinGroup response vs its SyncGroup request)"),
    "C04/G4-m1": ("missed", "CreateTopics / DeleteTopics version ceilings for the Conn"),
    "C04/G4-m2": ("missed", "NOT CAUGHT, by decision: the maxTimestamp field of a v2 batch header is derived, neither C04 nor C05 names it, and the unchanged Conn path already writes the last timestamp there (observation batch_max_timestamp_is_not_the_maximum)"),
    "C19/G4-m1": ("missed", "group-level error of an OffsetFetch (top-level field from v2); C04's response-decode unit reported it as it was"),
    "C16/G5-m2": ("caught", "patch re-based onto the tree with fix F28 (same lines)"),
    "C06/G6-m2": ("missed", "call kind readLSO (read_committed fetch at the last stable offset: empty record set below the high watermark) on a fourth Conn; the fake honours read_committed"),
    "C12/G6-m2": ("missed", "worlds with SASL: SaslHandshake / SaslAuthenticate are judged by the version rule too"),
    "C07/G7-m1": ("missed", "calls of 13-40 messages"),
    "C09/G7-m1": ("missed", "NOT CAUGHT by C09's check (functions lingering after Close are outside its statement); reported by C15's check (next-before-functions-returned), whose clause it violates"),
    "C09/G7-m2": ("missed", "broker state assign-error (the elected leader's partition lookup fails) + rule group-member-not-released"),
    "C17/G8-m1": ("missed", "operation ReadBatchShortBuffer (io.ErrShortBuffer, then the rest of the response is cut)"),
    "C17/G8-m2": ("missed", "operation ReadBatchOutOfRange (partition error code in the fetch header, cut in the rest)"),
    "C13/G9-m1": ("missed", "user-supplied Hasher in the concurrent hash unit"),
    "C18/G9-m1": ("missed", "entry newwriter (NewWriter with the mechanism in WriterConfig.Dialer)"),
    "C18/G9-m2": ("missed", "two goroutines use one Transport at the same time (two brokers authenticate with one mechanism value) + paced authenticate rounds in the fake"),
    # round 7
    "C02/H2-m2": ("missed", "reader bound to any partition of a topic with several partitions, which the broker lists in decreasing order (fakecluster ReversePartitionOrder); neighbours hold decoy records"),
    "C19/H2-m2": ("missed", "NOT CAUGHT by C19's check (its worlds do not change while they are queried); reported by C12's check (cache-not-updated), whose clause it violates"),
    "C18/H3-m1": ("missed", "failed SaslAuthenticate rounds answered with a null error message"),
    "C18/H3-m2": ("missed", "entry readerseek (Reader.SetOffsetAt) with kafka.DefaultDialer pointed at the in-memory network, so that traffic that bypasses the configured Dialer is seen by the broker"),
    "C05/H5-m2": ("missed", "compacted v1 wrappers whose first record was removed too (refcodec SparseShift)"),
    "C15/H5-m1": ("missed", "late Next (the generation is joined and synced long before the application asks for it) + rule heartbeats-missing-before-next"),
    "C15/H5-m2": ("missed", "generations in which the application starts no function"),
    "C08/H8-m1": ("missed", "NOT CAUGHT by C08's check; reported by C10's check as a data race (awaitBatch vs writeMessages), which is what it is"),
    "C08/H8-m2": ("missed", "BatchTimeout below one millisecond (wsim BatchTimeoutUs)"),
    "C12/H8-m1": ("missed", "unit TestCadence (round 10): MetadataTTL of 2-3 s, the leader moves right after a metadata answer, a request started TTL + 500 ms later has to reach the new leader"),
    "C12/H8-m2": ("missed", "a group's coordinator moves to a broker that was just added, before the transport has heard of it"),
    "C09/H9-m1": ("missed", "WriteMessages without messages after Close"),
    "C09/H9-m2": ("missed", "stall kind metadata-after-create (a CreateTopics round trip waits for the topic to appear while the brokers stop serving metadata)"),
    "C01/H1-m1": ("missed", "unit TestHugeCall: one call of 66000 messages"),
    "C01/H1-m2": ("missed", "NOT CAUGHT by C01's check (null against empty keys are not its business); reported by C05's check (produce-null-vs-empty/writer)"),
    "C20/H1-m2": ("missed", "NOT CAUGHT by C20's check (the record count is covered by the batch checksum, which is exactly what the change stops verifying: C20 records such cases as observations); reported by C05's check (records of a batch whose checksum does not match are surfaced)"),
    "C04/H4-m1": ("missed", "string lengths around powers of two in the value generator (7..257)"),
    "C04/H4-m2": ("missed", "aborted-transaction lists in fetch responses (fakecluster Partition.Aborted) + rule conn-resp/fetch/rejected (a well-formed response has to decode)"),
    "C17/H4-m2": ("missed", "operation ReadBatchLateDeadline + rule late-deadline-not-honoured (a stall inside the record set ends with the deadline set after ReadBatch returned)"),
    "C06/H6-m1": ("missed", "NOT CAUGHT by C06's check; reported by C16's check (pooled gzip reader put back twice after a bad header: history independence)"),
    "C06/H6-m2": ("missed", "NOT CAUGHT by C06's check; reported by C12's (filtered-metadata-mismatch) and C19's checks"),
    "C14/H6-m2": ("missed", "rack names as cloud providers spell them (upper case, trailing blank)"),
    "C13/H7-m2": ("missed", "keyless messages in the concurrent hash unit (+ panics inside Balance are reported as such)"),
    "C10/H10-m1": ("missed", "Conn programs against a broker limited to Produce v2, with SetRequiredAcks next to the writes"),
    "C10/H10-m2": ("missed", "client variant multi-bootstrap (kafka.TCP with two addresses)"),
    "C11/H9-m2": ("flaky", "the operation after the refused ApiVersions exchange blocks forever: first seen as a violation only when a unit with a watchdog met it, otherwise as a unit timeout (exit 2); every operation of a C11 tuple now runs under a watchdog (operation-never-returns)"),
    "C16/H10-m2": ("flaky", "Write spins forever: ended as a unit timeout (exit 2) until history steps and uses ran under a watchdog (hang/...)"),
    # round 8
    "C01/I1-m1": ("missed", "wsim: MaxAttempts left unset or negative (the default of 10 applies)"),
    "C01/I1-m2": ("missed", "wsim: brokers limited to Produce v0 / v1 (C04's response-decode unit reported it too)"),
    "C11/I1-m1": ("missed", "operation CreateTopics3 (three topics in one request) + error field first-topic (fakecluster ErrorFirstOnly)"),
    "C11/I1-m2": ("missed", "NOT CAUGHT: after the malformed fetch header the Conn is left open but misaligned, and every later operation still fails (io.ErrNoProgress) as the statement demands, unless the unread bytes are crafted to look like the answer with the next correlation id; the fake broker sends no such frames"),
    "C13/I3-m1": ("missed", "RoundRobin offered partition lists of varying length (one balancer behind several topics)"),
    "C13/I3-m2": ("missed", "unit TestWriterOffers: what real Writers offer their balancer for topics of up to 400 partitions, in histories that make the cached list grow"),
    "C04/I4-m1": ("missed", "NOT CAUGHT by C04's check (its fetch responses are read from their first record); reported by C05's and C02's checks (fetches that start inside a v0/v1 wrapper with null keys)"),
    "C04/I4-m2": ("missed", "the round trip also through protocol.Marshal / Unmarshal, with decodes of cut-off prefixes in between"),
    "C14/I4-m2": ("missed", "partitions listed with an error of their own (Partition.Error)"),
    "C07/I7-m1": ("missed", "permanent errors and slow answers among the faults of the ordering scenarios"),
    "C08/I8-m1": ("missed", "NOT CAUGHT by C08's check (batches that are never sent are not late); reported by C01's check (acknowledged without a produce request)"),
    "C18/I8-m1": ("missed", "faults empty-server-first / empty-server-final (no bytes and no error code where SCRAM expects the server's message)"),
    "C18/I8-m2": ("missed", "entry groupreader (a consumer-group Reader with the mechanism in its Dialer)"),
    "C19/I9-m1": ("missed", "error code -1 (UNKNOWN_SERVER_ERROR) among the injected codes"),
    "C19/I9-m2": ("missed", "NOT CAUGHT by C19's check (one query per Conn after a refused one); reported by C11's check (next operation after a broker error code)"),
    "C10/I10-m2": ("missed", "NOT CAUGHT by C10's check (no program of its menu decodes a bad gzip header); reported by C16's check (history independence of pooled readers)"),
    "C06/I6-m1": ("missed", "a failed compressed write (codec that cannot be set up) before the concurrent batch reads"),
    "C16/I6-m1": ("missed", "two ReadFrom calls into one writer (WritePlan.Split)"),
    # round 9
    "C01/J1-m1": ("missed", "wsim: Writers built by NewWriter(WriterConfig) in every bias, not only in C08's strata"),
    "C12/J1-m1": ("missed", "an internal topic (__consumer_offsets) in the worlds, named by metadata steps (C19's check reported it too)"),
    "C02/J2-m1": ("missed", "NOT CAUGHT by C02's check (its logs have no holes inside v0/v1 wrappers); reported by C05's check (v1-wrapper offsets)"),
    "C02/J2-m2": ("missed", "record timestamps beyond the year 2262 in the generator (which exposed F30 on the encoding side)"),
    "C13/J2-m2": ("missed", "unit TestWriterDefaultBalancer: a Writer without Balancer spreads a sequence of calls evenly"),
    "C03/J3-m1": ("missed", "oracle was too forgiving: with StartOffset=LastOffset any start was accepted; now never below the records that existed before the first join"),
    "C14/J3-m1": ("missed", "NOT CAUGHT by C14's check (it calls AssignGroups; the change is in the conversion to SyncGroup requests); reported by C03's check (partition-not-assigned-once, read off the wire)"),
    "C14/J3-m2": ("missed", "NOT CAUGHT by C14's check (same reason: JoinGroup metadata conversion); reported by C04's check (TestGroupRequests compares the metadata of every advertised protocol)"),
    "C15/J4-m2": ("missed", "ending event heartbeat-silent (a heartbeat the coordinator never answers) + ConsumerGroupConfig.Timeout as a case parameter"),
    "C16/J5-m1": ("missed", "the reference zstd decoder keeps the 128 MiB window limit of libzstd / zstd-jni"),
    "C16/J5-m2": ("missed", "NOT CAUGHT by C16's check (a data race without wrong bytes; its race-built unit reports races as infrastructure failures, thorough tier only); reported by C10's check (TestCodecPrograms)"),
    "C07/J7-m2": ("missed", "unit TestFlood (round 10): one call that seals 400-3000 batches for one partition and leaves a partial batch open under a BatchTimeout of 5-80 microseconds, with co-submitters hammering short calls"),
    "C18/J7-m2": ("missed", "brokers that do not list SaslHandshake in their ApiVersions answer (Transport entries)"),
    "C19/J8-m2": ("missed", "NOT CAUGHT by C19's check (its worlds do not change while they are queried); reported by C12's check (coordinator moves)"),
    "C09/J9-m2": ("missed", "reader stratum: the queue is full to the last slot when the partition reader has an error to report (broker state error-fetch, QueueCap)"),
    "C06/J6-m1": ("missed", "NOT CAUGHT by C06's check (its produce requests are format 2); reported by C16's check (a second Close of a snappy writer puts it into the pool twice: round trip / interop after close-twice histories)"),
    "C06/J6-m2": ("missed", "NOT CAUGHT by C06's check; reported by C04's check after the addition that the bytes Marshal returns stay intact across further Marshal calls"),
    "C17/J6-m1": ("missed", "NOT CAUGHT by C17's check (no SASL in its scenarios); reported by C18's check (fault cut-raw-auth1: the raw answer of an authenticate round ends early)"),
    "C11/J10-m2": ("missed", "NOT CAUGHT: like C11/I1-m2 -- after an error code followed by surplus bytes the Conn stays open and misaligned, later operations still fail unless the surplus is crafted as the answer with the next correlation id"),
    # round 10 (K): one change per property
    "C14/K10-m1": ("missed", "partitions list replicas (Partition.Replicas / Isr) on brokers of other racks than the leader's, also for leaders without a rack"),
    "C15/K8-m1": ("missed", "functions that take longer to wind down (350-650 ms) than the group's RebalanceTimeout (300 ms)"),
    "C10/K9-m1": ("missed", "client programs over a Transport with a Resolver (variant resolver)"),
    "C17/K2-m1": ("missed", "stall cases with the operation's own deadline set once before the call (DL op-before): a deadline set while the call runs reaches the socket through the stale connection pointer of the write deadline and ended the read anyway"),
    "C05/K5-m1": ("missed", "header values longer than 64 KiB in generated records (refcodec.GenRecords)"),
    "C18/K9-m1": ("missed", "addresses whose port is a service name (b1.fake:kafka) for the Dialer entries; exposed F31 (fixed d4bc167: the refused dial left its connection open). The stored patch applies to the tree before that fix only (same lines); evaluated against fbb5cd3"),
    "C03/K3-m1": ("missed", "coordinators that list the partitions of an OffsetFetch answer in reverse order (fakecluster.ReverseOffsetFetchOrder)"),
    "C16/K5-m1": ("missed", "rule read-after-eof: the Read after the one that reported the end of the stream returns (0, io.EOF)"),
    "C04/K4-m1": ("missed", "NOT CAUGHT by C04's check (record offsets are not part of a frame's fields); reported by C05's check (TestFetch / TestPool / TestMutatedSets: offsets of records in compacted v2 batches)"),
    "C06/K6-m1": ("missed", "conn call kind assignment: the opaque bytes of a SyncGroup answer (through the verif wrapper of the unexported operation) are kept as handed out and compared only when every call of the case is over"),
    "C09/K3-m1": ("missed", "reader stratum commit-flood: interval commits go on while the commit loop sits in an unanswered OffsetCommit until the queue (QueueCapacity 1-3) is full and CommitMessages itself blocks; then its context ends"),
    # round 11 (L): one change per property
    "C01/L1-m1": ("missed", "wsim: NotEnoughReplicasAfterAppend (20) among the temporary produce error codes"),
    "C15/L1-m1": ("missed", "failing JoinGroup / SyncGroup answers that take about as long as JoinGroupBackoff (apiFault.DelayMs). The evaluation run first reported it through c15/heartbeats-missing-before-next, which was a false alarm of a saturated machine (corrected: beatFloor)"),
    "C02/L2-m1": ("missed", "partitions with an open transaction: the fake reports the last stable offset to every consumer (it did so for read_committed ones only), the reader starts exactly there"),
    "C04/L4-m1": ("missed", "NOT CAUGHT by C04's check (the Writer's conversion of messages to records is not a frame codec); reported by C05's check (produce-null-vs-empty/writer)"),
    "C20/L5-m1": ("missed", "entry client-raw: the mutated Produce frames also through Client.RawProduce"),
    "C06/L6-m1": ("missed", "readZ calls ask a batch that was closed with compressed records unread once more, after another batch has been decompressed: a closed batch delivers nothing"),
    "C07/L7-m1": ("missed", "wsim: messages with explicit Message.Time values that are not monotonic in submission order"),
    "C18/L7-m1": ("missed", "unit TestLegs: a user-written sasl.Mechanism of 1-12 round trips (mechanism LEGS in the fake) through every entry point"),
    "C09/L8-m1": ("missed", "reader stratum setoffset-loop: Close while the application keeps calling SetOffset (C10's check reported it too, as a data race on Reader.cancel)"),
    "C12/L10-m1": ("missed", "NOT CAUGHT, by decision: the change only shows when metadata names a leader id that is absent from its own broker list; brokers report such a partition with leader -1, and the fake does what brokers do. (Steps can be sent as rawproduce.Request -- step flag raw -- but the generator does not draw it: see DESIGN 7.4)"),
}


def main():
    rows = []
    for f in sorted(glob.glob(os.path.join(ROOT, "seeded", "C[0-9][0-9]", "*-m[0-9]*", "meta.json"))):
        prop, tag = f.split("/")[-3:-1]
        d = json.load(open(f))
        w = d.get("what_i_ran", {})
        chk = w.get("check", {})
        demo = w.get("demonstration", {})
        key = "%s/%s" % (prop, tag)
        hist = HISTORY.get(key, ("caught", ""))
        rows.append((prop, tag, d.get("summary", "").replace("|", "\\|").replace("\n", " ")[:260],
                     str(demo.get("confirmed", "n/a")), "caught" if chk.get("caught") else "MISSED", chk.get("signature") or "", hist))
    n = len(rows)
    first_missed = sum(1 for r in rows if r[6][0] in ("missed", "flaky"))
    now_missed = sum(1 for r in rows if r[4] != "caught")
    with open(os.path.join(ROOT, "seeded", "SUMMARY.md"), "w") as f:
        f.write("# Seeded changes written by helper agents (property text + scratch worktree only)\n\n")
        f.write("%d changes; %d were not reported by the check as it was when the change arrived (or only sometimes), %d are not reported now.\n" % (n, first_missed, now_missed))
        f.write("Each directory holds patch.diff, the agent's demonstration, meta.json (the agent's description + what I ran) and RESULT.md.\n")
        f.write("`python3 tools/seeded_eval.py /verif/seeded [--only Cxx]` re-evaluates them against a scratch worktree of the current /repo.\n\n")
        f.write("| property | change | what it does | demo confirmed | check now | first violation | at first run | added because of it |\n|---|---|---|---|---|---|---|---|\n")
        for r in rows:
            f.write("| %s | %s | %s | %s | %s | `%s` | %s | %s |\n" % (r[0], r[1], r[2], r[3], r[4], r[5], r[6][0], r[6][1]))


if __name__ == "__main__":
    main()
