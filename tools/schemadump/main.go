// Command schemadump prints a DRAFT of refcodec's schema table from the struct
// tags of the tree it is built against.  It was run once at the pinned commit;
// its output was then reviewed by hand against the Kafka protocol specification
// and committed as refcodec/schema_table.go.  The checks never run this tool:
// the committed table is pinned data and does not follow later tag edits.
//go:build ignore

package main

import (
	"fmt"
	"reflect"
	"sort"
	"strconv"
	"strings"

	"github.com/segmentio/kafka-go/protocol"
	addoffsetstotxn "github.com/segmentio/kafka-go/protocol/addoffsetstotxn"
	addpartitionstotxn "github.com/segmentio/kafka-go/protocol/addpartitionstotxn"
	alterclientquotas "github.com/segmentio/kafka-go/protocol/alterclientquotas"
	alterconfigs "github.com/segmentio/kafka-go/protocol/alterconfigs"
	alterpartitionreassignments "github.com/segmentio/kafka-go/protocol/alterpartitionreassignments"
	alteruserscramcredentials "github.com/segmentio/kafka-go/protocol/alteruserscramcredentials"
	apiversions "github.com/segmentio/kafka-go/protocol/apiversions"
	createacls "github.com/segmentio/kafka-go/protocol/createacls"
	createpartitions "github.com/segmentio/kafka-go/protocol/createpartitions"
	createtopics "github.com/segmentio/kafka-go/protocol/createtopics"
	deleteacls "github.com/segmentio/kafka-go/protocol/deleteacls"
	deletegroups "github.com/segmentio/kafka-go/protocol/deletegroups"
	deletetopics "github.com/segmentio/kafka-go/protocol/deletetopics"
	describeacls "github.com/segmentio/kafka-go/protocol/describeacls"
	describeclientquotas "github.com/segmentio/kafka-go/protocol/describeclientquotas"
	describeconfigs "github.com/segmentio/kafka-go/protocol/describeconfigs"
	describegroups "github.com/segmentio/kafka-go/protocol/describegroups"
	describeuserscramcredentials "github.com/segmentio/kafka-go/protocol/describeuserscramcredentials"
	electleaders "github.com/segmentio/kafka-go/protocol/electleaders"
	endtxn "github.com/segmentio/kafka-go/protocol/endtxn"
	fetch "github.com/segmentio/kafka-go/protocol/fetch"
	findcoordinator "github.com/segmentio/kafka-go/protocol/findcoordinator"
	heartbeat "github.com/segmentio/kafka-go/protocol/heartbeat"
	incrementalalterconfigs "github.com/segmentio/kafka-go/protocol/incrementalalterconfigs"
	initproducerid "github.com/segmentio/kafka-go/protocol/initproducerid"
	joingroup "github.com/segmentio/kafka-go/protocol/joingroup"
	leavegroup "github.com/segmentio/kafka-go/protocol/leavegroup"
	listgroups "github.com/segmentio/kafka-go/protocol/listgroups"
	listoffsets "github.com/segmentio/kafka-go/protocol/listoffsets"
	listpartitionreassignments "github.com/segmentio/kafka-go/protocol/listpartitionreassignments"
	metadata "github.com/segmentio/kafka-go/protocol/metadata"
	offsetcommit "github.com/segmentio/kafka-go/protocol/offsetcommit"
	offsetdelete "github.com/segmentio/kafka-go/protocol/offsetdelete"
	offsetfetch "github.com/segmentio/kafka-go/protocol/offsetfetch"
	produce "github.com/segmentio/kafka-go/protocol/produce"
	saslauthenticate "github.com/segmentio/kafka-go/protocol/saslauthenticate"
	saslhandshake "github.com/segmentio/kafka-go/protocol/saslhandshake"
	syncgroup "github.com/segmentio/kafka-go/protocol/syncgroup"
	txnoffsetcommit "github.com/segmentio/kafka-go/protocol/txnoffsetcommit"
)

type seg struct {
	min, max int
	nullable bool
	tagID    int
}

func parse(tag string) []seg {
	var out []seg
	if tag == "" || tag == "-" {
		return nil
	}
	for _, s := range strings.Split(tag, "|") {
		g := seg{min: -1, max: -1, tagID: -2}
		for _, o := range strings.Split(s, ",") {
			switch {
			case strings.HasPrefix(o, "min=v"):
				g.min, _ = strconv.Atoi(o[5:])
			case strings.HasPrefix(o, "max=v"):
				g.max, _ = strconv.Atoi(o[5:])
			case o == "nullable":
				g.nullable = true
			case o == "tag":
				g.tagID = -1
			case strings.HasPrefix(o, "tag="):
				g.tagID, _ = strconv.Atoi(o[4:])
			}
		}
		out = append(out, g)
	}
	return out
}

func ranges(rs [][2]int) string {
	sort.Slice(rs, func(i, j int) bool { return rs[i][0] < rs[j][0] })
	var m [][2]int
	for _, r := range rs {
		if len(m) > 0 && m[len(m)-1][1]+1 >= r[0] {
			if r[1] > m[len(m)-1][1] {
				m[len(m)-1][1] = r[1]
			}
		} else {
			m = append(m, r)
		}
	}
	var parts []string
	for _, r := range m {
		parts = append(parts, fmt.Sprintf("%d-%d", r[0], r[1]))
	}
	return strings.Join(parts, ",")
}

var flexMin int

func typ(t reflect.Type, ind string) string {
	switch t.Kind() {
	case reflect.Bool:
		return "Bool"
	case reflect.Int8:
		return "I8"
	case reflect.Int16:
		return "I16"
	case reflect.Int32:
		return "I32"
	case reflect.Int64:
		return "I64"
	case reflect.Float64:
		return "F64"
	case reflect.String:
		return "Str"
	case reflect.Slice:
		if t.Elem().Kind() == reflect.Uint8 {
			return "Bytes"
		}
		return "Arr(" + typ(t.Elem(), ind) + ")"
	case reflect.Struct:
		if t.String() == "protocol.RecordSet" {
			return "Records"
		}
		return "Struct(\n" + fields(t, ind+"\t") + ind + ")"
	}
	panic(t.String())
}

func fields(t reflect.Type, ind string) string {
	var b strings.Builder
	for i := 0; i < t.NumField(); i++ {
		f := t.Field(i)
		segs := parse(f.Tag.Get("kafka"))
		if f.Name == "_" {
			for _, g := range segs {
				if g.tagID == -1 && (flexMin < 0 || g.min < flexMin) {
					flexMin = g.min
				}
			}
			continue
		}
		if f.PkgPath != "" || len(segs) == 0 {
			continue
		}
		var vs, ns, ts [][2]int
		tagID := -1
		for _, g := range segs {
			vs = append(vs, [2]int{g.min, g.max})
			if g.nullable {
				ns = append(ns, [2]int{g.min, g.max})
			}
			if g.tagID >= 0 {
				ts = append(ts, [2]int{g.min, g.max})
				tagID = g.tagID
			}
			if g.tagID > -2 && (flexMin < 0 || g.min < flexMin) {
				flexMin = g.min
			}
		}
		fmt.Fprintf(&b, "%s{N: %q, T: %s, V: %q", ind, f.Name, typ(f.Type, ind), ranges(vs))
		if len(ns) > 0 {
			fmt.Fprintf(&b, ", Null: %q", ranges(ns))
		}
		if len(ts) > 0 {
			fmt.Fprintf(&b, ", Tagged: %q, Tag: %d", ranges(ts), tagID)
		}
		b.WriteString("},\n")
	}
	return b.String()
}

func main() {
	list := []struct {
		pkg      string
		req, res protocol.Message
	}{
	{"addoffsetstotxn", &addoffsetstotxn.Request{}, &addoffsetstotxn.Response{}},
	{"addpartitionstotxn", &addpartitionstotxn.Request{}, &addpartitionstotxn.Response{}},
	{"alterclientquotas", &alterclientquotas.Request{}, &alterclientquotas.Response{}},
	{"alterconfigs", &alterconfigs.Request{}, &alterconfigs.Response{}},
	{"alterpartitionreassignments", &alterpartitionreassignments.Request{}, &alterpartitionreassignments.Response{}},
	{"alteruserscramcredentials", &alteruserscramcredentials.Request{}, &alteruserscramcredentials.Response{}},
	{"apiversions", &apiversions.Request{}, &apiversions.Response{}},
	{"createacls", &createacls.Request{}, &createacls.Response{}},
	{"createpartitions", &createpartitions.Request{}, &createpartitions.Response{}},
	{"createtopics", &createtopics.Request{}, &createtopics.Response{}},
	{"deleteacls", &deleteacls.Request{}, &deleteacls.Response{}},
	{"deletegroups", &deletegroups.Request{}, &deletegroups.Response{}},
	{"deletetopics", &deletetopics.Request{}, &deletetopics.Response{}},
	{"describeacls", &describeacls.Request{}, &describeacls.Response{}},
	{"describeclientquotas", &describeclientquotas.Request{}, &describeclientquotas.Response{}},
	{"describeconfigs", &describeconfigs.Request{}, &describeconfigs.Response{}},
	{"describegroups", &describegroups.Request{}, &describegroups.Response{}},
	{"describeuserscramcredentials", &describeuserscramcredentials.Request{}, &describeuserscramcredentials.Response{}},
	{"electleaders", &electleaders.Request{}, &electleaders.Response{}},
	{"endtxn", &endtxn.Request{}, &endtxn.Response{}},
	{"fetch", &fetch.Request{}, &fetch.Response{}},
	{"findcoordinator", &findcoordinator.Request{}, &findcoordinator.Response{}},
	{"heartbeat", &heartbeat.Request{}, &heartbeat.Response{}},
	{"incrementalalterconfigs", &incrementalalterconfigs.Request{}, &incrementalalterconfigs.Response{}},
	{"initproducerid", &initproducerid.Request{}, &initproducerid.Response{}},
	{"joingroup", &joingroup.Request{}, &joingroup.Response{}},
	{"leavegroup", &leavegroup.Request{}, &leavegroup.Response{}},
	{"listgroups", &listgroups.Request{}, &listgroups.Response{}},
	{"listoffsets", &listoffsets.Request{}, &listoffsets.Response{}},
	{"listpartitionreassignments", &listpartitionreassignments.Request{}, &listpartitionreassignments.Response{}},
	{"metadata", &metadata.Request{}, &metadata.Response{}},
	{"offsetcommit", &offsetcommit.Request{}, &offsetcommit.Response{}},
	{"offsetdelete", &offsetdelete.Request{}, &offsetdelete.Response{}},
	{"offsetfetch", &offsetfetch.Request{}, &offsetfetch.Response{}},
	{"produce", &produce.Request{}, &produce.Response{}},
	{"saslauthenticate", &saslauthenticate.Request{}, &saslauthenticate.Response{}},
	{"saslhandshake", &saslhandshake.Request{}, &saslhandshake.Response{}},
	{"syncgroup", &syncgroup.Request{}, &syncgroup.Response{}},
	{"txnoffsetcommit", &txnoffsetcommit.Request{}, &txnoffsetcommit.Response{}},
	}
	sort.Slice(list, func(i, j int) bool { return list[i].req.ApiKey() < list[j].req.ApiKey() })
	fmt.Println("package refcodec\n\n// APIs is the pinned schema table; see schema.go for the DSL.\nvar APIs = []API{")
	for _, e := range list {
		k := e.req.ApiKey()
		flexMin = -1
		rq := fields(reflect.TypeOf(e.req).Elem(), "\t\t\t")
		fr := flexMin
		flexMin = -1
		rs := fields(reflect.TypeOf(e.res).Elem(), "\t\t\t")
		fs := flexMin
		fmt.Printf("\t{Key: %d, Name: %q, Pkg: %q, Min: %d, Max: %d, FlexReq: %d, FlexResp: %d,\n\t\tReq: []Field{\n%s\t\t},\n\t\tResp: []Field{\n%s\t\t},\n\t},\n", int(k), k.String(), e.pkg, k.MinVersion(), k.MaxVersion(), fr, fs, rq, rs)
	}
	fmt.Println("}")
}
