#!/bin/bash
# development helper: runs the C10 units directly and prints the race signatures + top of each report
export GOFLAGS=-mod=mod GOPROXY=off GOSUMDB=off GOTOOLCHAIN=local
cd /verif/props/c10
checks=${1:-60}; shift
units=${@:-TestBatchPrograms TestConnPrograms TestWriterPrograms TestReaderPrograms TestGroupReaderPrograms TestClientPrograms TestBalancerPrograms TestCodecPrograms}
go test -c -race -tags verif -o /verif/.build/c10dev.test . || exit 2
for u in $units; do
  rm -rf testdata /verif/.build/c10dev-$u; mkdir -p /verif/.build/c10dev-$u
  ( VERIF_REPLAY_DIR=/verif/.build/c10dev-$u VERIF_SHARD=$u /verif/.build/c10dev.test -test.run "^$u\$" -test.timeout 1500s -rapid.checks $checks -rapid.seed ${SEED:-7} -rapid.shrinktime 5s > /verif/.build/c10dev-$u/log 2>&1; echo "== $u rc=$?" ) &
done
wait
for u in $units; do
  f=/verif/.build/c10dev-$u/min-$u.json
  if [ -f $f ]; then python3 - $f <<'PY'
import json,sys
d=json.load(open(sys.argv[1])); print("####",sys.argv[1]); print(d['signature']); 
m=d['message'].split('\n')
out=[l for l in m if l.startswith(('Read','Write','Previous','Atomic','  github','      /repo','  verif'))]
print('\n'.join(out[:28])); print(json.dumps(d['case']))
PY
  else grep -E "harness|panic|^(ok|FAIL|PASS)" /verif/.build/c10dev-$u/log | head -5; fi
done
