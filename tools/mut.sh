#!/bin/bash
# usage: tools/mut.sh <check-id> <file-in-repo> <python-regex> <replacement>   -- applies one substitution (first match), runs quick check, reverts
set -u
id=$1; f=$2; pat=$3; rep=$4
# VERIF_REPO=<scratch worktree> runs the experiment there instead of /repo (safe to run in parallel)
REPO=${VERIF_REPO:-/repo}
cd $REPO
if [ -n "$(git status --porcelain)" ]; then echo "repo dirty"; exit 3; fi
python3 - "$f" "$pat" "$rep" <<'PY'
import re,sys
f,pat,rep=sys.argv[1:4]
s=open(f).read()
n,k=re.subn(pat,rep,s,count=1,flags=re.M)
if k!=1: print("PATTERN NOT FOUND"); sys.exit(4)
open(f,'w').write(n)
PY
rc=$?
if [ $rc -ne 0 ]; then git checkout -- .; exit $rc; fi
git --no-pager diff -U0 | grep '^[+-]' | grep -v '^+++\|^---'
cd /verif
for c in ${id//,/ }; do
./check $c 2>/dev/null | grep -E "VIOLATION|OK|KNOWN" | head -3
echo "check $c rc=${PIPESTATUS[0]}"
done
git -C $REPO checkout -- .
