#!/usr/bin/env python3
"""Evaluates seeded changes written by a helper agent (which saw only the property text).

  python3 tools/seeded_eval.py /tmp/seed-out/A8 [--only C08/m1] [--tier quick]     (fresh output of a helper agent)
  python3 tools/seeded_eval.py /verif/seeded [--only C08]                            (re-evaluate what is stored)

For every <dir>/<Cxx>/<mN>/ it
  1. creates a scratch worktree of /repo (HEAD) outside /repo and /verif,
  2. confirms the agent's demonstration there: demo passes on the clean tree, fails with patch.diff applied,
  3. runs the property's check (quick tier unless told otherwise) against the patched worktree (VERIF_REPO),
  4. stores patch.diff, demo/, meta.json (agent's fields + mine) and RESULT.md under /verif/seeded/<Cxx>/<agent>-<mN>/,
  5. removes the worktree.
Nothing is ever applied to /repo.
"""
import glob, json, os, re, shutil, subprocess, sys, time

ROOT = os.path.dirname(os.path.dirname(os.path.abspath(__file__)))
ENV = dict(os.environ, GOFLAGS="-mod=mod", GOPROXY="off", GOSUMDB="off", GOTOOLCHAIN="local")


def sh(cmd, cwd=None, timeout=3600, env=None):
    p = subprocess.run(cmd, shell=True, cwd=cwd, env=env or ENV, stdout=subprocess.PIPE, stderr=subprocess.STDOUT, text=True, timeout=timeout)
    return p.returncode, p.stdout


def pkg_dir(wt, testfile):
    m = re.search(r"^package\s+(\w+)", open(testfile).read(), re.M)
    name = (m.group(1) if m else "kafka")
    base = name[:-5] if name.endswith("_test") else name
    if base == "kafka":
        return "."
    cands = [d for d in glob.glob(os.path.join(wt, "**", base), recursive=True) if os.path.isdir(d)]
    cands.sort(key=len)
    return os.path.relpath(cands[0], wt) if cands else "."


def demo_cmd(readme, d):
    """returns (dest dir relative to the tree or None, go test command)"""
    txt = open(readme).read() if readme else ""
    m = re.search(r"(go test [^\n`]*)", txt)
    if not m:
        return None
    toks = m.group(1).strip().split()
    out = []
    for t in toks:
        out.append(t)
        if t == "." or t.startswith("./"):
            break
    return " ".join(out)


def main():
    a = sys.argv[1:]
    src = a[0].rstrip("/")
    only, tier = None, "quick"
    i = 1
    while i < len(a):
        if a[i] == "--only":
            only = a[i + 1]; i += 2
        elif a[i] == "--tier":
            tier = a[i + 1]; i += 2
        else:
            i += 1
    agent = os.path.basename(src)
    wt = "/tmp/wt-seedeval-%s-%d" % (agent, os.getpid())
    sh("git -C /repo worktree remove --force %s" % wt)
    rc, out = sh("git -C /repo worktree add --detach %s HEAD" % wt)
    if rc != 0:
        print(out); sys.exit(2)
    head = sh("git -C /repo log --format=%h -1")[1].strip()
    try:
        stored = os.path.abspath(src) == os.path.join(ROOT, "seeded")
        pattern = os.path.join(src, "C[0-9][0-9]", "[A-Z]*-m[0-9]*") if stored else os.path.join(src, "C[0-9][0-9]", "m[0-9]*")
        for d in sorted(glob.glob(pattern)):
            prop, mn = d.split("/")[-2:]
            if stored:
                agent, mn = mn.split("-", 1)
            if only and only != "%s/%s" % (prop, mn) and only != prop and only != "%s/%s-%s" % (prop, agent, mn):
                continue
            patch = os.path.join(d, "patch.diff")
            if not os.path.exists(patch):
                print(prop, mn, "no patch.diff"); continue
            meta = {}
            try:
                meta = json.load(open(os.path.join(d, "meta.json")))
            except Exception as e:
                meta = {"property": prop, "summary": "(meta.json unreadable: %s)" % e}
            res = {"evaluated_against": head}
            sh("git checkout -- . && git clean -fdq", cwd=wt)
            rc, out = sh("git apply --check %s" % patch, cwd=wt)
            if rc != 0:
                res["applies"] = False
                res["note"] = out[-400:]
                print(prop, mn, "PATCH DOES NOT APPLY", out[-200:])
                continue
            # demonstration
            demos = glob.glob(os.path.join(d, "demo", "*_test.go"))
            subdirs = [x for x in glob.glob(os.path.join(d, "demo", "*")) if os.path.isdir(x)]
            readmes = glob.glob(os.path.join(d, "demo", "README*"))
            cmd = demo_cmd(readmes[0] if readmes else None, d)
            demo = {"ran": False}
            if not demos and subdirs and cmd:
                # the demonstration is a package directory to be copied into the root of the tree
                dirs = []
                for sd in subdirs:
                    dest = os.path.join(wt, os.path.basename(sd))
                    shutil.copytree(sd, dest); dirs.append(dest)
                if " -timeout" not in cmd:
                    cmd = cmd.replace("go test", "go test -timeout 300s", 1)
                rc0, out0 = sh(cmd, cwd=wt, timeout=900)
                sh("git apply %s" % patch, cwd=wt)
                rc1, out1 = sh(cmd, cwd=wt, timeout=900)
                demo = {"ran": True, "command": cmd, "clean_tree_rc": rc0, "patched_tree_rc": rc1,
                        "confirmed": rc0 == 0 and rc1 != 0, "patched_output_tail": out1[-1500:]}
                for x in dirs:
                    shutil.rmtree(x, ignore_errors=True)
                sh("git checkout -- .", cwd=wt)
            if demos and cmd:
                placed = []
                # a command that targets a directory which does not exist in the tree names the place the demo wants to live in
                target = None
                existing = None
                for tok in cmd.split():
                    if tok.startswith("./") and len(tok) > 2 and not tok.startswith("./..."):
                        t = tok.strip("/").lstrip("./")
                        if t and not os.path.isdir(os.path.join(wt, t)):
                            target = t
                        elif t:
                            existing = t
                    elif tok == ".":
                        existing = "."
                made = None
                if target:
                    made = os.path.join(wt, target)
                    os.makedirs(made)
                for f in demos:
                    if not made and existing and len(demos) > 1 and os.path.normpath(pkg_dir(wt, f)) != os.path.normpath(existing):
                        continue  # a second demonstration for another package: the command run here does not cover it
                    dest = os.path.join(made or os.path.join(wt, existing if existing else pkg_dir(wt, f)), os.path.basename(f))
                    shutil.copy(f, dest); placed.append(dest)
                # other support files of the demo (non-test .go) go next to the first test file
                for f in glob.glob(os.path.join(d, "demo", "*.go")):
                    if f not in demos:
                        dest = os.path.join(os.path.dirname(placed[0]), os.path.basename(f))
                        shutil.copy(f, dest); placed.append(dest)
                if " -timeout" not in cmd:
                    cmd = cmd.replace("go test", "go test -timeout 300s", 1)
                rc0, out0 = sh(cmd, cwd=wt, timeout=900)
                sh("git apply %s" % patch, cwd=wt)
                rc1, out1 = sh(cmd, cwd=wt, timeout=900)
                demo = {"ran": True, "command": cmd, "clean_tree_rc": rc0, "patched_tree_rc": rc1,
                        "confirmed": rc0 == 0 and rc1 != 0, "patched_output_tail": out1[-1500:]}
                for f in placed:
                    os.remove(f)
                if made:
                    shutil.rmtree(made, ignore_errors=True)
                sh("git checkout -- .", cwd=wt)
            res["demonstration"] = demo
            # my check against the patched tree
            sh("git checkout -- . && git clean -fdq", cwd=wt)
            sh("git apply %s" % patch, cwd=wt)
            rcb, outb = sh("go build ./...", cwd=wt)
            res["builds"] = rcb == 0
            t0 = time.time()
            rcc, outc = sh("./check %s --tier %s 2>/dev/null | grep -E '^(VIOLATION|OK|KNOWN-FINDING)' | head -6" % (prop, tier), cwd=ROOT,
                           env=dict(ENV, VERIF_REPO=wt), timeout=7200)
            caught = "VIOLATION" in outc
            res["check"] = {"id": prop, "tier": tier, "caught": caught, "wall_s": round(time.time() - t0), "output": outc.strip()[:800]}
            if caught:
                m = re.search(r"replay=(\S+)", outc)
                if m and os.path.exists(m.group(1)):
                    try:
                        rep = json.load(open(m.group(1)))
                        res["check"]["signature"] = rep.get("signature")
                        res["check"]["message"] = (rep.get("message") or "")[:600]
                        res["check"]["replay_file"] = m.group(1)
                    except Exception:
                        pass
            sh("git checkout -- . && git clean -fdq", cwd=wt)
            # the shrunk failing case becomes a regression case of the property (replayed by both tiers)
            rf = res["check"].get("replay_file", "")
            if caught and rf.endswith(".json") and os.path.basename(rf).startswith(("min-", "crash-")):
                os.makedirs(os.path.join(ROOT, "regress", prop), exist_ok=True)
                shutil.copy(rf, os.path.join(ROOT, "regress", prop, "seeded-%s-%s.json" % (agent, mn)))
                res["check"]["regression_case"] = "regress/%s/seeded-%s-%s.json" % (prop, agent, mn)
                res["check"]["replay_file"] = res["check"]["regression_case"]
            # store
            dst = os.path.join(ROOT, "seeded", prop, "%s-%s" % (agent, mn))
            os.makedirs(dst, exist_ok=True)
            if os.path.abspath(dst) != os.path.abspath(d):
                shutil.copy(patch, os.path.join(dst, "patch.diff"))
            if os.path.isdir(os.path.join(d, "demo")) and os.path.abspath(dst) != os.path.abspath(d):
                shutil.rmtree(os.path.join(dst, "demo"), ignore_errors=True)
                shutil.copytree(os.path.join(d, "demo"), os.path.join(dst, "demo"))
            meta.setdefault("property", prop)
            meta["what_it_needs_to_manifest"] = meta.get("needs_to_manifest", "")
            meta["what_i_ran"] = res
            json.dump(meta, open(os.path.join(dst, "meta.json"), "w"), indent=1)
            with open(os.path.join(dst, "RESULT.md"), "w") as f:
                f.write("# %s %s-%s\n\n%s\n\nNeeds: %s\n\n" % (prop, agent, mn, meta.get("summary", ""), meta.get("needs_to_manifest", "")))
                f.write("* demonstration confirmed by me (passes clean, fails patched): %s\n" % demo.get("confirmed", "not run"))
                f.write("* `./check %s --tier %s` against the patched tree: **%s** (%ss)\n" % (prop, tier, "caught" if caught else "MISSED", res["check"]["wall_s"]))
                if caught and res["check"].get("signature"):
                    f.write("* first violation: `%s` — %s\n" % (res["check"]["signature"], (res["check"].get("message") or "").split("\n")[0][:300]))
            print("%s %s-%s demo_confirmed=%s check=%s (%ss) %s" % (prop, agent, mn, demo.get("confirmed", "n/a"), "caught" if caught else "MISSED",
                                                                     res["check"]["wall_s"], res["check"].get("signature", "")), flush=True)
    finally:
        sh("git -C /repo worktree remove --force %s" % wt)


if __name__ == "__main__":
    main()
