#!/usr/bin/env python3
"""Sampled mechanical mutation of the library, as a search for blind spots of the checks.

  python3 tools/automut.py --n 120 --seed 1 [--jobs 3] [--files writer.go,reader.go]   -> seeded/auto/RESULTS.md (+ .json)

For a seeded sample of sites in the files listed in FILES (operators: relational boundary, negated equality, && <-> ||,
+1/-1 dropped, `if err != nil` branch disabled, a `return err` turned into `return nil`), each mutant is applied alone in a
scratch worktree of /repo (never in /repo), must build, must leave the upstream suite's offline results unchanged (the
mutants the task is about "compile and pass the existing tests"), and is then run against the quick tier of the checks
mapped to its file.  Survivors are listed with the line: they are read by hand (equivalent / outside the statements /
a gap).  Documentation only: nothing registered in MANIFEST.json depends on this script.
"""
import os, re, sys, json, random, subprocess, time, hashlib
from concurrent.futures import ThreadPoolExecutor

ROOT = os.path.dirname(os.path.dirname(os.path.abspath(__file__)))
ENV = dict(os.environ, GOFLAGS="-mod=mod", GOPROXY="off", GOSUMDB="off", GOTOOLCHAIN="local")

FILES = {
    "writer.go": "C01,C07,C08,C09",
    "reader.go": "C02,C03,C09",
    "conn.go": "C04,C06,C11,C17,C19",
    "batch.go": "C02,C05,C11,C17",
    "message_reader.go": "C02,C05,C11,C17",
    "transport.go": "C06,C12,C17,C09,C18",
    "consumergroup.go": "C15,C03,C09",
    "balancer.go": "C13",
    "groupbalancer.go": "C14",
    "commit.go": "C03",
    "recordbatch.go": "C05,C04",
    "write.go": "C04,C05",
    "read.go": "C04,C05,C11,C17",
    "dialer.go": "C18,C19",
    "listoffset.go": "C19,C04",
    "offsetfetch.go": "C19,C04",
    "metadata.go": "C19,C04",
    "produce.go": "C01,C04",
    "fetch.go": "C05,C04",
    "protocol/decode.go": "C04,C20,C05",
    "protocol/encode.go": "C04,C05",
    "protocol/record_v2.go": "C05,C04",
    "protocol/record_v1.go": "C05",
    "protocol/record_batch.go": "C05",
    "protocol/conn.go": "C06,C04",
    "protocol/cluster.go": "C12",
    "compress/snappy/xerial.go": "C16",
    "compress/snappy/snappy.go": "C16",
    "compress/lz4/lz4.go": "C16",
    "compress/gzip/gzip.go": "C16",
    "compress/zstd/zstd.go": "C16",
    "sasl/plain/plain.go": "C18",
    "sasl/scram/scram.go": "C18",
}

OPS = [
    ("rel<", re.compile(r"(?<![<>=!-])<(?![<=-])"), "<="),
    ("rel<=", re.compile(r"<=(?!=)"), "<"),
    ("rel>", re.compile(r"(?<![<>=!-])>(?![>=])"), ">="),
    ("rel>=", re.compile(r">="), ">"),
    ("eq", re.compile(r"=="), "!="),
    ("ne", re.compile(r"!="), "=="),
    ("and", re.compile(r"&&"), "||"),
    ("or", re.compile(r"\|\|"), "&&"),
    ("plus1", re.compile(r" \+ 1\b"), ""),
    ("minus1", re.compile(r" - 1\b"), ""),
]


def sh(cmd, cwd=None, timeout=3600, env=ENV):
    try:
        p = subprocess.run(cmd, shell=True, cwd=cwd, env=env, stdout=subprocess.PIPE, stderr=subprocess.STDOUT, text=True, timeout=timeout)
        return p.returncode, p.stdout
    except subprocess.TimeoutExpired as e:
        return 124, (e.stdout or "") if isinstance(e.stdout, str) else ""


def sites(path, rel):
    out = []
    src = open(path).read().split("\n")
    infunc = False
    for i, line in enumerate(src):
        s = line.strip()
        if s.startswith("//") or s.startswith("import") or '`kafka:"' in line:
            continue
        code = line.split("//")[0]
        if not (s.startswith("if ") or s.startswith("for ") or s.startswith("} else if ") or s.startswith("case ") or s.startswith("return ") or " = " in s or " := " in s):
            continue
        if '"' in code and code.count('"') >= 2:
            code_nostr = re.sub(r'"[^"]*"', lambda m: " " * len(m.group(0)), code)
        else:
            code_nostr = code
        for name, rx, rep in OPS:
            for m in rx.finditer(code_nostr):
                if name in ("eq", "ne") and "nil" in code_nostr[m.end():m.end() + 6] and "err" in code_nostr[max(0, m.start() - 6):m.start()]:
                    continue  # err != nil handled by the dedicated operator
                out.append((rel, i, m.start(), m.end(), name, rep))
        if re.match(r"\s*if err != nil \{\s*$", line):
            out.append((rel, i, -1, -1, "errcheck-off", None))
        if re.match(r"\s*return err\s*$", line):
            out.append((rel, i, -1, -1, "return-nil", None))
    return out


def apply(wt, site):
    rel, i, a, b, name, rep = site
    p = os.path.join(wt, rel)
    lines = open(p).read().split("\n")
    old = lines[i]
    if name == "errcheck-off":
        lines[i] = old.replace("if err != nil {", "if err != nil && false {")
    elif name == "return-nil":
        lines[i] = old.replace("return err", "return nil")
    else:
        lines[i] = old[:a] + rep + old[b:]
    open(p, "w").write("\n".join(lines))
    return old.strip(), lines[i].strip()


def baseline_suite(wt):
    """ok/FAIL/panic lines of the packages that run offline, normalised."""
    rc, out = sh("go test -vet=off -count=1 ./... 2>&1 | grep -E '^(ok|FAIL|---|panic)' | sed -E 's/[0-9.]+s$//; s/\\(0\\.[0-9]+s\\)//; s/0xc[0-9a-f]+/PTR/g' | sort", cwd=wt, timeout=1500)
    return out


def main():
    a = sys.argv[1:]
    n, seed, jobs, only = 100, 1, 3, None
    i = 0
    while i < len(a):
        if a[i] == "--n": n = int(a[i + 1]); i += 2
        elif a[i] == "--seed": seed = int(a[i + 1]); i += 2
        elif a[i] == "--jobs": jobs = int(a[i + 1]); i += 2
        elif a[i] == "--files": only = a[i + 1].split(","); i += 2
        else: raise SystemExit("unknown argument " + a[i])
    allsites = []
    for rel in FILES:
        if only and rel not in only:
            continue
        p = os.path.join("/repo", rel)
        if os.path.exists(p):
            allsites += sites(p, rel)
    rnd = random.Random(seed)
    rnd.shuffle(allsites)
    # spread over files: at most ceil(n / 6) per file
    per = {}
    chosen = []
    cap = max(3, n // 6)
    for s in allsites:
        if per.get(s[0], 0) >= cap:
            continue
        per[s[0]] = per.get(s[0], 0) + 1
        chosen.append(s)
        if len(chosen) >= n:
            break
    print("%d candidate sites, %d chosen" % (len(allsites), len(chosen)), flush=True)
    head = subprocess.check_output(["git", "-C", "/repo", "rev-parse", "--short", "HEAD"], text=True).strip()
    base_wt = "/tmp/wt-automut-base-%d" % os.getpid()
    sh("git -C /repo worktree add --detach %s HEAD" % base_wt)
    base = baseline_suite(base_wt)
    sh("git -C /repo worktree remove --force %s" % base_wt)
    results = []

    def one(k):
        site = chosen[k]
        wt = "/tmp/wt-automut-%d-%d" % (os.getpid(), k)
        sh("git -C /repo worktree add --detach %s HEAD" % wt)
        res = {"file": site[0], "line": site[1] + 1, "op": site[4]}
        try:
            res["old"], res["new"] = apply(wt, site)
            rc, out = sh("go build ./... && go vet . 2>&1 | head -5", cwd=wt, timeout=600)
            if rc != 0 or "vet:" in out:
                res["status"] = "does-not-build"
                return res
            if baseline_suite(wt) != base:
                res["status"] = "killed-by-upstream-tests"
                return res
            res["status"] = "survived"
            res["checks"] = {}
            for cid in FILES[site[0]].split(","):
                t0 = time.time()
                rc, out = sh("./check %s --tier quick 2>/dev/null | grep -E '^(VIOLATION|OK|KNOWN-FINDING|INFRA)' | head -4" % cid, cwd=ROOT,
                             env=dict(ENV, VERIF_REPO=wt), timeout=2400)
                caught = "VIOLATION" in out
                res["checks"][cid] = {"caught": caught, "wall_s": round(time.time() - t0), "out": out.strip()[:300]}
                if caught:
                    res["status"] = "caught"
                    res["by"] = cid
                    break
                if "INFRA" in out or (rc != 0 and "OK" not in out):
                    res["status"] = "infra"
            return res
        finally:
            sh("git -C /repo worktree remove --force %s" % wt)
            tag = re.sub(r"[^A-Za-z0-9]", "_", wt)
            sh("rm -rf %s/replays/*.%s %s/.build/*.%s.* %s/.build/*%s*" % (ROOT, tag, ROOT, tag, ROOT, tag))
            print(k, res.get("status"), res["file"], res["line"], res["op"], res.get("by", ""), flush=True)

    with ThreadPoolExecutor(max_workers=jobs) as ex:
        results = list(ex.map(one, range(len(chosen))))
    os.makedirs(os.path.join(ROOT, "seeded", "auto"), exist_ok=True)
    json.dump({"repo_head": head, "seed": seed, "results": results}, open(os.path.join(ROOT, "seeded", "auto", "results-%d.json" % seed), "w"), indent=1)
    with open(os.path.join(ROOT, "seeded", "auto", "RESULTS-%d.md" % seed), "w") as f:
        cnt = {}
        for r in results:
            cnt[r["status"]] = cnt.get(r["status"], 0) + 1
        f.write("# Sampled mechanical mutants (seed %d, /repo %s)\n\n%s\n\n" % (seed, head, ", ".join("%s: %d" % kv for kv in sorted(cnt.items()))))
        f.write("| file:line | operator | before | after | result |\n|---|---|---|---|---|\n")
        for r in results:
            st = r["status"] + ((" by " + r["by"]) if r.get("by") else "")
            if r["status"] == "survived":
                st += " (" + ", ".join("%s %ss" % (c, v["wall_s"]) for c, v in r.get("checks", {}).items()) + ")"
            f.write("| %s:%d | %s | `%s` | `%s` | %s |\n" % (r["file"], r["line"], r["op"], r.get("old", "").replace("|", "\\|")[:110], r.get("new", "").replace("|", "\\|")[:110], st))


if __name__ == "__main__":
    main()
