#!/usr/bin/env python3
"""Rewrites the unit table of DESIGN.md section 7.1 (between the markers) from checks_config.py."""
import os, re, sys
ROOT = os.path.dirname(os.path.dirname(os.path.abspath(__file__)))
sys.path.insert(0, ROOT)
import checks_config as cc

rows = ["| id | package | units: rapid cases × processes, quick → thorough |", "|---|---|---|"]
for cid in cc.CLAIMED:
    c = cc.CHECKS[cid]
    parts = []
    for u in c["units"]:
        q = u.get("checks_quick", u.get("checks")); t = u.get("checks_thorough", u.get("checks"))
        sq = u.get("shards_quick", 1); st = u.get("shards_thorough", 1)
        name = u["run"] + ("`[%s]`" % u["build"] if u.get("build") else "")
        if u.get("fuzz"):
            parts.append(name + " `{fuzz}` (thorough only)")
        elif q is None and t is None:
            parts.append(name + " enum" + (" ×%d → ×%d" % (sq, st) if (sq, st) != (1, 1) else ""))
        elif q is None:
            parts.append("%s (thorough only) %s×%d" % (name, t, st))
        else:
            parts.append("%s %s×%d → %s×%d" % (name, q, sq, t, st))
    pkg = c["pkg"] + (" (whole package `-race`)" if c.get("race") else "")
    rows.append("| %s | %s | %s |" % (cid, pkg, "; ".join(parts)))
p = os.path.join(ROOT, "DESIGN.md")
s = open(p).read()
a, b = "<!-- units-table:begin -->", "<!-- units-table:end -->"
assert a in s and b in s
s = s[:s.index(a) + len(a)] + "\n" + "\n".join(rows) + "\n" + s[s.index(b):]
open(p, "w").write(s)
