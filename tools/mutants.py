#!/usr/bin/env python3
"""Own mutation-sensitivity catalogue.

Each entry: (name, checks, file, python-regex, replacement, note).  The runner
applies ONE substitution (first match) in a scratch worktree of /repo (never in
/repo itself), runs the quick tier of the listed checks against that worktree
(VERIF_REPO), records whether each check reported a VIOLATION, and reverts.

  python3 tools/mutants.py [--only NAME-REGEX] [--jobs N]      -> seeded/own/RESULTS.md

Results are documentation (DESIGN.md section 7.6 quotes them); nothing registered in
MANIFEST.json depends on this script.
"""
import os, re, subprocess, sys, json, time
from concurrent.futures import ThreadPoolExecutor

ROOT = os.path.dirname(os.path.dirname(os.path.abspath(__file__)))

M = [
    # ---- C01: acknowledged messages / attribution
    ("c01-werr-index-shift", "C01", "writer.go", r"werr\[i\] = batch\.err", "werr[(int(i)+1)%len(werr)] = batch.err", "WriteErrors entry attributed to the wrong message"),
    ("c01-produce-error-dropped", "C01", "writer.go", r"\t\t\terr = res\.Error\n", "\t\t\terr = nil\n", "broker error code of the produce response ignored"),
    ("c01-completion-twice", "C01,C09", "writer.go", r"(\t\tif !isTemporary\(err\) && !isTransientNetworkError\(err\) \{)", "\t\tif ptw.w.Completion != nil && attempt == 1 {\n\t\t\tptw.w.Completion(batch.msgs, err)\n\t\t}\n\\1", "Completion also called after the first failed attempt"),
    # ---- C07: order
    ("c07-queue-lifo", "C07", "writer.go", r"\tbatch := b\.queue\[0\]\n\tb\.queue\[0\] = nil\n\tb\.queue = b\.queue\[1:\]", "\tn := len(b.queue) - 1\n\tbatch := b.queue[n]\n\tb.queue[n] = nil\n\tb.queue = b.queue[:n]", "batch queue popped from the wrong end"),
    ("c07-concurrent-batches", "C07", "writer.go", r"\t\tptw\.writeBatch\(batch\)\n", "\t\tgo ptw.writeBatch(batch)\n", "batches of one partition sent concurrently"),
    # ---- C08: limits and flush
    ("c08-bytes-limit-slack", "C08", "writer.go", r"if b\.size > 0 && \(b\.bytes\+bytes\) > maxBytes \{", "if b.size > 0 && (b.bytes+bytes) > maxBytes+8 {", "BatchBytes exceeded by up to 8 bytes"),
    ("c08-size-off-by-one", "C08", "writer.go", r"return b\.size >= maxSize \|\| b\.bytes >= maxBytes", "return b.size > maxSize || b.bytes >= maxBytes", "batch only full at BatchSize+1"),
    ("c08-timer-skips-single", "C08", "writer.go", r"\t\tif ptw\.currBatch == batch \{", "\t\tif ptw.currBatch == batch && len(batch.msgs) > 1 {", "BatchTimeout does not flush a batch of one message"),
    # ---- C02: reader
    ("c02-offset-not-advanced", "C02", "reader.go", r"\t\toffset = msg\.Offset \+ 1\n", "\t\toffset = msg.Offset\n", "partition reader re-fetches the last message"),
    ("c02-stale-version-accepted", "C02,C03", "reader.go", r"if m\.version >= version \{", "if m.version >= version-1 {", "messages of the superseded run accepted after SetOffset / rebalance"),
    # ---- C13 / C14
    ("c13-murmur2-shift", "C13", "balancer.go", r"\t\tr = 24\n", "\t\tr = 23\n", "murmur2 mixing constant"),
    ("c14-range-remainder", "C14", "groupbalancer.go", r"\t\t\tremainder--\n", "", "range balancer gives the remainder to one member"),
    ("c14-rack-leftover", "C14", "groupbalancer.go", r"remainder -= leftover\n", "remainder -= leftover - leftover/3\n", "rack-affinity leftover accounting"),
    # ---- C04
    ("c04-metadata-rack-version", "C04", "protocol/metadata/metadata.go", r'Rack   string `kafka:"min=v1,max=v8,nullable"`', 'Rack   string `kafka:"min=v2,max=v8,nullable"`', "broker rack encoded from v2 instead of v1"),
    ("c04-joingroup-instance-nullable", "C04", "protocol/joingroup/joingroup.go", r'GroupInstanceID    string            `kafka:"min=v5,max=v5,nullable\|', 'GroupInstanceID    string            `kafka:"min=v5,max=v5|', "v5 group instance id no longer nullable"),
    # ---- C04, hand-written Conn codec
    ("c04-conn-join-timeouts-swapped", "C04", "joingroup.go", r"\twb\.writeInt32\(t\.SessionTimeout\)\n\twb\.writeInt32\(t\.RebalanceTimeout\)", "\twb.writeInt32(t.RebalanceTimeout)\n\twb.writeInt32(t.SessionTimeout)", "JoinGroup v1: session and rebalance timeout written in the wrong order"),
    ("c04-conn-varintlen", "C04,C05", "write.go", r"for u >= 0x80 \{", "for u > 0x80 {", "varIntLen one byte short for values whose zig-zag form is exactly 128 (64-byte key, 65th record ...)"),
    ("c04-conn-fetch-v10-epoch", "C04", "write.go", r"(func \(wb \*writeBuffer\) writeFetchRequestV10(?:.*\n)*?\twb\.writeInt32\(0\) +//FIXME\n)\twb\.writeInt32\(-1\)", "\\1\twb.writeInt32(0)", "Fetch v10 session epoch 0 instead of -1 (opens a fetch session the client never continues)"),
    ("c04-conn-size-prefix", "C04", "sizeof.go", r"func sizeofString\(s string\) int32 \{\n\treturn 2 \+ int32\(len\(s\)\)", "func sizeofString(s string) int32 {\n\treturn 2 + int32(len([]rune(s)))", "size arithmetic counts characters instead of bytes: wrong frame size for a non-ASCII client id"),
    ("c04-conn-retention-default", "C04", "consumergroup.go", r"defaultRetentionTime = -1 \* time\.Millisecond", "defaultRetentionTime = 0 * time.Millisecond", "OffsetCommit retention 0 instead of the broker default -1"),
    # ---- C11
    ("c11-fetch-error-leaves-bytes", "C11", "conn.go", r"\tif errors\.As\(err, &kafkaError\) && remain > 0 \{\n", "\tif errors.As(err, &kafkaError) && remain > 4 {\n", "F2 partly re-introduced: fetch error path leaves up to 4 bytes unread"),
    # ---- C06
    ("c06-roundtrip-id-check", "C06,C12", "protocol/roundtrip.go", r"\tif id != correlationID \{", "\tif false && id != correlationID {", "Transport path: correlation id of the response not compared"),
    # ---- C15 / C03 / C09 group
    ("c15-no-leave-on-close", "C15,C09", "consumergroup.go", r"leave the group and exit loop\.\n\t\t\t_ = cg\.leaveGroup\(memberID\)", "leave the group and exit loop.", "no LeaveGroup when the group is closed"),
    ("c03-commit-plus-two", "C03", "commit.go", r"offset:    msg\.Offset \+ 1,", "offset:    msg.Offset + 2,", "commit skips one record"),
    # ---- C09
    ("c09-close-no-wait", "C09", "writer.go", r"\tw\.group\.Wait\(\)\n\n\tif w\.transport", "\n\tif w.transport", "Writer.Close does not wait for pending batches"),
    ("c09-close-no-flush", "C09", "writer.go", r"\t\twriter\.close\(\)\n", "\t\t_ = writer\n", "Writer.Close does not close the partition writers"),
    ("c09-reader-close-no-join", "C09", "reader.go", r"\tr\.join\.Wait\(\)\n\n\tif r\.done", "\n\tif r.done", "Reader.Close does not wait for the partition readers"),
    ("c09-reader-close-no-done", "C09", "reader.go", r"\tif r\.done != nil \{\n\t\t<-r\.done\n\t\}\n\n\tif !closed", "\tif !closed", "Reader.Close does not wait for the group to be left"),
    ("c09-await-ignores-ctx", "C09", "transport.go", r"\tcase <-ctx\.Done\(\):\n\t\treturn nil, ctx\.Err\(\)\n\t\}\n\}\n\nfunc \(p async\) resolve", "\t}\n}\n\nfunc (p async) resolve", "Transport round trip ignores the context while waiting for the response"),
    ("c09-write-ignores-ctx", "C09", "writer.go", r"\tdone := ctx\.Done\(\)\n\thasErrors", "\tvar done <-chan struct{}\n\thasErrors", "WriteMessages ignores its context while waiting for the batch"),
    ("c09-close-race-reopened", "C09", "writer.go", r"\tif w\.closed \{\n\t\treturn nil, io\.ErrClosedPipe\n\t\}\n\n\tif w\.writers == nil", "\tif w.writers == nil", "F1 re-introduced: no closed re-check in batchMessages"),
    ("c09-fetch-after-close", "C09", "reader.go", r"\t\tif closed \{\n(.*\n)*?\t\t\treturn Message\{\}, io\.EOF\n\t\t\}\n", "\t\t_ = closed\n", "F15 re-introduced: queued messages handed out after Close"),
    # ---- C10
    ("c10-conn-offset-nolock", "C10", "conn.go", r"func \(c \*Conn\) Offset\(\) \(offset int64, whence int\) \{\n\tc\.mutex\.Lock\(\)\n\toffset = c\.offset\n\tc\.mutex\.Unlock\(\)", "func (c *Conn) Offset() (offset int64, whence int) {\n\toffset = c.offset", "Conn.Offset without the mutex"),
    ("c10-roundrobin-nolock", "C10", "balancer.go", r"\trr\.mutex\.Lock\(\)\n\tdefer rr\.mutex\.Unlock\(\)\n", "", "RoundRobin without the mutex"),
    ("c10-leastbytes-nolock", "C10", "balancer.go", r"\tlb\.mutex\.Lock\(\)\n\tdefer lb\.mutex\.Unlock\(\)\n", "", "LeastBytes without the mutex"),
    ("c10-reader-lag-nolock", "C10", "reader.go", r"\tr\.mutex\.Lock\(\)\n\tlag := r\.lag\n\tr\.mutex\.Unlock\(\)", "\tlag := r.lag", "Reader.Lag without the mutex"),
    ("c10-counter-nonatomic", "C10", "stats.go", r"\treturn atomic\.SwapInt64\(c\.ptr\(\), 0\)", "\tv := *c.ptr()\n\t*c.ptr() = 0\n\treturn v", "stats counter snapshot not atomic"),
    ("c10-idleconns-nolock", "C10", "transport.go", r"func \(g \*connGroup\) grabConn\(\) \*conn \{\n\tg\.mutex\.Lock\(\)\n\tdefer g\.mutex\.Unlock\(\)\n", "func (g *connGroup) grabConn() *conn {\n", "idle connection list read without the mutex"),
    ("c10-poolconns-nolock", "C10", "transport.go", r"\tp\.mutex\.RLock\(\)\n\tg := p\.conns\[brokerID\]\n\tp\.mutex\.RUnlock\(\)", "\tg := p.conns[brokerID]", "broker connection map read without the lock (needs a broker set change)"),
    ("c10-batch-err-nolock", "C10", "batch.go", r"\tbatch\.mutex\.Lock\(\)\n\terr := batch\.err\n\tbatch\.mutex\.Unlock\(\)\n\treturn err", "\treturn batch.err", "F19 re-introduced"),
    # ---- C05 / C17 / C20 / C16 / C18 / C19 / C12 (checks written by helper agents)
    ("c05-ts-delta-ns", "C05", "recordbatch.go", r"\treturn timestamp\(t\) - timestamp\(base\)", "\treturn int64(t.Sub(base) / time.Millisecond)", "F4 re-introduced: delta from the nanosecond difference"),
    ("c05-v1-sparse", "C05", "protocol/record_v1.go", r"lastRelativeOffset := r\.records\[len\(r\.records\)-1\]\.Offset", "lastRelativeOffset := int64(len(r.records)) - 1", "F16 re-introduced"),
    ("c05-header-null-empty", "C05", "write.go", r"\t\twb\.writeVarBytes\(h\.Value\)\n", "\t\tif len(h.Value) == 0 {\n\t\t\twb.writeVarInt(-1)\n\t\t} else {\n\t\t\twb.writeVarBytes(h.Value)\n\t\t}\n", "Conn path writes empty header values as null"),
    ("c17-batch-close-ignores-discard", "C17", "batch.go", r"\t\tdiscardErr = batch\.msgs\.discard\(\)\n", "\t\tbatch.msgs.discard()\n", "F17 re-introduced"),
    ("c20-array-count-unchecked", "C20", "protocol/decode.go", r"\tif count > uint64\(d\.remain\) \{", "\tif false && count > uint64(d.remain) {", "array count no longer bounded by the remaining bytes (pre-allocation cap still applies)"),
    ("c20-array-prealloc-all", "C20", "protocol/decode.go", r"\tif c > maxArrayPrealloc \{\n\t\tc = maxArrayPrealloc\n\t\}\n", "", "array allocated for the announced count at once"),
    ("c16-xerial-reader-reset", "C16", "compress/snappy/xerial.go", r"(func \(x \*xerialReader\) Reset\(r io\.Reader\) \{\n(?:.*\n)*?)\tx\.nbytes = 0\n", "\\1", "pooled xerial reader keeps its byte count (history dependence)"),
    ("c16-xerial-writer-reset", "C16", "compress/snappy/xerial.go", r"(func \(x \*xerialWriter\) Reset\(w io\.Writer\) \{\n(?:.*\n)*?)\tx\.nbytes = 0\n", "\\1", "pooled xerial writer keeps its byte count: no header on reuse"),
    ("c12-select-version-above-max", "C12", "protocol/protocol.go", r"\tcase max < maxVersion:\n\t\treturn max\n\tdefault:\n\t\treturn maxVersion", "\tcase max <= maxVersion+1:\n\t\treturn max\n\tdefault:\n\t\treturn maxVersion", "library max chosen although the broker's max is one lower"),
    ("c18-auth-failure-ignored", "C18", "dialer.go", r"\t\tif err := d\.authenticateSASL\(sasl\.WithMetadata\(ctx, metadata\), conn\); err != nil \{\n\t\t\t_ = conn\.Close\(\)\n\t\t\treturn nil, fmt\.Errorf\(\"could not successfully authenticate to %s:%d with SASL: %w\", host, port, err\)\n\t\t\}", "\t\tif err := d.authenticateSASL(sasl.WithMetadata(ctx, metadata), conn); err != nil && !errors.Is(err, io.EOF) {\n\t\t\t_ = conn.Close()\n\t\t\treturn nil, fmt.Errorf(\"could not successfully authenticate to %s:%d with SASL: %w\", host, port, err)\n\t\t}", "Dialer hands out the connection when the broker closed it during authentication"),
    ("c19-lastoffset-off-by-one", "C19", "conn.go", r"func \(c \*Conn\) ReadLastOffset\(\) \(int64, error\) \{\n\treturn c\.readOffset\(LastOffset\)", "func (c *Conn) ReadLastOffset() (int64, error) {\n\to, err := c.readOffset(LastOffset)\n\tif o > 100 {\n\t\to--\n\t}\n\treturn o, err", "last offset off by one for logs longer than 100"),
]


def sh(cmd, **kw):
    return subprocess.run(cmd, shell=True, stdout=subprocess.PIPE, stderr=subprocess.STDOUT, text=True, **kw)


def run_one(slot, entry):
    name, checks, f, pat, rep, note = entry
    wt = "/tmp/wt-mut-%d" % slot
    path = os.path.join(wt, f)
    s = open(path).read()
    n, k = re.subn(pat, rep, s, count=1, flags=re.M)
    if k != 1 or n == s:
        return dict(name=name, status="PATTERN-NOT-FOUND", note=note, checks={})
    open(path, "w").write(n)
    res = {}
    try:
        b = sh("cd %s && GOFLAGS=-mod=mod GOPROXY=off GOSUMDB=off GOTOOLCHAIN=local go build ./... 2>&1 | tail -3" % wt)
        if b.stdout.strip():
            return dict(name=name, status="DOES-NOT-COMPILE", note=note + " :: " + b.stdout.strip()[:200], checks={})
        for c in checks.split(","):
            t0 = time.time()
            p = sh("cd %s && VERIF_REPO=%s ./check %s --tier quick 2>/dev/null | grep -E '^(VIOLATION|OK|KNOWN)' | head -3" % (ROOT, wt, c))
            out = p.stdout
            res[c] = ("caught" if "VIOLATION" in out else ("missed" if out.startswith("OK") or "\nOK" in out else "error")) + " (%ds)" % (time.time() - t0)
    finally:
        sh("git -C %s checkout -- ." % wt)
    return dict(name=name, status="ran", note=note, checks=res)


def main():
    only = None
    jobs = 3
    a = sys.argv[1:]
    while a:
        if a[0] == "--only":
            only = re.compile(a[1]); a = a[2:]
        elif a[0] == "--jobs":
            jobs = int(a[1]); a = a[2:]
        else:
            a = a[1:]
    todo = [m for m in M if (only is None or only.search(m[0])) and "placeholder" not in m[5]]
    for i in range(jobs):
        sh("git -C /repo worktree remove --force /tmp/wt-mut-%d" % i)
        r = sh("git -C /repo worktree add --detach /tmp/wt-mut-%d HEAD" % i)
        if r.returncode != 0:
            print(r.stdout); sys.exit(2)
    results = []
    try:
        import queue
        q = queue.Queue()
        for m in todo:
            q.put(m)

        def worker(slot):
            while True:
                try:
                    m = q.get_nowait()
                except queue.Empty:
                    return
                r = run_one(slot, m)
                print(json.dumps(r), flush=True)
                results.append(r)
        with ThreadPoolExecutor(max_workers=jobs) as ex:
            list(ex.map(worker, range(jobs)))
    finally:
        for i in range(jobs):
            sh("git -C /repo worktree remove --force /tmp/wt-mut-%d" % i)
    os.makedirs(os.path.join(ROOT, "seeded", "own"), exist_ok=True)
    order = {m[0]: i for i, m in enumerate(M)}
    results.sort(key=lambda r: order[r["name"]])
    head = sh("git -C /repo log --format=%h -1").stdout.strip()
    with open(os.path.join(ROOT, "seeded", "own", "RESULTS.md" if only is None else "RESULTS-partial.md"), "w") as f:
        f.write("# Own mutation-sensitivity runs (tools/mutants.py, quick tier, /repo at %s)\n\n" % head)
        f.write("| mutant | what it breaks | result per check |\n|---|---|---|\n")
        for r in results:
            cs = ", ".join("%s: %s" % kv for kv in r["checks"].items()) or r["status"]
            f.write("| %s | %s | %s |\n" % (r["name"], r["note"].replace("|", "\\|"), cs))


if __name__ == "__main__":
    main()
