#!/usr/bin/env python3-vt
import json, sys, glob, jsonschema
m = json.load(open('/verif/MANIFEST.json'))
jsonschema.validate(m, json.load(open('/root/.vp/MANIFEST.schema.json')))
es = json.load(open('/root/.vp/EVIDENCE.schema.json'))
bad = 0
for c in m['checks']:
    try:
        e = json.load(open(c['evidence_file']))
        jsonschema.validate(e, es)
        assert e['level'] == c['level_claimed']['category'], 'level mismatch'
        print(c['property_id'], 'ok', e['tier'], e['coverage']['evaluations'], e['coverage']['distinct_nontrivial'], e['wall_s'])
    except Exception as ex:
        bad += 1
        print(c['property_id'], 'INVALID', str(ex)[:300])
sys.exit(1 if bad else 0)
