#!/usr/bin/env python3
"""Writes the briefs of one round of seeding agents (helpers that see only property texts and a scratch worktree).

  python3 tools/seed_brief.py K /tmp/seed-brief C01,C12 C02,C17 ...

For agent number n of the round it writes <outdir>/<round><n>.md with the statement and quantifier of its properties, the
output layout `tools/seeded_eval.py` expects, and one line per change that earlier rounds wrote for the same properties
(taken from the agents' own summaries under seeded/, so that a new agent looks elsewhere).  Nothing about the checks.
"""
import glob, json, os, sys

ROOT = os.path.dirname(os.path.dirname(os.path.abspath(__file__)))
props = {}
for l in open(os.path.join(ROOT, "properties.jsonl")):
    p = json.loads(l)
    props[p["id"]] = p


def used(pid):
    out = []
    for f in sorted(glob.glob(os.path.join(ROOT, "seeded", pid, "*", "meta.json"))):
        try:
            s = json.load(open(f)).get("summary", "")
        except Exception:
            continue
        out.append("  - " + " ".join(s.split())[:230])
    return "\n".join(out)


def brief(rnd, n, pids, per):
    agent = "%s%d" % (rnd, n)
    wt = "/tmp/wt-seed-%s" % agent
    out = "/tmp/seed-out/%s" % agent
    txt = []
    txt.append("""# Task: write hard-to-notice breaking changes for a Go library (mutation seeding)

The Go library segmentio/kafka-go is checked by a verification harness that you cannot see.  To measure that harness I need
realistic *defects*: changes to the library that break a stated property while the code still compiles and the library's
existing test suite gives the same results as before.  You write the changes; I evaluate them later.

Your scratch copy of the library is a git worktree you create yourself ONCE:
    git -C /repo worktree add --detach %(wt)s HEAD
Work only inside %(wt)s and your output directory %(out)s.  NEVER edit, build in or run anything in /repo itself and do not
read or write anything under /verif.  Every shell call must start with
    export GOFLAGS=-mod=mod GOPROXY=off GOSUMDB=off GOTOOLCHAIN=local
(there is no network).  Always give `go test` a -timeout.  The machine is shared: wall-clock numbers are noisy.
Never use `git stash` (the stash is shared by all worktrees of /repo and other helpers work next to you): save a change with
`git diff > file` and undo it with `git checkout -- .` / `git apply -R file`.
When you are completely done, remove the worktree: `git -C /repo worktree remove --force %(wt)s`.

## What to deliver

For EACH property below: %(per)d change(s).  For change number N of property CXX write the directory
`%(out)s/CXX/mN/` containing
  * `patch.diff` — `git diff` of the worktree against HEAD for this change alone (the worktree must be reset between changes:
    `git -C %(wt)s checkout -- . && git -C %(wt)s clean -fdq`); it must apply with `git apply` to a clean tree;
  * `demo/` — a demonstration: ONE `*_test.go` file (package kafka or the package it belongs to; it may use unexported
    identifiers; no network, no live broker: fake the peer with net.Pipe / a tiny in-process server / Dialer.DialFunc /
    Transport.Dial, or call the function directly) plus `README.txt` whose text contains the exact command, of the form
    `go test -vet=off -count=1 -run TestSeedCXXmN .` (or `./protocol` etc. — the package directory the file is copied into).
    The test must PASS on the clean tree and FAIL with the patch, reliably (run each at least 3 times);
  * `meta.json` — {"property": "CXX", "summary": "<file, function, what was changed and the plausible reason a developer
    might have had>", "needs_to_manifest": "<the specific thing that has to happen for the defect to show>",
    "ran": ["<commands you ran and their outcome>"], "demonstrated": true}.

## Requirements for a change

1. It breaks the property as stated (statement + quantifier) — not merely something nearby.  Read the code the property
   talks about first.
2. It compiles (`go build ./... && go vet . ./protocol/... ./compress/... ./sasl/...`) and the existing tests give the same
   result: `go test -vet=off -count=1 ./... 2>&1 | grep -E '^(ok|FAIL|---|panic)'` must equal /tmp/seed-base/baseline.txt
   apart from timings and pointer values (offline, the root package and ./compress die with a panic about
   "Broker Not Available" in the baseline too; that is expected).  Because of that panic also run, for root-package changes,
   the tests that can run offline by name, e.g. `go test -vet=off -count=1 -run 'TestBatchQueue|TestMessage|TestHash|TestCRC32|TestMurmur2|TestRoundRobin|TestLeastBytes|TestReadVar|TestProtocol|TestError|TestGroupBalancer|TestRange|TestRack|TestFindMembers|TestConsumerGroupErrors|TestGeneration|TestOffsetStash|TestMessageSetReader' .`
   with and without the change and compare.
3. It must need something SPECIFIC to manifest: a particular interleaving, a fault or crash at a particular point, a multi-step
   sequence of operations, an unusual input or configuration value, an uncommon API entry point or option combination, or
   two cooperating sites that each look fine alone.  NOT something ordinary use would show at once, and not something a
   type checker or the existing tests notice.  It should look like a plausible refactoring, optimisation or "simplification"
   a maintainer could have merged (no sabotage comments, no `if key == "magic"`).
4. Small: typically 1–15 changed lines, in the library's non-test files.  Do not touch files named verif_on.go /
   verif_off.go, and leave calls to verifPoint(...) where they are (they are empty hooks).
5. Different from what earlier rounds already wrote (listed under each property) — pick another code site or another
   mechanism; prefer corners nobody has used: rarely used options, second implementations of the same thing, conversions
   between layers, error paths, boundary values, resource reuse.

Budget: about 25 minutes of work in total.  If a change turns out not to be demonstrable, drop it and try another site
rather than delivering something unconfirmed.

## Final message

One paragraph per change: the property, the file and function, the mechanism, what it needs to manifest, and that the demo
passes clean / fails patched.  Nothing else is needed.
""" % dict(wt=wt, out=out, per=per))
    for pid in pids:
        p = props[pid]
        txt.append("## Property %s — %s\n\nStatement: %s\n\nHolds %s.\n\nCode it is anchored in: %s\n\nChanges earlier rounds already wrote for it (do something else):\n%s\n"
                   % (pid, p["title"], p["statement"], p["quantifier"]["text"], json.dumps(p.get("anchors")), used(pid)))
    return agent, "\n".join(txt)


def main():
    rnd, outdir = sys.argv[1], sys.argv[2]
    per = 1
    pairs = [a.split(",") for a in sys.argv[3:] if not a.startswith("--per=")]
    for a in sys.argv[3:]:
        if a.startswith("--per="):
            per = int(a[6:])
    os.makedirs(outdir, exist_ok=True)
    for n, pids in enumerate(pairs, 1):
        agent, t = brief(rnd, n, pids, per)
        open(os.path.join(outdir, agent + ".md"), "w").write(t)
        print(agent, pids, len(t))


if __name__ == "__main__":
    main()
