#!/bin/bash
# usage: tools/run_all.sh <tier> <seed> [ids...]   -- runs checks one after the other, summary in .build/all-<tier>-<seed>.txt
tier=$1; seed=$2; shift 2
ids=${@:-C01 C02 C03 C04 C05 C06 C07 C08 C09 C10 C11 C12 C13 C14 C15 C16 C17 C18 C19 C20}
cd /verif
out=.build/all-$tier-$seed.txt
: > $out
for c in $ids; do
  t0=$(date +%s)
  VERIF_SEED=$seed ./check $c --tier $tier > .build/run-$tier-$seed-$c.log 2>&1
  rc=$?
  echo "$c rc=$rc $(( $(date +%s) - t0 ))s $(grep -E '^(OK|VIOLATION|KNOWN-FINDING|INCONCLUSIVE|INFRA)' .build/run-$tier-$seed-$c.log | head -3 | tr '\n' ' ' | cut -c1-300)" >> $out
done
echo done >> $out
