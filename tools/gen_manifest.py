#!/usr/bin/env python3
"""Regenerates /verif/MANIFEST.json from checks_config.py and validates it."""
import json, os, sys
ROOT = os.path.dirname(os.path.dirname(os.path.abspath(__file__)))
sys.path.insert(0, ROOT)
from checks_config import CHECKS, HOOK_COMMITS, NOT_APPLICABLE, CLAIMED  # noqa

props = [json.loads(l)["id"] for l in open(os.path.join(ROOT, "properties.jsonl"))]
checks = []
for pid in props:
    c = CHECKS.get(pid)
    if not c or pid not in CLAIMED:
        continue
    checks.append({
        "property_id": pid,
        "quick_cmd": "./check %s --tier quick" % pid,
        "thorough_cmd": "./check %s --tier thorough" % pid,
        "evidence_file": "/verif/evidence/%s.json" % pid,
        "replay_cmd_template": "./check %s --replay {path}" % pid,
        "engine": c.get("engine", "rapid"),
        "level_claimed": {"category": c["level"], "text": c["level_text"], "design_ref": c.get("design_ref", "DESIGN.md §3 " + pid)},
        "level_note": c["level_note"],
        "technique": c["technique"],
    })
na = [{"property_id": p, "reason": NOT_APPLICABLE.get(p, "check not built yet in this session; see DESIGN.md")} for p in props if p not in {c["property_id"] for c in checks}]
m = {
    "version": 1,
    "setup_cmd": "./setup.sh",
    "hooks": {
        "guard": "verif",
        "enable": "go test -tags verif (the driver /verif/check passes -tags verif to every build of /repo)",
        "baseline_off_cmd": "cd /repo && GOFLAGS=-mod=mod GOPROXY=off GOSUMDB=off go test -json -vet=off -count=1 -timeout 25m ./...",
        "source_commits": HOOK_COMMITS,
        "add_only": True,
    },
    "engines": [
        {"name": "rapid", "path": "/verif/props", "serves_properties": [c["property_id"] for c in checks], "kind_free_text": "property-based testing with pgregory.net/rapid v1.3.0 (generated cases, shrinking, JSON replay files) plus enumerated strata; native go fuzzing in thorough tiers of byte-level properties"},
    ],
    "checks": checks,
    "not_applicable": na,
    "notes": "All checks are run by /verif/check <id>; exit 0 held / 1 VIOLATION / 2 infrastructure. Known findings: /verif/known_findings.json.",
}
json.dump(m, open(os.path.join(ROOT, "MANIFEST.json"), "w"), indent=1)
try:
    import jsonschema
    jsonschema.validate(m, json.load(open("/root/.vp/MANIFEST.schema.json")))
    print("MANIFEST valid;", len(checks), "checks,", len(na), "not claimed")
except ImportError:
    print("jsonschema not available; skipped validation")
