"""Per-property run configuration for /verif/check.

units: one process per (unit, shard).  `checks_*` is -rapid.checks for rapid
units (None for plain enumerations, which size themselves from VERIF_TIER).
"""

HOOK_COMMITS = []

NOT_APPLICABLE = {}

CHECKS = {
    "C13": dict(
        pkg="props/c13", level="exploration",
        technique="property-based testing (rapid) + exhaustive small-key enumeration against independent reference partitioners",
        level_text=("Differential against independently written FNV-1a/CRC-32/murmur2 partitioners: every 0..2-byte key x partition counts "
                    "enumerated, longer keys generated; model-based sequences for RoundRobin and LeastBytes, incl. concurrent callers. "
                    "Exploration is the right level: the domain is unbounded, but the hash functions have no key-length-specific branches beyond length mod 4."),
        level_note="trusts the reference formulas (DESIGN.md A.4) and that Writer offers partitions 0..n-1",
        rule=("cases = (balancer, key, partition count) triples, RoundRobin call sequences and LeastBytes size sequences; "
              "enumerated: nil, empty and every 1- and 2-byte key x partition counts (all 1..64 in thorough) x 6 hashing balancers; "
              "generated: rapid keys of every length mod 4, high-bit bytes, up to 1 KiB, counts up to 100000. "
              "Non-trivial = the reference client hashes the key deterministically (not a 'any partition' rule), or a "
              "RoundRobin/LeastBytes sequence with >1 partition and >1 call; distinct by (balancer,key,n) or by the case value."),
        assumptions=["reference FNV-1a/CRC-32/murmur2 and partitioner formulas are written from the Sarama, librdkafka and Java client definitions",
                     "partition lists are 0..n-1 as Writer supplies them"],
        units=[
            dict(run="TestSmallKeysExhaustive", checks=None, timeout=1200),
            dict(run="TestRandomKeys", checks_quick=20000, checks_thorough=400000, shards_thorough=4),
            dict(run="TestRoundRobin", checks_quick=3000, checks_thorough=60000, shards_thorough=2),
            dict(run="TestLeastBytes", checks_quick=3000, checks_thorough=60000, shards_thorough=2),
        ],
        exhaustive_thorough=False,
    ),
}
