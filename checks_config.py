"""Per-property run configuration for /verif/check.

units: one process per (unit, shard).  `checks_*` is -rapid.checks for rapid
units (None for plain enumerations, which size themselves from VERIF_TIER).
"""

HOOK_COMMITS = []

NOT_APPLICABLE = {}

CHECKS = {
    "C13": dict(
        pkg="props/c13", level="exploration",
        technique="property-based testing (rapid) + exhaustive small-key enumeration against independent reference partitioners",
        level_text=("Differential against independently written FNV-1a/CRC-32/murmur2 partitioners: every 0..2-byte key x partition counts "
                    "enumerated, longer keys generated; model-based sequences for RoundRobin and LeastBytes, incl. concurrent callers. "
                    "Exploration is the right level: the domain is unbounded, but the hash functions have no key-length-specific branches beyond length mod 4."),
        level_note="trusts the reference formulas (DESIGN.md A.4) and that Writer offers partitions 0..n-1",
        rule=("cases = (balancer, key, partition count) triples, RoundRobin call sequences and LeastBytes size sequences; "
              "enumerated: nil, empty and every 1- and 2-byte key x partition counts (all 1..64 in thorough) x 6 hashing balancers; "
              "generated: rapid keys of every length mod 4, high-bit bytes, up to 1 KiB, counts up to 100000. "
              "Non-trivial = the reference client hashes the key deterministically (not a 'any partition' rule), or a "
              "RoundRobin/LeastBytes sequence with >1 partition and >1 call; distinct by (balancer,key,n) or by the case value."),
        assumptions=["reference FNV-1a/CRC-32/murmur2 and partitioner formulas are written from the Sarama, librdkafka and Java client definitions",
                     "partition lists are 0..n-1 as Writer supplies them"],
        units=[
            dict(run="TestSmallKeysExhaustive", checks=None, timeout=1200),
            dict(run="TestRandomKeys", checks_quick=20000, checks_thorough=400000, shards_thorough=4),
            dict(run="TestRoundRobin", checks_quick=3000, checks_thorough=60000, shards_thorough=2),
            dict(run="TestLeastBytes", checks_quick=3000, checks_thorough=60000, shards_thorough=2),
        ],
        exhaustive_thorough=False,
    ),
    "C14": dict(
        pkg="props/c14", level="exploration",
        technique="property-based testing (rapid) + exhaustive enumeration of small groups against a validity predicate",
        level_text=("Validity predicate of the statement (exactly-once, subscribers only, per-topic balance <=1, contiguous / k-th runs, "
                    "order independence, rack bound) evaluated on every group with <=4 members x 2 topics x <=5 partitions x all listing orders, "
                    "every rack placement for rack-affinity (<=4 members, <=6 partitions), each rack-affinity case re-run in fresh maps; plus generated groups up to 30 members x 200 partitions."),
        level_note="RackAffinity map-iteration orders are sampled (6-8 runs per case), not enumerated",
        rule=("cases = (balancer, members with subscriptions and racks, listed partitions with leader racks, listing permutation); "
              "enumerated small groups (quick: 1/12 slice chosen by seed) + rapid-generated groups. Non-trivial = some topic has >=2 subscribers and >=1 partition; "
              "distinct by the full case value (enumerated cases are distinct by construction)."),
        assumptions=["member ids are distinct and each member lists a topic at most once", "partition ids of a topic are 0..P-1"],
        units=[
            dict(run="TestExhaustiveSmall", checks=None, timeout=1800),
            dict(run="TestRandomGroups", checks_quick=20000, checks_thorough=300000, shards_thorough=4),
        ],
    ),
    "C04": dict(
        pkg="props/c04", level="exploration",
        builds={"default": "", "unsafe": "unsafe"},
        technique="differential property-based testing (rapid) of both codecs against an independent reference codec with a pinned schema table; round-trip; wire capture of Conn requests",
        level_text=("Every registered API x version x direction: generated field values are encoded by the library and strictly decoded by the "
                    "reference codec (size prefix, header, every field, no trailing bytes; byte-identical for non-flexible versions), "
                    "reference-encoded responses (with unknown tagged fields) are decoded by the library and compared field by field, one frame consumed exactly; "
                    "library-only round trip; both the default and the `unsafe` build of the protocol package. Exploration: values are sampled, (api,version,direction) is covered completely."),
        level_note="trusts the pinned schema table refcodec/schema_table.go (reviewed against the Kafka message definitions; deviations listed in DESIGN.md) and the reference primitives (self-tested in setup)",
        rule=("case = (api, version, direction, generated value tree); rapid draws api and version uniformly from the 40 registered APIs, values from boundary-biased generators "
              "(null/empty/long strings, empty/null/>127-element arrays, int min/max, unknown tags). Non-trivial = at least one field present at that version has a non-default value; "
              "distinct by (api, version, direction, shape of the value tree)."),
        assumptions=["schema table pinned at the reviewed commit", "nullable strings: the library cannot express \"\" vs null; requests use null-or-non-empty, responses are compared with null==empty"],
        units=[
            dict(run="TestRequestEncode", checks_quick=15000, checks_thorough=400000, shards_thorough=4),
            dict(run="TestResponseDecode", checks_quick=10000, checks_thorough=300000, shards_thorough=4),
            dict(run="TestRoundTrip", checks_quick=10000, checks_thorough=300000, shards_thorough=2),
            dict(run="TestRequestEncode", build="unsafe", checks_quick=6000, checks_thorough=100000),
            dict(run="TestResponseDecode", build="unsafe", checks_quick=6000, checks_thorough=100000),
            dict(run="TestRoundTrip", build="unsafe", checks_quick=5000, checks_thorough=100000),
        ],
    ),
    "C01": dict(
        pkg="props/c01", level="exploration",
        technique="model-based property testing (rapid): generated Writer programs and produce-fault scripts against an in-memory fake cluster, oracle over the wire journal",
        level_text=("Generated scenarios (1-4 concurrent callers, 1-2 topics x 1-4 partitions, every batch/acks/compression/balancer setting, produce v2..v8) run the real Writer against the fake cluster, "
                    "which injects per-request faults (temporary/permanent codes, dropped before/after apply, cut responses, stalls, leader moves). Oracle over the journal: partition = balancer's choice, "
                    "nil/WriteErrors[i] == acknowledged, Completion exactly once with the same outcome, no resend after a delivered acknowledgement."),
        level_note="caller interleavings and timers are sampled, not enumerated; trusts the fake broker's produce semantics (DESIGN A.6) and the reference record decoder",
        rule=("case = (cluster layout, writer config, caller programs, fault script per produce request); every 3rd case is built from one of 5 strata (lost ack + retry, permanent error, mixed outcome in one call, async, stalled request). "
              "Non-trivial = at least one fault hit a produce request or two callers shared a partition; distinct by (config class, fault-kind multiset, label set)."),
        assumptions=["fake broker applies a produce request atomically and answers in request order", "an acknowledgement counts as delivered when the response frame was written completely to a connection the client had not closed"],
        units=[
            dict(run="TestWriterFaults", checks_quick=350, checks_thorough=1500, shards_quick=4, shards_thorough=16, timeout=1500),
        ],
    ),
    "C16": dict(
        pkg="props/c16", level="exploration",
        builds={"default": "", "race": ""},
        technique="property-based testing (rapid) + coverage-guided fuzzing: round trip, differential against the reference decoders/encoders of each format, metamorphic history-independence on pooled objects, concurrent sharing of one codec value",
        level_text=("Every codec (gzip levels, snappy framed/unframed x 4 compression levels, lz4, zstd levels; fresh values and the shared compress.Codecs entries) x payload recipes "
                    "(tiny, incompressible, repetitive, mixed; lengths on the xerial flush threshold 31745+-1, 32 KiB+-1, 64 KiB+-1, up to 200 KiB) x partitions into Write calls / io.ReaderFrom x Read buffer sizes / io.WriterTo "
                    "x source reader types x 1-3 interleaved streams x a history of earlier uses of the pooled objects (complete, abandoned half-read, closed twice, truncated / corrupted / garbage input, failing sink, sibling codec value sharing the pool) "
                    "x 2-8 goroutines on one codec value. Oracles: identity; compressed bytes decoded by stdlib gzip / hand-parsed xerial + golang/snappy (cross-checked with go-xerial-snappy) / pierrec lz4 / klauspost zstd; "
                    "reference-encoded streams (raw snappy block, hand-built multi-block xerial, multi-member gzip, lz4 frames with all flag combinations, zstd stream/EncodeAll/multi-frame) read by the codec; "
                    "a use that fails after a history is re-run on a fresh codec value to attribute the failure to the history. Exploration: all dimensions are sampled."),
        level_note=("lz4 and zstd reference decoders are the same upstream libraries the codecs wrap (used directly, without the pooling layer); corrupted inputs never touch length fields that could make a decoder allocate gigabytes (that is C20); "
                    "sequential units run with GOMAXPROCS(1) so that sync.Pool hands the object of the history step to the next use; a data race seen by the race-built TestConcurrent unit surfaces as exit 2 (infrastructure) with the race report in the unit log"),
        rule=("case = (codec spec, history steps, 1-3 streams each with payload recipe (kind, length, seed) + Write plan + Read plan, optional reference encoder spec, goroutines); "
              "Non-trivial = payload > 32 KiB (more than one snappy block) or chunked writes/reads or non-empty history or >1 stream or >1 goroutine; distinct by the full case value."),
        assumptions=["payloads are non-empty", "Read/Write are not mixed with WriteTo/ReadFrom on one object except on the library's own xerial reader/writer",
                     "objects are not used after Close (Close twice is allowed)", "what a reader returns for damaged input is not judged, only the uses that follow"],
        units=[
            dict(run="TestRoundTrip", checks_quick=6000, checks_thorough=150000, shards_thorough=4),
            dict(run="TestReferenceInterop", checks_quick=2500, checks_thorough=55000, shards_thorough=3),
            dict(run="TestHistoryIndependence", checks_quick=1300, shards_quick=2, checks_thorough=28000, shards_thorough=6),
            dict(run="TestConcurrent", checks_quick=1500, checks_thorough=15000, shards_thorough=2),
            dict(run="TestConcurrent", build="race", tier="thorough", checks_thorough=1000, timeout=900),
            dict(run="FuzzRoundTrip", fuzz=True, tier="thorough", fuzztime_thorough="120s", timeout=400),
        ],
    ),
    "C07": dict(
        pkg="props/c07", level="exploration",
        technique="model-based property testing (rapid): generated submitters and retry-provoking fault scripts, order oracle over the fake broker's partition logs",
        level_text=("Writer scenarios biased to ordering (1-2 partitions, batch size 1-3, 1-3 submitters, sync and async, lost acks / temporary errors / cuts / leader moves on chosen produce requests). "
                    "Oracle: inside every appended copy the submitter's order is kept, every copy of an earlier batch precedes every copy of a later one, and per submitter the first occurrences in the log are in submission order."),
        level_note="interleavings of submitters, batch timers and retries are sampled; trusts the fake broker to append requests in arrival order",
        rule=("case = writer scenario (see C01) with ordering bias; non-trivial = some partition received >= 2 distinct batches and at least one batch was sent more than once; "
              "distinct by (partitions, batch size, mode, balancer, fault multiset, labels)."),
        assumptions=["message values carry (submitter, call, index) so that the log can be compared with submission order"],
        units=[dict(run="TestOrder", checks_quick=400, checks_thorough=1500, shards_quick=4, shards_thorough=16, timeout=1500)],
    ),
    "C08": dict(
        pkg="props/c08", level="exploration",
        technique="property-based testing (rapid) with boundary-size generators; invariant over every produce request seen by the fake broker plus no-further-input flush checks",
        level_text=("Message sizes are generated around the limits (exactly BatchBytes, +-1, exactly filling BatchSize), with invalid calls (oversize message, writer-level and message-level topic mixed or missing) mixed in. "
                    "Every produce request is checked for <= BatchSize records, <= BatchBytes by the pinned size formula and a single topic-partition; rejected calls must leave no trace on the wire; "
                    "accepted messages must reach the broker without further input (async settle stratum; full-batch stratum with a 10 s timer)."),
        level_note="time bounds: late-but-arrived is inconclusive, only never-arrived (3 s past BatchTimeout, idle broker) or a full batch waiting >3 s for a 10 s timer is a violation",
        rule=("case = writer scenario without broker faults, sizes drawn around BatchBytes/BatchSize, 1 in 15 calls with an invalid topic combination; strata by case index: async+settle, full batches with far timer, free. "
              "Non-trivial = at least one batch closed by size and one by timer, or an invalid call; distinct by (limits, mode, balancer, labels)."),
        assumptions=["Message size measure = 4+1+1+8+(4+|key|)+(4+|value|)+varint(nHeaders)+sum(varint|k|+|k|+varint|v|+|v|) as documented in message.go"],
        units=[dict(run="TestSizes", checks_quick=400, checks_thorough=2000, shards_quick=4, shards_thorough=16, timeout=1500)],
    ),
    "C02": dict(
        pkg="props/c02", level="exploration",
        technique="model-based property testing (rapid): generated partition logs with physical layouts (formats 0/1/2, codecs, compaction holes, empty batches, truncation) and fetch-fault scripts; oracle = reference model of stored records",
        level_text=("A generated log (logical records with compaction holes; batches of format 0, 1, 2 with every codec, v1 wrappers with relative offsets, batches starting before / ending after their records, retained empty batches, mixed-format logs) "
                    "is served by the fake broker at fetch v2/v5/v10 with byte limits that force one-batch and truncated responses, optionally dribbled byte by byte. A program of FetchMessage / SetOffset / append steps runs against the real Reader (and bare Conn.ReadBatch) "
                    "while a fault script cuts responses at a chosen byte, injects NotLeader/UnknownTopic/RequestTimedOut/OffsetOutOfRange codes, moves the leader, drops connections, refuses dials or stalls. "
                    "Every delivered message is compared as it arrives with the model (offset, key, value, headers, ms timestamp, topic, partition); nothing stored may be skipped, nothing delivered twice or out of order."),
        level_note="schedules (background fetcher vs. application) are sampled; 'not delivered' is decided by a 10 s watchdog per message on an otherwise idle in-memory broker; trusts the fake broker's fetch semantics (DESIGN A.6)",
        rule=("case = (fetch version, log layout, reader config, start position, program steps, fault script); non-trivial = layout has >= 2 batches and at least one of {hole, head/tail-compacted batch, empty batch, compression, truncated response, fault, SetOffset, append}; "
              "distinct by (version, path, start, byte limit, queue, fault multiset, label set)."),
        assumptions=["control batches are not generated for the Conn/Reader path (the statement reserves hiding them to Client.Fetch)", "format-0/1 compressed wrappers carry contiguous relative inner offsets",
                     "Reader MaxWait >= 150 ms: its read deadline equals MaxWait and leaves the broker a quarter of it"],
        units=[dict(run="TestReader", checks_quick=200, checks_thorough=1200, shards_quick=6, shards_thorough=16, timeout=2400)],
    ),
}
