"""Per-property run configuration for /verif/check.

units: one process per (unit, shard).  `checks_*` is -rapid.checks for rapid
units (None for plain enumerations, which size themselves from VERIF_TIER).
"""

HOOK_COMMITS = ["a1e4d44"]

NOT_APPLICABLE = {}

# properties whose check has been reviewed and verified on the unchanged tree; only these go into MANIFEST.json
CLAIMED = ["C01", "C02", "C03", "C04", "C05", "C06", "C07", "C08", "C09", "C10", "C11", "C12", "C13", "C14", "C15", "C16", "C17", "C18", "C19", "C20"]

CHECKS = {
    "C13": dict(
        pkg="props/c13", level="exploration",
        builds={"default": "", "race": ""},
        technique="property-based testing (rapid) + exhaustive small-key enumeration against independent reference partitioners",
        level_text=("Differential against independently written FNV-1a/CRC-32/murmur2 partitioners: every 0..2-byte key x partition counts "
                    "enumerated, longer keys generated; model-based sequences for RoundRobin and LeastBytes, incl. concurrent callers. Hash / ReferenceHash with a user-supplied Hasher: values chosen directly at the sign boundaries, and stateful hashers (crc32, fnv) over call sequences; one shared hashing balancer used by 2-16 goroutines at once (also in a race-detector build), every answer compared with the reference; LeastBytes and RoundRobin in spin-barrier rounds (N simultaneous calls pick what some sequential order of them picks: N distinct partitions from a balanced LeastBytes state, the fixed multiset of the round for RoundRobin) and with per-partition totals beyond 2^32 bytes; RoundRobin offered partition lists of varying length (one balancer behind several topics); real Writers against the fake cluster: what they offer their balancer is exactly 0..n-1 for topics of up to 400 partitions in histories that make the Writer's cached list grow (TestWriterOffers), and a Writer without Balancer spreads a sequence of calls evenly (TestWriterDefaultBalancer). "
                    "Exploration is the right level: the domain is unbounded, but the hash functions have no key-length-specific branches beyond length mod 4."),
        level_note="trusts the reference formulas (DESIGN.md A.4); that a Writer offers partitions 0..n-1 is checked through real Writers (TestWriterOffers)",
        rule=("cases = (balancer, key, partition count) triples, RoundRobin call sequences and LeastBytes size sequences; "
              "enumerated: nil, empty and every 1- and 2-byte key x partition counts (all 1..64 in thorough) x 6 hashing balancers; "
              "generated: rapid keys of every length mod 4, high-bit bytes, up to 1 KiB, counts up to 100000; Hash / ReferenceHash with a user-supplied Hasher whose value is chosen directly (sign boundaries 0x7fffffff / 0x80000000 / 0xffffffff enumerated x every count up to 64, random values). "
              "Non-trivial = the reference client hashes the key deterministically (not a 'any partition' rule), or a "
              "RoundRobin/LeastBytes sequence with >1 partition and >1 call; distinct by (balancer,key,n) or by the case value."),
        assumptions=["reference FNV-1a/CRC-32/murmur2 and partitioner formulas are written from the Sarama, librdkafka and Java client definitions",
                     "partition lists are 0..n-1 as Writer supplies them (checked by TestWriterOffers for topics of up to 400 partitions, in histories that make the Writer's cached list grow)"],
        units=[
            dict(run="TestSmallKeysExhaustive", checks=None, timeout=1200),
            dict(run="TestRandomKeys", checks_quick=20000, checks_thorough=400000, shards_thorough=4),
            dict(run="TestCustomHasher", checks_quick=5000, checks_thorough=200000),
            dict(run="TestCustomHasherSequences", checks_quick=3000, checks_thorough=100000),
            dict(run="TestLeastBytesLargeTotals", checks_quick=200, checks_thorough=5000),
            dict(run="TestConcurrentHash", checks_quick=60, checks_thorough=1500),
            dict(run="TestConcurrentHash", build="race", checks_quick=40, checks_thorough=600),
            dict(run="TestRoundRobin", checks_quick=3000, checks_thorough=60000, shards_thorough=2),
            dict(run="TestLeastBytes", checks_quick=3000, checks_thorough=60000, shards_thorough=2),
            dict(run="TestWriterOffers", checks_quick=40, checks_thorough=600),
            dict(run="TestWriterDefaultBalancer", checks_quick=60, checks_thorough=1500),
        ],
        exhaustive_thorough=False,
    ),
    "C14": dict(
        pkg="props/c14", level="exploration",
        technique="property-based testing (rapid) + exhaustive enumeration of small groups against a validity predicate",
        level_text=("Validity predicate of the statement (exactly-once, subscribers only, per-topic balance <=1, contiguous / k-th runs, "
                    "order independence, rack bound) evaluated on every group with <=4 members x 2 topics x <=5 partitions x all listing orders, "
                    "every rack placement for rack-affinity (<=4 members, <=6 partitions), each rack-affinity case re-run in fresh maps; plus generated groups up to 30 members x 200 partitions, cloud-style rack names, partitions listed with an error of their own. Partitions also list replicas (Replicas / Isr) on brokers of other racks than the leader's, including leaders without a rack."),
        level_note="RackAffinity map-iteration orders are sampled (6-8 runs per case), not enumerated",
        rule=("cases = (balancer, members with subscriptions and racks, listed partitions with leader racks, listing permutation); "
              "enumerated small groups (quick: 1/12 slice chosen by seed) + rapid-generated groups. Non-trivial = some topic has >=2 subscribers and >=1 partition; "
              "distinct by the full case value (enumerated cases are distinct by construction)."),
        assumptions=["member ids are distinct and each member lists a topic at most once", "partition ids of a topic are 0..P-1"],
        units=[
            dict(run="TestExhaustiveSmall", checks=None, timeout=1800),
            dict(run="TestRandomGroups", checks_quick=20000, checks_thorough=300000, shards_thorough=4),
        ],
    ),
    "C04": dict(
        pkg="props/c04", level="exploration",
        builds={"default": "", "unsafe": "unsafe"},
        technique="differential property-based testing (rapid) of both codecs against an independent reference codec with a pinned schema table; round-trip; wire capture of Conn requests",
        level_text=("Every registered API x version x direction: generated field values are encoded by the library and strictly decoded by the "
                    "reference codec (size prefix, header, every field, no trailing bytes; byte-identical for non-flexible versions), "
                    "reference-encoded responses (with unknown tagged fields) are decoded by the library and compared field by field, one frame consumed exactly; "
                    "library-only round trip; both the default and the `unsafe` build of the protocol package. The hand-written Conn codec: every request-emitting Conn operation (ApiVersions, Brokers, Controller, ReadPartitions, ReadOffset/First/Last, Seek, ReadBatchWith, WriteMessages / WriteCompressedMessages, CreateTopics, DeleteTopics) with generated arguments, client ids (empty, multi-byte, long) and broker version ceilings, and the group APIs through ConsumerGroup: the fake broker decodes each request strictly and the field values are compared with what the operation asked for; fetch responses are compared record by record under chunked delivery; for Conn.WriteMessages the key, value, timestamp and headers of every record on the wire are compared with the call's messages; a byte-by-byte sweep puts the second record set of a produce request across the encoder's 64 KiB page boundary. The conversion layer of kafka.Client (37 methods x every version): generated high-level requests are sent through a Transport to a scripted broker that advertises exactly one version; the captured frame is decoded strictly and compared with an expected body written independently from the documented meaning of the request fields, and the high-level response is compared with the field values of the generated response the broker encoded (fields derived from the context deadline, hard-coded by the library or without a member in the response struct are listed in the unit and not compared). Every round trip except Produce/Fetch is repeated through protocol.Marshal / Unmarshal, with decodes of cut-off prefixes of the same bytes in between (a failed decode leaves nothing behind). Exploration: values are sampled, (api,version,direction) is covered completely."),
        level_note="trusts the pinned schema table refcodec/schema_table.go (reviewed against the Kafka message definitions; deviations listed in DESIGN.md) and the reference primitives (self-tested in setup)",
        rule=("case = (api, version, direction, generated value tree); rapid draws api and version uniformly from the 40 registered APIs, values from boundary-biased generators "
              "(null/empty/long strings, empty/null/>127-element arrays, int min/max, unknown tags). Non-trivial = at least one field present at that version has a non-default value; "
              "distinct by (api, version, direction, shape of the value tree)."),
        assumptions=["schema table pinned at the reviewed commit", "nullable strings: the library cannot express \"\" vs null; requests use null-or-non-empty, responses are compared with null==empty"],
        units=[
            dict(run="TestRequestEncode", checks_quick=15000, checks_thorough=400000, shards_thorough=4),
            dict(run="TestResponseDecode", checks_quick=10000, checks_thorough=300000, shards_thorough=4),
            dict(run="TestRoundTrip", checks_quick=10000, checks_thorough=300000, shards_thorough=2),
            dict(run="TestProducePageBoundary", checks=None, timeout=1800),
            dict(run="TestConnRequests", checks_quick=250, checks_thorough=3000, shards_quick=3, shards_thorough=8, timeout=2400),
            dict(run="TestGroupRequests", checks_quick=200, checks_thorough=3000, shards_quick=1, shards_thorough=4, timeout=2400),
            dict(run="TestClientRequests", checks_quick=1500, shards_quick=2, checks_thorough=15000, shards_thorough=8, timeout=1500),
            dict(run="TestRequestEncode", build="unsafe", checks_quick=6000, checks_thorough=100000),
            dict(run="TestResponseDecode", build="unsafe", checks_quick=6000, checks_thorough=100000),
            dict(run="TestRoundTrip", build="unsafe", checks_quick=5000, checks_thorough=100000),
        ],
    ),
    "C01": dict(
        pkg="props/c01", level="exploration",
        technique="model-based property testing (rapid): generated Writer programs and produce-fault scripts against an in-memory fake cluster, oracle over the wire journal",
        level_text=("Generated scenarios (1-4 concurrent callers, 1-2 topics x 1-4 partitions, every batch/acks/compression/balancer setting, produce v2..v8) run the real Writer against the fake cluster, "
                    "which injects per-request faults (temporary/permanent codes, dropped before/after apply, cut responses, stalls, leader moves). Oracle over the journal: partition = balancer's choice, "
                    "nil/WriteErrors[i] == acknowledged, Completion exactly once with the same outcome, no resend after a delivered acknowledgement, no more attempts than MaxAttempts (unset or negative = 10), the balancer is offered exactly 0..n-1 of the message's topic. Brokers advertise Produce up to v0, v1, v2, v3, v5, v7 or v8. Messages may carry explicit times that are not monotonic in submission order; NotEnoughReplicasAfterAppend is among the temporary error codes."),
        level_note="caller interleavings and timers are sampled, not enumerated; trusts the fake broker's produce semantics (DESIGN A.6) and the reference record decoder",
        rule=("case = (cluster layout, writer config, caller programs, fault script per produce request); every 3rd case is built from one of 5 strata (lost ack + retry, permanent error, mixed outcome in one call, async, stalled request). "
              "Non-trivial = at least one fault hit a produce request or two callers shared a partition; distinct by (config class, fault-kind multiset, label set)."),
        assumptions=["fake broker applies a produce request atomically and answers in request order", "an acknowledgement counts as delivered when the response frame was written completely to a connection the client had not closed"],
        units=[
            dict(run="TestWriterFaults", checks_quick=350, checks_thorough=1500, shards_quick=4, shards_thorough=16, timeout=1500),
            dict(run="TestHugeCall", checks=None, timeout=600),
        ],
    ),
    "C16": dict(
        pkg="props/c16", level="exploration",
        builds={"default": "", "race": ""},
        technique="property-based testing (rapid) + coverage-guided fuzzing: round trip, differential against the reference decoders/encoders of each format, metamorphic history-independence on pooled objects, concurrent sharing of one codec value",
        level_text=("Every codec (gzip levels, snappy framed/unframed x 4 compression levels, lz4, zstd levels; fresh values and the shared compress.Codecs entries) x payload recipes "
                    "(tiny, incompressible, repetitive, mixed; lengths on the xerial flush threshold 31745+-1, 32 KiB+-1, 64 KiB+-1, up to 200 KiB) x partitions into Write calls / io.ReaderFrom x Read buffer sizes / io.WriterTo "
                    "x source reader types x 1-3 interleaved streams x a history of earlier uses of the pooled objects (complete, abandoned half-read, closed twice, truncated / corrupted / garbage input, failing sink, sibling codec value sharing the pool) "
                    "x 2-8 goroutines on one codec value. Oracles: identity; compressed bytes decoded by stdlib gzip / hand-parsed xerial + golang/snappy (cross-checked with go-xerial-snappy) / pierrec lz4 / klauspost zstd; "
                    "reference-encoded streams (raw snappy block, hand-built multi-block xerial, multi-member gzip, lz4 frames with all flag combinations, zstd stream/EncodeAll/multi-frame) read by the codec; "
                    "a use that fails after a history is re-run on a fresh codec value to attribute the failure to the history. Writers that offer ReadFrom are fed from one or two sources, with Write before and after. Exploration: all dimensions are sampled. A Read after the one that reported the end of a stream returns (0, io.EOF)."),
        level_note=("lz4 and zstd reference decoders are the same upstream libraries the codecs wrap (used directly, without the pooling layer); corrupted inputs never touch length fields that could make a decoder allocate gigabytes (that is C20); "
                    "sequential units run with GOMAXPROCS(1) so that sync.Pool hands the object of the history step to the next use; a data race seen by the race-built TestConcurrent unit surfaces as exit 2 (infrastructure) with the race report in the unit log"),
        rule=("case = (codec spec, history steps, 1-3 streams each with payload recipe (kind, length, seed) + Write plan + Read plan, optional reference encoder spec, goroutines); "
              "Non-trivial = payload > 32 KiB (more than one snappy block) or chunked writes/reads or non-empty history or >1 stream or >1 goroutine; distinct by the full case value."),
        assumptions=["payloads are non-empty", "Read/Write are not mixed with WriteTo/ReadFrom on one object except on the library's own xerial reader/writer",
                     "objects are not used after Close (Close twice is allowed)", "what a reader returns for damaged input is not judged, only the uses that follow"],
        units=[
            dict(run="TestRoundTrip", checks_quick=6000, checks_thorough=150000, shards_thorough=4),
            dict(run="TestReferenceInterop", checks_quick=2500, checks_thorough=55000, shards_thorough=3),
            dict(run="TestHistoryIndependence", checks_quick=1300, shards_quick=2, checks_thorough=28000, shards_thorough=6),
            dict(run="TestConcurrent", checks_quick=1500, checks_thorough=15000, shards_thorough=2),
            dict(run="TestConcurrent", build="race", tier="thorough", checks_thorough=1000, timeout=900),
            dict(run="FuzzRoundTrip", fuzz=True, tier="thorough", fuzztime_thorough="120s", timeout=400),
        ],
    ),
    "C07": dict(
        pkg="props/c07", level="exploration",
        technique="model-based property testing (rapid): generated submitters and retry-provoking fault scripts, order oracle over the fake broker's partition logs",
        level_text=("Writer scenarios biased to ordering (1-2 partitions, batch size 1-3, 1-3 submitters, sync and async, lost acks / temporary errors / cuts / leader moves on chosen produce requests). "
                    "Oracle: inside every appended copy the submitter's order is kept, every copy of an earlier batch precedes every copy of a later one, and per submitter the first occurrences in the log are in submission order. Further strata: a slow Logger (user callbacks as schedule perturbation), the batch timer of a partial batch racing with a call that fills the next batch, a stampede of simultaneous first submissions to one partition, a broker that stops reading in the middle of a produce request for longer than WriteTimeout and then reads on (write stall); the order rules are evaluated on what was appended also when Close hangs; permanent errors and slow answers are part of the fault menu. TestFlood: one call that completes 400-3000 batches of 2-3 messages for one partition and leaves a partial batch open, under a BatchTimeout of 5-80 microseconds, next to 0-2 submitters hammering short calls into the same partition (batches must reach the partition queue in the order they were sealed)."),
        level_note="interleavings of submitters, batch timers and retries are sampled; trusts the fake broker to append requests in arrival order",
        rule=("case = writer scenario (see C01) with ordering bias; non-trivial = some partition received >= 2 distinct batches and at least one batch was sent more than once; "
              "distinct by (partitions, batch size, mode, balancer, fault multiset, labels)."),
        assumptions=["message values carry (submitter, call, index) so that the log can be compared with submission order"],
        units=[dict(run="TestOrder", checks_quick=400, checks_thorough=1500, shards_quick=4, shards_thorough=16, timeout=1500),
               dict(run="TestFlood", checks_quick=25, checks_thorough=250, shards_quick=2, shards_thorough=8, timeout=900)],
    ),
    "C08": dict(
        pkg="props/c08", level="exploration",
        technique="property-based testing (rapid) with boundary-size generators; invariant over every produce request seen by the fake broker plus no-further-input flush checks",
        level_text=("Message sizes are generated around the limits (exactly BatchBytes, +-1, exactly filling BatchSize), with invalid calls (oversize message, writer-level and message-level topic mixed or missing) mixed in. "
                    "Every produce request is checked for <= BatchSize records, <= BatchBytes by the pinned size formula and a single topic-partition; rejected calls must leave no trace on the wire; "
                    "accepted messages must reach the broker without further input (async settle stratum; full-batch stratum with a 10 s timer). Further strata: a steady stream of appends with gaps shorter than BatchTimeout (no message may wait more than BatchTimeout + 700 ms for a healthy, idle broker), a small message followed by one of exactly BatchBytes (both batches leave at once), Writer.BatchBytes left at its default with messages around 1 MiB, Writers built by NewWriter(WriterConfig) (the configured BatchTimeout governs a lone message on an idle writer)."),
        level_note="time bounds: late-but-arrived is inconclusive, only never-arrived (3 s past BatchTimeout, idle broker) or a full batch waiting >3 s for a 10 s timer is a violation",
        rule=("case = writer scenario without broker faults, sizes drawn around BatchBytes/BatchSize, 1 in 15 calls with an invalid topic combination; strata by case index: async+settle, full batches with far timer, free. "
              "Non-trivial = at least one batch closed by size and one by timer, or an invalid call; distinct by (limits, mode, balancer, labels)."),
        assumptions=["Message size measure = 4+1+1+8+(4+|key|)+(4+|value|)+varint(nHeaders)+sum(varint|k|+|k|+varint|v|+|v|) as documented in message.go"],
        units=[dict(run="TestSizes", checks_quick=400, checks_thorough=2000, shards_quick=4, shards_thorough=16, timeout=1500)],
    ),
    "C02": dict(
        pkg="props/c02", level="exploration",
        technique="model-based property testing (rapid): generated partition logs with physical layouts (formats 0/1/2, codecs, compaction holes, empty batches, truncation) and fetch-fault scripts; oracle = reference model of stored records",
        level_text=("A generated log (logical records with compaction holes; batches of format 0, 1, 2 with every codec, v1 wrappers with relative offsets, batches starting before / ending after their records, retained empty batches, mixed-format logs) "
                    "is served by the fake broker at fetch v2/v5/v10 with byte limits that force one-batch and truncated responses, optionally dribbled byte by byte. A program of FetchMessage / SetOffset / append steps runs against the real Reader (and bare Conn.ReadBatch) "
                    "while a fault script cuts responses at a chosen byte, injects NotLeader/UnknownTopic/RequestTimedOut/OffsetOutOfRange codes, moves the leader, drops connections, refuses dials or stalls. "
                    "Every delivered message is compared as it arrives with the model (offset, key, value, headers, ms timestamp, topic, partition); nothing stored may be skipped, nothing delivered twice or out of order. Partitions may have an open transaction (last stable offset below the high watermark, reported to every consumer), with the reader positioned exactly at it."),
        level_note="schedules (background fetcher vs. application) are sampled; 'not delivered' is decided by a 10 s watchdog per message on an otherwise idle in-memory broker; trusts the fake broker's fetch semantics (DESIGN A.6)",
        rule=("case = (fetch version, log layout, reader config, start position, program steps, fault script); non-trivial = layout has >= 2 batches and at least one of {hole, head/tail-compacted batch, empty batch, compression, truncated response, fault, SetOffset, append}; "
              "distinct by (version, path, start, byte limit, queue, fault multiset, label set)."),
        assumptions=["control batches are not generated for the Conn/Reader path (the statement reserves hiding them to Client.Fetch)", "format-0/1 compressed wrappers carry contiguous relative inner offsets",
                     "Reader MaxWait >= 150 ms: its read deadline equals MaxWait and leaves the broker a quarter of it"],
        units=[dict(run="TestReader", checks_quick=200, checks_thorough=1200, shards_quick=6, shards_thorough=16, timeout=2400)],
    ),
    "C18": dict(
        pkg="props/c18", level="fault_enumeration",
        technique="enumeration of mechanism x advertised handshake versions x entry point x failing step against a hand-written PLAIN/SCRAM reference server, plus property-based testing (rapid) of credentials on top",
        level_text=("The product {PLAIN, SCRAM-SHA-256, SCRAM-SHA-512} x {broker advertises SaslHandshake v0 only (raw tokens), v0-v1 (framed SaslAuthenticate)} x "
                    "{Dialer.DialContext+ReadPartitions, Dialer.DialLeader+ReadOffsets, Transport via Client.ListOffsets, Transport via Writer.WriteMessages, NewWriter(WriterConfig.Dialer), Reader.SetOffsetAt, a consumer-group Reader until it has fetched its offsets (the last two with kafka.DefaultDialer routed to the same broker, so that traffic bypassing the configured Dialer is seen)} x 19 outcomes "
                    "(none; unsupported mechanism, handshake error code, close at handshake; wrong password, unknown user (late/early), close or error code at authenticate round 1/2; "
                    "malformed or empty server-first, nonce not extending the client's, low iteration count, wrong server signature, malformed or empty server-final, in-band e= server-final) is enumerated completely "
                    "against the fake broker's own RFC 4616 / RFC 5802 server; rapid adds generated user names and passwords (printable ASCII with ',' '=' and escape look-alikes, RFC 4013 cases with known prepared form). "
                    "Per connection the broker journal decides: only ApiVersions/SaslHandshake/SaslAuthenticate (or raw tokens) before the broker's verdict ok, nothing after a failed step, "
                    "the call returns an error and the client closes every connection, framing follows the handshake version, the exchange completes iff credentials are right and the server signature verifies, "
                    "and the real request after a completed exchange is answered from the model. Dialer entries also with an address whose port is a service name (whether such a dial succeeds is the library's choice; nothing but the exchange may reach the broker, and a failed dial closes its connection). TestLegs: a user-written mechanism of 1-12 round trips (the sasl.Mechanism interface is public) through every entry point, with right and wrong credentials, against a server-side counterpart in the fake."),
        level_note=("faults apply to every connection of a case alike; stalls (no response) are not injected because Conn has no deadline during the dial-time exchange; "
                    "refusing a low PBKDF2 iteration count is the SCRAM client library's policy and is only observed; a ConsumerGroup built directly is covered through the Dialer it uses"),
        rule=("case = (mechanism, advertised SaslHandshake and SaslAuthenticate versions, entry point, fault, error code, user, password, wrong password, decoy accounts, iterations, partition range); "
              "non-trivial = a completed exchange followed by a real request answered from the model, or a failure at an authenticate round (step >= 1); handshake-level failures count as evaluated only. "
              "Distinct by the whole case value."),
        assumptions=["the reference server stores the RFC 4013 prepared form of SCRAM credentials (the xdg-go/scram client applies SASLprep) and the raw form for PLAIN (sent as is)",
                     "brokers close the connection on a failed raw (handshake v0) exchange and answer a failed framed exchange with an error code",
                     "user names and passwords are non-empty, NUL-free, free of ASCII control characters and of SASLprep-prohibited code points"],
        units=[
            dict(run="TestProduct", checks=None, timeout=600),
            dict(run="TestGenerated", checks_quick=1500, checks_thorough=12000, shards_quick=2, shards_thorough=8, timeout=1200),
            dict(run="TestLegs", checks_quick=300, checks_thorough=4000, shards_quick=1, shards_thorough=4, timeout=600),
        ],
    ),
    "C11": dict(
        pkg="props/c11", level="fault_enumeration",
        technique="fault enumeration + differential testing: every Conn operation x negotiated version x error field x error code x following operation, compared with the same operation on a fresh connection; rapid-generated transport faults",
        level_text=("The product (3 version profiles x 23 Conn operations incl. the consumer-group operations x each error field of the response x 8 error codes x 23 following operations) is enumerated "
                    "(thorough: completely; quick: a 1/23 slice in which codes and following operations rotate under every (profile, operation, field)). The fake broker answers the first operation with the code in that field; "
                    "the following operation on the same Conn must return what it returns on a freshly dialled Conn to an identical cluster. Transport-level faults (cut at byte k, dropped response, garbage size prefix, wrong correlation id) "
                    "must make the first operation fail, every later operation fail and nothing more be written. (that a request is still written before the later operation fails is recorded, not judged). Also: an error code (with and without an empty API list) on the implicit ApiVersions exchange of every negotiating operation, enumerated completely; a response that never comes while the connection stays open; goroutines reading single messages (batches closed before the end of the fetch response) while others run request/response operations on the same Conn; logs mixing plain and compressed batches (every codec, message formats 1 and 2, truncated tails under small MaxBytes) opened at any offset and closed after any number of messages, followed by any operation. CreateTopics with three topics of which only the first is refused."),
        level_note="the group operations are reached through exported wrappers compiled under the verif tag; state equality of the two clusters relies on the fake applying nothing when it answers with an injected code",
        rule=("case = (profile, operation, error field, code | transport fault, following operation); non-trivial = the fault reached the client as an error of the first operation; distinct by the tuple."),
        assumptions=["error codes are injected only into fields the API's response has at the negotiated version", "one broker plays leader, controller and coordinator"],
        exhaustive_thorough=True,
        units=[
            dict(run="TestBrokerErrors", checks=None, shards_quick=2, shards_thorough=16, timeout=1800),
            dict(run="TestApiVersionsErrors", checks=None, timeout=1200),
            dict(run="TestConcurrentEarlyClose", checks_quick=60, checks_thorough=1200, shards_quick=2, shards_thorough=4, timeout=1800),
            dict(run="TestTransportFaults", checks_quick=150, shards_quick=3, checks_thorough=1500, shards_thorough=8),
            dict(run="TestPartialReads", checks_quick=300, shards_quick=2, checks_thorough=4000, shards_thorough=8, timeout=1800),
        ],
    ),
    "C12": dict(
        pkg="props/c12", level="exploration",
        technique="model-based property testing (rapid): generated cluster layouts, per-broker advertised version tables and request/cluster-change histories run through one kafka.Transport against the in-memory fake cluster; oracle over the brokers' journal",
        level_text=("Generated cases: 1-5 brokers (plus brokers added/removed later), 1-3 topics x 1-5 partitions with leaders spread over the brokers, controller, pinned group and transaction coordinators "
                    "(group ids and transactional ids in separate key spaces), 1-2 bootstrap addresses, MetadataTTL 20-100 ms, per broker an advertised range for each of 21 exercised APIs "
                    "(default, max below / above the library's, min raised, single version; always overlapping) and a history of 5-25 steps: Produce, Fetch, ListOffsets over several leaders, Client.Metadata with topic filters "
                    "(known, unknown, duplicate, empty, nil), wire Metadata with auto-creation, FindCoordinator, 10 group APIs, 4 transaction APIs, CreateTopics/DeleteTopics, 1-3 concurrent copies of a request, interleaved with leader moves, "
                    "coordinator moves, controller moves, broker additions (with their own version table) and removals, waits for the cache to catch up and sleeps. Also: broker id 0, a broker that keeps id and host and comes back on another port (requests must use the advertised address), the whole cluster unreachable when the transport is first used and again later for longer than the TTL (established connections reset). Oracle over the fake's journal: (1) every request is encoded at "
                    "min(library max, broker max) of the ApiVersions answer given on that very connection and never outside the advertised range; (2) every Produce/Fetch/ListOffsets part arrives at the leader, every Create/DeleteTopics at "
                    "the controller designated by one of the metadata responses the transport can have been using (from the response matched by a cache probe taken right before the call up to the last one that reached a broker before the request did), "
                    "every group / transaction request at a broker named by a FindCoordinator answer for that key and key space (or the true coordinator); (3) when the cache equals the cluster layout at the start of a call the request really reaches the designated broker; "
                    "(4) after a change the cache shows the new layout within 10xTTL+2 s (later than TTL+300 ms = inconclusive) and from then on requests go to the new leader; "
                    "(5) the cache content is always one of the responses the brokers gave, moving forward only, and Client.Metadata(topics) equals the topic-filtered content (brokers, controller, partitions with leader/replicas/isr, UNKNOWN_TOPIC_OR_PARTITION marks, request order) of such a response. TestCadence takes the time clause literally with a MetadataTTL of 2-3 s: the leader of a partition moves right after the brokers answered a metadata request of the transport, and a ListOffsets request started TTL + 500 ms later has to reach the new leader first (idle transport, or with traffic for other partitions)."),
        level_note=("schedules of the background refresh are sampled, not enumerated; stale routing before the next refresh (NOT_LEADER answers) is accepted as the statement allows; metadata v0 and FindCoordinator v0 are never negotiated "
                    "(no controller id / no key type at those versions); request encodings themselves belong to C04 (malformed requests are only counted here); the fake answers transaction APIs with default bodies"),
        rule=("case = (brokers with racks and version tables, bootstrap list, controller, topics with leaders, coordinators, auto-create setting, TTL, step history); every 2nd case is built from one of 6 strata "
              "(leader move + stale request + wait + request; same APIs on brokers with heterogeneous tables; coordinators off the bootstrap broker + coordinator move + multi-group DescribeGroups; ListOffsets over all partitions of a topic; "
              "topic creation via a non-bootstrap controller then use of the topic; broker joins and takes over a partition). Non-trivial = at least 2 brokers and at least one routed (non-metadata) request whose destination was checked; "
              "distinct by (broker count, bootstrap, controller, TTL, number of version overrides, leader layout, sequence of step kinds, label set)."),
        assumptions=["the fake cluster's metadata, FindCoordinator and ApiVersions answers are what real brokers give for the modelled layout; the harness is the only source of cluster changes",
                     "the transport's cache changes only through its discover loop, one metadata exchange after the other (observed in transport.go; the oracle's candidate window relies on it)",
                     "a removed broker first hands its partitions, coordinators and controller role to another broker (controlled shutdown); bootstrap brokers are never removed",
                     "wall-clock bounds are generous (10xTTL+2 s for 'never', 4 s per call); late-but-arrived refreshes and timed-out calls are inconclusive, not failures"],
        units=[dict(run="TestRouting", checks_quick=1200, checks_thorough=6000, shards_quick=4, shards_thorough=16, timeout=1500),
               dict(run="TestCadence", checks_quick=1, checks_thorough=4, shards_quick=5, shards_thorough=16, timeout=600)],
    ),
    "C19": dict(
        pkg="props/c19", level="exploration",
        technique="model-based property testing (rapid): generated cluster states served by the fake cluster, queries through Conn and through Client/Transport, oracle computed from the case's own model; metamorphic with/without an injected per-partition failure",
        level_text=("Generated clusters (1-4 brokers with racks, 1-4 topics x 1-4 partitions with arbitrary leaders, replica/ISR/offline lists incl. unregistered broker ids and leaderless partitions, logs with holes, "
                    "non-monotonic timestamps, log start inside/at the end of the log, end past the last record, offsets beyond 2^33, committed offsets + metadata for two groups with pinned coordinators, broker version ceilings "
                    "ListOffsets v1-5 / Metadata v1-8 / OffsetFetch v0-5 / OffsetCommit v0-7 / FindCoordinator v0-2). Conn (DialLeader / Dial): ReadFirstOffset, ReadLastOffset, ReadOffsets, ReadOffset(t), Seek with SeekStart/Absolute/End/Current "
                    "and SeekDontCheck, in and out of range, each followed by Offset(), ReadPartitions (own topic, lists, all, unknown). Client: ListOffsets over many topics/partitions/leaders with First/Last/TimeOffsetOf mixes and repeated partitions, "
                    "OffsetFetch (lists and all-topics), OffsetCommit (then the coordinator's recorded offsets+metadata are compared), ConsumerOffsets, Metadata. Faults: error code or dropped connection on exactly one partition's (or one sub-request's) "
                    "ListOffsets, refused dials to one leader, error code on one partition of an OffsetFetch / OffsetCommit answer (the rejected commit is not applied), unknown partitions, leaderless partitions; the same query runs without and with the fault "
                    "and everything but the failed partition must be identical and equal to the model. Metamorphic: Conn.ReadPartitions on identical clusters under Metadata v1 and v6 gives the same answer. Isolation levels: with an open transaction ListOffsets(read_committed) reports the last stable offset, read_uncommitted the high watermark. Injected codes include -1 (UNKNOWN_SERVER_ERROR)."),
        level_note="cluster state is static while a query runs (only OffsetCommit ops change it, sequentially), so 'the state when the request was served' is the model's state; Metadata v0 is excluded (the transport cannot ask for all topics at v0, C12's business)",
        rule=("case = (cluster spec, 1-6 ops; an op = a Conn program of 3-10 steps or one Client call, optional fault). Strata drawn per case: TestConn 1/4 seek-heavy starting with SeekEnd, 1/4 with a fault on the k-th ListOffsets of the connection; "
              "TestClient 1/3 ListOffsets over every partition of >=2 topics x >=2 partitions on >=2 brokers with a fault, 1/3 starting with a faulted OffsetFetch/OffsetCommit. "
              "Non-trivial = a request spans >=2 partitions or >=2 leaders, or a Seek whence is not absolute, or a fault is present; distinct by the full case value."),
        assumptions=["timestamp lookup = first stored record at or after the log start with timestamp >= t (the fake's rule, cross-checked against the model on every query)",
                     "OffsetCommit is sent with generation -1 and no member id (simple consumer)", "SeekDontCheck is combined only with SeekAbsolute and SeekCurrent, as documented",
                     "what a failed partition's own entry carries besides Error is not judged; after an injected fault on a Conn, a later error on the same Conn is inconclusive (wrong values are not)"],
        units=[
            dict(run="TestConn", checks_quick=9000, checks_thorough=70000, shards_quick=2, shards_thorough=8, timeout=1500),
            dict(run="TestClient", checks_quick=3500, checks_thorough=35000, shards_quick=4, shards_thorough=8, timeout=1800),
            dict(run="TestReadPartitionsVersions", checks_quick=1500, checks_thorough=40000, shards_thorough=2),
            dict(run="TestListOffsetsIsolation", checks_quick=1500, checks_thorough=40000, shards_thorough=2),
        ],
    ),
    "C20": dict(
        pkg="props/c20", level="fault_enumeration",
        builds={"default": "", "unsafe": "unsafe"},
        technique="fault enumeration over the reference encoder's field map, decoded in rlimited worker processes (isolation runner) + coverage-guided fuzzing of ReadResponse",
        level_text=("For every registered API x version a reference-encoded response (plus, for Fetch, record sets of formats 0, 1 and 2, and a 600-element variant that crosses the decoder's preallocation) "
                    "is mutated one length/count field at a time: frame size, string/bytes/array lengths (fixed and compact), tagged-field count/id/size, record-set size, v2 batch length, v0/v1 message size; "
                    "each field takes every value of a hostile set (-1, -2, 0, 1, true+-1, exactly the remaining bytes, +1, +2, 512/513, 2^15-1, 2^16, 65537, 2^31-1, -2^31, and for varints 2^31, 2^32-1, 2^63-1, 2^63, 2^64-1, "
                    "10- and 11-byte over-long and an unterminated encoding); varints are re-spliced with the frame size prefix both adjusted and left as is; each mutated frame is supplied exactly (then EOF), followed by further responses, "
                    "cut to a prefix, and with the frame size raised to 2^31-1. Every frame is decoded by protocol.ReadResponse in a worker process (RLIMIT_AS 3 GiB, 64 MiB stacks, collector off while decoding, 2 s watchdog); "
                    "a sample also goes through kafka.Transport.RoundTrip against an in-memory broker and, for 19 APIs, through the kafka.Client method of the API (Produce, Fetch with all records read, ListOffsets, Metadata, OffsetCommit/Fetch, FindCoordinator, the group APIs, DescribeGroups, ListGroups, ApiVersions, DeleteTopics, InitProducerID, DeleteGroups) with random bodies and with bodies that answer the request (topic, partition, group as asked, no error codes), so that the client's own post-processing of the decoded arrays is judged too, and the raw SASL token length through RawExchange and a SASL Transport on the v0 handshake path; consumer-protocol values (member metadata, assignments) with every nested length mutated go through protocol.Unmarshal (as Client.JoinGroup / SyncGroup call it) and, inside a well-formed DescribeGroups response, through Client.DescribeGroups, which has readers of its own. "
                    "Oracle: outcome error or decoded message; panic, no return, worker death (out of memory, stack overflow), more than 1 MiB + 1024 x bytes supplied allocated, or bytes consumed beyond the announced frame are violations. "
                    "Quick enumerates first/last/flexible-boundary/one seeded version per API, thorough all versions with two corpus seeds and more values; thorough adds 3 min of native fuzzing of ReadResponse(api, version, bytes) with the same oracle in-process. The mutated Produce frames also go through Client.RawProduce (entry client-raw)."),
        level_note=("one field at a time (plus the frame size in the 'bigframe' supply mode): combinations of several hostile fields are left to the fuzzer; fields inside checksummed content (record bodies, v0/v1 key/value lengths, v2 record count) are outside the statement and only observed; "
                    "the allocation bound is validated on the unmutated corpus first (must stay below half the bound); a worker death or timeout is re-run alone in a fresh worker with a 10 s watchdog before it counts"),
        rule=("case = (api, version, corpus frame, field of the encoder's field map, hostile value class, splice mode, supply mode, entry point); enumerated product, quick samples versions. "
              "Non-trivial = the mutation changed the decode path: outcome or consumed length differs from the unmutated frame in the same supply mode; distinct by (api, version, field kind, value class) (+ entry point for the Transport unit)."),
        assumptions=["reference encoder's field map lists every length/count field outside checksummed content (refcodec self-test + C04)",
                     "bytes supplied to the decoder = bytes actually received; workers measure runtime.MemStats.TotalAlloc around the decode only",
                     "well-formed record sets cost the library one 64 KiB page per v0/v1 message or v2 batch (observed, see notes): corpus frames carry records in at most two partitions so that unmutated frames stay below half the bound"],
        units=[
            dict(run="TestMutations", checks=None, shards_quick=1, shards_thorough=4, timeout=900),
            dict(run="TestTransport", checks=None, shards_quick=2, shards_thorough=4, timeout=900),
            dict(run="TestArrays", build="unsafe", checks=None, shards_quick=1, shards_thorough=2, timeout=900),
            dict(run="TestGroupMetadata", checks=None, timeout=600),
            dict(run="TestCompressedLengths", checks=None, timeout=600),
            dict(run="FuzzReadResponse", fuzz=True, tier="thorough", fuzztime_thorough="180s", timeout=500),
        ],
    ),
    "C05": dict(
        pkg="props/c05", level="exploration",
        builds={"default": "", "race": ""},
        technique="differential property-based testing (rapid) against an independent strict record codec: three produce routes captured on the wire of a fake broker, reference-encoded logs decoded through Client.Fetch / Conn.ReadBatch / Reader, generated hold/release schedules over pooled pages, coverage-guided fuzzing of RecordSet.ReadFrom on mutated sets",
        level_text=("Produce: generated message lists (key/value nil, empty, 1 B .. 3x64 KiB+1; 0-4 headers incl. empty key and nil/empty value; times with sub-millisecond parts, non-monotonic, decades apart, zero = now) go through "
                    "Writer, Client.Produce (protocol.NewRecordReader and an own RecordReader whose Bytes deliver short reads) and Conn.WriteMessages/WriteCompressedMessages, produce ceiling v2/v3/v5/v7/v8 x every codec; "
                    "the fake broker decodes every request strictly with the reference codec (lengths, CRC-32/CRC-32C, attributes, counts, no trailing bytes) and the oracle compares record count, offset deltas 0..n-1, lastOffsetDelta, "
                    "relative inner offsets of v1 wrappers, key/value with null vs empty, headers and floor-millisecond timestamps in order. "
                    "Fetch: logsim layouts (format 0 plain, formats 1/2 x every codec, v1 wrappers with relative offsets incl. wrappers thinned by log compaction, compaction holes, empty and control batches, one batch with a corrupted CRC, values spanning pages, broker down-conversion for fetch < v4) "
                    "are served at fetch v2..v11 with byte limits; every Client.Fetch response is compared with the reference decoding of exactly the bytes the broker sent (whole batches only), Conn.ReadBatch and Reader with the model (nil == empty). "
                    "Pool: 1-4 goroutines decode 2-5 record sets through Client.Fetch and RecordSet.ReadFrom (bufio / bytes.Buffer / plain reader), hold key/value Bytes unread or half read across later decodes and releases, and compare them when released. "
                    "Mutation: bit flips in checksum-covered bytes and in the CRC field, base-offset / leader-epoch rewrites, cuts at a byte limit and short streams; decoded records must equal the intact whole batches (prefix if a batch is damaged). Exploration: all dimensions are sampled. Header values may be longer than 64 KiB."),
        level_note=("trusts refcodec/records.go (own CRC tables, format libraries used directly) and the fake broker; Time zero is judged against wall-clock readings around the call; header values are compared by content only (null vs empty header values is counted, not judged); "
                    "format 1 cannot carry headers (produce <= v2 compares key/value/timestamp only); goroutine interleavings and sync.Pool hand-over are sampled, the race-built TestPool unit reports data races as violations; "
                    "bits inside compressed payloads are not flipped (decompressor robustness is C16/C20)"),
        rule=("cases = (route, produce ceiling, codec, calls of message recipes, batching/reader options) | (path, fetch ceiling, log layout, start offset, byte limit) | (record sets, per-worker decode/hold/release programs, GOMAXPROCS) | (layout, reader type, mutations, cut); "
              "routes, versions and codecs are drawn uniformly. Non-trivial = at least 2 records and one of {compression, headers, nil/empty mix, value or key spanning pages, sub-ms timestamp, several batches, control or corrupt batch}, "
              "for the pool unit: some Bytes was held across a later decode; for the mutation unit: >= 2 records and a mutation, cut or second batch. Distinct by (options, per-message shape classes, label set) resp. (path, version, start, limit class, layout summary, labels) resp. the full schedule."),
        assumptions=["message times lie between 1 ms after the epoch and year 2200 (0 ms means 'no timestamp' to the library)", "a message larger than Writer.BatchBytes is refused by contract, BatchBytes is raised above the largest message",
                     "a compacted format-1 wrapper keeps relative inner offsets = offset - first retained offset and the last absolute offset on the wrapper (what the Kafka log cleaner writes)", "control batches and corrupt batches are served on the Client.Fetch path only",
                     "stored timestamps are >= 1 ms"],
        units=[
            dict(run="TestProduce", checks_quick=4000, checks_thorough=25000, shards_quick=2, shards_thorough=4, timeout=1500),
            dict(run="TestFetch", checks_quick=700, checks_thorough=5000, shards_quick=4, shards_thorough=8, timeout=1800),
            dict(run="TestPool", checks_quick=2000, checks_thorough=15000, shards_thorough=4, timeout=1500),
            dict(run="TestMutatedSets", checks_quick=4000, checks_thorough=40000, shards_quick=2, shards_thorough=4, timeout=1500),
            dict(run="TestPool", build="race", tier="thorough", checks_thorough=1500, timeout=1200),
            dict(run="FuzzRecordSetReadFrom", fuzz=True, tier="thorough", fuzztime_thorough="120s", timeout=400),
        ],
    ),
    "C06": dict(
        pkg="props/c06", level="exploration",
        technique="property-based testing (rapid) of generated concurrent programs with payload-tagged requests; adversarial response timing from the fake broker; schedule-point yields",
        level_text=("2-8 goroutines share one Conn (or 2-12 share one Transport to 1-3 brokers); every call asks for something only it asks for (a unique timestamp, topic, group, key, record value, byte limit) and the fake broker derives the answer from that tag. "
                    "Responses are delayed, dribbled byte by byte, held back while other calls proceed, cut or dropped; transport calls are cancelled at generated moments, idle connections expire, Conn deadlines fire; "
                    "schedule points inside waitResponse / doRequest / conn.run add yields. Oracle: every call returns an error or the answer carrying its own tag; produce acknowledgements are checked against the log. Also: requests the Transport splits into sub-requests (first one delayed), the deterministic pattern 'deadline ends while the answer is held, next call on the same route', fetch responses whose records are consumed lazily while other calls run, batches closed early and twice on three Conns used at the same time, a hammer of 6-16 goroutines released together by a spin barrier for hundreds of rounds (windows of a few instructions), a watchdog for calls that never return, and io.ErrNoProgress on a Conn whose responses were all delivered completely counts as a misaligned stream; in a third of the Conn cases a compressed write with a codec that cannot be set up fails first (what it leaves in the shared buffers must not matter). Conn call kind assignment: the opaque bytes a SyncGroup answer carries are kept by the caller as handed out and compared when every call of the case is over (an answer stays the answer of its call whatever the Conn reads later). A batch that was closed with compressed records unread is asked once more after another batch was decompressed (a closed batch delivers nothing)."),
        level_note="interleavings are sampled; a cross-talk that needs a specific interleaving may be missed in one run",
        rule=("case = (mode, goroutines x tagged calls with per-call broker fault and cancellation point, deadlines, schedule-point yields); non-trivial = >= 2 goroutines and at least one fault or cancellation; distinct by (mode, shape, fault multiset, labels)."),
        assumptions=["the fake answers requests of one connection in request order, as Kafka guarantees"],
        units=[
            dict(run="TestConnCrossTalk", checks_quick=300, checks_thorough=2000, shards_quick=2, shards_thorough=8),
            dict(run="TestTransportCrossTalk", checks_quick=300, checks_thorough=2000, shards_quick=2, shards_thorough=8),
            dict(run="TestConnHammer", checks_quick=8, checks_thorough=60, shards_quick=3, shards_thorough=8, timeout=2400),
        ],
    ),
    "C17": dict(
        pkg="props/c17", level="fault_enumeration",
        technique="fault enumeration over cut positions of well-formed responses (in-memory network delivers exactly k bytes, then EOF / RST / silence) at the Conn, Client+Transport and protocol level; model-based Reader/Writer scenarios with cuts at drawn positions",
        level_text=("(1) every response-reading Conn operation (ApiVersions, Controller, Brokers, ReadPartitions v1/v6, ReadFirst/Last/Offset(s), Seek, ReadBatch/Batch.ReadMessage/Batch.Read/Conn.ReadMessage/Conn.Read over fetch v2/v5/v10 and logs of format 0/1/2 with every codec, "
                    "WriteMessages/WriteCompressedMessages(At) produce v2/v3/v7, Create/DeleteTopics v0-v2, DialLeader, and the consumer-group operations through the verif-tag wrappers) x every response it waits for (incl. the implicit ApiVersions / ListOffsets exchanges) x cut position k; "
                    "(2) 16 kafka.Client calls through kafka.Transport x every registered version of their API x every response the call waits for (connection handshake, coordinator lookup, request) x k, and every registered API x version (158) with a reference-encoded generated response through protocol.Conn.RoundTrip and Transport.RoundTrip x k, plus the raw SASL token exchange; "
                    "(3) Reader (C02 delivery oracle) and Writer (C01 duplicate rule, C07 order rule, no-loss) runs whose n-th fetch/produce response is cut inside the size prefix, the header, a record batch or at a batch boundary. "
                    "Thorough tier: all k in [0,len] for frames <= 4 KiB (counter exhaustive_frames); larger frames: first/last 512 bytes, every field and batch boundary +-1, 256 drawn positions. "
                    "Oracle per cut: the call returns within its deadline + 2 s, returns an error unless the whole response it waits for arrived, never panics, returns only complete stored records (exact content) before the error, "
                    "a later operation on the Conn fails without writing a byte / the Transport, Reader and Writer send nothing more on that connection and the next call succeeds on a new one. Stall cases also with the operation's own deadline set once before the call and left alone while it runs."),
        level_note=("response values are sampled (1 generated value per (api,version) per round; fixed cluster state for Conn/Client operations), cut positions are enumerated; the stall variant (k bytes, then silence until the deadline) is sampled at a few positions per frame because each costs the deadline; "
                    "Client.Metadata is served from the Transport's cache, so a cut of the Transport's own metadata exchange may surface as an error or as the correct data of a later refresh; trusts the reference encoder and the fake broker's responses"),
        rule=("case = (layer, operation or api, negotiated version, response that is cut, k, variant eof|rst|stall [, log layout]) resp. a Reader/Writer scenario with a fault script; "
              "fingerprint = (operation/api, version, cut response, variant, field-at-cut from the reference encoder's field map or size-prefix/header/record-set region); non-trivial = 0 < k < len (scenarios: at least one response cut before its end). "
              "Labels: per operation, per API, per variant and per region of the cut."),
        assumptions=["the connection ends (EOF or RST) or goes silent after the k-th byte and never delivers anything afterwards", "one request in flight per connection (C06 covers shared connections)",
                     "fetch at the end of the log is excluded for calls without an explicit MaxWait (the response only comes after the long poll)"],
        units=[
            dict(run="TestConnOps", checks=None, shards_quick=3, shards_thorough=6, timeout=1500),
            dict(run="TestConnFetchGenerated", checks_quick=60, checks_thorough=600, shards_thorough=4, timeout=1500),
            dict(run="TestClientOps", checks=None, shards_quick=6, shards_thorough=8, timeout=1500),
            dict(run="TestEveryAPI", checks_quick=160, checks_thorough=1000, shards_thorough=6, timeout=1500),
            dict(run="TestSaslRawExchange", checks=None),
            dict(run="TestReaderScenario", checks_quick=150, checks_thorough=1000, shards_thorough=4, timeout=1500),
            dict(run="TestWriterScenario", checks_quick=150, checks_thorough=3000, shards_thorough=3, timeout=1500),
        ],
    ),
    "C15": dict(
        pkg="props/c15", level="exploration",
        technique="model-based property testing (rapid): generated histories of Next / Start / function exits / coordinator answers / Close against the fake coordinator, invariants over the recorded timeline and the coordinator journal",
        level_text=("A ConsumerGroup is driven directly: rounds of Next, Start of functions that wait / return early / linger / are started late, then an ending event (function return, heartbeat error code, dropped heartbeat connection, a heartbeat that is never answered (the generation ends after ConsumerGroupConfig.Timeout), "
                    "coordinator-signalled rebalance, partition count change seen by the watcher, Close, Close while an error is pending), with error codes and dropped connections injected into FindCoordinator/JoinGroup/SyncGroup/OffsetFetch/LeaveGroup "
                    "and yields at the schedule points around Start, function exit and the hand-over to Next. Invariants: Next never returns while a function of the previous generation runs; contexts end within 1 s of the ending event; "
                    "heartbeats carry the generation's ids, stop with it and keep coming while it lives; Close sends LeaveGroup for the member id of the last successful join; a failed join is not retried before JoinGroupBackoff. Functions may take longer to wind down (350-650 ms) than the group's RebalanceTimeout (300 ms); the hand-over still waits for them. Failing JoinGroup / SyncGroup answers may take about as long as JoinGroupBackoff."),
        level_note="time bounds: late-but-happened is inconclusive; violation only for never (4 s + intervals) or > 3 s late; the fake coordinator has no session timers; interleavings are sampled",
        rule=("case = (cluster, intervals, rounds with function specs and ending event, setup fault script, schedule-point yields); non-trivial = >= 2 generations or a generation ended by something other than Close; "
              "distinct by (layout, ending events, fault multiset, labels)."),
        assumptions=["'current member id' = the id returned by the last JoinGroup exchange before Close if that exchange succeeded and the coordinator still lists the member",
                     "error codes are injected only into APIs on which Kafka documents them"],
        units=[dict(run="TestGenerations", checks_quick=190, checks_thorough=1500, shards_quick=4, shards_thorough=16, timeout=2400)],
    ),
    "C09": dict(
        pkg="props/c09", level="exploration",
        technique="model-based property testing (rapid) with harness-owned schedule points: generated Close / cancel / use-after-close scenarios for Writer, Reader and Transport against the fake cluster, invariants over the journal, the call results and a goroutine / connection census",
        level_text=("Writer: generated writer scenarios (wsim) in which Close is issued while callers run, with calls parked at the schedule points writer.entered / writer.beforeBatch until Close has marked the writer closed, slow / failing brokers, retries and batch timers; "
                    "oracles: Close returns (a hang is confirmed by two identical goroutine dumps), every accepted message was sent and its Completion ran before Close returned, nothing is produced or completed after Close returned, WriteMessages after Close = io.ErrClosedPipe, no library goroutine is left. "
                    "Reader: plain and group readers with a call blocked in FetchMessage / CommitMessages, then Close or context end, against a normal / slow / fetch-stalling / heartbeat-stalling broker, also Close during a rebalance; oracles: bounded Close, LeaveGroup sent, no heartbeat / commit / fetch journalled after Close returned, "
                    "io.EOF after Close, context error on cancel within 1 s, goroutine and connection census. ConsumerGroup used directly: 1-3 members in the usual Next/Start loop, Close during the join, inside a generation, after a forced rebalance or with an error pending, against coordinator errors and stalls (JoinGroup, Heartbeat, OffsetCommit or LeaveGroup never answered); oracles: bounded Close, Next = ErrGroupClosed afterwards, no group request after Close, goroutine and connection census. Transport: round trips with a stalled response or a black-holed dial return the context's error when the context ends. Reader stratum commit-flood: with interval commits and a coordinator that does not answer OffsetCommit the application goes on committing until the commit queue is full and CommitMessages itself blocks; its context then ends. Reader stratum setoffset-loop: Close while the application keeps calling SetOffset."),
        level_note="interleavings are sampled (schedule points own the known windows, the rest is the Go scheduler); 'bounded' = watchdogs of several seconds, late-but-returned is inconclusive; goroutine census by stack dump",
        rule=("case = (scenario, schedule table, broker behaviour, blocked call, ending event); non-trivial = Close or context end overlapped a call in flight (a caller returned after Close started, a call was parked at a schedule point, or a call was blocked when the event fired); "
              "distinct by the case value."),
        assumptions=["a CommitMessages call blocked with a live context when the Reader is closed is not covered by the statement (observation only)",
                     "network timeouts in the scenarios are <= 5 s, so goroutines may outlive Close by that much"],
        units=[
            dict(run="TestWriterClose", checks_quick=250, checks_thorough=2500, shards_quick=4, shards_thorough=12, timeout=2400),
            dict(run="TestReaderClose", checks_quick=40, checks_thorough=300, shards_quick=6, shards_thorough=16, timeout=2400),
            dict(run="TestTransportCancel", checks_quick=150, checks_thorough=2000, shards_quick=1, shards_thorough=4, timeout=1200),
            dict(run="TestGroupClose", checks_quick=30, checks_thorough=300, shards_quick=4, shards_thorough=12, timeout=2400),
        ],
    ),
    "C10": dict(
        pkg="props/c10", level="exploration", race=True, replay_repeat=30,
        technique="property-based testing (rapid) of generated concurrent client programs under the Go race detector: the detector's reports are the oracle, read back per program and given a signature (innermost library frames of the two conflicting accesses)",
        level_text=("Programs of 2-4 goroutines, each a short list of exported-method calls (repeated 1-100 times) on ONE shared value of a type documented as goroutine-safe, run against the fake cluster in a binary built with -race: "
                    "Writer (sync/async, several balancers: WriteMessages, cancelled WriteMessages, Stats, Close), Reader (FetchMessage, ReadMessage, SetOffset, SetOffsetAt, Offset, Lag, ReadLag, Stats, Config, Close), "
                    "group Reader (plus CommitMessages, sync and interval commits), Conn (deadline setters, Offset, Seek in all modes, ReadOffsets, WriteMessages, WriteCompressedMessages, ReadBatch+ReadMessage, Read, ReadPartitions, Brokers, Controller, ApiVersions, Close), "
                    "Batch (Read, ReadMessage, Offset, HighWaterMark, Throttle, Partition, Err, Close), Client over one Transport (Metadata, ListOffsets, Produce, Fetch, CreateTopics, OffsetFetch, OffsetCommit, ListGroups, DescribeGroups, ApiVersions, ConsumerOffsets, CloseIdleConnections; short and long metadata TTL), "
                    "every built-in balancer, every compression codec value. Environment events run inside the programs (brokers added / dropped, leaders moved, group rebalances), a plain sleep at a schedule point (writer/reader closeMarked) widens the window after Close marked the value closed without adding synchronisation, a Transport with a TLS configuration is shared by two cluster addresses, codecs and batches are closed twice, Batch.Read gets buffers shorter than the value, Seek is also called with SeekDontCheck, the codec value the threads share has not been used before they start. After each program the number of detector reports (runtime.RaceErrors) is compared and the new reports are parsed from the detector's log. Client programs also run over a Transport with a Resolver."),
        level_note="a race is only reported when the two accesses actually overlap in the sampled schedule; absence of reports is not absence of races. Races between harness goroutines only stop the run as an infrastructure error",
        rule=("case = (subject type, variant, records in the log, per-goroutine operation lists, repetitions); non-trivial = calls of two different goroutines on the shared value were in progress at the same time (measured); distinct by the case value."),
        assumptions=["the fake cluster and in-memory network are themselves race-free (a report without a library frame is treated as a harness fault, exit 2)",
                     "a panic recovered in a caller's goroutine is recorded as an observation, not judged by this property"],
        units=[
            dict(run="TestWriterPrograms", checks_quick=60, checks_thorough=700, shards_quick=2, shards_thorough=2, timeout=2400),
            dict(run="TestReaderPrograms", checks_quick=60, checks_thorough=700, shards_quick=2, shards_thorough=2, timeout=2400),
            dict(run="TestGroupReaderPrograms", checks_quick=40, checks_thorough=500, shards_quick=2, shards_thorough=2, timeout=2400),
            dict(run="TestConnPrograms", checks_quick=60, checks_thorough=700, shards_quick=2, shards_thorough=2, timeout=2400),
            dict(run="TestBatchPrograms", checks_quick=100, checks_thorough=1500, shards_quick=1, shards_thorough=2, timeout=2400),
            dict(run="TestClientPrograms", checks_quick=60, checks_thorough=700, shards_quick=2, shards_thorough=2, timeout=2400),
            dict(run="TestBalancerPrograms", checks_quick=100, checks_thorough=1500, shards_quick=1, shards_thorough=1, timeout=2400),
            dict(run="TestCodecPrograms", checks_quick=60, checks_thorough=600, shards_quick=1, shards_thorough=1, timeout=2400),
        ],
    ),
    "C03": dict(
        pkg="props/c03", level="exploration",
        technique="model-based property testing (rapid): generated consumer-group histories (members joining, leaving, crashing, evicted; rebalances; coordinator faults) with invariants over the coordinator journal and the application-side log",
        level_text=("1-4 group Readers run a generated history against the fake coordinator: join, Close, crash (network severed, later evicted), forced rebalance, FetchMessage, CommitMessages of chosen fetched messages (also out of order), "
                    "ReadMessage, appends, with error codes / dropped connections / lost acknowledgements injected into FindCoordinator, JoinGroup, SyncGroup, Heartbeat, OffsetCommit, OffsetFetch and Fetch; sync and interval commits, single- and multi-topic, range and roundrobin. "
                    "Invariants over the globally sequenced journal: I1 an acknowledged commit never exceeds 1 + the highest offset the member's application had passed; I2 a synchronous CommitMessages returning nil is backed by an acknowledged commit; "
                    "I3 every offset below an acknowledged commit had been delivered to some member before; I4 per member and partition deliveries are consecutive runs, each starting where an OffsetFetch answered to that member said; I5 at quiescence everything was delivered (inconclusive if not). The coordinator may list the partitions of an OffsetFetch answer in another order than asked."),
        level_note="heaviest reliance on the fake coordinator's fidelity (Java-broker state machine, no session timers; evictions on harness command); real timers (heartbeat, commit ticker, rebalance timeout) are sampled",
        rule=("case = (cluster, members with commit mode, history steps, coordinator fault script); non-trivial = at least one rebalance (SyncGroup answered) after the first delivery; distinct by (shape, op multiset, fault count, labels)."),
        assumptions=["a message returned by ReadMessage together with a commit error counts as delivered and uncommitted", "with StartOffset=LastOffset the start position of an uncommitted partition is not reconstructed (I3/I5 are then not evaluated)"],
        units=[dict(run="TestGroupHistories", checks_quick=40, checks_thorough=220, shards_quick=6, shards_thorough=16, timeout=3000)],
    ),
}
