"""Per-property run configuration for /verif/check.

units: one process per (unit, shard).  `checks_*` is -rapid.checks for rapid
units (None for plain enumerations, which size themselves from VERIF_TIER).
"""

HOOK_COMMITS = []

NOT_APPLICABLE = {}

CHECKS = {
    "C13": dict(
        pkg="props/c13", level="exploration",
        technique="property-based testing (rapid) + exhaustive small-key enumeration against independent reference partitioners",
        level_text=("Differential against independently written FNV-1a/CRC-32/murmur2 partitioners: every 0..2-byte key x partition counts "
                    "enumerated, longer keys generated; model-based sequences for RoundRobin and LeastBytes, incl. concurrent callers. "
                    "Exploration is the right level: the domain is unbounded, but the hash functions have no key-length-specific branches beyond length mod 4."),
        level_note="trusts the reference formulas (DESIGN.md A.4) and that Writer offers partitions 0..n-1",
        rule=("cases = (balancer, key, partition count) triples, RoundRobin call sequences and LeastBytes size sequences; "
              "enumerated: nil, empty and every 1- and 2-byte key x partition counts (all 1..64 in thorough) x 6 hashing balancers; "
              "generated: rapid keys of every length mod 4, high-bit bytes, up to 1 KiB, counts up to 100000. "
              "Non-trivial = the reference client hashes the key deterministically (not a 'any partition' rule), or a "
              "RoundRobin/LeastBytes sequence with >1 partition and >1 call; distinct by (balancer,key,n) or by the case value."),
        assumptions=["reference FNV-1a/CRC-32/murmur2 and partitioner formulas are written from the Sarama, librdkafka and Java client definitions",
                     "partition lists are 0..n-1 as Writer supplies them"],
        units=[
            dict(run="TestSmallKeysExhaustive", checks=None, timeout=1200),
            dict(run="TestRandomKeys", checks_quick=20000, checks_thorough=400000, shards_thorough=4),
            dict(run="TestRoundRobin", checks_quick=3000, checks_thorough=60000, shards_thorough=2),
            dict(run="TestLeastBytes", checks_quick=3000, checks_thorough=60000, shards_thorough=2),
        ],
        exhaustive_thorough=False,
    ),
    "C14": dict(
        pkg="props/c14", level="exploration",
        technique="property-based testing (rapid) + exhaustive enumeration of small groups against a validity predicate",
        level_text=("Validity predicate of the statement (exactly-once, subscribers only, per-topic balance <=1, contiguous / k-th runs, "
                    "order independence, rack bound) evaluated on every group with <=4 members x 2 topics x <=5 partitions x all listing orders, "
                    "every rack placement for rack-affinity (<=4 members, <=6 partitions), each rack-affinity case re-run in fresh maps; plus generated groups up to 30 members x 200 partitions."),
        level_note="RackAffinity map-iteration orders are sampled (6-8 runs per case), not enumerated",
        rule=("cases = (balancer, members with subscriptions and racks, listed partitions with leader racks, listing permutation); "
              "enumerated small groups (quick: 1/12 slice chosen by seed) + rapid-generated groups. Non-trivial = some topic has >=2 subscribers and >=1 partition; "
              "distinct by the full case value (enumerated cases are distinct by construction)."),
        assumptions=["member ids are distinct and each member lists a topic at most once", "partition ids of a topic are 0..P-1"],
        units=[
            dict(run="TestExhaustiveSmall", checks=None, timeout=1800),
            dict(run="TestRandomGroups", checks_quick=20000, checks_thorough=300000, shards_thorough=4),
        ],
    ),
    "C04": dict(
        pkg="props/c04", level="exploration",
        builds={"default": "", "unsafe": "unsafe"},
        technique="differential property-based testing (rapid) of both codecs against an independent reference codec with a pinned schema table; round-trip; wire capture of Conn requests",
        level_text=("Every registered API x version x direction: generated field values are encoded by the library and strictly decoded by the "
                    "reference codec (size prefix, header, every field, no trailing bytes; byte-identical for non-flexible versions), "
                    "reference-encoded responses (with unknown tagged fields) are decoded by the library and compared field by field, one frame consumed exactly; "
                    "library-only round trip; both the default and the `unsafe` build of the protocol package. Exploration: values are sampled, (api,version,direction) is covered completely."),
        level_note="trusts the pinned schema table refcodec/schema_table.go (reviewed against the Kafka message definitions; deviations listed in DESIGN.md) and the reference primitives (self-tested in setup)",
        rule=("case = (api, version, direction, generated value tree); rapid draws api and version uniformly from the 40 registered APIs, values from boundary-biased generators "
              "(null/empty/long strings, empty/null/>127-element arrays, int min/max, unknown tags). Non-trivial = at least one field present at that version has a non-default value; "
              "distinct by (api, version, direction, shape of the value tree)."),
        assumptions=["schema table pinned at the reviewed commit", "nullable strings: the library cannot express \"\" vs null; requests use null-or-non-empty, responses are compared with null==empty"],
        units=[
            dict(run="TestRequestEncode", checks_quick=15000, checks_thorough=400000, shards_thorough=4),
            dict(run="TestResponseDecode", checks_quick=10000, checks_thorough=300000, shards_thorough=4),
            dict(run="TestRoundTrip", checks_quick=10000, checks_thorough=300000, shards_thorough=2),
            dict(run="TestRequestEncode", build="unsafe", checks_quick=6000, checks_thorough=100000),
            dict(run="TestResponseDecode", build="unsafe", checks_quick=6000, checks_thorough=100000),
            dict(run="TestRoundTrip", build="unsafe", checks_quick=5000, checks_thorough=100000),
        ],
    ),
    "C01": dict(
        pkg="props/c01", level="exploration",
        technique="model-based property testing (rapid): generated Writer programs and produce-fault scripts against an in-memory fake cluster, oracle over the wire journal",
        level_text=("Generated scenarios (1-4 concurrent callers, 1-2 topics x 1-4 partitions, every batch/acks/compression/balancer setting, produce v2..v8) run the real Writer against the fake cluster, "
                    "which injects per-request faults (temporary/permanent codes, dropped before/after apply, cut responses, stalls, leader moves). Oracle over the journal: partition = balancer's choice, "
                    "nil/WriteErrors[i] == acknowledged, Completion exactly once with the same outcome, no resend after a delivered acknowledgement."),
        level_note="caller interleavings and timers are sampled, not enumerated; trusts the fake broker's produce semantics (DESIGN A.6) and the reference record decoder",
        rule=("case = (cluster layout, writer config, caller programs, fault script per produce request); every 3rd case is built from one of 5 strata (lost ack + retry, permanent error, mixed outcome in one call, async, stalled request). "
              "Non-trivial = at least one fault hit a produce request or two callers shared a partition; distinct by (config class, fault-kind multiset, label set)."),
        assumptions=["fake broker applies a produce request atomically and answers in request order", "an acknowledgement counts as delivered when the response frame was written completely to a connection the client had not closed"],
        units=[
            dict(run="TestWriterFaults", checks_quick=350, checks_thorough=1500, shards_quick=4, shards_thorough=16, timeout=1500),
        ],
    ),
}
