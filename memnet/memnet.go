// Package memnet is an in-memory network with fault injection and a journal.
// It provides dial functions for kafka.Dialer.DialFunc and kafka.Transport.Dial
// and hands the server side of every connection to a handler.
package memnet

import (
	"context"
	"errors"
	"fmt"
	"io"
	"net"
	"os"
	"sync"
	"sync/atomic"
	"syscall"
	"time"
)

// Addr is a net.Addr with a fixed network and address.
type Addr struct{ Net, Address string }

func (a Addr) Network() string { return a.Net }
func (a Addr) String() string  { return a.Address }

// ---------------------------------------------------------------------------
// one direction of a connection

type pipe struct {
	mu     sync.Mutex
	buf    []byte
	notify chan struct{} // closed and replaced on every state change
	// writer side
	wclosed bool  // no more writes; reader sees EOF (or rerr) after draining
	rerr    error // error the reader sees after draining (default io.EOF)
	// reader side
	rclosed bool // reader went away; writes fail
	// delivery controls (set by the harness on the server->client direction)
	held    bool // reader does not see buffered data while held
	maxRead int  // max bytes returned per Read (0 = unlimited)
	budget  int  // if >= 0: deliver at most this many more bytes, then rerr
	// write stall (set by the harness on the client->server direction): after wstallAfter more bytes have been accepted,
	// writes block until wstallUntil (a peer that stops reading: the sender's window closes), then go on
	sinkWhenClosed bool // set by MarkDead on the client->server direction
	wstall         bool
	wstallAfter    int
	wstallUntil    time.Time
	// accounting
	written, read int64
	rdl, wdl      time.Time
}

func newPipe() *pipe { return &pipe{notify: make(chan struct{}), budget: -1} }

func (p *pipe) wake() {
	close(p.notify)
	p.notify = make(chan struct{})
}

type timeoutError struct{}

func (timeoutError) Error() string   { return "i/o timeout" }
func (timeoutError) Timeout() bool   { return true }
func (timeoutError) Temporary() bool { return true }
func (timeoutError) Unwrap() error   { return os.ErrDeadlineExceeded }

var errTimeout error = timeoutError{}

func deadlineChan(d time.Time) (<-chan time.Time, *time.Timer, bool) {
	if d.IsZero() {
		return nil, nil, false
	}
	dur := time.Until(d)
	if dur <= 0 {
		return nil, nil, true
	}
	t := time.NewTimer(dur)
	return t.C, t, false
}

func (p *pipe) Read(b []byte, localClosed *atomic.Bool) (int, error) {
	for {
		p.mu.Lock()
		if localClosed.Load() {
			p.mu.Unlock()
			return 0, net.ErrClosed
		}
		avail := len(p.buf)
		if p.held {
			avail = 0
		}
		if p.budget >= 0 && avail > p.budget {
			avail = p.budget
		}
		if avail > 0 && len(b) > 0 {
			n := avail
			if n > len(b) {
				n = len(b)
			}
			if p.maxRead > 0 && n > p.maxRead {
				n = p.maxRead
			}
			copy(b, p.buf[:n])
			p.buf = p.buf[n:]
			p.read += int64(n)
			if p.budget >= 0 {
				p.budget -= n
			}
			p.wake()
			p.mu.Unlock()
			return n, nil
		}
		if len(b) == 0 {
			p.mu.Unlock()
			return 0, nil
		}
		if !p.held && (p.budget == 0 || (p.wclosed && len(p.buf) == 0)) {
			err := p.rerr
			if err == nil {
				err = io.EOF
			}
			p.mu.Unlock()
			return 0, err
		}
		ch := p.notify
		dl := p.rdl
		p.mu.Unlock()
		tc, timer, expired := deadlineChan(dl)
		if expired {
			return 0, errTimeout
		}
		select {
		case <-ch:
		case <-tc:
			return 0, errTimeout
		}
		if timer != nil {
			timer.Stop()
		}
	}
}

func (p *pipe) Write(b []byte, localClosed *atomic.Bool) (int, error) {
	n := 0
	for {
		p.mu.Lock()
		if localClosed.Load() {
			p.mu.Unlock()
			return n, net.ErrClosed
		}
		if !p.wdl.IsZero() && !time.Now().Before(p.wdl) {
			p.mu.Unlock()
			return n, errTimeout
		}
		if p.rclosed && p.sinkWhenClosed {
			// the peer is gone, but as on TCP the local write still "succeeds" (the reset arrives later): counted, discarded
			p.written += int64(len(b) - n)
			p.mu.Unlock()
			return len(b), nil
		}
		if p.rclosed {
			p.mu.Unlock()
			return n, &net.OpError{Op: "write", Net: "mem", Err: syscall.EPIPE}
		}
		if p.wclosed {
			p.mu.Unlock()
			return n, net.ErrClosed
		}
		room := len(b) - n
		if p.wstall {
			if !time.Now().Before(p.wstallUntil) {
				p.wstall = false
			} else if room > p.wstallAfter {
				room = p.wstallAfter
			}
		}
		if room > 0 {
			p.buf = append(p.buf, b[n:n+room]...)
			p.written += int64(room)
			if p.wstall {
				p.wstallAfter -= room
			}
			n += room
			p.wake()
		}
		if n == len(b) {
			p.mu.Unlock()
			return n, nil
		}
		// stalled: wait for the end of the stall, the write deadline or a state change
		ch := p.notify
		dl := p.wdl
		until := p.wstallUntil
		p.mu.Unlock()
		tc, timer, expired := deadlineChan(dl)
		if expired {
			return n, errTimeout
		}
		st := time.NewTimer(time.Until(until))
		select {
		case <-ch:
		case <-st.C:
		case <-tc:
			st.Stop()
			return n, errTimeout
		}
		st.Stop()
		if timer != nil {
			timer.Stop()
		}
	}
}

func (p *pipe) closeWrite(err error) {
	p.mu.Lock()
	if !p.wclosed {
		p.wclosed = true
		if p.rerr == nil || p.rerr == io.EOF {
			p.rerr = err
		}
		p.wake()
	}
	p.mu.Unlock()
}

func (p *pipe) closeRead() {
	p.mu.Lock()
	if !p.rclosed {
		p.rclosed = true
		p.wake()
	}
	p.mu.Unlock()
}

// ---------------------------------------------------------------------------
// connection ends

// ConnInfo is the journal record of one connection.
type ConnInfo struct {
	ID     int
	Addr   string
	Dialed time.Time
	conn   *pair
}

type pair struct {
	id        int
	addr      string
	c2s, s2c  *pipe
	clientEnd *end
	serverEnd *end
	net       *Network
	// first side to close: "client", "server" or ""
	closedBy atomic.Value
	// dead is set by the harness when it declares the connection dead (cut);
	// client bytes written afterwards are counted.
	dead           atomic.Bool
	writtenAtDeath atomic.Int64
	clientClosedAt atomic.Int64
}

type end struct {
	p        *pair
	isClient bool
	closed   atomic.Bool
}

func (e *end) rp() *pipe {
	if e.isClient {
		return e.p.s2c
	}
	return e.p.c2s
}
func (e *end) wp() *pipe {
	if e.isClient {
		return e.p.c2s
	}
	return e.p.s2c
}

func (e *end) Read(b []byte) (int, error) {
	n, err := e.rp().Read(b, &e.closed)
	if err != nil && err != io.EOF && !errors.Is(err, os.ErrDeadlineExceeded) && !errors.Is(err, net.ErrClosed) {
		err = &net.OpError{Op: "read", Net: "mem", Err: err}
	}
	return n, err
}

func (e *end) Write(b []byte) (int, error) { return e.wp().Write(b, &e.closed) }

func (e *end) Close() error {
	if e.closed.Swap(true) {
		return net.ErrClosed
	}
	who := "server"
	if e.isClient {
		who = "client"
		e.p.clientClosedAt.Store(time.Now().UnixNano())
	}
	e.p.closedBy.CompareAndSwap(nil, who)
	e.wp().closeWrite(nil)
	e.rp().closeRead()
	// wake a reader blocked on our own read side
	rp := e.rp()
	rp.mu.Lock()
	rp.wake()
	rp.mu.Unlock()
	return nil
}

func (e *end) LocalAddr() net.Addr {
	if e.isClient {
		return Addr{"tcp", fmt.Sprintf("client:%d", e.p.id)}
	}
	return Addr{"tcp", e.p.addr}
}
func (e *end) RemoteAddr() net.Addr {
	if e.isClient {
		return Addr{"tcp", e.p.addr}
	}
	return Addr{"tcp", fmt.Sprintf("client:%d", e.p.id)}
}
func (e *end) SetDeadline(t time.Time) error {
	e.SetReadDeadline(t)
	e.SetWriteDeadline(t)
	return nil
}
func (e *end) SetReadDeadline(t time.Time) error {
	p := e.rp()
	p.mu.Lock()
	p.rdl = t
	p.wake()
	p.mu.Unlock()
	return nil
}
func (e *end) SetWriteDeadline(t time.Time) error {
	p := e.wp()
	p.mu.Lock()
	p.wdl = t
	p.mu.Unlock()
	return nil
}

// ServerConn is the broker side of a connection with the fault controls.
type ServerConn struct {
	*end
}

// ID is the connection's sequence number in the network.
func (s *ServerConn) ID() int { return s.p.id }

// Addr is the address that was dialled.
func (s *ServerConn) Addr() string { return s.p.addr }

// CutAfter lets the client receive at most k more bytes (counting bytes
// already buffered but not yet read), after which its reads fail with EOF
// (rst=false) or ECONNRESET (rst=true).  The connection is declared dead.
func (s *ServerConn) CutAfter(k int, rst bool) {
	p := s.p.s2c
	p.mu.Lock()
	p.budget = k
	if rst {
		p.rerr = syscall.ECONNRESET
	} else {
		p.rerr = io.EOF
	}
	p.wake()
	p.mu.Unlock()
	s.MarkDead()
}

// Abort ends the server->client direction: after the bytes already written
// have been read, the client's reads fail with EOF (rst=false) or ECONNRESET.
// Client writes still "succeed" (as on a half-dead TCP connection) and are
// counted as written after the cut.
func (s *ServerConn) Abort(rst bool) {
	var err error = io.EOF
	if rst {
		err = syscall.ECONNRESET
	}
	// declared dead before the client can observe the end of the stream, so that
	// ClientWroteAfterCut never counts bytes written before the cut
	s.MarkDead()
	s.p.s2c.closeWrite(err)
}

// MarkDead records that, from the harness' point of view, the client must not
// use this connection any more; later client writes are counted.
func (s *ServerConn) MarkDead() {
	// the byte count is stored before the flag becomes visible: a concurrent
	// Conns() must never see Dead with a zero baseline
	s.p.c2s.mu.Lock()
	if !s.p.dead.Load() {
		s.p.writtenAtDeath.Store(s.p.c2s.written)
		s.p.dead.Store(true)
		s.p.c2s.sinkWhenClosed = true
	}
	s.p.c2s.mu.Unlock()
}

// SetChunk limits how many bytes a single client Read returns (0 = no limit).
func (s *ServerConn) SetChunk(n int) {
	p := s.p.s2c
	p.mu.Lock()
	p.maxRead = n
	p.mu.Unlock()
}

// StallClientWrites makes the client's writes on this connection block, after `after` more bytes were accepted, for d
// (the peer has stopped reading and the sender's window is full); afterwards they go on as if nothing had happened.
func (s *ServerConn) StallClientWrites(after int, d time.Duration) {
	p := s.p.c2s
	p.mu.Lock()
	p.wstall, p.wstallAfter, p.wstallUntil = true, after, time.Now().Add(d)
	p.wake()
	p.mu.Unlock()
}

// Hold stops delivery of server->client bytes until Release.
func (s *ServerConn) Hold() {
	p := s.p.s2c
	p.mu.Lock()
	p.held = true
	p.mu.Unlock()
}

// Release resumes delivery.
func (s *ServerConn) Release() {
	p := s.p.s2c
	p.mu.Lock()
	p.held = false
	p.wake()
	p.mu.Unlock()
}

// ClientClosed reports whether the client closed its end.
func (s *ServerConn) ClientClosed() bool { return s.p.clientEnd.closed.Load() }

// Stats returns bytes written by the server, bytes the client has consumed of
// them, and bytes written by the client.
func (s *ServerConn) Stats() (serverWritten, clientRead, clientWritten int64) {
	s.p.s2c.mu.Lock()
	serverWritten, clientRead = s.p.s2c.written, s.p.s2c.read
	s.p.s2c.mu.Unlock()
	s.p.c2s.mu.Lock()
	clientWritten = s.p.c2s.written
	s.p.c2s.mu.Unlock()
	return
}

// ---------------------------------------------------------------------------
// network

// Handler serves the broker side of one connection; it runs in its own goroutine.
type Handler func(c *ServerConn)

// Network maps addresses to handlers.
type Network struct {
	mu        sync.Mutex
	handlers  map[string]Handler
	refuse    map[string]error
	blackhole map[string]bool
	conns     []*pair
	dials     int
	down      bool
	wg        sync.WaitGroup
}

func New() *Network {
	return &Network{handlers: map[string]Handler{}, refuse: map[string]error{}, blackhole: map[string]bool{}}
}

// Listen registers the handler of an address ("host:port").
func (n *Network) Listen(addr string, h Handler) {
	n.mu.Lock()
	n.handlers[addr] = h
	n.mu.Unlock()
}

// Refuse makes dials to addr fail with err (nil clears).
func (n *Network) Refuse(addr string, err error) {
	n.mu.Lock()
	if err == nil {
		delete(n.refuse, addr)
	} else {
		n.refuse[addr] = err
	}
	n.mu.Unlock()
}

// Blackhole makes addr accept connections and never answer (nor read).
func (n *Network) Blackhole(addr string, on bool) {
	n.mu.Lock()
	n.blackhole[addr] = on
	n.mu.Unlock()
}

// Dial implements the signature of kafka.Dialer.DialFunc and kafka.Transport.Dial.
func (n *Network) Dial(ctx context.Context, network, addr string) (net.Conn, error) {
	if err := ctx.Err(); err != nil {
		return nil, err
	}
	n.mu.Lock()
	n.dials++
	if err := n.refuse[addr]; err != nil {
		n.mu.Unlock()
		return nil, &net.OpError{Op: "dial", Net: network, Addr: Addr{network, addr}, Err: err}
	}
	h := n.handlers[addr]
	bh := n.blackhole[addr]
	if n.down {
		h, bh = nil, false
	}
	if h == nil && !bh {
		n.mu.Unlock()
		return nil, &net.OpError{Op: "dial", Net: network, Addr: Addr{network, addr}, Err: syscall.ECONNREFUSED}
	}
	p := &pair{id: len(n.conns) + 1, addr: addr, c2s: newPipe(), s2c: newPipe(), net: n}
	p.clientEnd = &end{p: p, isClient: true}
	p.serverEnd = &end{p: p}
	n.conns = append(n.conns, p)
	if !bh {
		n.wg.Add(1) // under the lock: Shutdown marks the network down before it waits
	}
	n.mu.Unlock()
	if !bh {
		go func() {
			defer n.wg.Done()
			h(&ServerConn{p.serverEnd})
		}()
	}
	return p.clientEnd, nil
}

// ConnSummary describes one connection for censuses and journals.
type ConnSummary struct {
	ID                  int
	Addr                string
	ClientClosed        bool
	ServerClosed        bool
	ClosedBy            string
	ClientWritten       int64
	ServerWritten       int64
	ClientRead          int64
	Dead                bool
	ClientWroteAfterCut int64
}

// Conns returns a summary of every connection dialled so far.
func (n *Network) Conns() []ConnSummary {
	n.mu.Lock()
	ps := append([]*pair{}, n.conns...)
	n.mu.Unlock()
	out := make([]ConnSummary, 0, len(ps))
	for _, p := range ps {
		s := ConnSummary{ID: p.id, Addr: p.addr, ClientClosed: p.clientEnd.closed.Load(), ServerClosed: p.serverEnd.closed.Load(), Dead: p.dead.Load()}
		if v, _ := p.closedBy.Load().(string); v != "" {
			s.ClosedBy = v
		}
		p.c2s.mu.Lock()
		s.ClientWritten = p.c2s.written
		p.c2s.mu.Unlock()
		p.s2c.mu.Lock()
		s.ServerWritten, s.ClientRead = p.s2c.written, p.s2c.read
		p.s2c.mu.Unlock()
		if s.Dead {
			s.ClientWroteAfterCut = s.ClientWritten - p.writtenAtDeath.Load()
		}
		out = append(out, s)
	}
	return out
}

// OpenClientConns counts connections whose client end is not closed.
func (n *Network) OpenClientConns() int {
	k := 0
	for _, c := range n.Conns() {
		if !c.ClientClosed {
			k++
		}
	}
	return k
}

// Dials returns the number of dial attempts.
func (n *Network) Dials() int {
	n.mu.Lock()
	defer n.mu.Unlock()
	return n.dials
}

// Shutdown closes the server side of every connection and waits for handlers.
func (n *Network) Shutdown() {
	n.mu.Lock()
	n.down = true // later dials are refused
	ps := append([]*pair{}, n.conns...)
	n.mu.Unlock()
	for _, p := range ps {
		p.serverEnd.Close()
	}
	done := make(chan struct{})
	go func() { n.wg.Wait(); close(done) }()
	select {
	case <-done:
	case <-time.After(5 * time.Second):
	}
}

// AbortConn ends the server->client direction of connection id as Abort does
// and closes the client->server direction for the broker (the handler's reads
// fail), as if the client's host had vanished from the network.
func (n *Network) AbortConn(id int, rst bool) bool {
	n.mu.Lock()
	var p *pair
	for _, c := range n.conns {
		if c.id == id {
			p = c
		}
	}
	n.mu.Unlock()
	if p == nil {
		return false
	}
	sc := &ServerConn{p.serverEnd}
	sc.Abort(rst)
	p.serverEnd.Close()
	return true
}

// ConnID extracts the connection id from the client end returned by Dial (0 if
// the value is not a memnet connection).
func ConnID(c net.Conn) int {
	if e, ok := c.(*end); ok {
		return e.p.id
	}
	return 0
}
