#!/bin/sh
# Offline setup: warm the Go build cache for the harness and the library.
set -e
cd /verif
export GOFLAGS=-mod=mod GOPROXY=off GOSUMDB=off GOTOOLCHAIN=local
go build ./internal/... 
go vet -tags verif ./internal/ev >/dev/null 2>&1 || true
go test -tags verif -vet=off -count=1 -run '^$' ./props/... >/dev/null
echo setup ok
