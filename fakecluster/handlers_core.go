package fakecluster

import (
	"sort"
	"time"

	"verif/refcodec"
)

// ApiVersions: the broker's table.  A request version the broker does not
// support is answered with a v0 body and UNSUPPORTED_VERSION, as brokers do.
func (c *Cluster) hApiVersions(b *Broker, r *Request, act *Action) map[string]any {
	c.mu.Lock()
	defer c.mu.Unlock()
	keys := make([]int, 0, len(b.Versions))
	for k := range b.Versions {
		keys = append(keys, int(k))
	}
	sort.Ints(keys)
	var list []any
	for _, k := range keys {
		if c.hiddenAPIs[int16(k)] {
			continue
		}
		v := b.Versions[int16(k)]
		list = append(list, map[string]any{"ApiKey": int64(k), "MinVersion": int64(v[0]), "MaxVersion": int64(v[1])})
	}
	return map[string]any{"ErrorCode": int64(act.ErrorCode), "ApiKeys": list}
}

func (c *Cluster) brokerList() []any {
	var out []any
	for _, id := range c.liveIDs() {
		b := c.brokers[id]
		var rack any
		if b.Rack != "" {
			rack = b.Rack
		}
		out = append(out, map[string]any{"NodeID": int64(b.ID), "Host": b.Host, "Port": int64(b.Port), "Rack": rack})
	}
	return out
}

func (c *Cluster) topicMeta(t *Topic) map[string]any {
	var parts []any
	for _, p := range t.Partitions {
		code := int64(0)
		if b := c.brokers[p.Leader]; b == nil || !b.Alive {
			code = ErrLeaderNotAvailable
		}
		parts = append(parts, map[string]any{"ErrorCode": code, "PartitionIndex": int64(p.ID), "LeaderID": int64(p.Leader), "LeaderEpoch": int64(0),
			"ReplicaNodes": i32s(p.Replicas), "IsrNodes": i32s(p.ISR), "OfflineReplicas": i32s(p.Offline)})
	}
	if parts == nil {
		parts = []any{}
	}
	if c.ReversePartitionOrder {
		// brokers do not promise to list the partitions of a topic by increasing id
		for i, j := 0, len(parts)-1; i < j; i, j = i+1, j-1 {
			parts[i], parts[j] = parts[j], parts[i]
		}
	}
	return map[string]any{"ErrorCode": int64(0), "Name": t.Name, "IsInternal": t.Internal, "Partitions": parts}
}

func (c *Cluster) hMetadata(b *Broker, r *Request, act *Action) map[string]any {
	c.mu.Lock()
	defer c.mu.Unlock()
	var topics []any
	names, isNull := r.Body["TopicNames"].([]any)
	if r.Body["TopicNames"] == nil {
		isNull = true
	} else {
		isNull = false
	}
	all := isNull || (r.Version == 0 && len(names) == 0)
	if all {
		var ns []string
		for n := range c.topics {
			ns = append(ns, n)
		}
		sort.Strings(ns)
		for _, n := range ns {
			topics = append(topics, c.topicMeta(c.topics[n]))
		}
	} else {
		for _, n := range names {
			name, _ := n.(string)
			t := c.topics[name]
			auto := true
			if r.Version >= 4 {
				auto, _ = r.Body["AllowAutoTopicCreation"].(bool)
			}
			if t == nil && auto && c.AutoCreate > 0 {
				t = c.createTopicLocked(name, c.AutoCreate)
			}
			if t == nil {
				topics = append(topics, map[string]any{"ErrorCode": int64(ErrUnknownTopicOrPartition), "Name": name, "Partitions": []any{}})
				continue
			}
			topics = append(topics, c.topicMeta(t))
		}
	}
	if topics == nil {
		topics = []any{}
	}
	if act.ErrorCode != 0 {
		for _, t := range topics {
			tm := t.(map[string]any)
			if act.ErrorField == "partition" {
				for _, p := range tm["Partitions"].([]any) {
					p.(map[string]any)["ErrorCode"] = int64(act.ErrorCode)
				}
			} else {
				tm["ErrorCode"] = int64(act.ErrorCode)
			}
		}
	}
	return map[string]any{"Brokers": c.brokerList(), "ClusterID": c.clusterID, "ControllerID": int64(c.controller), "Topics": topics}
}

func recordsEnd(recs []refcodec.Record) int64 {
	if len(recs) == 0 {
		return 0
	}
	return recs[len(recs)-1].Offset + 1
}

// hProduce appends to the leader's log.  Produced record sets were strictly
// validated by the reference decoder when the request was decoded.
func (c *Cluster) hProduce(b *Broker, r *Request, act *Action, ex *Exchange) (map[string]any, bool) {
	acks := i64(r.Body, "Acks")
	c.mu.Lock()
	defer c.mu.Unlock()
	var topics []any
	for _, tv := range arr(r.Body, "Topics") {
		tm := obj(tv)
		name := str(tm, "Topic")
		var parts []any
		for _, pv := range arr(tm, "Partitions") {
			pm := obj(pv)
			pid := int32(i64(pm, "Partition"))
			resp := map[string]any{"Partition": int64(pid), "ErrorCode": int64(0), "BaseOffset": int64(-1), "LogAppendTime": int64(-1), "LogStartOffset": int64(-1)}
			parts = append(parts, resp)
			p := c.partitionLocked(name, pid)
			switch {
			case act.ErrorCode != 0:
				resp["ErrorCode"] = int64(act.ErrorCode)
				continue
			case p == nil:
				resp["ErrorCode"] = int64(ErrUnknownTopicOrPartition)
				continue
			case p.Leader != b.ID:
				resp["ErrorCode"] = int64(ErrNotLeaderForPartition)
				continue
			}
			rs, _ := pm["RecordSet"].(*refcodec.RecordSet)
			if rs == nil || len(rs.Batches) == 0 {
				resp["ErrorCode"] = int64(ErrCorruptMessage)
				c.violationLocked("seq %d: produce request for %s/%d without records", r.Seq, name, pid)
				continue
			}
			wantMagic := int8(2)
			if r.Version < 3 {
				wantMagic = 1
			}
			bad := false
			for i := range rs.Batches {
				if (wantMagic == 2) != (rs.Batches[i].Magic == 2) {
					bad = true
				}
			}
			if bad {
				resp["ErrorCode"] = int64(ErrCorruptMessage)
				c.violationLocked("seq %d: produce v%d request carries a record set of the wrong format", r.Seq, r.Version)
				continue
			}
			base := p.End
			for i := range rs.Batches {
				in := rs.Batches[i]
				stored := in
				stored.Records = append([]refcodec.Record{}, in.Records...)
				first := p.End
				for k := range stored.Records {
					stored.Records[k].Offset = p.End
					p.End++
				}
				if stored.Magic == 2 {
					stored.BaseOffset = first
					stored.LastOffsetDelta = int32(len(stored.Records) - 1)
				} else if stored.Codec != 0 {
					stored.RelativeInner = true
				}
				stored.WrapperOffset, stored.RawInnerOffsets = 0, nil
				p.Log = append(p.Log, stored)
				ex.Applied = append(ex.Applied, Applied{Topic: name, Partition: pid, BaseOffset: first, Records: stored.Records, Batch: in})
			}
			resp["BaseOffset"] = base
			resp["LogStartOffset"] = p.LogStart
		}
		topics = append(topics, map[string]any{"Topic": name, "Partitions": parts})
	}
	c.notifyLocked()
	return map[string]any{"Topics": topics}, acks != 0
}

func (c *Cluster) violationLocked(format string, args ...any) {
	if len(c.violations) < 100 {
		c.violations = append(c.violations, sprintf(format, args...))
	}
}

// unit is one indivisible piece of a log for fetch purposes.
type unit struct {
	bytes []byte
	end   int64
}

// fetchUnits calls yield with the encoded units of the log that cover offsets
// >= off, in order, until yield returns false.  Encoded batches are cached
// (stored batches are immutable).
func fetchUnits(p *Partition, off int64, maxMagic int8, yield func(u unit) bool) {
	if p.encCache == nil {
		p.encCache = map[encKey][]byte{}
	}
	for i := range p.Log {
		b := p.Log[i]
		if batchEnd(&b) <= off {
			continue
		}
		if b.Magic > maxMagic {
			b = downConvert(b)
		}
		if b.Magic <= 1 && b.Codec == 0 {
			// plain messages: each message is a unit
			for _, rec := range b.Records {
				if rec.Offset < off {
					continue
				}
				one := refcodec.Batch{Magic: b.Magic, Records: []refcodec.Record{rec}, CorruptCRC: b.CorruptCRC}
				rs := refcodec.RecordSet{Batches: []refcodec.Batch{one}}
				enc, err := rs.Encode()
				if err != nil {
					panic(err)
				}
				if !yield(unit{enc, rec.Offset + 1}) {
					return
				}
			}
			continue
		}
		key := encKey{i, maxMagic}
		enc := p.encCache[key]
		if enc == nil {
			rs := refcodec.RecordSet{Batches: []refcodec.Batch{b}}
			var err error
			enc, err = rs.Encode()
			if err != nil {
				panic(err)
			}
			p.encCache[key] = enc
		}
		if !yield(unit{enc, batchEnd(&b)}) {
			return
		}
	}
}

// downConvert turns a format-2 batch into format-1 messages, as brokers do for
// old fetch versions (headers are dropped, the codec is kept).
func downConvert(b refcodec.Batch) refcodec.Batch {
	out := refcodec.Batch{Magic: 1, Codec: b.Codec, RelativeInner: true, SnappyXerial: true}
	for _, r := range b.Records {
		r.Headers = nil
		out.Records = append(out.Records, r)
	}
	if len(out.Records) == 0 {
		out.Codec = 0
	}
	return out
}

func (c *Cluster) hFetch(b *Broker, r *Request, act *Action) map[string]any {
	maxWait := time.Duration(i64(r.Body, "MaxWaitTime")) * time.Millisecond
	minBytes := int(i64(r.Body, "MinBytes"))
	totalMax := int(i64(r.Body, "MaxBytes"))
	if r.Version < 3 || totalMax <= 0 {
		totalMax = 1 << 30
	}
	maxMagic := int8(2)
	if r.Version < 4 {
		maxMagic = 1
	}
	deadline := time.Now().Add(maxWait)
	for {
		c.mu.Lock()
		body, size, anyErr := c.fetchOnce(b, r, act, totalMax, maxMagic)
		ch := c.changed
		closed := c.closed
		c.mu.Unlock()
		if size >= minBytes || anyErr || closed || act.ErrorCode != 0 || !time.Now().Before(deadline) {
			return body
		}
		t := time.NewTimer(time.Until(deadline))
		select {
		case <-ch:
		case <-t.C:
		}
		t.Stop()
	}
}

func (c *Cluster) fetchOnce(b *Broker, r *Request, act *Action, totalMax int, maxMagic int8) (map[string]any, int, bool) {
	total := 0
	anyErr := false
	first := true
	var topics []any
	for _, tv := range arr(r.Body, "Topics") {
		tm := obj(tv)
		name := str(tm, "Topic")
		var parts []any
		for _, pv := range arr(tm, "Partitions") {
			pm := obj(pv)
			pid := int32(i64(pm, "Partition"))
			off := i64(pm, "FetchOffset")
			pmax := int(i64(pm, "PartitionMaxBytes"))
			resp := map[string]any{"Partition": int64(pid), "ErrorCode": int64(0), "HighWatermark": int64(-1), "LastStableOffset": int64(-1), "LogStartOffset": int64(-1), "AbortedTransactions": nil, "PreferredReadReplica": int64(-1), "RecordSet": &refcodec.RecordSet{Raw: []byte{}}}
			parts = append(parts, resp)
			p := c.partitionLocked(name, pid)
			code := int64(0)
			switch {
			case act.ErrorCode != 0 && act.ErrorField != "top":
				code = int64(act.ErrorCode)
			case p == nil:
				code = ErrUnknownTopicOrPartition
			case p.Leader != b.ID:
				code = ErrNotLeaderForPartition
			case off < p.LogStart || off > p.End:
				code = ErrOffsetOutOfRange
			}
			if code != 0 {
				resp["ErrorCode"] = code
				anyErr = true
				if p != nil && code == ErrOffsetOutOfRange {
					resp["HighWatermark"], resp["LastStableOffset"], resp["LogStartOffset"] = p.End, p.End, p.LogStart
				}
				continue
			}
			resp["HighWatermark"], resp["LastStableOffset"], resp["LogStartOffset"] = p.End, p.End, p.LogStart
			var raw []byte
			readCommitted := r.Version >= 4 && i64(r.Body, "IsolationLevel") == 1 && p.OpenTxnFrom > 0 && p.OpenTxnFrom < p.End
			if r.Version >= 4 && p.OpenTxnFrom > 0 && p.OpenTxnFrom < p.End {
				// brokers report the last stable offset to every consumer; only read_committed ones are held back at it
				resp["LastStableOffset"] = p.OpenTxnFrom
			}
			if r.Version >= 4 && i64(r.Body, "IsolationLevel") == 1 && len(p.Aborted) > 0 {
				var ab []any
				for _, a := range p.Aborted {
					ab = append(ab, map[string]any{"ProducerID": a[0], "FirstOffset": a[1]})
				}
				resp["AbortedTransactions"] = ab
			}
			fetchUnits(p, off, maxMagic, func(u unit) bool {
				if readCommitted && u.end > p.OpenTxnFrom {
					return false // a read_committed consumer is served up to the last stable offset only
				}
				budget := pmax - len(raw)
				if tb := totalMax - total - len(raw); tb < budget {
					budget = tb
				}
				if len(raw) == 0 && first {
					// KIP-74: the first batch of the first non-empty partition is returned whole
					raw = append(raw, u.bytes...)
					return true
				}
				if budget <= 0 {
					return false
				}
				if len(u.bytes) > budget {
					// the slice of the log ends inside this batch: partial trailing bytes
					raw = append(raw, u.bytes[:budget]...)
					return false
				}
				raw = append(raw, u.bytes...)
				return true
			})
			if len(raw) > 0 {
				first = false
			}
			total += len(raw)
			resp["RecordSet"] = &refcodec.RecordSet{Raw: raw}
		}
		topics = append(topics, map[string]any{"Topic": name, "Partitions": parts})
	}
	body := map[string]any{"Topics": topics, "SessionID": int64(0)}
	if act.ErrorCode != 0 && act.ErrorField == "top" {
		body["ErrorCode"] = int64(act.ErrorCode)
	}
	return body, total, anyErr
}

func (c *Cluster) hListOffsets(b *Broker, r *Request, act *Action) map[string]any {
	c.mu.Lock()
	defer c.mu.Unlock()
	var topics []any
	for _, tv := range arr(r.Body, "Topics") {
		tm := obj(tv)
		name := str(tm, "Topic")
		var parts []any
		for _, pv := range arr(tm, "Partitions") {
			pm := obj(pv)
			pid := int32(i64(pm, "Partition"))
			ts := i64(pm, "Timestamp")
			resp := map[string]any{"Partition": int64(pid), "ErrorCode": int64(0), "Timestamp": int64(-1), "Offset": int64(-1), "LeaderEpoch": int64(-1)}
			parts = append(parts, resp)
			p := c.partitionLocked(name, pid)
			switch {
			case act.ErrorCode != 0:
				resp["ErrorCode"] = int64(act.ErrorCode)
				continue
			case p == nil:
				resp["ErrorCode"] = int64(ErrUnknownTopicOrPartition)
				continue
			case p.Leader != b.ID:
				resp["ErrorCode"] = int64(ErrNotLeaderForPartition)
				continue
			}
			switch ts {
			case -2:
				resp["Offset"] = p.LogStart
			case -1:
				resp["Offset"] = p.End
				// read_committed (ListOffsets v2+): the end of the log for such a consumer is the last stable offset
				if r.Version >= 2 && i64(r.Body, "IsolationLevel") == 1 && p.OpenTxnFrom > 0 && p.OpenTxnFrom < p.End {
					resp["Offset"] = p.OpenTxnFrom
				}
			default:
				o, t := OffsetForTime(p, ts)
				resp["Offset"], resp["Timestamp"] = o, t
			}
		}
		topics = append(topics, map[string]any{"Topic": name, "Partitions": parts})
	}
	return map[string]any{"Topics": topics}
}

// OffsetForTime returns the first stored record whose timestamp is >= ts, or (-1,-1).
func OffsetForTime(p *Partition, ts int64) (offset, timestamp int64) {
	for i := range p.Log {
		if p.Log[i].Control {
			continue
		}
		for _, r := range p.Log[i].Records {
			if r.Offset >= p.LogStart && r.Timestamp >= ts {
				return r.Offset, r.Timestamp
			}
		}
	}
	return -1, -1
}

// CoordinatorOf returns the coordinator broker of a group or transactional id.
func (c *Cluster) CoordinatorOf(key string) int32 {
	c.mu.Lock()
	defer c.mu.Unlock()
	return c.coordinatorLocked(key)
}

func (c *Cluster) coordinatorLocked(key string) int32 {
	if id, ok := c.coordOf[key]; ok {
		return id
	}
	ids := c.liveIDs()
	h := 0
	for _, ch := range []byte(key) {
		h = (h*31 + int(ch)) & 0x7fffffff
	}
	return ids[h%len(ids)]
}

// SetCoordinator pins the coordinator of a key.
func (c *Cluster) SetCoordinator(key string, broker int32) {
	c.mu.Lock()
	c.coordOf[key] = broker
	c.mu.Unlock()
}

func (c *Cluster) hFindCoordinator(b *Broker, r *Request, act *Action) map[string]any {
	c.mu.Lock()
	defer c.mu.Unlock()
	if act.ErrorCode != 0 {
		return map[string]any{"ErrorCode": int64(act.ErrorCode), "NodeID": int64(-1), "Host": "", "Port": int64(-1)}
	}
	id := c.coordinatorLocked(str(r.Body, "Key"))
	br := c.brokers[id]
	return map[string]any{"ErrorCode": int64(0), "NodeID": int64(br.ID), "Host": br.Host, "Port": int64(br.Port)}
}

func (c *Cluster) hCreateTopics(b *Broker, r *Request, act *Action) map[string]any {
	c.mu.Lock()
	defer c.mu.Unlock()
	validateOnly, _ := r.Body["ValidateOnly"].(bool)
	var out []any
	for _, tv := range arr(r.Body, "Topics") {
		tm := obj(tv)
		name := str(tm, "Name")
		resp := map[string]any{"Name": name, "ErrorCode": int64(0), "NumPartitions": i64(tm, "NumPartitions"), "ReplicationFactor": i64(tm, "ReplicationFactor"), "Configs": []any{}}
		out = append(out, resp)
		switch {
		case act.ErrorCode != 0 && (!act.ErrorFirstOnly || len(out) == 1):
			resp["ErrorCode"] = int64(act.ErrorCode)
		case b.ID != c.controller:
			resp["ErrorCode"] = int64(ErrNotController)
		case c.topics[name] != nil:
			resp["ErrorCode"] = int64(ErrTopicAlreadyExists)
		case name == "":
			resp["ErrorCode"] = int64(ErrInvalidTopic)
		default:
			n := int(i64(tm, "NumPartitions"))
			if n <= 0 {
				n = len(arr(tm, "Assignments"))
			}
			if n <= 0 {
				n = 1
			}
			if !validateOnly {
				c.createTopicLocked(name, n)
			}
		}
	}
	return map[string]any{"Topics": out}
}

func (c *Cluster) hDeleteTopics(b *Broker, r *Request, act *Action) map[string]any {
	c.mu.Lock()
	defer c.mu.Unlock()
	var out []any
	for _, nv := range arr(r.Body, "TopicNames") {
		name, _ := nv.(string)
		resp := map[string]any{"Name": name, "ErrorCode": int64(0)}
		out = append(out, resp)
		switch {
		case act.ErrorCode != 0:
			resp["ErrorCode"] = int64(act.ErrorCode)
		case b.ID != c.controller:
			resp["ErrorCode"] = int64(ErrNotController)
		case c.topics[name] == nil:
			resp["ErrorCode"] = int64(ErrUnknownTopicOrPartition)
		default:
			delete(c.topics, name)
		}
	}
	c.notifyLocked()
	return map[string]any{"Responses": out}
}
