package fakecluster

import (
	"crypto/hmac"
	"crypto/sha256"
	"crypto/sha512"
	"encoding/base64"
	"encoding/binary"
	"fmt"
	"hash"
	"strings"

	"verif/memnet"
)

// SASLConfig enables authentication on every broker.
type SASLConfig struct {
	Mechanisms []string          // enabled mechanisms, e.g. PLAIN, SCRAM-SHA-256, SCRAM-SHA-512
	Users      map[string]string // user -> password (already SASLprep'ed form expected from clients)
	Iterations int
	// Fault injection for the exchange (C18); all optional.
	HandshakeError     int16 // answer the handshake with this code
	AuthError          int16 // answer SaslAuthenticate with this code at step AuthErrorStep
	AuthErrorStep      int   // 1-based authenticate round
	CloseAtStep        int   // close the connection instead of answering authenticate round n (1-based); 0 = never
	CloseAtHandshake   bool  // close instead of answering the handshake
	MalformServerFirst bool  // SCRAM: send a malformed server-first message
	WrongServerSig     bool  // SCRAM: send a wrong server signature in server-final
	BadNonce           bool  // SCRAM: server-first nonce does not extend the client nonce
}

// AuthEvent is journalled per connection.
type AuthEvent struct {
	ConnID  int
	Mech    string
	User    string
	Verdict string // ok | rejected | error
	Step    int
	Raw     bool
	Seq     int64
}

// EnableSASL switches authentication on.
func (c *Cluster) EnableSASL(cfg *SASLConfig) {
	c.mu.Lock()
	if cfg != nil && cfg.Iterations == 0 {
		cfg.Iterations = 4096
	}
	c.sasl = cfg
	c.mu.Unlock()
}

func (c *Cluster) authEvent(e AuthEvent) {
	c.mu.Lock()
	e.Seq = c.seq
	c.auth = append(c.auth, e)
	c.mu.Unlock()
}

// AuthEvents returns the authentication journal.
func (c *Cluster) AuthEvents() []AuthEvent {
	c.mu.Lock()
	defer c.mu.Unlock()
	return append([]AuthEvent{}, c.auth...)
}

func (c *Cluster) hSaslHandshake(b *Broker, st *connState, r *Request, act *Action) map[string]any {
	c.mu.Lock()
	cfg := c.sasl
	c.mu.Unlock()
	mech := str(r.Body, "Mechanism")
	var enabled []any
	ok := false
	if cfg != nil {
		for _, m := range cfg.Mechanisms {
			enabled = append(enabled, m)
			if m == mech {
				ok = true
			}
		}
	}
	if enabled == nil {
		enabled = []any{}
	}
	code := int64(act.ErrorCode)
	if code == 0 && cfg != nil && cfg.HandshakeError != 0 {
		code = int64(cfg.HandshakeError)
	}
	if code == 0 && !ok {
		code = ErrUnsupportedSASLMechanism
	}
	if code == 0 {
		st.saslMech = mech
		st.handshakeVer = r.Version
		st.saslRaw = r.Version == 0
		st.scram = nil
		st.step = 0
	}
	return map[string]any{"ErrorCode": code, "Mechanisms": enabled}
}

// authStep runs one round of the mechanism; done reports a final verdict.
func (c *Cluster) authStep(sc *memnet.ServerConn, st *connState, cfg *SASLConfig, token []byte) (resp []byte, code int64, msg string, done bool) {
	st.step++
	switch st.saslMech {
	case "PLAIN":
		parts := strings.Split(string(token), "\x00")
		if len(parts) != 3 {
			c.authEvent(AuthEvent{ConnID: sc.ID(), Mech: "PLAIN", Verdict: "error", Step: st.step})
			return nil, ErrSASLAuthenticationFailed, "malformed PLAIN token", true
		}
		user, pass := parts[1], parts[2]
		if want, ok := cfg.Users[user]; ok && want == pass {
			st.authed = true
			c.authEvent(AuthEvent{ConnID: sc.ID(), Mech: "PLAIN", User: user, Verdict: "ok", Step: st.step})
			return []byte{}, 0, "", true
		}
		c.authEvent(AuthEvent{ConnID: sc.ID(), Mech: "PLAIN", User: user, Verdict: "rejected", Step: st.step})
		return nil, ErrSASLAuthenticationFailed, "invalid credentials", true
	case "SCRAM-SHA-256", "SCRAM-SHA-512":
		if st.scram == nil {
			h := sha256.New
			if st.saslMech == "SCRAM-SHA-512" {
				h = sha512.New
			}
			st.scram = &scramServer{h: h, cfg: cfg, nonceSeed: fmt.Sprintf("srv%dn%d", sc.ID(), st.step)}
		}
		out, verdict, err := st.scram.step(string(token))
		if err != nil {
			c.authEvent(AuthEvent{ConnID: sc.ID(), Mech: st.saslMech, User: st.scram.user, Verdict: "rejected", Step: st.step})
			return []byte(out), ErrSASLAuthenticationFailed, err.Error(), true
		}
		if verdict {
			st.authed = true
			c.authEvent(AuthEvent{ConnID: sc.ID(), Mech: st.saslMech, User: st.scram.user, Verdict: "ok", Step: st.step})
			return []byte(out), 0, "", true
		}
		return []byte(out), 0, "", false
	}
	return nil, ErrIllegalSASLState, "no handshake", true
}

func (c *Cluster) hSaslAuthenticate(b *Broker, st *connState, r *Request, act *Action) map[string]any {
	c.mu.Lock()
	cfg := c.sasl
	c.mu.Unlock()
	if cfg == nil || st.saslMech == "" {
		return map[string]any{"ErrorCode": int64(ErrIllegalSASLState), "ErrorMessage": "handshake first", "AuthBytes": []byte{}}
	}
	token, _ := r.Body["AuthBytes"].([]byte)
	if cfg.AuthError != 0 && cfg.AuthErrorStep == st.step+1 {
		st.step++
		return map[string]any{"ErrorCode": int64(cfg.AuthError), "ErrorMessage": "injected", "AuthBytes": []byte{}}
	}
	resp, code, msg, _ := c.authStep(r.Conn, st, cfg, token)
	if resp == nil {
		resp = []byte{}
	}
	var em any
	if msg != "" {
		em = msg
	}
	return map[string]any{"ErrorCode": code, "ErrorMessage": em, "AuthBytes": resp, "SessionLifetimeMs": int64(0)}
}

// serveRawSASL handles one raw token (handshake v0): reply is a bare
// length-prefixed token; a failed exchange closes the connection.
func (c *Cluster) serveRawSASL(b *Broker, sc *memnet.ServerConn, st *connState, token []byte) bool {
	c.mu.Lock()
	cfg := c.sasl
	c.seq++
	ex := &Exchange{Seq: c.seq, ConnID: sc.ID(), BrokerID: b.ID, ApiKey: -36, ApiName: "RawSaslToken", Outcome: "answered"}
	c.journal = append(c.journal, ex)
	c.mu.Unlock()
	if cfg == nil {
		return false
	}
	if cfg.CloseAtStep != 0 && cfg.CloseAtStep == st.step+1 {
		ex.Outcome = "dropped-before"
		return false
	}
	resp, code, _, done := c.authStep(sc, st, cfg, token)
	if code != 0 {
		ex.Outcome = "closed"
		return false // brokers close the connection on a failed raw exchange
	}
	var lb [4]byte
	binary.BigEndian.PutUint32(lb[:], uint32(len(resp)))
	sc.Write(append(lb[:], resp...))
	if done {
		st.saslRaw = false
	}
	return true
}

// ---------------------------------------------------------------------------
// SCRAM server, RFC 5802 without channel binding, own HMAC/Hi code.

type scramServer struct {
	h         func() hash.Hash
	cfg       *SASLConfig
	nonceSeed string
	stage     int
	user      string
	cfb       string // client-first-bare
	sf        string // server-first
	nonce     string
	salt      []byte
}

func hmacSum(h func() hash.Hash, key, msg []byte) []byte {
	m := hmac.New(h, key)
	m.Write(msg)
	return m.Sum(nil)
}

// hi is PBKDF2 with one block: Hi(str, salt, i) of RFC 5802.
func hi(h func() hash.Hash, password, salt []byte, iter int) []byte {
	u := hmacSum(h, password, append(append([]byte{}, salt...), 0, 0, 0, 1))
	out := append([]byte{}, u...)
	for i := 1; i < iter; i++ {
		u = hmacSum(h, password, u)
		for k := range out {
			out[k] ^= u[k]
		}
	}
	return out
}

func scramUnescape(s string) string {
	return strings.ReplaceAll(strings.ReplaceAll(s, "=2C", ","), "=3D", "=")
}

func (s *scramServer) step(in string) (out string, done bool, err error) {
	s.stage++
	switch s.stage {
	case 1:
		// client-first: gs2-header "n,," then n=<user>,r=<nonce>
		if !strings.HasPrefix(in, "n,,") {
			return "e=other-error", false, fmt.Errorf("scram: unsupported gs2 header in %q", in)
		}
		s.cfb = in[3:]
		fields := strings.Split(s.cfb, ",")
		if len(fields) < 2 || !strings.HasPrefix(fields[0], "n=") || !strings.HasPrefix(fields[1], "r=") {
			return "e=other-error", false, fmt.Errorf("scram: malformed client-first %q", in)
		}
		s.user = scramUnescape(fields[0][2:])
		cnonce := fields[1][2:]
		if cnonce == "" {
			return "e=other-error", false, fmt.Errorf("scram: empty client nonce")
		}
		s.nonce = cnonce + s.nonceSeed
		if s.cfg.BadNonce {
			s.nonce = "x" + s.nonceSeed
		}
		s.salt = []byte("salt-" + s.user)
		s.sf = fmt.Sprintf("r=%s,s=%s,i=%d", s.nonce, base64.StdEncoding.EncodeToString(s.salt), s.cfg.Iterations)
		if s.cfg.MalformServerFirst {
			s.sf = "r=" + s.nonce + ",x=garbage"
		}
		return s.sf, false, nil
	case 2:
		// client-final: c=biws,r=<nonce>,p=<proof>
		i := strings.LastIndex(in, ",p=")
		if i < 0 {
			return "e=other-error", false, fmt.Errorf("scram: malformed client-final %q", in)
		}
		withoutProof, proofB64 := in[:i], in[i+3:]
		fields := strings.Split(withoutProof, ",")
		if len(fields) < 2 || fields[0] != "c=biws" || fields[1] != "r="+s.nonce {
			return "e=other-error", false, fmt.Errorf("scram: channel binding or nonce mismatch in %q", in)
		}
		proof, derr := base64.StdEncoding.DecodeString(proofB64)
		pass, known := s.cfg.Users[s.user]
		if derr != nil || !known {
			return "e=invalid-proof", false, fmt.Errorf("scram: unknown user or bad proof encoding")
		}
		salted := hi(s.h, []byte(pass), s.salt, s.cfg.Iterations)
		clientKey := hmacSum(s.h, salted, []byte("Client Key"))
		hh := s.h()
		hh.Write(clientKey)
		storedKey := hh.Sum(nil)
		authMsg := s.cfb + "," + s.sf + "," + withoutProof
		sig := hmacSum(s.h, storedKey, []byte(authMsg))
		if len(proof) != len(sig) {
			return "e=invalid-proof", false, fmt.Errorf("scram: invalid proof")
		}
		for k := range sig {
			if proof[k]^sig[k] != clientKey[k] {
				return "e=invalid-proof", false, fmt.Errorf("scram: invalid proof")
			}
		}
		serverKey := hmacSum(s.h, salted, []byte("Server Key"))
		ssig := hmacSum(s.h, serverKey, []byte(authMsg))
		if s.cfg.WrongServerSig {
			ssig[0] ^= 1
		}
		return "v=" + base64.StdEncoding.EncodeToString(ssig), true, nil
	}
	return "", false, fmt.Errorf("scram: exchange already finished")
}
