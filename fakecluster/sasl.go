package fakecluster

import (
	"crypto/hmac"
	"crypto/sha256"
	"crypto/sha512"
	"encoding/base64"
	"encoding/binary"
	"fmt"
	"hash"
	"strings"
	"time"

	"verif/memnet"
)

// SASLConfig enables authentication on every broker.
type SASLConfig struct {
	Mechanisms []string          // enabled mechanisms, e.g. PLAIN, SCRAM-SHA-256, SCRAM-SHA-512
	Users      map[string]string // user -> password (already SASLprep'ed form expected from clients)
	Iterations int
	// Legs: round trips of the mechanism "LEGS" (a plain challenge-response mechanism of configurable length: the client
	// sends "leg-<i>" NUL user NUL password, the server answers "more-<i>" until the last leg, where it decides)
	Legs int
	// NullErrorMessages: failed SaslAuthenticate rounds are answered with the error code and a null error message (the
	// message is optional on the wire)
	NullErrorMessages bool
	// StepDelay: every authenticate round is answered after this pause (exchanges of connections that authenticate at about
	// the same time then interleave).
	StepDelay time.Duration
	// Fault injection for the exchange (C18); all optional.
	HandshakeError     int16 // answer the handshake with this code
	AuthError          int16 // answer SaslAuthenticate with this code at step AuthErrorStep
	AuthErrorStep      int   // 1-based authenticate round
	CloseAtStep        int   // close the connection instead of answering authenticate round n (1-based); 0 = never
	CloseAtHandshake   bool  // close instead of answering the handshake
	MalformServerFirst bool  // SCRAM: send a malformed server-first message
	WrongServerSig     bool  // SCRAM: send a wrong server signature in server-final
	BadNonce           bool  // SCRAM: server-first nonce does not extend the client nonce
	MalformServerFinal bool  // SCRAM: send a server-final message that is neither v=... nor e=...
	EmptyServerFirst   bool  // SCRAM: answer client-first with zero bytes and no error code
	EmptyServerFinal   bool  // SCRAM: answer client-final with zero bytes and no error code
	ServerFinalError   bool  // SCRAM: send "e=other-error" as server-final with error code 0 (in-band SCRAM error)
	ServerIterations   int   // SCRAM: iteration count announced and used by the server when != 0 (e.g. below a client minimum)
	// TruncateRawAtStep: in a raw (handshake v0) exchange the answer to authenticate round n announces TruncateRawAnnounce
	// bytes, delivers only TruncateRawSend of them and the connection is closed (the broker died while answering).
	TruncateRawAtStep   int
	TruncateRawAnnounce int
	TruncateRawSend     int
	// EarlyUnknownUser makes the SCRAM server reject an unknown user at the
	// client-first message (what Kafka brokers do) instead of at the proof.
	EarlyUnknownUser bool
}

// AuthEvent is journalled per connection.
type AuthEvent struct {
	ConnID  int
	Mech    string
	User    string
	Verdict string // ok | rejected | error
	Step    int
	Raw     bool
	Seq     int64 // journal sequence number when the event was recorded
	ReqSeq  int64 // Seq of the exchange (on ConnID) whose processing produced the verdict
}

// EnableSASL switches authentication on.
func (c *Cluster) EnableSASL(cfg *SASLConfig) {
	c.mu.Lock()
	if cfg != nil && cfg.Iterations == 0 {
		cfg.Iterations = 4096
	}
	c.sasl = cfg
	c.mu.Unlock()
}

func (c *Cluster) authEvent(e AuthEvent) {
	c.mu.Lock()
	e.Seq = c.seq
	c.auth = append(c.auth, e)
	c.mu.Unlock()
}

// AuthEvents returns the authentication journal.
func (c *Cluster) AuthEvents() []AuthEvent {
	c.mu.Lock()
	defer c.mu.Unlock()
	return append([]AuthEvent{}, c.auth...)
}

func (c *Cluster) hSaslHandshake(b *Broker, st *connState, r *Request, act *Action) map[string]any {
	c.mu.Lock()
	cfg := c.sasl
	c.mu.Unlock()
	mech := str(r.Body, "Mechanism")
	var enabled []any
	ok := false
	if cfg != nil {
		for _, m := range cfg.Mechanisms {
			enabled = append(enabled, m)
			if m == mech {
				ok = true
			}
		}
	}
	if enabled == nil {
		enabled = []any{}
	}
	code := int64(act.ErrorCode)
	if code == 0 && cfg != nil && cfg.HandshakeError != 0 {
		code = int64(cfg.HandshakeError)
	}
	if code == 0 && !ok {
		code = ErrUnsupportedSASLMechanism
	}
	if code == 0 {
		st.saslMech = mech
		st.handshakeVer = r.Version
		st.saslRaw = r.Version == 0
		st.scram = nil
		st.step = 0
	}
	return map[string]any{"ErrorCode": code, "Mechanisms": enabled}
}

// saslDrop reports whether the configured fault script closes the connection
// instead of answering this (framed) request.  Called by handle for every
// request; raw tokens are handled by serveRawSASL.
func (c *Cluster) saslDrop(st *connState, r *Request) bool {
	c.mu.Lock()
	cfg := c.sasl
	c.mu.Unlock()
	if cfg == nil {
		return false
	}
	switch r.ApiKey {
	case 17:
		return cfg.CloseAtHandshake
	case 36:
		if cfg.CloseAtStep != 0 && cfg.CloseAtStep == st.step+1 {
			st.step++
			c.authEvent(AuthEvent{ConnID: r.ConnID, Mech: st.saslMech, Verdict: "closed", Step: st.step, ReqSeq: r.Seq})
			return true
		}
	}
	return false
}

// authStep runs one round of the mechanism; done reports a final verdict.
// reqSeq is the journal sequence number of the exchange carrying the token.
func (c *Cluster) authStep(sc *memnet.ServerConn, st *connState, cfg *SASLConfig, token []byte, reqSeq int64) (resp []byte, code int64, msg string, done bool) {
	st.step++
	ev := AuthEvent{ConnID: sc.ID(), Mech: st.saslMech, Step: st.step, Raw: st.saslRaw, ReqSeq: reqSeq}
	switch st.saslMech {
	case "PLAIN":
		// RFC 4616: [authzid] NUL authcid NUL passwd
		parts := strings.Split(string(token), "\x00")
		if len(parts) != 3 {
			c.violation("conn %d: malformed PLAIN token %q", sc.ID(), truncate(token, 200))
			ev.Verdict = "error"
			c.authEvent(ev)
			return nil, ErrSASLAuthenticationFailed, "malformed PLAIN token", true
		}
		user, pass := parts[1], parts[2]
		ev.User = user
		if want, ok := cfg.Users[user]; ok && want == pass {
			st.authed = true
			ev.Verdict = "ok"
			c.authEvent(ev)
			return []byte{}, 0, "", true
		}
		ev.Verdict = "rejected"
		c.authEvent(ev)
		return nil, ErrSASLAuthenticationFailed, "invalid credentials", true
	case "LEGS":
		parts := strings.SplitN(string(token), "\x00", 3)
		if len(parts) != 3 || parts[0] != fmt.Sprintf("leg-%d", st.step) {
			c.violation("conn %d: malformed LEGS token %q at step %d", sc.ID(), truncate(token, 200), st.step)
			ev.Verdict = "error"
			c.authEvent(ev)
			return nil, ErrSASLAuthenticationFailed, "malformed LEGS token", true
		}
		ev.User = parts[1]
		if st.step < cfg.Legs {
			return []byte(fmt.Sprintf("more-%d", st.step)), 0, "", false
		}
		if want, ok := cfg.Users[parts[1]]; ok && want == parts[2] {
			st.authed = true
			ev.Verdict = "ok"
			c.authEvent(ev)
			return []byte{}, 0, "", true
		}
		ev.Verdict = "rejected"
		c.authEvent(ev)
		return nil, ErrSASLAuthenticationFailed, "invalid credentials", true
	case "SCRAM-SHA-256", "SCRAM-SHA-512":
		if st.scram == nil {
			h := sha256.New
			if st.saslMech == "SCRAM-SHA-512" {
				h = sha512.New
			}
			st.scram = &scramServer{h: h, cfg: cfg, nonceSeed: fmt.Sprintf("srv%dn%d", sc.ID(), st.step)}
		}
		out, verdict, err := st.scram.step(string(token))
		ev.User = st.scram.user
		if err != nil {
			if st.scram.malformed {
				c.violation("conn %d: malformed SCRAM client message: %v", sc.ID(), err)
			}
			ev.Verdict = "rejected"
			c.authEvent(ev)
			return []byte(out), ErrSASLAuthenticationFailed, err.Error(), true
		}
		if verdict {
			st.authed = true
			ev.Verdict = "ok"
			c.authEvent(ev)
			return []byte(out), 0, "", true
		}
		return []byte(out), 0, "", false
	}
	return nil, ErrIllegalSASLState, "no handshake", true
}

func (c *Cluster) hSaslAuthenticate(b *Broker, st *connState, r *Request, act *Action) map[string]any {
	c.mu.Lock()
	cfg := c.sasl
	c.mu.Unlock()
	if cfg == nil || st.saslMech == "" {
		return map[string]any{"ErrorCode": int64(ErrIllegalSASLState), "ErrorMessage": "handshake first", "AuthBytes": []byte{}, "SessionLifetimeMs": int64(0)}
	}
	token, _ := r.Body["AuthBytes"].([]byte)
	if cfg.StepDelay > 0 {
		time.Sleep(cfg.StepDelay)
	}
	if cfg.AuthError != 0 && cfg.AuthErrorStep == st.step+1 {
		st.step++
		c.authEvent(AuthEvent{ConnID: r.ConnID, Mech: st.saslMech, Verdict: "error", Step: st.step, ReqSeq: r.Seq})
		return map[string]any{"ErrorCode": int64(cfg.AuthError), "ErrorMessage": errMsg(cfg, "injected"), "AuthBytes": []byte{}, "SessionLifetimeMs": int64(0)}
	}
	if act.ErrorCode != 0 {
		st.step++
		c.authEvent(AuthEvent{ConnID: r.ConnID, Mech: st.saslMech, Verdict: "error", Step: st.step, ReqSeq: r.Seq})
		return map[string]any{"ErrorCode": int64(act.ErrorCode), "ErrorMessage": errMsg(cfg, "injected"), "AuthBytes": []byte{}, "SessionLifetimeMs": int64(0)}
	}
	resp, code, msg, _ := c.authStep(r.Conn, st, cfg, token, r.Seq)
	if resp == nil || code != 0 {
		resp = []byte{} // brokers answer a failed exchange with the error code and message only
	}
	var em any
	if msg != "" && !cfg.NullErrorMessages {
		em = msg
	}
	return map[string]any{"ErrorCode": code, "ErrorMessage": em, "AuthBytes": resp, "SessionLifetimeMs": int64(0)}
}

// serveRawSASL handles one raw token (handshake v0): reply is a bare
// length-prefixed token; a failed exchange closes the connection.
func (c *Cluster) serveRawSASL(b *Broker, sc *memnet.ServerConn, st *connState, token []byte) bool {
	c.mu.Lock()
	cfg := c.sasl
	c.seq++
	ex := &Exchange{Seq: c.seq, At: time.Now(), ConnID: sc.ID(), BrokerID: b.ID, ApiKey: -36, ApiName: "RawSaslToken", Outcome: "answered",
		Body: map[string]any{"AuthBytes": append([]byte{}, token...)}}
	c.journal = append(c.journal, ex)
	c.mu.Unlock()
	if cfg == nil {
		sc.MarkDead()
		return false
	}
	if cfg.StepDelay > 0 {
		time.Sleep(cfg.StepDelay)
	}
	if cfg.CloseAtStep != 0 && cfg.CloseAtStep == st.step+1 {
		st.step++
		c.upd(func() { ex.Outcome = "dropped-before" })
		c.authEvent(AuthEvent{ConnID: sc.ID(), Mech: st.saslMech, Verdict: "closed", Step: st.step, Raw: true, ReqSeq: ex.Seq})
		sc.MarkDead()
		return false
	}
	if cfg.TruncateRawAtStep != 0 && cfg.TruncateRawAtStep == st.step+1 {
		st.step++
		var lb [4]byte
		binary.BigEndian.PutUint32(lb[:], uint32(cfg.TruncateRawAnnounce))
		part := append(lb[:], make([]byte, cfg.TruncateRawSend)...)
		sc.Write(part)
		c.upd(func() { ex.Outcome = "cut"; ex.RespBytes = 4 + cfg.TruncateRawAnnounce; ex.CutAt = len(part) })
		c.authEvent(AuthEvent{ConnID: sc.ID(), Mech: st.saslMech, Verdict: "closed", Step: st.step, Raw: true, ReqSeq: ex.Seq})
		sc.MarkDead()
		return false
	}
	resp, code, _, done := c.authStep(sc, st, cfg, token, ex.Seq)
	if code != 0 {
		c.upd(func() { ex.Outcome = "closed" })
		ex.ErrorCode = int16(code) // not sent: there is no error channel in a raw exchange
		sc.MarkDead()
		return false // brokers close the connection on a failed raw exchange
	}
	ex.RespBody = map[string]any{"AuthBytes": append([]byte{}, resp...)}
	var lb [4]byte
	binary.BigEndian.PutUint32(lb[:], uint32(len(resp)))
	if _, err := sc.Write(append(lb[:], resp...)); err != nil {
		c.upd(func() { ex.Outcome = "closed" })
		return false
	}
	ex.RespBytes = 4 + len(resp)
	ex.AnsweredAt = time.Now()
	if done {
		st.saslRaw = false
	}
	return true
}

// ---------------------------------------------------------------------------
// SCRAM server, RFC 5802 without channel binding, own HMAC/Hi code.

type scramServer struct {
	h         func() hash.Hash
	cfg       *SASLConfig
	nonceSeed string
	stage     int
	user      string
	cfb       string // client-first-bare
	sf        string // server-first
	nonce     string
	salt      []byte
	iter      int
	malformed bool // the last error was a syntax error of the client message (not a credential problem)
}

func hmacSum(h func() hash.Hash, key, msg []byte) []byte {
	m := hmac.New(h, key)
	m.Write(msg)
	return m.Sum(nil)
}

// hi is PBKDF2 with one block: Hi(str, salt, i) of RFC 5802.
func hi(h func() hash.Hash, password, salt []byte, iter int) []byte {
	u := hmacSum(h, password, append(append([]byte{}, salt...), 0, 0, 0, 1))
	out := append([]byte{}, u...)
	for i := 1; i < iter; i++ {
		u = hmacSum(h, password, u)
		for k := range out {
			out[k] ^= u[k]
		}
	}
	return out
}

// scramUnescape decodes a saslname (RFC 5802: ',' is sent as "=2C", '=' as
// "=3D", any other use of '=' is an error) in a single pass.
func scramUnescape(s string) (string, bool) {
	var sb strings.Builder
	for i := 0; i < len(s); i++ {
		if s[i] != '=' {
			sb.WriteByte(s[i])
			continue
		}
		switch {
		case strings.HasPrefix(s[i:], "=2C"):
			sb.WriteByte(',')
		case strings.HasPrefix(s[i:], "=3D"):
			sb.WriteByte('=')
		default:
			return "", false
		}
		i += 2
	}
	return sb.String(), true
}

func (s *scramServer) step(in string) (out string, done bool, err error) {
	s.stage++
	s.malformed = false
	bad := func(format string, args ...any) (string, bool, error) {
		s.malformed = true
		return "e=other-error", false, fmt.Errorf(format, args...)
	}
	switch s.stage {
	case 1:
		// client-first: gs2-header "n,," then n=<user>,r=<nonce>
		if !strings.HasPrefix(in, "n,,") {
			return bad("scram: unsupported gs2 header in %q", in)
		}
		s.cfb = in[3:]
		fields := strings.Split(s.cfb, ",")
		if len(fields) < 2 || !strings.HasPrefix(fields[0], "n=") || !strings.HasPrefix(fields[1], "r=") {
			return bad("scram: malformed client-first %q", in)
		}
		user, ok := scramUnescape(fields[0][2:])
		if !ok {
			return bad("scram: invalid username encoding in %q", in)
		}
		s.user = user
		cnonce := fields[1][2:]
		if cnonce == "" {
			return bad("scram: empty client nonce")
		}
		for k := 0; k < len(cnonce); k++ {
			if cnonce[k] < 0x21 || cnonce[k] > 0x7e {
				return bad("scram: client nonce is not printable in %q", in)
			}
		}
		if _, known := s.cfg.Users[s.user]; !known && s.cfg.EarlyUnknownUser {
			return "e=unknown-user", false, fmt.Errorf("scram: unknown user")
		}
		s.nonce = cnonce + s.nonceSeed
		if s.cfg.BadNonce {
			s.nonce = "x" + s.nonceSeed
		}
		s.iter = s.cfg.Iterations
		if s.cfg.ServerIterations != 0 {
			s.iter = s.cfg.ServerIterations
		}
		s.salt = []byte("salt-" + s.user)
		s.sf = fmt.Sprintf("r=%s,s=%s,i=%d", s.nonce, base64.StdEncoding.EncodeToString(s.salt), s.iter)
		if s.cfg.MalformServerFirst {
			s.sf = "r=" + s.nonce + ",x=garbage"
		}
		if s.cfg.EmptyServerFirst {
			s.sf = ""
		}
		return s.sf, false, nil
	case 2:
		// client-final: c=biws,r=<nonce>,p=<proof>
		i := strings.LastIndex(in, ",p=")
		if i < 0 {
			return bad("scram: malformed client-final %q", in)
		}
		withoutProof, proofB64 := in[:i], in[i+3:]
		fields := strings.Split(withoutProof, ",")
		if len(fields) < 2 || fields[0] != "c=biws" {
			return bad("scram: channel binding mismatch in %q", in)
		}
		if fields[1] != "r="+s.nonce {
			return bad("scram: nonce mismatch in %q", in)
		}
		proof, derr := base64.StdEncoding.DecodeString(proofB64)
		if derr != nil {
			return bad("scram: proof is not base64 in %q", in)
		}
		pass, known := s.cfg.Users[s.user]
		if !known {
			return "e=unknown-user", false, fmt.Errorf("scram: unknown user")
		}
		salted := hi(s.h, []byte(pass), s.salt, s.iter)
		clientKey := hmacSum(s.h, salted, []byte("Client Key"))
		hh := s.h()
		hh.Write(clientKey)
		storedKey := hh.Sum(nil)
		authMsg := s.cfb + "," + s.sf + "," + withoutProof
		sig := hmacSum(s.h, storedKey, []byte(authMsg))
		if len(proof) != len(sig) {
			return "e=invalid-proof", false, fmt.Errorf("scram: invalid proof")
		}
		// ClientKey' = proof XOR signature must hash to StoredKey
		ck := make([]byte, len(sig))
		for k := range sig {
			ck[k] = proof[k] ^ sig[k]
		}
		hh = s.h()
		hh.Write(ck)
		if !hmac.Equal(hh.Sum(nil), storedKey) {
			return "e=invalid-proof", false, fmt.Errorf("scram: invalid proof")
		}
		serverKey := hmacSum(s.h, salted, []byte("Server Key"))
		ssig := hmacSum(s.h, serverKey, []byte(authMsg))
		if s.cfg.WrongServerSig {
			ssig[0] ^= 1
		}
		switch {
		case s.cfg.MalformServerFinal:
			return "x=garbage", true, nil
		case s.cfg.EmptyServerFinal:
			return "", true, nil
		case s.cfg.ServerFinalError:
			return "e=other-error", true, nil
		}
		return "v=" + base64.StdEncoding.EncodeToString(ssig), true, nil
	}
	return bad("scram: exchange already finished")
}

func errMsg(cfg *SASLConfig, s string) any {
	if cfg.NullErrorMessages {
		return nil
	}
	return s
}
