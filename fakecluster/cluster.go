// Package fakecluster is an in-process, model-based fake Kafka cluster that
// speaks the wire protocol through the reference codec only.  Its state is the
// ground truth for the oracles; every request and decision is journalled.
package fakecluster

import (
	"encoding/binary"
	"fmt"
	"io"
	"sort"
	"sync"
	"time"

	"verif/memnet"
	"verif/refcodec"
)

// Kafka error codes used by the fake (documented codes only).
const (
	ErrNone                     = 0
	ErrOffsetOutOfRange         = 1
	ErrCorruptMessage           = 2
	ErrUnknownTopicOrPartition  = 3
	ErrLeaderNotAvailable       = 5
	ErrNotLeaderForPartition    = 6
	ErrRequestTimedOut          = 7
	ErrBrokerNotAvailable       = 8
	ErrMessageSizeTooLarge      = 10
	ErrGroupLoadInProgress      = 14
	ErrGroupCoordinatorNotAvail = 15
	ErrNotCoordinatorForGroup   = 16
	ErrInvalidTopic             = 17
	ErrNotEnoughReplicas        = 19
	ErrIllegalGeneration        = 22
	ErrInconsistentGroupProto   = 23
	ErrUnknownMemberID          = 25
	ErrInvalidSessionTimeout    = 26
	ErrRebalanceInProgress      = 27
	ErrTopicAuthorizationFailed = 29
	ErrUnsupportedSASLMechanism = 33
	ErrIllegalSASLState         = 34
	ErrUnsupportedVersion       = 35
	ErrTopicAlreadyExists       = 36
	ErrNotController            = 41
	ErrSASLAuthenticationFailed = 58
)

// Broker of the fake cluster.
type Broker struct {
	ID       int32
	Host     string
	Port     int32
	Rack     string
	Alive    bool
	Versions map[int16][2]int16 // advertised [min,max] per api key
}

func (b *Broker) Addr() string { return fmt.Sprintf("%s:%d", b.Host, b.Port) }

// Partition state; Log holds physical batches with absolute offsets.
type Partition struct {
	Topic    string
	ID       int32
	Leader   int32
	Replicas []int32
	ISR      []int32
	Offline  []int32
	Log      []refcodec.Batch
	LogStart int64
	End      int64 // next offset to assign (= high watermark)
	// OpenTxnFrom > 0: a transaction is open from this offset on, the last stable offset is this and not End
	OpenTxnFrom int64
	// Aborted: aborted transactions (producer id, first offset) reported to read_committed consumers with every fetch
	Aborted  [][2]int64
	encCache map[encKey][]byte
}

type encKey struct {
	index    int
	maxMagic int8
}

// Topic state.
type Topic struct {
	Name       string
	Partitions []*Partition
	Internal   bool
}

// Request is one decoded client request.
type Request struct {
	Seq      int64
	At       time.Time
	Conn     *memnet.ServerConn
	ConnID   int
	BrokerID int32
	ApiKey   int16
	Version  int16
	Corr     int32
	ClientID string
	API      *refcodec.API
	Body     map[string]any
	Raw      []byte
	Err      error // strict decode error (a malformed request)
}

// Action tells the cluster how to treat a request; nil = default behaviour.
type Action struct {
	Delay           time.Duration // sleep before processing
	DropBeforeApply bool          // close the connection, nothing applied
	DropResponse    bool          // apply, then close the connection without answering (lost ack)
	NoResponse      bool          // apply, never answer, keep the connection open
	CutResponseAt   int           // when CutResponse: deliver exactly this many bytes of the response, then EOF/RST
	CutResponse     bool
	Rst             bool
	ErrorCode       int16  // answer with this code instead of applying
	ErrorField      string // "top", "topic", "partition" ("" = the API's most specific level)
	// ErrorSkipFirst (OffsetCommit): the code is reported for (and keeps the broker from applying) every partition entry
	// of a topic except the first one: a refusal that concerns some partitions of a request only.
	ErrorSkipFirst bool
	// ErrorFirstOnly (CreateTopics): the code is reported for the first topic of the request only, the others are created
	ErrorFirstOnly bool
	Chunk          int // deliver the response in reads of at most Chunk bytes
	Hold           <-chan struct{}
	Mutate         func(body map[string]any) // last-minute change of the response body
	BeforeRespond  func()                    // called after applying, before writing
	CorrOverride   *int32
	RawResponse    []byte // send these bytes instead of the encoded response
	// MutateFrame: last-minute change of the encoded response frame (fields = the reference encoder's map of its length
	// and count fields); the frame that is returned is sent as is.
	MutateFrame func(frame []byte, fields []refcodec.LenField) []byte
	Tag         string // free-form, copied into the journal
}

// Exchange is the journal record of one request.
type Exchange struct {
	Seq        int64
	At         time.Time
	ConnID     int
	BrokerID   int32
	ApiKey     int16
	ApiName    string
	Version    int16
	Corr       int32
	ClientID   string
	Body       map[string]any
	DecodeErr  string
	Tag        string
	Outcome    string // answered | dropped-before | dropped-after | cut | no-response | no-response-expected | closed
	ErrorCode  int16  // injected code
	RespBody   map[string]any
	RespBytes  int
	CutAt      int
	Applied    []Applied // produce: what was appended
	AnsweredAt time.Time
}

// Applied describes one produce append.
type Applied struct {
	Topic      string
	Partition  int32
	BaseOffset int64
	Records    []refcodec.Record
	Batch      refcodec.Batch // as received (before offset assignment)
}

// Hook decides per request.
type Hook func(c *Cluster, r *Request) *Action

// Cluster is the fake cluster.
type Cluster struct {
	// ReversePartitionOrder: metadata responses list the partitions of a topic by decreasing id (set before use)
	ReversePartitionOrder bool
	// ReverseOffsetFetchOrder: OffsetFetch responses list the partitions of a topic in the reverse of the requested order
	// (the coordinator builds the answer from a map; the protocol promises no order) (set before use)
	ReverseOffsetFetchOrder bool

	Net *memnet.Network

	mu         sync.Mutex
	changed    chan struct{} // closed and replaced whenever logs or groups change
	brokers    map[int32]*Broker
	controller int32
	topics     map[string]*Topic
	groups     map[string]*Group
	coordOf    map[string]int32
	seq        int64
	journal    []*Exchange
	violations []string
	hook       Hook
	clusterID  string
	AutoCreate int // partitions for auto-created topics (0 = disabled)
	sasl       *SASLConfig
	auth       []AuthEvent
	memberSeq  int
	// MetadataServed journals every metadata response body with its sequence number.
	closed     bool
	hiddenAPIs map[int16]bool // not listed by ApiVersions, served all the same
}

// DefaultVersions advertises every pinned API at its full range.
func DefaultVersions() map[int16][2]int16 {
	v := map[int16][2]int16{}
	for i := range refcodec.APIs {
		a := &refcodec.APIs[i]
		v[a.Key] = [2]int16{a.Min, a.Max}
	}
	return v
}

// New creates a cluster with n brokers (ids 1..n, hosts b<i>.fake:9092).
func New(net *memnet.Network, n int) *Cluster {
	c := &Cluster{Net: net, changed: make(chan struct{}), brokers: map[int32]*Broker{}, topics: map[string]*Topic{}, groups: map[string]*Group{}, coordOf: map[string]int32{}, clusterID: "fake-cluster", controller: 1}
	for i := 1; i <= n; i++ {
		c.AddBroker(int32(i), "")
	}
	return c
}

// AddBroker adds (or revives) a broker and starts listening on its address.
func (c *Cluster) AddBroker(id int32, rack string) *Broker {
	c.mu.Lock()
	b := c.brokers[id]
	if b == nil {
		b = &Broker{ID: id, Host: fmt.Sprintf("b%d.fake", id), Port: 9092, Rack: rack, Versions: DefaultVersions()}
		c.brokers[id] = b
	}
	b.Alive = true
	c.mu.Unlock()
	c.Net.Listen(b.Addr(), func(sc *memnet.ServerConn) { c.serve(b, sc) })
	return b
}

// Broker returns broker id.
func (c *Cluster) Broker(id int32) *Broker {
	c.mu.Lock()
	defer c.mu.Unlock()
	return c.brokers[id]
}

// BrokerIDs lists live broker ids in ascending order.
func (c *Cluster) BrokerIDs() []int32 {
	c.mu.Lock()
	defer c.mu.Unlock()
	return c.liveIDs()
}

func (c *Cluster) liveIDs() []int32 {
	var ids []int32
	for id, b := range c.brokers {
		if b.Alive {
			ids = append(ids, id)
		}
	}
	sort.Slice(ids, func(i, j int) bool { return ids[i] < ids[j] })
	return ids
}

// SetVersions replaces the advertised range of one API on one broker (0 = all brokers).
func (c *Cluster) SetVersions(broker int32, api int16, min, max int16) {
	c.mu.Lock()
	defer c.mu.Unlock()
	for id, b := range c.brokers {
		if broker == 0 || id == broker {
			b.Versions[api] = [2]int16{min, max}
		}
	}
}

// HideFromApiVersions leaves an API out of every broker's ApiVersions answer while the brokers go on serving it (what an
// old broker or a proxy in front of the cluster may do).
func (c *Cluster) HideFromApiVersions(api int16) {
	c.mu.Lock()
	defer c.mu.Unlock()
	if c.hiddenAPIs == nil {
		c.hiddenAPIs = map[int16]bool{}
	}
	c.hiddenAPIs[api] = true
}

// SetHook installs the fault hook.
func (c *Cluster) SetHook(h Hook) {
	c.mu.Lock()
	c.hook = h
	c.mu.Unlock()
}

// SetController names the controller broker.
func (c *Cluster) SetController(id int32) {
	c.mu.Lock()
	c.controller = id
	c.mu.Unlock()
}

// Lock/Unlock give tests consistent access to the state.
func (c *Cluster) Lock()   { c.mu.Lock() }
func (c *Cluster) Unlock() { c.mu.Unlock() }

func (c *Cluster) notifyLocked() {
	close(c.changed)
	c.changed = make(chan struct{})
}

// CreateTopic adds a topic with n partitions led round-robin by the live brokers.
func (c *Cluster) CreateTopic(name string, n int) *Topic {
	c.mu.Lock()
	defer c.mu.Unlock()
	return c.createTopicLocked(name, n)
}

func (c *Cluster) createTopicLocked(name string, n int) *Topic {
	ids := c.liveIDs()
	t := &Topic{Name: name}
	for i := 0; i < n; i++ {
		l := ids[i%len(ids)]
		t.Partitions = append(t.Partitions, &Partition{Topic: name, ID: int32(i), Leader: l, Replicas: []int32{l}, ISR: []int32{l}})
	}
	c.topics[name] = t
	c.notifyLocked()
	return t
}

// Topic returns the topic (nil if absent). Callers hold no lock; treat as read-mostly.
func (c *Cluster) Topic(name string) *Topic {
	c.mu.Lock()
	defer c.mu.Unlock()
	return c.topics[name]
}

// Partition returns the partition or nil.
func (c *Cluster) Partition(topic string, id int32) *Partition {
	c.mu.Lock()
	defer c.mu.Unlock()
	return c.partitionLocked(topic, id)
}

func (c *Cluster) partitionLocked(topic string, id int32) *Partition {
	t := c.topics[topic]
	if t == nil || id < 0 || int(id) >= len(t.Partitions) {
		return nil
	}
	return t.Partitions[id]
}

// MoveLeader changes the leader of a partition.
func (c *Cluster) MoveLeader(topic string, id int32, leader int32) {
	c.mu.Lock()
	defer c.mu.Unlock()
	if p := c.partitionLocked(topic, id); p != nil {
		p.Leader = leader
		p.Replicas = []int32{leader}
		p.ISR = []int32{leader}
		c.notifyLocked()
	}
}

// AppendBatches appends physical batches to a partition log as given (offsets
// must continue the log; holes are allowed) and advances the end offset.
func (c *Cluster) AppendBatches(topic string, id int32, batches ...refcodec.Batch) {
	c.mu.Lock()
	defer c.mu.Unlock()
	p := c.partitionLocked(topic, id)
	for _, b := range batches {
		p.Log = append(p.Log, b)
		if e := batchEnd(&b); e > p.End {
			p.End = e
		}
	}
	c.notifyLocked()
}

// SetLogRange sets log start and end explicitly (e.g. trailing compacted offsets).
func (c *Cluster) SetLogRange(topic string, id int32, start, end int64) {
	c.mu.Lock()
	defer c.mu.Unlock()
	p := c.partitionLocked(topic, id)
	p.LogStart = start
	if end > p.End {
		p.End = end
	}
	c.notifyLocked()
}

// batchEnd is the offset after the last offset the batch covers.
func batchEnd(b *refcodec.Batch) int64 {
	if b.Magic == 2 {
		return b.BaseOffset + int64(b.LastOffsetDelta) + 1
	}
	if len(b.Records) == 0 {
		return 0
	}
	return b.Records[len(b.Records)-1].Offset + 1
}

func batchBase(b *refcodec.Batch) int64 {
	if b.Magic == 2 {
		return b.BaseOffset
	}
	if len(b.Records) == 0 {
		return 0
	}
	return b.Records[0].Offset
}

// Records lists the stored non-control records of a partition (the model).
func (c *Cluster) Records(topic string, id int32) []refcodec.Record {
	c.mu.Lock()
	defer c.mu.Unlock()
	p := c.partitionLocked(topic, id)
	if p == nil {
		return nil
	}
	var out []refcodec.Record
	for i := range p.Log {
		if p.Log[i].Control {
			continue
		}
		for _, r := range p.Log[i].Records {
			if r.Offset >= p.LogStart {
				out = append(out, r)
			}
		}
	}
	return out
}

// Journal returns a copy of the exchange list.
func (c *Cluster) Journal() []*Exchange {
	c.mu.Lock()
	defer c.mu.Unlock()
	out := make([]*Exchange, len(c.journal))
	for i, ex := range c.journal {
		cp := *ex
		out[i] = &cp
	}
	return out
}

// upd changes a journal record under the cluster lock (handlers run
// concurrently with tests reading the journal).
func (c *Cluster) upd(f func()) {
	c.mu.Lock()
	f()
	c.mu.Unlock()
}

// Violations lists protocol violations seen in client requests (malformed frames...).
func (c *Cluster) Violations() []string {
	c.mu.Lock()
	defer c.mu.Unlock()
	return append([]string{}, c.violations...)
}

func (c *Cluster) violation(format string, args ...any) {
	c.mu.Lock()
	if len(c.violations) < 100 {
		c.violations = append(c.violations, fmt.Sprintf(format, args...))
	}
	c.mu.Unlock()
}

// Seq returns the current journal sequence number.
func (c *Cluster) Seq() int64 {
	c.mu.Lock()
	defer c.mu.Unlock()
	return c.seq
}

// Close stops serving.
func (c *Cluster) Close() {
	c.mu.Lock()
	c.closed = true
	c.notifyLocked()
	c.mu.Unlock()
	c.Net.Shutdown()
}

// ---------------------------------------------------------------------------
// connection loop

type connState struct {
	authed       bool
	saslMech     string
	saslRaw      bool // next bytes are raw SASL tokens (handshake v0)
	scram        *scramServer
	handshakeVer int16
	step         int
}

func (c *Cluster) serve(b *Broker, sc *memnet.ServerConn) {
	defer sc.Close()
	st := &connState{}
	for {
		var szb [4]byte
		if _, err := io.ReadFull(sc, szb[:]); err != nil {
			return
		}
		size := int32(binary.BigEndian.Uint32(szb[:]))
		if size < 0 || size > 64<<20 {
			c.violation("conn %d: request frame size %d", sc.ID(), size)
			return
		}
		frame := make([]byte, 4+int(size))
		copy(frame, szb[:])
		if _, err := io.ReadFull(sc, frame[4:]); err != nil {
			return
		}
		c.mu.Lock()
		alive := b.Alive && !c.closed
		saslCfg := c.sasl
		c.mu.Unlock()
		if !alive {
			return
		}
		if st.saslRaw {
			// raw SASL token exchange after a v0 handshake: no Kafka framing
			if !c.serveRawSASL(b, sc, st, frame[4:]) {
				return
			}
			continue
		}
		req := c.decode(b, sc, frame)
		if saslCfg != nil && !st.authed && req.Err == nil && req.ApiKey != 17 && req.ApiKey != 18 && req.ApiKey != 36 {
			// a request before authentication completed: journalled (C18 looks for it) and rejected as brokers do
			ex := c.newExchange(req)
			c.upd(func() { ex.Tag, ex.Outcome = "before-auth", "closed" })
			return
		}
		if !c.handle(b, sc, st, req) {
			return
		}
	}
}

func (c *Cluster) decode(b *Broker, sc *memnet.ServerConn, frame []byte) *Request {
	h, api, body, err := refcodec.DecodeRequest(frame)
	req := &Request{At: time.Now(), Conn: sc, ConnID: sc.ID(), BrokerID: b.ID, ApiKey: h.ApiKey, Version: h.ApiVersion, Corr: h.CorrelationID, API: api, Body: body, Raw: frame, Err: err}
	if h.ClientID != nil {
		req.ClientID = *h.ClientID
	}
	if err == nil {
		c.mu.Lock()
		vr, ok := b.Versions[h.ApiKey]
		c.mu.Unlock()
		if !ok || h.ApiVersion < vr[0] || h.ApiVersion > vr[1] {
			// ApiVersions itself may be sent at any version (brokers answer v0 with UNSUPPORTED_VERSION)
			if h.ApiKey != 18 {
				req.Err = fmt.Errorf("%s v%d is outside the range v%d-v%d this broker advertised", api.Name, h.ApiVersion, vr[0], vr[1])
			}
		}
	}
	return req
}

func (c *Cluster) newExchange(r *Request) *Exchange {
	c.mu.Lock()
	defer c.mu.Unlock()
	c.seq++
	r.Seq = c.seq
	ex := &Exchange{Seq: c.seq, At: r.At, ConnID: r.ConnID, BrokerID: r.BrokerID, ApiKey: r.ApiKey, Version: r.Version, Corr: r.Corr, ClientID: r.ClientID, Body: r.Body}
	if r.API != nil {
		ex.ApiName = r.API.Name
	}
	if r.Err != nil {
		ex.DecodeErr = r.Err.Error()
	}
	c.journal = append(c.journal, ex)
	return ex
}

// handle processes one request; it returns false when the connection must end.
func (c *Cluster) handle(b *Broker, sc *memnet.ServerConn, st *connState, r *Request) bool {
	ex := c.newExchange(r)
	if r.Err != nil {
		c.violation("conn %d seq %d: malformed request: %v (frame %x)", r.ConnID, r.Seq, r.Err, truncate(r.Raw, 200))
		c.upd(func() { ex.Outcome = "closed" })
		return false
	}
	c.mu.Lock()
	hook := c.hook
	c.mu.Unlock()
	var act *Action
	if hook != nil {
		act = hook(c, r)
	}
	if act == nil {
		act = &Action{}
	}
	if c.saslDrop(st, r) {
		act.DropBeforeApply = true
	}
	c.upd(func() { ex.Tag, ex.ErrorCode = act.Tag, act.ErrorCode })
	if act.Delay > 0 {
		time.Sleep(act.Delay)
	}
	if act.DropBeforeApply {
		c.upd(func() { ex.Outcome = "dropped-before" })
		sc.MarkDead()
		return false
	}
	body, respond := c.dispatch(b, st, r, act, ex)
	if act.Mutate != nil && body != nil {
		act.Mutate(body)
	}
	c.upd(func() { ex.RespBody = body })
	if act.BeforeRespond != nil {
		act.BeforeRespond()
	}
	if !respond {
		c.upd(func() { ex.Outcome = "no-response-expected" })
		return true
	}
	if act.DropResponse {
		c.upd(func() { ex.Outcome = "dropped-after" })
		sc.MarkDead()
		return false
	}
	if act.NoResponse {
		c.upd(func() { ex.Outcome = "no-response" })
		// keep reading so that the client's writes do not block; never answer
		return true
	}
	corr := r.Corr
	if act.CorrOverride != nil {
		corr = *act.CorrOverride
	}
	frame := act.RawResponse
	if frame == nil {
		var err error
		var fields []refcodec.LenField
		frame, fields, err = refcodec.EncodeResponse(r.API, r.Version, corr, body, nil)
		if err != nil {
			panic(fmt.Sprintf("fakecluster: cannot encode %s v%d response: %v (body %v)", r.API.Name, r.Version, err, body))
		}
		if act.MutateFrame != nil {
			frame = act.MutateFrame(frame, fields)
		}
	}
	if act.Hold != nil {
		<-act.Hold
	}
	if act.Chunk > 0 {
		sc.SetChunk(act.Chunk)
	} else {
		sc.SetChunk(0)
	}
	if act.CutResponse {
		k := act.CutResponseAt
		if k > len(frame) {
			k = len(frame)
		}
		if k < 0 {
			k = 0
		}
		// the journal is final before the bytes leave: the client may act on them at once
		c.upd(func() { ex.RespBytes, ex.Outcome, ex.CutAt, ex.AnsweredAt = len(frame), "cut", k, time.Now() })
		sc.Write(frame[:k])
		sc.Abort(act.Rst)
		// wait for the client to notice and close, so that the journal of this connection is complete
		c.awaitClientClose(sc, 2*time.Second)
		return false
	}
	c.upd(func() { ex.RespBytes, ex.Outcome, ex.AnsweredAt = len(frame), "answered", time.Now() })
	if _, err := sc.Write(frame); err != nil {
		c.upd(func() { ex.Outcome = "closed" })
		return false
	}
	return true
}

func (c *Cluster) awaitClientClose(sc *memnet.ServerConn, max time.Duration) {
	deadline := time.Now().Add(max)
	for !sc.ClientClosed() && time.Now().Before(deadline) {
		time.Sleep(200 * time.Microsecond)
	}
}

func truncate(b []byte, n int) []byte {
	if len(b) > n {
		return b[:n]
	}
	return b
}

// dispatch runs the API handler; respond=false for acks=0 produce.
func (c *Cluster) dispatch(b *Broker, st *connState, r *Request, act *Action, ex *Exchange) (body map[string]any, respond bool) {
	switch r.ApiKey {
	case 18:
		return c.hApiVersions(b, r, act), true
	case 3:
		return c.hMetadata(b, r, act), true
	case 0:
		return c.hProduce(b, r, act, ex)
	case 1:
		return c.hFetch(b, r, act), true
	case 2:
		return c.hListOffsets(b, r, act), true
	case 10:
		return c.hFindCoordinator(b, r, act), true
	case 19:
		return c.hCreateTopics(b, r, act), true
	case 20:
		return c.hDeleteTopics(b, r, act), true
	case 22:
		return map[string]any{"ErrorCode": int64(act.ErrorCode), "ProducerID": int64(1000 + r.Seq), "ProducerEpoch": int64(0)}, true
	case 11:
		return c.hJoinGroup(b, r, act), true
	case 14:
		return c.hSyncGroup(b, r, act), true
	case 12:
		return c.hHeartbeat(b, r, act), true
	case 13:
		return c.hLeaveGroup(b, r, act), true
	case 8:
		return c.hOffsetCommit(b, r, act), true
	case 9:
		return c.hOffsetFetch(b, r, act), true
	case 16:
		return c.hListGroups(b, r, act), true
	case 15:
		return c.hDescribeGroups(b, r, act), true
	case 17:
		return c.hSaslHandshake(b, st, r, act), true
	case 36:
		return c.hSaslAuthenticate(b, st, r, act), true
	}
	// APIs without a model: answer with an all-default body carrying the injected code at top level
	body = map[string]any{}
	if act.ErrorCode != 0 {
		body["ErrorCode"] = int64(act.ErrorCode)
	}
	return body, true
}

// helpers to read request bodies

func str(m map[string]any, k string) string {
	s, _ := m[k].(string)
	return s
}

func i64(m map[string]any, k string) int64 {
	switch x := m[k].(type) {
	case int64:
		return x
	case int:
		return int64(x)
	}
	return 0
}

func arr(m map[string]any, k string) []any {
	a, _ := m[k].([]any)
	return a
}

func obj(v any) map[string]any {
	m, _ := v.(map[string]any)
	return m
}

func i32s(ids []int32) []any {
	out := make([]any, len(ids))
	for i, v := range ids {
		out[i] = int64(v)
	}
	return out
}

// AddPartitions grows a topic by n partitions (led round-robin).
func (c *Cluster) AddPartitions(topic string, n int) {
	c.mu.Lock()
	defer c.mu.Unlock()
	t := c.topics[topic]
	if t == nil {
		return
	}
	ids := c.liveIDs()
	for i := 0; i < n; i++ {
		id := int32(len(t.Partitions))
		l := ids[int(id)%len(ids)]
		t.Partitions = append(t.Partitions, &Partition{Topic: topic, ID: id, Leader: l, Replicas: []int32{l}, ISR: []int32{l}})
	}
	c.notifyLocked()
}

// GroupMembers lists the member ids of a group.
func (c *Cluster) GroupMembers(group string) []string {
	c.mu.Lock()
	defer c.mu.Unlock()
	g := c.groups[group]
	if g == nil {
		return nil
	}
	return g.memberIDs()
}

// GroupState returns the state and generation of a group.
func (c *Cluster) GroupState(group string) (string, int32) {
	c.mu.Lock()
	defer c.mu.Unlock()
	g := c.groups[group]
	if g == nil {
		return "", 0
	}
	return g.State, g.Generation
}

// PartitionUnlocked and BrokerUnlocked give access to the cluster state to a
// caller that holds the cluster lock (Lock/Unlock).
func (c *Cluster) PartitionUnlocked(topic string, id int32) *Partition {
	return c.partitionLocked(topic, id)
}

func (c *Cluster) BrokerUnlocked(id int32) *Broker { return c.brokers[id] }

// DeleteTopic removes a topic (as a DeleteTopics request to the controller would).
func (c *Cluster) DeleteTopic(name string) {
	c.mu.Lock()
	defer c.mu.Unlock()
	delete(c.topics, name)
	c.notifyLocked()
}

// MoveBrokerPort makes broker id advertise (and listen on) another port, as a broker restarted on the same host with a
// different listener does.  The old address keeps accepting connections (something else may still listen there).
func (c *Cluster) MoveBrokerPort(id int32, port int) {
	c.mu.Lock()
	b := c.brokers[id]
	if b == nil {
		c.mu.Unlock()
		return
	}
	b.Port = int32(port)
	addr := b.Addr()
	c.notifyLocked()
	c.mu.Unlock()
	c.Net.Listen(addr, func(sc *memnet.ServerConn) { c.serve(b, sc) })
}

// SetBrokerVersions is SetVersions for exactly one broker id (0 is a valid broker id here, not "all").
func (c *Cluster) SetBrokerVersions(broker int32, api int16, min, max int16) {
	c.mu.Lock()
	defer c.mu.Unlock()
	if b := c.brokers[broker]; b != nil {
		b.Versions[api] = [2]int16{min, max}
	}
}
