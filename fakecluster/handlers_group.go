package fakecluster

import (
	"fmt"
	"sort"
	"time"
)

func sprintf(format string, args ...any) string { return fmt.Sprintf(format, args...) }

// Group coordinator, modelled on the Java broker's state machine:
// Empty -> PreparingRebalance -> CompletingRebalance -> Stable.
const (
	GroupEmpty               = "Empty"
	GroupPreparingRebalance  = "PreparingRebalance"
	GroupCompletingRebalance = "CompletingRebalance"
	GroupStable              = "Stable"
)

type protoMeta struct {
	Name     string
	Metadata []byte
}

// Member of a group.
type Member struct {
	ID         string
	ClientID   string
	Protocols  []protoMeta
	Assignment []byte
	joined     bool // has (re)joined in the current rebalance round
	JoinedAt   int64
}

// Committed offset.
type Committed struct {
	Offset     int64
	Metadata   string
	Member     string
	Generation int32
	Seq        int64 // journal sequence of the commit request
}

// Group state.
type Group struct {
	ID           string
	State        string
	Generation   int32
	ProtocolType string
	Protocol     string
	Leader       string
	Members      map[string]*Member
	Offsets      map[string]map[int32]Committed
	History      []GroupEvent
	roundStart   time.Time
	roundTimeout time.Duration
}

// GroupEvent is a journal of membership changes (for oracles).
type GroupEvent struct {
	Seq        int64
	Kind       string // join, rebalance-complete, sync, leave, evict, heartbeat-fail
	Member     string
	Generation int32
	Members    []string
	At         time.Time
}

func (c *Cluster) groupLocked(id string) *Group {
	g := c.groups[id]
	if g == nil {
		g = &Group{ID: id, State: GroupEmpty, Members: map[string]*Member{}, Offsets: map[string]map[int32]Committed{}}
		c.groups[id] = g
	}
	return g
}

// Group returns a snapshot-unsafe pointer to the group (use under Lock).
func (c *Cluster) Group(id string) *Group {
	c.mu.Lock()
	defer c.mu.Unlock()
	return c.groups[id]
}

func (g *Group) memberIDs() []string {
	ids := make([]string, 0, len(g.Members))
	for id := range g.Members {
		ids = append(ids, id)
	}
	sort.Strings(ids)
	return ids
}

func (g *Group) event(c *Cluster, kind, member string) {
	g.History = append(g.History, GroupEvent{Seq: c.seq, Kind: kind, Member: member, Generation: g.Generation, Members: g.memberIDs(), At: time.Now()})
}

func (c *Cluster) prepareRebalanceLocked(g *Group, timeout time.Duration) {
	if g.State != GroupPreparingRebalance {
		g.State = GroupPreparingRebalance
		for _, m := range g.Members {
			m.joined = false
		}
		g.roundStart = time.Now()
		g.roundTimeout = timeout
		g.event(c, "prepare-rebalance", "")
	}
	c.notifyLocked()
}

// completeJoinLocked finishes the join phase if every member has rejoined or
// the rebalance timeout has expired (members that did not rejoin are removed).
func (c *Cluster) maybeCompleteJoinLocked(g *Group) bool {
	if g.State != GroupPreparingRebalance {
		return false
	}
	all := true
	for _, m := range g.Members {
		if !m.joined {
			all = false
		}
	}
	expired := g.roundTimeout > 0 && time.Since(g.roundStart) >= g.roundTimeout
	if !all && !expired {
		return false
	}
	if !all {
		for id, m := range g.Members {
			if !m.joined {
				delete(g.Members, id)
				g.event(c, "evict-not-rejoined", id)
			}
		}
	}
	if len(g.Members) == 0 {
		g.State = GroupEmpty
		g.Generation++
		c.notifyLocked()
		return true
	}
	g.Generation++
	g.State = GroupCompletingRebalance
	// protocol: first protocol of the first member (by join order) that all support
	ids := g.memberIDs()
	sort.Slice(ids, func(i, j int) bool { return g.Members[ids[i]].JoinedAt < g.Members[ids[j]].JoinedAt })
	if _, ok := g.Members[g.Leader]; !ok {
		g.Leader = ids[0]
	}
	g.Protocol = ""
	for _, p := range g.Members[ids[0]].Protocols {
		ok := true
		for _, id := range ids {
			has := false
			for _, q := range g.Members[id].Protocols {
				if q.Name == p.Name {
					has = true
				}
			}
			ok = ok && has
		}
		if ok {
			g.Protocol = p.Name
			break
		}
	}
	for _, m := range g.Members {
		m.Assignment = nil
	}
	g.event(c, "rebalance-complete", g.Leader)
	c.notifyLocked()
	return true
}

func (c *Cluster) hJoinGroup(b *Broker, r *Request, act *Action) map[string]any {
	fail := func(code int64) map[string]any {
		return map[string]any{"ErrorCode": code, "GenerationID": int64(-1), "ProtocolName": "", "LeaderID": "", "MemberID": str(r.Body, "MemberID"), "Members": []any{}}
	}
	if act.ErrorCode != 0 {
		return fail(int64(act.ErrorCode))
	}
	gid := str(r.Body, "GroupID")
	if len(arr(r.Body, "Protocols")) == 0 {
		return fail(23) // INCONSISTENT_GROUP_PROTOCOL: a member has to offer at least one protocol
	}
	c.mu.Lock()
	if c.coordinatorLocked(gid) != b.ID {
		c.mu.Unlock()
		return fail(ErrNotCoordinatorForGroup)
	}
	g := c.groupLocked(gid)
	mid := str(r.Body, "MemberID")
	if mid != "" && g.Members[mid] == nil {
		c.mu.Unlock()
		return fail(ErrUnknownMemberID)
	}
	timeout := time.Duration(i64(r.Body, "RebalanceTimeoutMS")) * time.Millisecond
	if r.Version == 0 || timeout <= 0 {
		timeout = time.Duration(i64(r.Body, "SessionTimeoutMS")) * time.Millisecond
	}
	if timeout <= 0 {
		timeout = time.Second
	}
	var m *Member
	if mid == "" {
		c.memberSeq++
		mid = fmt.Sprintf("%s-member-%04d", r.ClientID, c.memberSeq)
		m = &Member{ID: mid, ClientID: r.ClientID, JoinedAt: c.seq}
		g.Members[mid] = m
	} else {
		m = g.Members[mid]
	}
	m.Protocols = nil
	for _, pv := range arr(r.Body, "Protocols") {
		pm := obj(pv)
		md, _ := pm["Metadata"].([]byte)
		m.Protocols = append(m.Protocols, protoMeta{str(pm, "Name"), md})
	}
	g.ProtocolType = str(r.Body, "ProtocolType")
	c.prepareRebalanceLocked(g, timeout)
	m.joined = true
	g.event(c, "join", mid)
	// wait for the round to complete
	for {
		if c.maybeCompleteJoinLocked(g) || g.State != GroupPreparingRebalance || c.closed {
			break
		}
		ch := c.changed
		wait := g.roundTimeout - time.Since(g.roundStart)
		c.mu.Unlock()
		t := time.NewTimer(wait + time.Millisecond)
		select {
		case <-ch:
		case <-t.C:
		}
		t.Stop()
		c.mu.Lock()
		if g.Members[mid] == nil {
			c.mu.Unlock()
			return fail(ErrUnknownMemberID)
		}
	}
	defer c.mu.Unlock()
	if g.Members[mid] == nil {
		return fail(ErrUnknownMemberID)
	}
	var members []any
	if g.Leader == mid {
		for _, id := range g.memberIDs() {
			var md []byte
			for _, p := range g.Members[id].Protocols {
				if p.Name == g.Protocol {
					md = p.Metadata
				}
			}
			if md == nil {
				md = []byte{}
			}
			members = append(members, map[string]any{"MemberID": id, "Metadata": md})
		}
	}
	if members == nil {
		members = []any{}
	}
	return map[string]any{"ErrorCode": int64(0), "GenerationID": int64(g.Generation), "ProtocolName": g.Protocol, "LeaderID": g.Leader, "MemberID": mid, "Members": members}
}

func (c *Cluster) checkMemberLocked(g *Group, mid string, gen int32) int64 {
	if g.Members[mid] == nil {
		return ErrUnknownMemberID
	}
	if gen != g.Generation {
		return ErrIllegalGeneration
	}
	return 0
}

func (c *Cluster) hSyncGroup(b *Broker, r *Request, act *Action) map[string]any {
	fail := func(code int64) map[string]any {
		return map[string]any{"ErrorCode": code, "Assignments": []byte{}}
	}
	if act.ErrorCode != 0 {
		return fail(int64(act.ErrorCode))
	}
	gid := str(r.Body, "GroupID")
	mid := str(r.Body, "MemberID")
	gen := int32(i64(r.Body, "GenerationID"))
	c.mu.Lock()
	if c.coordinatorLocked(gid) != b.ID {
		c.mu.Unlock()
		return fail(ErrNotCoordinatorForGroup)
	}
	g := c.groupLocked(gid)
	if code := c.checkMemberLocked(g, mid, gen); code != 0 {
		c.mu.Unlock()
		return fail(code)
	}
	switch g.State {
	case GroupPreparingRebalance:
		c.mu.Unlock()
		return fail(ErrRebalanceInProgress)
	case GroupCompletingRebalance:
		if mid == g.Leader {
			for _, av := range arr(r.Body, "Assignments") {
				am := obj(av)
				if m := g.Members[str(am, "MemberID")]; m != nil {
					a, _ := am["Assignment"].([]byte)
					m.Assignment = append([]byte{}, a...)
				}
			}
			g.State = GroupStable
			g.event(c, "stable", mid)
			c.notifyLocked()
		}
	}
	// followers wait until the leader has synced or the group moved on
	for g.State == GroupCompletingRebalance && g.Generation == gen && !c.closed {
		ch := c.changed
		c.mu.Unlock()
		t := time.NewTimer(50 * time.Millisecond)
		select {
		case <-ch:
		case <-t.C:
		}
		t.Stop()
		c.mu.Lock()
	}
	defer c.mu.Unlock()
	if code := c.checkMemberLocked(g, mid, gen); code != 0 {
		return fail(code)
	}
	if g.State != GroupStable {
		return fail(ErrRebalanceInProgress)
	}
	a := g.Members[mid].Assignment
	if a == nil {
		a = []byte{}
	}
	return map[string]any{"ErrorCode": int64(0), "Assignments": append([]byte{}, a...)}
}

func (c *Cluster) hHeartbeat(b *Broker, r *Request, act *Action) map[string]any {
	if act.ErrorCode != 0 {
		return map[string]any{"ErrorCode": int64(act.ErrorCode)}
	}
	gid := str(r.Body, "GroupID")
	c.mu.Lock()
	defer c.mu.Unlock()
	if c.coordinatorLocked(gid) != b.ID {
		return map[string]any{"ErrorCode": int64(ErrNotCoordinatorForGroup)}
	}
	g := c.groupLocked(gid)
	code := c.checkMemberLocked(g, str(r.Body, "MemberID"), int32(i64(r.Body, "GenerationID")))
	if code == 0 && g.State == GroupPreparingRebalance {
		code = ErrRebalanceInProgress
	}
	return map[string]any{"ErrorCode": code}
}

func (c *Cluster) hLeaveGroup(b *Broker, r *Request, act *Action) map[string]any {
	if act.ErrorCode != 0 {
		return map[string]any{"ErrorCode": int64(act.ErrorCode)}
	}
	gid := str(r.Body, "GroupID")
	c.mu.Lock()
	defer c.mu.Unlock()
	if c.coordinatorLocked(gid) != b.ID {
		return map[string]any{"ErrorCode": int64(ErrNotCoordinatorForGroup)}
	}
	g := c.groupLocked(gid)
	ids := []string{str(r.Body, "MemberID")}
	if r.Version >= 3 {
		ids = nil
		for _, mv := range arr(r.Body, "Members") {
			ids = append(ids, str(obj(mv), "MemberID"))
		}
	}
	code := int64(0)
	var members []any
	for _, mid := range ids {
		mc := int64(0)
		if g.Members[mid] == nil {
			mc = ErrUnknownMemberID
			if r.Version < 3 {
				code = mc
			}
		} else {
			c.removeMemberLocked(g, mid, "leave")
		}
		members = append(members, map[string]any{"MemberID": mid, "ErrorCode": mc})
	}
	return map[string]any{"ErrorCode": code, "Members": members}
}

func (c *Cluster) removeMemberLocked(g *Group, mid, kind string) {
	delete(g.Members, mid)
	g.event(c, kind, mid)
	if len(g.Members) == 0 {
		g.State = GroupEmpty
		g.Generation++
		c.notifyLocked()
		return
	}
	if g.State == GroupPreparingRebalance {
		c.maybeCompleteJoinLocked(g)
		c.notifyLocked()
		return
	}
	c.prepareRebalanceLocked(g, g.roundTimeout)
}

// EvictMember removes a member as a session timeout would.
func (c *Cluster) EvictMember(group, member string) bool {
	c.mu.Lock()
	defer c.mu.Unlock()
	g := c.groups[group]
	if g == nil || g.Members[member] == nil {
		return false
	}
	c.removeMemberLocked(g, member, "evict")
	return true
}

// ForceRebalance moves a stable group to PreparingRebalance.
func (c *Cluster) ForceRebalance(group string) {
	c.mu.Lock()
	defer c.mu.Unlock()
	if g := c.groups[group]; g != nil && len(g.Members) > 0 {
		c.prepareRebalanceLocked(g, g.roundTimeout)
	}
}

func (c *Cluster) hOffsetCommit(b *Broker, r *Request, act *Action) map[string]any {
	gid := str(r.Body, "GroupID")
	mid := str(r.Body, "MemberID")
	gen := int32(i64(r.Body, "GenerationID"))
	c.mu.Lock()
	defer c.mu.Unlock()
	code := int64(act.ErrorCode)
	partial := int64(0)
	if act.ErrorSkipFirst {
		code, partial = 0, int64(act.ErrorCode)
	}
	g := c.groupLocked(gid)
	if code == 0 {
		switch {
		case c.coordinatorLocked(gid) != b.ID:
			code = ErrNotCoordinatorForGroup
		case r.Version >= 1 && (gen >= 0 || mid != ""):
			code = c.checkMemberLocked(g, mid, gen)
			if code == 0 && g.State == GroupCompletingRebalance {
				code = ErrRebalanceInProgress
			}
		}
	}
	var topics []any
	for _, tv := range arr(r.Body, "Topics") {
		tm := obj(tv)
		name := str(tm, "Name")
		var parts []any
		for pi, pv := range arr(tm, "Partitions") {
			pm := obj(pv)
			pid := int32(i64(pm, "PartitionIndex"))
			pc := code
			if pc == 0 && partial != 0 && pi > 0 {
				pc = partial
			}
			if pc == 0 && c.partitionLocked(name, pid) == nil {
				pc = ErrUnknownTopicOrPartition
			}
			if pc == 0 {
				if g.Offsets[name] == nil {
					g.Offsets[name] = map[int32]Committed{}
				}
				md, _ := pm["CommittedMetadata"].(string)
				g.Offsets[name][pid] = Committed{Offset: i64(pm, "CommittedOffset"), Metadata: md, Member: mid, Generation: gen, Seq: r.Seq}
			}
			parts = append(parts, map[string]any{"PartitionIndex": int64(pid), "ErrorCode": pc})
		}
		topics = append(topics, map[string]any{"Name": name, "Partitions": parts})
	}
	return map[string]any{"Topics": topics}
}

// SetCommitted stores a committed offset directly.
func (c *Cluster) SetCommitted(group, topic string, partition int32, offset int64) {
	c.mu.Lock()
	defer c.mu.Unlock()
	g := c.groupLocked(group)
	if g.Offsets[topic] == nil {
		g.Offsets[topic] = map[int32]Committed{}
	}
	g.Offsets[topic][partition] = Committed{Offset: offset}
}

// CommittedOffset returns the committed offset or -1.
func (c *Cluster) CommittedOffset(group, topic string, partition int32) int64 {
	c.mu.Lock()
	defer c.mu.Unlock()
	if g := c.groups[group]; g != nil {
		if o, ok := g.Offsets[topic][partition]; ok {
			return o.Offset
		}
	}
	return -1
}

func (c *Cluster) hOffsetFetch(b *Broker, r *Request, act *Action) map[string]any {
	gid := str(r.Body, "GroupID")
	c.mu.Lock()
	defer c.mu.Unlock()
	g := c.groupLocked(gid)
	top := int64(0)
	if act.ErrorCode != 0 && (act.ErrorField == "top" && r.Version >= 2) {
		top = int64(act.ErrorCode)
	}
	notCoord := c.coordinatorLocked(gid) != b.ID
	var topics []any
	emit := func(name string, pids []int32) {
		var parts []any
		if c.ReverseOffsetFetchOrder {
			rev := make([]int32, len(pids))
			for i, pid := range pids {
				rev[len(pids)-1-i] = pid
			}
			pids = rev
		}
		for _, pid := range pids {
			resp := map[string]any{"PartitionIndex": int64(pid), "CommittedOffset": int64(-1), "ComittedLeaderEpoch": int64(-1), "Metadata": "", "ErrorCode": int64(0)}
			switch {
			case act.ErrorCode != 0 && top == 0:
				resp["ErrorCode"] = int64(act.ErrorCode)
			case notCoord:
				resp["ErrorCode"] = int64(ErrNotCoordinatorForGroup)
			case c.partitionLocked(name, pid) == nil:
				resp["ErrorCode"] = int64(ErrUnknownTopicOrPartition)
			default:
				if o, ok := g.Offsets[name][pid]; ok {
					resp["CommittedOffset"], resp["Metadata"] = o.Offset, o.Metadata
				}
			}
			parts = append(parts, resp)
		}
		topics = append(topics, map[string]any{"Name": name, "Partitions": parts})
	}
	if r.Body["Topics"] == nil {
		var names []string
		for n := range g.Offsets {
			names = append(names, n)
		}
		sort.Strings(names)
		for _, n := range names {
			var pids []int32
			for pid := range g.Offsets[n] {
				pids = append(pids, pid)
			}
			sort.Slice(pids, func(i, j int) bool { return pids[i] < pids[j] })
			emit(n, pids)
		}
	} else {
		for _, tv := range arr(r.Body, "Topics") {
			tm := obj(tv)
			var pids []int32
			for _, pv := range arr(tm, "PartitionIndexes") {
				pids = append(pids, int32(pv.(int64)))
			}
			emit(str(tm, "Name"), pids)
		}
	}
	if topics == nil {
		topics = []any{}
	}
	return map[string]any{"Topics": topics, "ErrorCode": top}
}

func (c *Cluster) hListGroups(b *Broker, r *Request, act *Action) map[string]any {
	c.mu.Lock()
	defer c.mu.Unlock()
	var out []any
	var ids []string
	for id := range c.groups {
		ids = append(ids, id)
	}
	sort.Strings(ids)
	for _, id := range ids {
		if c.coordinatorLocked(id) == b.ID {
			out = append(out, map[string]any{"GroupID": id, "ProtocolType": c.groups[id].ProtocolType})
		}
	}
	if out == nil {
		out = []any{}
	}
	return map[string]any{"ErrorCode": int64(act.ErrorCode), "Groups": out}
}

func (c *Cluster) hDescribeGroups(b *Broker, r *Request, act *Action) map[string]any {
	c.mu.Lock()
	defer c.mu.Unlock()
	var out []any
	for _, gv := range arr(r.Body, "Groups") {
		id, _ := gv.(string)
		g := c.groups[id]
		resp := map[string]any{"ErrorCode": int64(act.ErrorCode), "GroupID": id, "GroupState": "Dead", "ProtocolType": "", "ProtocolData": "", "Members": []any{}}
		if g != nil && act.ErrorCode == 0 {
			resp["GroupState"], resp["ProtocolType"], resp["ProtocolData"] = g.State, g.ProtocolType, g.Protocol
			var ms []any
			for _, mid := range g.memberIDs() {
				m := g.Members[mid]
				var md []byte
				for _, p := range m.Protocols {
					if p.Name == g.Protocol {
						md = p.Metadata
					}
				}
				if md == nil {
					md = []byte{}
				}
				a := m.Assignment
				if a == nil {
					a = []byte{}
				}
				ms = append(ms, map[string]any{"MemberID": mid, "ClientID": m.ClientID, "ClientHost": "/127.0.0.1", "MemberMetadata": md, "MemberAssignment": a})
			}
			if ms != nil {
				resp["Members"] = ms
			}
		}
		out = append(out, resp)
	}
	return map[string]any{"Groups": out}
}

// GroupUnlocked returns the group; the caller holds the cluster lock (Lock/Unlock).
func (c *Cluster) GroupUnlocked(id string) *Group { return c.groups[id] }
