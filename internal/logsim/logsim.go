// Package logsim generates partition logs: logical records (with compaction
// holes) and a physical layout into batches as brokers produce them.
package logsim

import (
	"pgregory.net/rapid"

	"verif/refcodec"
)

// Opts bounds the generator.
type Opts struct {
	MaxMagic    int8 // 1: message sets only (fetch <= v3); 2: record batches allowed
	MinMagic    int8 // 0..2
	MaxRecords  int  // total logical records
	MaxPerBatch int
	Big         bool  // occasional multi-page values
	Holes       bool  // compaction holes between and inside batches
	EmptyBatch  bool  // retained empty v2 batches
	Control     bool  // control batches (Client.Fetch path only)
	Start       int64 // first offset
	Codecs      []int8
}

// Layout is a generated log.
type Layout struct {
	Batches []refcodec.Batch  `json:"batches"`
	Records []refcodec.Record `json:"-"` // model: stored non-control records in order
	End     int64             `json:"end"`
	Labels  []string          `json:"labels"`
}

// Model recomputes the stored non-control records from the batches.
func Model(batches []refcodec.Batch) []refcodec.Record {
	var out []refcodec.Record
	for _, b := range batches {
		if b.Control {
			continue
		}
		out = append(out, b.Records...)
	}
	return out
}

// End is the offset after the last offset any batch covers.
func End(batches []refcodec.Batch) int64 {
	end := int64(0)
	for _, b := range batches {
		e := int64(0)
		if b.Magic == 2 {
			e = b.BaseOffset + int64(b.LastOffsetDelta) + 1
		} else if len(b.Records) > 0 {
			e = b.Records[len(b.Records)-1].Offset + 1
		}
		if e > end {
			end = e
		}
	}
	return end
}

// Gen draws a layout.
func Gen(t *rapid.T, o Opts) Layout {
	var l Layout
	lab := map[string]bool{}
	off := o.Start
	remaining := rapid.IntRange(1, o.MaxRecords).Draw(t, "nRecords")
	magic := o.MinMagic
	codecs := o.Codecs
	if codecs == nil {
		codecs = []int8{0, 0, 1, 2, 3, 4}
	}
	for remaining > 0 {
		// formats mostly move forward (a log upgraded mid-way); now and then backward (message.format.version lowered again)
		if magic < o.MaxMagic && rapid.IntRange(0, 3).Draw(t, "upgrade") == 0 {
			magic++
			lab["mixed_formats"] = true
		} else if magic > o.MinMagic && rapid.IntRange(0, 7).Draw(t, "downgrade") == 0 {
			magic--
			lab["mixed_formats"] = true
			lab["format_downgraded"] = true
		}
		if o.Holes && rapid.IntRange(0, 4).Draw(t, "gapBetween") == 0 {
			off += int64(rapid.IntRange(1, 4).Draw(t, "gapLen"))
			lab["hole_between_batches"] = true
		}
		if magic == 2 && o.EmptyBatch && rapid.IntRange(0, 7).Draw(t, "emptyBatch") == 0 {
			span := int64(rapid.IntRange(1, 5).Draw(t, "emptySpan"))
			b := refcodec.Batch{Magic: 2, BaseOffset: off, LastOffsetDelta: int32(span - 1), FirstTimestamp: 1, MaxTimestamp: 1, ProducerID: -1, ProducerEpoch: -1, BaseSequence: -1}
			l.Batches = append(l.Batches, b)
			off += span
			lab["empty_batch"] = true
			continue
		}
		if magic == 2 && o.Control && rapid.IntRange(0, 7).Draw(t, "control") == 0 {
			b := refcodec.Batch{Magic: 2, BaseOffset: off, FirstTimestamp: 5, MaxTimestamp: 5, ProducerID: 7, ProducerEpoch: 0, BaseSequence: -1, Control: true, Transactional: true,
				Records: []refcodec.Record{{Offset: off, Timestamp: 5, Key: []byte{0, 0, 0, 1}, Value: []byte{0, 0, 0, 0, 0, 0}}}}
			l.Batches = append(l.Batches, b)
			off++
			lab["control_batch"] = true
			continue
		}
		n := rapid.IntRange(1, min(o.MaxPerBatch, remaining)).Draw(t, "batchRecords")
		remaining -= n
		base := off
		headGap := int64(0)
		if magic == 2 && o.Holes && rapid.IntRange(0, 5).Draw(t, "headCompacted") == 0 {
			headGap = int64(rapid.IntRange(1, 3).Draw(t, "headGap"))
			lab["batch_head_compacted"] = true
		}
		recs := refcodec.GenRecords(t, n, off+headGap, magic, o.Holes && magic == 2, o.Big && rapid.IntRange(0, 6).Draw(t, "bigBatch") == 0)
		for _, r := range recs {
			if len(r.Value) > 65000 {
				lab["value_spans_pages"] = true
			}
		}
		last := recs[len(recs)-1].Offset
		if last-recs[0].Offset != int64(n-1) {
			lab["hole_inside_batch"] = true
		}
		codec := rapid.SampledFrom(codecs).Draw(t, "codec")
		if codec != 0 {
			lab["compressed"] = true
		}
		// a topic configured with message.timestamp.type=LogAppendTime: the broker sets the timestamp-type bit of the
		// attributes and stamps the batch; every record of the batch then carries the same time (generated that way, so that
		// the stored timestamps do not depend on which field a consumer reads them from)
		logAppend := magic >= 1 && rapid.IntRange(0, 5).Draw(t, "logAppendTime") == 0
		if logAppend {
			for i := range recs {
				recs[i].Timestamp = recs[0].Timestamp
			}
			lab["log_append_time"] = true
		}
		switch magic {
		case 2:
			b := refcodec.MakeBatchV2(recs, codec)
			b.BaseOffset = base
			b.FirstTimestamp = recs[0].Timestamp
			b.LastOffsetDelta = int32(last - base)
			if o.Holes && rapid.IntRange(0, 4).Draw(t, "tailCompacted") == 0 {
				b.LastOffsetDelta += int32(rapid.IntRange(1, 4).Draw(t, "tailGap"))
				lab["hole_at_batch_tail"] = true
			}
			b.SnappyXerial = rapid.Bool().Draw(t, "xerial")
			if logAppend {
				b.LogAppendTime, b.MaxTimestamp = true, b.FirstTimestamp
			}
			l.Batches = append(l.Batches, b)
			off = base + int64(b.LastOffsetDelta) + 1
		default:
			if magic == 0 {
				codec = 0
				for i := range recs {
					recs[i].Timestamp = 0
				}
			}
			b := refcodec.Batch{Magic: magic, Codec: codec, Records: recs, RelativeInner: true, SnappyXerial: rapid.Bool().Draw(t, "xerial"), LogAppendTime: logAppend && magic == 1}
			if codec != 0 {
				lab["v1_wrapper_relative"] = true
			}
			l.Batches = append(l.Batches, b)
			off = last + 1
		}
	}
	l.Records = Model(l.Batches)
	l.End = End(l.Batches)
	for k := range lab {
		l.Labels = append(l.Labels, k)
	}
	sortStrings(l.Labels)
	return l
}

func sortStrings(s []string) {
	for i := range s {
		for j := i + 1; j < len(s); j++ {
			if s[j] < s[i] {
				s[i], s[j] = s[j], s[i]
			}
		}
	}
}
