// Package rsim runs generated Reader scenarios (one partition, a generated log,
// faults on chosen fetch responses) against the fake cluster and evaluates the
// delivery oracle of C02: the Reader delivers exactly the stored records from
// its position, in order, each with its exact content.  It is the shared form
// of the scenario used by C02, for properties that add their own faults (C17).
package rsim

import (
	"bytes"
	"context"
	"encoding/binary"
	"errors"
	"fmt"
	"strings"
	"sync"
	"time"

	kafka "github.com/segmentio/kafka-go"

	"verif/fakecluster"
	"verif/memnet"
	"verif/refcodec"
)

const Topic = "t"

// Fault applies to the n-th fetch request the cluster receives (0-based).
type Fault struct {
	Kind string `json:"kind"` // ok | cut | drop | code
	Code int16  `json:"code,omitempty"`
	// cut: where the response ends.  Region selects a part of the frame and
	// PerMille a position inside it: prefix (the 4 size bytes), header (up to the
	// record set), records (inside the record set), batch (exactly at, or one
	// byte around, the start of a batch), full (everything, then the connection ends).
	Region   string `json:"region,omitempty"`
	PerMille int    `json:"per_mille,omitempty"`
	Rst      bool   `json:"rst,omitempty"`
}

// Append adds batches to the log after the reader has delivered N records in total.
type Append struct {
	After   int              `json:"after"`
	Batches []refcodec.Batch `json:"batches"`
}

// Case is a replayable Reader scenario.
type Case struct {
	FetchMax  int16            `json:"fetch_max"`
	Brokers   int              `json:"brokers"`
	Log       []refcodec.Batch `json:"log"`
	LogStart  int64            `json:"log_start"`
	MinBytes  int              `json:"min_bytes"`
	MaxBytes  int              `json:"max_bytes"`
	MaxWaitMs int              `json:"max_wait_ms"`
	QueueCap  int              `json:"queue_capacity"`
	StartOff  int64            `json:"start_offset"` // -1 = first
	Appends   []Append         `json:"appends,omitempty"`
	Faults    []Fault          `json:"faults"`
	Chunk     int              `json:"chunk_reads,omitempty"`
}

// Failure of the delivery oracle.
type Failure struct {
	Sig string
	Msg string
}

// FetchSeen is one fetch exchange of the journal.
type FetchSeen struct {
	Seq       int64
	ConnID    int
	Version   int16
	Offset    int64
	Fault     Fault
	Outcome   string
	CutAt     int
	RespBytes int
	Region    string // resolved region of the cut
}

// Result of a run.
type Result struct {
	Delivered  int
	Surfaced   int // errors FetchMessage returned before carrying on
	Failure    *Failure
	Fetches    []FetchSeen
	Violations []string
	Cluster    *fakecluster.Cluster
	Net        *memnet.Network
	Labels     map[string]bool
}

func sameBytes(a, b []byte) bool { return bytes.Equal(a, b) }

// DiffMessage compares a delivered message with the stored record.
func DiffMessage(m kafka.Message, r refcodec.Record) string {
	switch {
	case m.Offset != r.Offset:
		return fmt.Sprintf("offset %d, stored %d", m.Offset, r.Offset)
	case m.Topic != Topic || m.Partition != 0:
		return fmt.Sprintf("topic/partition %s/%d", m.Topic, m.Partition)
	case !sameBytes(m.Key, r.Key):
		return fmt.Sprintf("key %x, stored %x", m.Key, r.Key)
	case !sameBytes(m.Value, r.Value):
		return fmt.Sprintf("value of %d bytes differs from the stored %d bytes", len(m.Value), len(r.Value))
	case r.Timestamp == 0 && !m.Time.IsZero():
		return fmt.Sprintf("time %v, stored record has no timestamp", m.Time)
	case r.Timestamp != 0 && refcodec.MillisOf(m.Time) != r.Timestamp:
		return fmt.Sprintf("time %d ms, stored %d ms", refcodec.MillisOf(m.Time), r.Timestamp)
	case len(m.Headers) != len(r.Headers):
		return fmt.Sprintf("%d headers, stored %d", len(m.Headers), len(r.Headers))
	}
	for i, h := range m.Headers {
		if h.Key != r.Headers[i].Key || !sameBytes(h.Value, r.Headers[i].Value) {
			return fmt.Sprintf("header %d %q=%x, stored %q=%x", i, h.Key, h.Value, r.Headers[i].Key, r.Headers[i].Value)
		}
	}
	return ""
}

// batchStarts lists the offsets (inside raw) at which a top-level batch or message starts.
func batchStarts(raw []byte) []int {
	var out []int
	p := 0
	for p+12 <= len(raw) {
		out = append(out, p)
		size := int(int32(binary.BigEndian.Uint32(raw[p+8:])))
		if size < 0 || p+12+size > len(raw) {
			break
		}
		p += 12 + size
	}
	return out
}

// ResolveCut turns a region selector into a byte position of the frame.
func ResolveCut(f Fault, frame []byte, fields []refcodec.LenField) (k int, region string) {
	n := len(frame)
	recStart, recEnd := n, n
	for _, lf := range fields {
		if lf.Kind == "records_size" {
			recStart = lf.Off + lf.Width
			recEnd = recStart
			if lf.Value > 0 {
				recEnd = recStart + int(lf.Value)
			}
			if recEnd > n {
				recEnd = n
			}
			break
		}
	}
	pm := f.PerMille
	if pm < 0 {
		pm = 0
	}
	if pm > 999 {
		pm = 999
	}
	switch f.Region {
	case "prefix":
		return pm * 4 / 1000, "size-prefix"
	case "header":
		return 4 + pm*(recStart-4)/1000, "header"
	case "records":
		if recEnd > recStart {
			return recStart + pm*(recEnd-recStart)/1000, "records"
		}
		return 4 + pm*(n-4)/1000, "header"
	case "batch":
		starts := batchStarts(frame[recStart:recEnd])
		if len(starts) == 0 {
			return 4 + pm*(n-4)/1000, "header"
		}
		s := recStart + starts[pm%len(starts)]
		k = s + []int{0, 1, -1, 12, 17, 61}[(pm/len(starts))%6]
		if k > n-1 {
			k = n - 1
		}
		if k < recStart {
			k = recStart
		}
		return k, "records-batch-boundary"
	case "full":
		return n, "complete"
	}
	return pm * n / 1000, "any"
}

// Run executes the scenario and evaluates the delivery oracle.
func Run(c Case) *Result {
	res := &Result{Labels: map[string]bool{}}
	nw := memnet.New()
	cl := fakecluster.New(nw, c.Brokers)
	res.Cluster, res.Net = cl, nw
	defer cl.Close()
	cl.CreateTopic(Topic, 1)
	cl.SetVersions(0, 1, 0, c.FetchMax)
	cl.AppendBatches(Topic, 0, c.Log...)
	if c.LogStart > 0 {
		cl.SetLogRange(Topic, 0, c.LogStart, 0)
	}
	var mu sync.Mutex
	fetchIdx := 0
	faultOf := map[int64]Fault{}
	regionOf := map[int64]string{}
	cl.SetHook(func(cl *fakecluster.Cluster, r *fakecluster.Request) *fakecluster.Action {
		if r.ApiKey != 1 {
			return nil
		}
		mu.Lock()
		i := fetchIdx
		fetchIdx++
		f := Fault{Kind: "ok"}
		if i < len(c.Faults) {
			f = c.Faults[i]
		}
		faultOf[r.Seq] = f
		mu.Unlock()
		act := &fakecluster.Action{Tag: f.Kind, Chunk: c.Chunk}
		switch f.Kind {
		case "code":
			act.ErrorCode = f.Code
		case "drop":
			act.DropBeforeApply = true
		case "cut":
			act.CutResponse, act.Rst = true, f.Rst
			act.Mutate = func(body map[string]any) {
				fr, fields, err := refcodec.EncodeResponse(r.API, r.Version, r.Corr, body, nil)
				if err != nil {
					return
				}
				k, region := ResolveCut(f, fr, fields)
				act.RawResponse, act.CutResponseAt = fr, k
				mu.Lock()
				regionOf[r.Seq] = region
				mu.Unlock()
			}
		}
		return act
	})
	d := &kafka.Dialer{Timeout: 2 * time.Second, ClientID: "rsim", DialFunc: nw.Dial}
	r := kafka.NewReader(kafka.ReaderConfig{Brokers: []string{"b1.fake:9092"}, Topic: Topic, Partition: 0, Dialer: d, MinBytes: c.MinBytes, MaxBytes: c.MaxBytes,
		MaxWait: time.Duration(c.MaxWaitMs) * time.Millisecond, QueueCapacity: c.QueueCap, ReadBackoffMin: time.Millisecond, ReadBackoffMax: 5 * time.Millisecond,
		ReadLagInterval: -1, MaxAttempts: 3, ReadBatchTimeout: 2 * time.Second})
	next := c.LogStart
	if c.StartOff >= 0 {
		r.SetOffset(c.StartOff)
		if c.StartOff > next {
			next = c.StartOff
		}
	} else {
		r.SetOffset(kafka.FirstOffset)
	}
	fail := func(sig, format string, args ...any) {
		if res.Failure == nil {
			res.Failure = &Failure{Sig: sig, Msg: fmt.Sprintf(format, args...)}
		}
	}
	expectNext := func() (refcodec.Record, bool) {
		for _, rec := range cl.Records(Topic, 0) {
			if rec.Offset >= next {
				return rec, true
			}
		}
		return refcodec.Record{}, false
	}
	appended := 0
	deliverOne := func() bool {
		for appended < len(c.Appends) && c.Appends[appended].After <= res.Delivered {
			cl.AppendBatches(Topic, 0, c.Appends[appended].Batches...)
			appended++
			res.Labels["append_during_run"] = true
		}
		want, ok := expectNext()
		timeout := 10 * time.Second
		if !ok {
			timeout = 60 * time.Millisecond
		}
		ctx, cancel := context.WithTimeout(context.Background(), timeout)
		defer cancel()
		var m kafka.Message
		var err error
		for {
			m, err = r.FetchMessage(ctx)
			if err == nil || ctx.Err() != nil {
				break
			}
			res.Labels["error_surfaced_then_continued"] = true
			res.Surfaced++
			if res.Surfaced > 200 {
				break
			}
		}
		if err != nil {
			if !ok && (errors.Is(err, context.DeadlineExceeded) || errors.Is(err, kafka.RequestTimedOut)) {
				return false
			}
			if ok {
				fail("no-delivery", "record at offset %d is stored (position %d) but was not delivered within %v (last error %v)", want.Offset, next, timeout, err)
			}
			return false
		}
		if !ok {
			fail("unexpected-delivery", "a message at offset %d was delivered but no stored record is at or after position %d", m.Offset, next)
			return false
		}
		if m.Offset != want.Offset {
			kind := "gap"
			if m.Offset < next {
				kind = "duplicate-or-reorder"
			}
			fail(kind, "delivered offset %d, the next stored record at or after position %d is %d", m.Offset, next, want.Offset)
			return false
		}
		if d := DiffMessage(m, want); d != "" {
			fail("content", "offset %d: delivered message differs from the stored record: %s", m.Offset, d)
			return false
		}
		next = m.Offset + 1
		res.Delivered++
		return true
	}
	for deliverOne() {
	}
	// appends that were scheduled beyond what the log ever held
	for res.Failure == nil && appended < len(c.Appends) {
		c.Appends[appended].After = 0
		for deliverOne() {
		}
	}
	closed := make(chan struct{})
	go func() { r.Close(); close(closed) }()
	select {
	case <-closed:
	case <-time.After(10 * time.Second):
		res.Labels["reader_close_slow"] = true
	}
	res.Violations = cl.Violations()
	for _, ex := range cl.Journal() {
		if ex.ApiKey != 1 || ex.Body == nil {
			continue
		}
		p := ex.Body["Topics"].([]any)[0].(map[string]any)["Partitions"].([]any)[0].(map[string]any)
		mu.Lock()
		fs := FetchSeen{Seq: ex.Seq, ConnID: ex.ConnID, Version: ex.Version, Offset: p["FetchOffset"].(int64), Fault: faultOf[ex.Seq], Outcome: ex.Outcome, CutAt: ex.CutAt, RespBytes: ex.RespBytes, Region: regionOf[ex.Seq]}
		mu.Unlock()
		res.Fetches = append(res.Fetches, fs)
	}
	return res
}

// Describe renders the fetch journal for failure messages.
func (r *Result) Describe() string {
	var b strings.Builder
	for _, f := range r.Fetches {
		fmt.Fprintf(&b, "  fetch seq%d conn%d v%d offset=%d fault=%s/%s outcome=%s cut@%d/%d\n", f.Seq, f.ConnID, f.Version, f.Offset, f.Fault.Kind, f.Region, f.Outcome, f.CutAt, f.RespBytes)
	}
	s := b.String()
	if len(s) > 3000 {
		s = s[:3000] + "…"
	}
	return s
}
