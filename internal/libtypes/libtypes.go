// Package libtypes maps API keys to the library's request/response Go types and
// converts between the reference record model and protocol.RecordSet.
package libtypes

import (
	"errors"
	"fmt"
	"io"
	"reflect"
	"time"

	"github.com/segmentio/kafka-go/protocol"
	"github.com/segmentio/kafka-go/protocol/addoffsetstotxn"
	"github.com/segmentio/kafka-go/protocol/addpartitionstotxn"
	"github.com/segmentio/kafka-go/protocol/alterclientquotas"
	"github.com/segmentio/kafka-go/protocol/alterconfigs"
	"github.com/segmentio/kafka-go/protocol/alterpartitionreassignments"
	"github.com/segmentio/kafka-go/protocol/alteruserscramcredentials"
	"github.com/segmentio/kafka-go/protocol/apiversions"
	"github.com/segmentio/kafka-go/protocol/createacls"
	"github.com/segmentio/kafka-go/protocol/createpartitions"
	"github.com/segmentio/kafka-go/protocol/createtopics"
	"github.com/segmentio/kafka-go/protocol/deleteacls"
	"github.com/segmentio/kafka-go/protocol/deletegroups"
	"github.com/segmentio/kafka-go/protocol/deletetopics"
	"github.com/segmentio/kafka-go/protocol/describeacls"
	"github.com/segmentio/kafka-go/protocol/describeclientquotas"
	"github.com/segmentio/kafka-go/protocol/describeconfigs"
	"github.com/segmentio/kafka-go/protocol/describegroups"
	"github.com/segmentio/kafka-go/protocol/describeuserscramcredentials"
	"github.com/segmentio/kafka-go/protocol/electleaders"
	"github.com/segmentio/kafka-go/protocol/endtxn"
	"github.com/segmentio/kafka-go/protocol/fetch"
	"github.com/segmentio/kafka-go/protocol/findcoordinator"
	"github.com/segmentio/kafka-go/protocol/heartbeat"
	"github.com/segmentio/kafka-go/protocol/incrementalalterconfigs"
	"github.com/segmentio/kafka-go/protocol/initproducerid"
	"github.com/segmentio/kafka-go/protocol/joingroup"
	"github.com/segmentio/kafka-go/protocol/leavegroup"
	"github.com/segmentio/kafka-go/protocol/listgroups"
	"github.com/segmentio/kafka-go/protocol/listoffsets"
	"github.com/segmentio/kafka-go/protocol/listpartitionreassignments"
	"github.com/segmentio/kafka-go/protocol/metadata"
	"github.com/segmentio/kafka-go/protocol/offsetcommit"
	"github.com/segmentio/kafka-go/protocol/offsetdelete"
	"github.com/segmentio/kafka-go/protocol/offsetfetch"
	"github.com/segmentio/kafka-go/protocol/produce"
	"github.com/segmentio/kafka-go/protocol/saslauthenticate"
	"github.com/segmentio/kafka-go/protocol/saslhandshake"
	"github.com/segmentio/kafka-go/protocol/syncgroup"
	"github.com/segmentio/kafka-go/protocol/txnoffsetcommit"

	"verif/refcodec"
)

type pair struct{ req, resp func() protocol.Message }

var types = map[int16]pair{}

func add(req, resp func() protocol.Message) {
	types[int16(req().ApiKey())] = pair{req, resp}
}

func init() {
	add(func() protocol.Message { return &addoffsetstotxn.Request{} }, func() protocol.Message { return &addoffsetstotxn.Response{} })
	add(func() protocol.Message { return &addpartitionstotxn.Request{} }, func() protocol.Message { return &addpartitionstotxn.Response{} })
	add(func() protocol.Message { return &alterclientquotas.Request{} }, func() protocol.Message { return &alterclientquotas.Response{} })
	add(func() protocol.Message { return &alterconfigs.Request{} }, func() protocol.Message { return &alterconfigs.Response{} })
	add(func() protocol.Message { return &alterpartitionreassignments.Request{} }, func() protocol.Message { return &alterpartitionreassignments.Response{} })
	add(func() protocol.Message { return &alteruserscramcredentials.Request{} }, func() protocol.Message { return &alteruserscramcredentials.Response{} })
	add(func() protocol.Message { return &apiversions.Request{} }, func() protocol.Message { return &apiversions.Response{} })
	add(func() protocol.Message { return &createacls.Request{} }, func() protocol.Message { return &createacls.Response{} })
	add(func() protocol.Message { return &createpartitions.Request{} }, func() protocol.Message { return &createpartitions.Response{} })
	add(func() protocol.Message { return &createtopics.Request{} }, func() protocol.Message { return &createtopics.Response{} })
	add(func() protocol.Message { return &deleteacls.Request{} }, func() protocol.Message { return &deleteacls.Response{} })
	add(func() protocol.Message { return &deletegroups.Request{} }, func() protocol.Message { return &deletegroups.Response{} })
	add(func() protocol.Message { return &deletetopics.Request{} }, func() protocol.Message { return &deletetopics.Response{} })
	add(func() protocol.Message { return &describeacls.Request{} }, func() protocol.Message { return &describeacls.Response{} })
	add(func() protocol.Message { return &describeclientquotas.Request{} }, func() protocol.Message { return &describeclientquotas.Response{} })
	add(func() protocol.Message { return &describeconfigs.Request{} }, func() protocol.Message { return &describeconfigs.Response{} })
	add(func() protocol.Message { return &describegroups.Request{} }, func() protocol.Message { return &describegroups.Response{} })
	add(func() protocol.Message { return &describeuserscramcredentials.Request{} }, func() protocol.Message { return &describeuserscramcredentials.Response{} })
	add(func() protocol.Message { return &electleaders.Request{} }, func() protocol.Message { return &electleaders.Response{} })
	add(func() protocol.Message { return &endtxn.Request{} }, func() protocol.Message { return &endtxn.Response{} })
	add(func() protocol.Message { return &fetch.Request{} }, func() protocol.Message { return &fetch.Response{} })
	add(func() protocol.Message { return &findcoordinator.Request{} }, func() protocol.Message { return &findcoordinator.Response{} })
	add(func() protocol.Message { return &heartbeat.Request{} }, func() protocol.Message { return &heartbeat.Response{} })
	add(func() protocol.Message { return &incrementalalterconfigs.Request{} }, func() protocol.Message { return &incrementalalterconfigs.Response{} })
	add(func() protocol.Message { return &initproducerid.Request{} }, func() protocol.Message { return &initproducerid.Response{} })
	add(func() protocol.Message { return &joingroup.Request{} }, func() protocol.Message { return &joingroup.Response{} })
	add(func() protocol.Message { return &leavegroup.Request{} }, func() protocol.Message { return &leavegroup.Response{} })
	add(func() protocol.Message { return &listgroups.Request{} }, func() protocol.Message { return &listgroups.Response{} })
	add(func() protocol.Message { return &listoffsets.Request{} }, func() protocol.Message { return &listoffsets.Response{} })
	add(func() protocol.Message { return &listpartitionreassignments.Request{} }, func() protocol.Message { return &listpartitionreassignments.Response{} })
	add(func() protocol.Message { return &metadata.Request{} }, func() protocol.Message { return &metadata.Response{} })
	add(func() protocol.Message { return &offsetcommit.Request{} }, func() protocol.Message { return &offsetcommit.Response{} })
	add(func() protocol.Message { return &offsetdelete.Request{} }, func() protocol.Message { return &offsetdelete.Response{} })
	add(func() protocol.Message { return &offsetfetch.Request{} }, func() protocol.Message { return &offsetfetch.Response{} })
	add(func() protocol.Message { return &produce.Request{} }, func() protocol.Message { return &produce.Response{} })
	add(func() protocol.Message { return &saslauthenticate.Request{} }, func() protocol.Message { return &saslauthenticate.Response{} })
	add(func() protocol.Message { return &saslhandshake.Request{} }, func() protocol.Message { return &saslhandshake.Response{} })
	add(func() protocol.Message { return &syncgroup.Request{} }, func() protocol.Message { return &syncgroup.Response{} })
	add(func() protocol.Message { return &txnoffsetcommit.Request{} }, func() protocol.Message { return &txnoffsetcommit.Response{} })
}

// NewRequest returns a zero request of the API.
func NewRequest(key int16) protocol.Message { return types[key].req() }

// NewResponse returns a zero response of the API.
func NewResponse(key int16) protocol.Message { return types[key].resp() }

// Keys lists the registered API keys.
func Keys() []int16 {
	var ks []int16
	for k := range types {
		ks = append(ks, k)
	}
	return ks
}

// MsTime converts a millisecond timestamp to time.Time.
func MsTime(ms int64) time.Time { return time.Unix(ms/1000, (ms%1000)*int64(time.Millisecond)) }

// ToLibRecords builds the library's records from the model.
func ToLibRecords(recs []refcodec.Record) []protocol.Record {
	out := make([]protocol.Record, len(recs))
	for i, r := range recs {
		pr := protocol.Record{Offset: r.Offset, Time: MsTime(r.Timestamp)}
		if !r.KeyNull {
			pr.Key = protocol.NewBytes(append([]byte{}, r.Key...))
		}
		if !r.ValueNull {
			pr.Value = protocol.NewBytes(append([]byte{}, r.Value...))
		}
		for _, h := range r.Headers {
			ph := protocol.Header{Key: h.Key}
			if !h.ValueNull {
				ph.Value = append([]byte{}, h.Value...)
			}
			pr.Headers = append(pr.Headers, ph)
		}
		out[i] = pr
	}
	return out
}

// ReadAllRecords drains a RecordReader into the model; every Bytes is closed.
func ReadAllRecords(rr protocol.RecordReader) ([]refcodec.Record, error) {
	var out []refcodec.Record
	if rr == nil {
		return nil, nil
	}
	for {
		r, err := rr.ReadRecord()
		if err != nil {
			if errors.Is(err, io.EOF) {
				return out, nil
			}
			return out, err
		}
		m := refcodec.Record{Offset: r.Offset, Timestamp: refcodec.MillisOf(r.Time)}
		if r.Key == nil {
			m.KeyNull = true
		} else {
			b, err := protocol.ReadAll(r.Key)
			r.Key.Close()
			if err != nil {
				return out, fmt.Errorf("reading key: %w", err)
			}
			m.Key = append([]byte{}, b...)
		}
		if r.Value == nil {
			m.ValueNull = true
		} else {
			b, err := protocol.ReadAll(r.Value)
			r.Value.Close()
			if err != nil {
				return out, fmt.Errorf("reading value: %w", err)
			}
			m.Value = append([]byte{}, b...)
		}
		for _, h := range r.Headers {
			m.Headers = append(m.Headers, refcodec.Header{Key: h.Key, Value: append([]byte{}, h.Value...), ValueNull: h.Value == nil})
		}
		out = append(out, m)
	}
}

// RecordsHook plugs protocol.RecordSet into the bridge.
func RecordsHook() *refcodec.RecordsHook {
	return &refcodec.RecordsHook{
		ToLib: func(rs *refcodec.RecordSet, dst reflect.Value, ver int16) error {
			p := dst.Addr().Interface().(*protocol.RecordSet)
			if rs == nil || len(rs.Batches) == 0 {
				*p = protocol.RecordSet{}
				return nil
			}
			if len(rs.Batches) != 1 {
				return fmt.Errorf("the library writes one batch per record set")
			}
			b := rs.Batches[0]
			attr := protocol.Attributes(b.Codec)
			if b.Transactional {
				attr |= protocol.Transactional
			}
			if b.Control {
				attr |= protocol.Control
			}
			*p = protocol.RecordSet{Version: b.Magic, Attributes: attr, Records: protocol.NewRecordReader(ToLibRecords(b.Records)...)}
			return nil
		},
		FromLib: func(src reflect.Value, ver int16) (*refcodec.RecordSet, error) {
			p := src.Addr().Interface().(*protocol.RecordSet)
			if p.Records == nil {
				return nil, nil
			}
			recs, err := ReadAllRecords(p.Records)
			if err != nil {
				return nil, err
			}
			return &refcodec.RecordSet{Batches: []refcodec.Batch{{Magic: p.Version, Records: recs}}}, nil
		},
	}
}
