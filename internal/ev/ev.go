// Package ev is the evidence collector and failure recorder shared by all
// property packages.  It keeps, per test binary run: the number of cases
// evaluated, the set of distinct non-trivial case fingerprints, a label
// histogram, a few sample cases, known-finding hits and inconclusive counts.
// The driver (/verif/check) tells it where to write through environment
// variables and merges the per-shard files into /verif/evidence/<id>.json.
package ev

import (
	"encoding/json"
	"fmt"
	"hash/fnv"
	"os"
	"path/filepath"
	"regexp"
	"sort"
	"strconv"
	"strings"
	"sync"
	"testing"
	"time"
)

// TB is the subset of testing.T / rapid.T that property functions use, so the
// same function runs under rapid, under the native fuzzer and in replay mode.
type TB interface {
	Fatalf(format string, args ...any)
	Logf(format string, args ...any)
	Helper()
}

type finding struct {
	Property string `json:"property"`
	ID       string `json:"id"`
	Match    string `json:"match"`
	What     string `json:"what"`
	Status   string `json:"status"` // "known" or "fixed"
	re       *regexp.Regexp
}

type collector struct {
	mu           sync.Mutex
	Property     string `json:"property"`
	Evaluations  int64  `json:"evaluations"`
	Nontrivial   int64  `json:"nontrivial_evaluations"`
	distinct     map[uint64]struct{}
	Distinct     int               `json:"distinct_nontrivial"`
	DistinctBulk int64             `json:"distinct_bulk"`
	Labels       map[string]int64  `json:"labels"`
	Samples      []json.RawMessage `json:"samples"`
	Known        map[string]int64  `json:"known_finding_hits"`
	KnownWhat    map[string]string `json:"known_finding_what"`
	Inconclusive map[string]int64  `json:"inconclusive"`
	Violations   []violation       `json:"violations"`
	Notes        map[string]string `json:"notes"`
	Extra        map[string]int64  `json:"extra"`
	start        time.Time
	WallS        float64 `json:"wall_s"`
	findings     []finding
	maxSamples   int
	replaying    bool
}

type violation struct {
	Signature string `json:"signature"`
	Message   string `json:"message"`
	Replay    string `json:"replay"`
}

var c = &collector{
	distinct:     map[uint64]struct{}{},
	Labels:       map[string]int64{},
	Known:        map[string]int64{},
	KnownWhat:    map[string]string{},
	Inconclusive: map[string]int64{},
	Notes:        map[string]string{},
	Extra:        map[string]int64{},
	maxSamples:   6,
	start:        time.Now(),
}

// Main is called from each property package's TestMain.
func Main(m *testing.M, property string) { MainFunc(m, property, nil) }

// MainFunc is Main with a hook that may adjust the exit code (used by the race
// check, where `testing` fails a test for every detector report, known or not).
func MainFunc(m *testing.M, property string, adjust func(code int) int) {
	c.Property = property
	c.loadFindings()
	probeOnce.Do(startProbe)
	code := m.Run()
	if adjust != nil {
		code = adjust(code)
	}
	Flush()
	os.Exit(code)
}

// ViolationCount is the number of oracle failures recorded by Fail so far.
func ViolationCount() int {
	c.mu.Lock()
	defer c.mu.Unlock()
	return len(c.Violations)
}

func (c *collector) loadFindings() {
	path := os.Getenv("VERIF_KNOWN_FINDINGS")
	if path == "" {
		path = "/verif/known_findings.json"
	}
	c.loadFindingsFile(path)
	// VERIF_KNOWN_FINDINGS_EXTRA: a second list (same format) for experiments;
	// the driver always points VERIF_KNOWN_FINDINGS at the registered list.
	if extra := os.Getenv("VERIF_KNOWN_FINDINGS_EXTRA"); extra != "" {
		c.loadFindingsFile(extra)
	}
}

func (c *collector) loadFindingsFile(path string) {
	b, err := os.ReadFile(path)
	if err != nil {
		return
	}
	var doc struct {
		Findings []finding `json:"findings"`
	}
	if json.Unmarshal(b, &doc) != nil {
		return
	}
	for _, f := range doc.Findings {
		if f.Property != c.Property || f.Status != "known" {
			continue // "fixed" entries suppress nothing
		}
		re, err := regexp.Compile(f.Match)
		if err != nil {
			continue
		}
		f.re = re
		c.findings = append(c.findings, f)
	}
}

// Seed returns VERIF_SEED (0 if unset).
func Seed() int64 {
	n, _ := strconv.ParseInt(os.Getenv("VERIF_SEED"), 10, 64)
	return n
}

// Tier returns "quick" or "thorough".
func Tier() string {
	if os.Getenv("VERIF_TIER") == "thorough" {
		return "thorough"
	}
	return "quick"
}

// Scale returns q in the quick tier and th in the thorough tier; VERIF_SCALE
// (a float) multiplies both, for experiments.
func Scale(q, th int) int {
	n := q
	if Tier() == "thorough" {
		n = th
	}
	if s := os.Getenv("VERIF_SCALE"); s != "" {
		if f, err := strconv.ParseFloat(s, 64); err == nil {
			n = int(float64(n) * f)
			if n < 1 {
				n = 1
			}
		}
	}
	return n
}

func hash(s string) uint64 {
	h := fnv.New64a()
	h.Write([]byte(s))
	return h.Sum64()
}

// Case records one evaluated case.  fingerprint identifies what makes the case
// distinct (by the property's stated rule); nontrivial says whether it counts.
func Case(fingerprint string, nontrivial bool, labels ...string) {
	c.mu.Lock()
	defer c.mu.Unlock()
	c.Evaluations++
	if nontrivial {
		c.Nontrivial++
		c.distinct[hash(fingerprint)] = struct{}{}
	}
	for _, l := range labels {
		c.Labels[l]++
	}
}

// Bulk records n evaluated cases that are pairwise distinct and non-trivial by
// construction (an enumerated product), without hashing each of them.
func Bulk(n int64, labels ...string) {
	c.mu.Lock()
	defer c.mu.Unlock()
	c.Evaluations += n
	c.Nontrivial += n
	c.DistinctBulk += n
	for _, l := range labels {
		c.Labels[l] += n
	}
}

// Label bumps label counters without counting an evaluation.
func Label(labels ...string) {
	c.mu.Lock()
	defer c.mu.Unlock()
	for _, l := range labels {
		c.Labels[l]++
	}
}

// Count adds n to a free-form counter reported in the evidence.
func Count(name string, n int64) {
	c.mu.Lock()
	defer c.mu.Unlock()
	c.Extra[name] += n
}

// Note stores a free-form remark in the evidence.
func Note(k, v string) {
	c.mu.Lock()
	defer c.mu.Unlock()
	c.Notes[k] = v
}

// Sample keeps v (JSON-encoded) as one of the sample cases, up to a small cap.
func Sample(v any) {
	c.mu.Lock()
	defer c.mu.Unlock()
	if len(c.Samples) >= c.maxSamples {
		return
	}
	b, err := json.Marshal(v)
	if err != nil {
		return
	}
	if len(b) > 4000 {
		b, _ = json.Marshal(string(b[:4000]) + "…(truncated)")
	}
	c.Samples = append(c.Samples, b)
}

// SampleN is like Sample but only while fewer than n samples carry the tag.
var sampleTags = map[string]int{}

func SampleTagged(tag string, n int, v any) {
	c.mu.Lock()
	if sampleTags[tag] >= n {
		c.mu.Unlock()
		return
	}
	sampleTags[tag]++
	c.maxSamples++
	c.mu.Unlock()
	Sample(map[string]any{"tag": tag, "case": v})
}

// Inconclusive records an observation that could not be decided (time budget,
// late-but-arrived event).  It never fails a check.
func Inconclusive(kind string) {
	c.mu.Lock()
	defer c.mu.Unlock()
	c.Inconclusive[kind]++
}

// IsKnown reports whether a failure signature matches a listed known finding.
func IsKnown(signature string) (string, bool) {
	for _, f := range c.findings {
		if f.re.MatchString(signature) {
			return f.ID, true
		}
	}
	return "", false
}

// NeedsRepro declares signature prefixes of rules whose only evidence is that something did not happen within a
// wall-clock bound ("not delivered within 10 s").  Such a failure counts only if the same case fails again when it is
// evaluated once more, straight away, in the same process (up to two more evaluations); otherwise it is recorded as
// inconclusive (not_reproduced/<prefix>): a time budget that was hit once proves nothing about the code.
func NeedsRepro(prefixes ...string) { reproPrefixes = append(reproPrefixes, prefixes...) }

var (
	reproPrefixes []string
	inRepro       bool
)

type reproStop struct{}

type reproTB struct{ failed bool }

func (r *reproTB) Fatalf(format string, args ...any) { r.failed = true; panic(reproStop{}) }
func (r *reproTB) Logf(format string, args ...any)   {}
func (r *reproTB) Helper()                           {}

// reproduced evaluates the case again (twice at most) and reports whether it failed again.
func reproduced(kind string, cas any) (again, could bool) {
	run, ok := replayFns[kind]
	if !ok {
		return false, false
	}
	raw, err := json.Marshal(cas)
	if err != nil {
		return false, false
	}
	inRepro = true
	defer func() { inRepro = false }()
	for i := 0; i < 2 && !again; i++ {
		rt := &reproTB{}
		func() {
			defer func() {
				if p := recover(); p != nil {
					if _, ok := p.(reproStop); !ok {
						panic(p)
					}
				}
			}()
			run(rt, raw)
		}()
		again = rt.failed
	}
	return again, true
}

// Fail reports an oracle failure.  If the signature matches a known finding it
// is counted and the function returns false (the caller goes on); otherwise the
// case is written to the replay directory and tb.Fatalf is called.
func Fail(tb TB, kind, signature string, cas any, format string, args ...any) bool {
	tb.Helper()
	msg := fmt.Sprintf(format, args...)
	for _, p := range timedPrefixes {
		if strings.HasPrefix(signature, p) {
			if late := MachineLate(90 * time.Second); late > 200*time.Millisecond {
				// a rule that bounds a latency by a few seconds, on a machine that itself overslept by that much
				Inconclusive("late_machine/" + p)
				return false
			}
		}
	}
	if !inRepro && !c.replaying {
		for _, p := range reproPrefixes {
			if strings.HasPrefix(signature, p) {
				if again, could := reproduced(kind, cas); could && !again {
					Inconclusive("not_reproduced/" + p)
					return false
				}
			}
		}
	}
	for _, f := range c.findings {
		if f.re.MatchString(signature) {
			c.mu.Lock()
			c.Known[f.ID]++
			c.KnownWhat[f.ID] = f.What
			c.mu.Unlock()
			return false
		}
	}
	path := writeReplay(kind, signature, msg, cas)
	c.mu.Lock()
	if len(c.Violations) < 50 {
		c.Violations = append(c.Violations, violation{signature, msg, path})
	}
	c.mu.Unlock()
	Flush()
	tb.Fatalf("ORACLE-FAIL sig=%s replay=%s: %s", signature, path, msg)
	return true
}

// Timed declares signature prefixes of rules that bound a latency by a few seconds.  Fail turns such a failure into an
// inconclusive observation when the process itself was recently late by more than 200 ms (see MachineLate).
func Timed(prefixes ...string) { timedPrefixes = append(timedPrefixes, prefixes...) }

var timedPrefixes []string

var (
	lateMu    sync.Mutex
	lateAt    []time.Time
	lateBy    []time.Duration
	probeOnce sync.Once
)

// MachineLate reports the longest oversleep of the process' probe goroutine (which sleeps 1 ms in a loop) during the
// last `window`: how late the machine itself was.
func MachineLate(window time.Duration) time.Duration {
	probeOnce.Do(startProbe)
	lateMu.Lock()
	defer lateMu.Unlock()
	var max time.Duration
	cut := time.Now().Add(-window)
	for i, at := range lateAt {
		if at.After(cut) && lateBy[i] > max {
			max = lateBy[i]
		}
	}
	return max
}

func startProbe() {
	go func() {
		for {
			t0 := time.Now()
			time.Sleep(time.Millisecond)
			if d := time.Since(t0) - time.Millisecond; d > 50*time.Millisecond {
				lateMu.Lock()
				lateAt, lateBy = append(lateAt, time.Now()), append(lateBy, d)
				if len(lateAt) > 4096 {
					lateAt, lateBy = lateAt[2048:], lateBy[2048:]
				}
				lateMu.Unlock()
			}
		}
	}()
}

// InFlight records the case about to be evaluated, so that a crash of the whole
// process (a panic in a library goroutine, fatal runtime error) can be
// attributed to it by the driver.  Only scenario-style properties call it.
func InFlight(kind string, cas any) {
	if c.replaying {
		return
	}
	dir := os.Getenv("VERIF_REPLAY_DIR")
	if dir == "" {
		dir = filepath.Join(os.TempDir(), "verif-replays")
	}
	os.MkdirAll(dir, 0o755)
	b, err := json.Marshal(map[string]any{"property": c.Property, "kind": kind, "signature": "process-crash", "message": "the process died while this case was running", "case": cas})
	if err != nil {
		return
	}
	os.WriteFile(filepath.Join(dir, fmt.Sprintf("inflight-%s.json", os.Getenv("VERIF_SHARD"))), b, 0o644)
}

var replaySeq int

func writeReplay(kind, signature, msg string, cas any) string {
	if c.replaying {
		return currentReplay
	}
	dir := os.Getenv("VERIF_REPLAY_DIR")
	if dir == "" {
		dir = filepath.Join(os.TempDir(), "verif-replays")
	}
	os.MkdirAll(dir, 0o755)
	doc := map[string]any{"property": c.Property, "kind": kind, "signature": signature, "message": msg, "case": cas}
	b, _ := json.MarshalIndent(doc, "", " ")
	c.mu.Lock()
	replaySeq++
	n := replaySeq
	c.mu.Unlock()
	shard := os.Getenv("VERIF_SHARD")
	if n == 1 {
		os.WriteFile(filepath.Join(dir, fmt.Sprintf("first-%s.json", shard)), b, 0o644)
	}
	// the last failing case rapid evaluates is the most shrunk one
	p := filepath.Join(dir, fmt.Sprintf("min-%s.json", shard))
	os.WriteFile(p, b, 0o644)
	return p
}

var replayFns = map[string]func(tb TB, raw json.RawMessage){}

// Register makes a property function replayable: kind is the value passed to
// Fail, run decodes the JSON case and evaluates the property on it.
func Register[C any](kind string, run func(tb TB, cas C)) {
	replayFns[kind] = func(tb TB, raw json.RawMessage) {
		var cas C
		if err := json.Unmarshal(raw, &cas); err != nil {
			fmt.Fprintf(os.Stderr, "replay: cannot decode case: %v\n", err)
			os.Exit(2)
		}
		run(tb, cas)
	}
}

// RunReplay evaluates the case in the file named by VERIF_REPLAY, bypassing
// rapid.  VERIF_REPLAY_REPEAT (default 1) repeats it, for schedule-dependent
// properties.
func RunReplay(t *testing.T) {
	p := os.Getenv("VERIF_REPLAY")
	if p == "" {
		t.Skip("VERIF_REPLAY not set")
	}
	if st, err := os.Stat(p); err == nil && st.IsDir() {
		// regression tier: every saved case of the directory, in name order
		files, _ := filepath.Glob(filepath.Join(p, "*.json"))
		sort.Strings(files)
		c.replaying = true
		for _, f := range files {
			replayOne(t, f, 1)
			Count("regress_cases_replayed", 1)
		}
		return
	}
	n, _ := strconv.Atoi(os.Getenv("VERIF_REPLAY_REPEAT"))
	if n < 1 {
		n = 1
	}
	c.replaying = true
	replayOne(t, p, n)
}

var currentReplay string

func replayOne(t *testing.T, p string, n int) {
	currentReplay = p
	b, err := os.ReadFile(p)
	if err != nil {
		fmt.Fprintf(os.Stderr, "replay: %v\n", err)
		os.Exit(2)
	}
	var doc struct {
		Kind string          `json:"kind"`
		Case json.RawMessage `json:"case"`
	}
	if err := json.Unmarshal(b, &doc); err != nil {
		fmt.Fprintf(os.Stderr, "replay: %v\n", err)
		os.Exit(2)
	}
	fn := replayFns[doc.Kind]
	if fn == nil {
		fmt.Fprintf(os.Stderr, "replay: unknown kind %q\n", doc.Kind)
		os.Exit(2)
	}
	for i := 0; i < n; i++ {
		fn(t, doc.Case)
	}
}

// Replaying reports whether VERIF_REPLAY is set.
func Replaying() bool { return os.Getenv("VERIF_REPLAY") != "" }

// Flush writes the collector state to VERIF_EVIDENCE_OUT.
func Flush() {
	out := os.Getenv("VERIF_EVIDENCE_OUT")
	if out == "" {
		return
	}
	c.mu.Lock()
	defer c.mu.Unlock()
	c.Distinct = len(c.distinct)
	c.WallS = time.Since(c.start).Seconds()
	type dump struct {
		*collector
		Hashes []uint64 `json:"distinct_hashes"`
	}
	d := dump{collector: c}
	for h := range c.distinct {
		d.Hashes = append(d.Hashes, h)
	}
	sort.Slice(d.Hashes, func(i, j int) bool { return d.Hashes[i] < d.Hashes[j] })
	if len(d.Hashes) > 200000 {
		d.Hashes = d.Hashes[:200000] // merged count becomes a lower bound
	}
	b, _ := json.Marshal(d)
	tmp := out + ".tmp"
	os.WriteFile(tmp, b, 0o644)
	os.Rename(tmp, out)
}
