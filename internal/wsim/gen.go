package wsim

import (
	"pgregory.net/rapid"
)

// Bias selects what a generated scenario concentrates on.
type Bias int

const (
	BiasFaults Bias = iota // C01: faults of every kind
	BiasOrder              // C07: few partitions, retries with successors queued
	BiasSizes              // C08: sizes around the limits, no faults
)

var tempCodes = []int16{5, 6, 7, 19, 3, 20} // ... NotEnoughReplicasAfterAppend (Produce documents it; temporary in the library's classification)
var permCodes = []int16{10, 17, 29, 18, 45, -1} // MessageSizeTooLarge, InvalidTopic, TopicAuthorizationFailed, RecordListTooLarge, UnsupportedForMessageFormat... (non-temporary in the library's classification)

// GenCase draws a scenario.  stratum selects a fixed shape (so that the
// essential classes are always present); pass -1 for free generation.
func GenCase(t *rapid.T, bias Bias, stratum int) Case {
	c := Case{
		Brokers:        rapid.IntRange(1, 3).Draw(t, "brokers"),
		ProduceMax:     rapid.SampledFrom([]int16{0, 1, 2, 3, 5, 7, 8}).Draw(t, "produceMax"),
		BatchSize:      rapid.IntRange(1, 8).Draw(t, "batchSize"),
		BatchTimeoutMs: rapid.IntRange(1, 25).Draw(t, "batchTimeoutMs"),
		MaxAttempts:    rapid.IntRange(1, 4).Draw(t, "maxAttempts"),
		BackoffMinMs:   1,
		BackoffMaxMs:   rapid.IntRange(1, 5).Draw(t, "backoffMaxMs"),
		Acks:           rapid.SampledFrom([]int{1, -1}).Draw(t, "acks"),
		Compression:    rapid.SampledFrom([]int{0, 0, 0, 1, 2, 3, 4}).Draw(t, "compression"),
		Async:          rapid.IntRange(0, 3).Draw(t, "async") == 0,
		Balancer:       rapid.SampledFrom([]string{"roundrobin", "hash", "crc32", "murmur2", "leastbytes", "refhash", "first"}).Draw(t, "balancer"),
		WriterTopic:    rapid.Bool().Draw(t, "writerTopic"),
		WriteTimeoutMs: 5000,
	}
	if rapid.IntRange(0, 11).Draw(t, "defaultAttempts") == 0 {
		// MaxAttempts left unset, or set to something that is not a count: the default of 10 applies
		c.MaxAttempts = rapid.SampledFrom([]int{0, -1}).Draw(t, "unsetAttempts")
	}
	// the pre-0.4 constructor copies the configuration (balancer, limits, acks) into a Writer
	c.ViaNewWriter = rapid.IntRange(0, 7).Draw(t, "viaNewWriter") == 0
	nTopics := 1
	if !c.WriterTopic && rapid.Bool().Draw(t, "twoTopics") {
		nTopics = 2
	}
	maxParts := 4
	if bias == BiasOrder {
		maxParts = 2
	}
	names := []string{"ta", "tb"}
	lookalike := nTopics == 2 && bias != BiasOrder && rapid.IntRange(0, 5).Draw(t, "lookalikeTopics") == 0
	if lookalike {
		// topic names that differ by trailing digits, one of them with partition numbers of two digits: "t1"+"0" and
		// "t"+"10" must stay different topic-partitions wherever the writer keys by both
		names = []string{"t", "t1"}
	}
	for i := 0; i < nTopics; i++ {
		c.Topics = append(c.Topics, names[i])
		n := rapid.IntRange(1, maxParts).Draw(t, "partitions")
		if lookalike && i == 0 {
			n = rapid.IntRange(11, 13).Draw(t, "manyPartitions")
		}
		c.Partitions = append(c.Partitions, n)
	}
	if lookalike {
		c.Balancer = "roundrobin"
	}
	maxMsg := 120
	explicitTimes := rapid.IntRange(0, 3).Draw(t, "explicitTimes") == 0
	nCallers := rapid.IntRange(1, 4).Draw(t, "callers")
	if bias == BiasOrder {
		nCallers = rapid.IntRange(1, 3).Draw(t, "callers")
	}
	total := 0
	largest := int64(0)
	for ci := 0; ci < nCallers; ci++ {
		nCalls := rapid.IntRange(1, 4).Draw(t, "calls")
		var calls []Call
		for k := 0; k < nCalls && total < 60; k++ {
			n := rapid.IntRange(1, 10).Draw(t, "msgs")
			if rapid.IntRange(0, 7).Draw(t, "bigCall") == 0 {
				n = rapid.IntRange(13, 40).Draw(t, "bigCallMsgs") // long enough for anything that treats short slices specially
			}
			call := Call{DelayUs: rapid.SampledFrom([]int{0, 0, 50, 500, 3000}).Draw(t, "delayUs")}
			for m := 0; m < n && total < 60; m++ {
				msg := Msg{KeyLen: rapid.SampledFrom([]int{-1, 0, 1, 3, 8}).Draw(t, "keyLen"), KeySeed: rapid.IntRange(0, 5).Draw(t, "keySeed"),
					ValueSize: rapid.IntRange(8, maxMsg).Draw(t, "valueSize"), Headers: rapid.SampledFrom([]int{0, 0, 0, 1, 2}).Draw(t, "headers"), HeaderLen: rapid.IntRange(0, 6).Draw(t, "headerLen")}
				if !c.WriterTopic {
					msg.Topic = c.Topics[rapid.IntRange(0, nTopics-1).Draw(t, "topic")]
				}
				if explicitTimes && rapid.IntRange(0, 4).Draw(t, "timed") > 0 {
					msg.TimeOffMs = rapid.IntRange(-100000, 100000).Draw(t, "timeOffMs")
				}
				built := Build(ID{ci, k, m}, msg)
				if s := TotalSize(&built); s > largest {
					largest = s
				}
				call.Msgs = append(call.Msgs, msg)
				total++
			}
			calls = append(calls, call)
		}
		c.Callers = append(c.Callers, calls)
	}
	switch rapid.IntRange(0, 2).Draw(t, "batchBytesKind") {
	case 0:
		c.BatchBytes = largest + int64(rapid.IntRange(0, 8).Draw(t, "bbSlack"))
	case 1:
		c.BatchBytes = largest*2 + int64(rapid.IntRange(0, 200).Draw(t, "bbSlack"))
	default:
		c.BatchBytes = 1048576
	}
	if bias == BiasSizes {
		return c
	}
	// faults
	nf := rapid.IntRange(0, 12).Draw(t, "nFaults")
	kinds := []string{"ok", "ok", "temp", "temp", "perm", "drop-before", "lost-ack", "lost-ack", "cut", "slow", "leader-move"}
	if bias == BiasOrder {
		kinds = []string{"ok", "temp", "temp", "lost-ack", "lost-ack", "drop-before", "cut", "leader-move", "perm", "slow"}
	}
	stall := false
	for i := 0; i < nf; i++ {
		f := Fault{Kind: rapid.SampledFrom(kinds).Draw(t, "faultKind")}
		switch f.Kind {
		case "temp":
			f.Code = rapid.SampledFrom(tempCodes).Draw(t, "tempCode")
		case "perm":
			f.Code = rapid.SampledFrom(permCodes).Draw(t, "permCode")
		case "cut":
			f.CutAt = rapid.IntRange(0, 60).Draw(t, "cutAt")
		case "slow":
			f.DelayMs = rapid.IntRange(1, 30).Draw(t, "delayMs")
		}
		c.Faults = append(c.Faults, f)
	}
	// essential strata (built on purpose)
	switch stratum {
	case 0: // lost ack followed by a retry
		c.MaxAttempts = rapid.IntRange(2, 4).Draw(t, "attempts2")
		c.Faults = append([]Fault{{Kind: "lost-ack"}}, c.Faults...)
	case 1: // permanent error
		c.Faults = append([]Fault{{Kind: "perm", Code: rapid.SampledFrom(permCodes).Draw(t, "permCode2")}}, c.Faults...)
	case 2: // mixed outcome inside one call: >= 2 partitions, one batch fails for good
		c.Async = false
		c.MaxAttempts = 1
		c.Balancer = "roundrobin"
		if c.Partitions[0] < 2 {
			c.Partitions[0] = 2
		}
		c.Faults = append([]Fault{{Kind: "perm", Code: 10}, {Kind: "ok"}}, c.Faults...)
	case 3: // async with completion
		c.Async = true
	case 4: // one stalled request (client-side time-out)
		if !stall {
			c.WriteTimeoutMs = 150
			c.Faults = append([]Fault{{Kind: "stall"}}, c.Faults...)
			if len(c.Faults) > 4 {
				c.Faults = c.Faults[:4]
			}
			c.MaxAttempts = rapid.IntRange(1, 2).Draw(t, "attempts3")
		}
	}
	return c
}
