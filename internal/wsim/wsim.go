// Package wsim runs generated Writer scenarios against the fake cluster and
// returns everything the oracles of C01, C07, C08 (and parts of C09, C17) need.
package wsim

import (
	"context"
	"errors"
	"fmt"
	"io"
	"runtime"
	"sort"
	"strconv"
	"strings"
	"sync"
	"sync/atomic"
	"time"

	kafka "github.com/segmentio/kafka-go"

	"verif/fakecluster"
	"verif/memnet"
	"verif/refcodec"
)

// Msg is one generated message.
type Msg struct {
	Topic     string `json:"topic,omitempty"` // message-level topic ("" = writer-level)
	KeyLen    int    `json:"key_len"`         // -1 = nil key
	KeySeed   int    `json:"key_seed"`
	ValueSize int    `json:"value_size"` // total value length (>= len of the id prefix)
	Headers   int    `json:"headers"`
	HeaderLen int    `json:"header_len"`
	// ForceTopic overrides the consistent topic choice: "-" = leave the message
	// topic empty, any other non-empty value = set it (used to build invalid mixes).
	ForceTopic string `json:"force_topic,omitempty"`
	// TimeOffMs != 0: the message carries an explicit Time, this many ms from 2021-01-01 (applications stamp event
	// times; they need not be monotonic in submission order)
	TimeOffMs int `json:"time_off_ms,omitempty"`
}

// Call is one WriteMessages call.
type Call struct {
	Msgs     []Msg `json:"msgs"`
	DelayUs  int   `json:"delay_us"`  // pause before the call
	CancelMs int   `json:"cancel_ms"` // >0: context cancelled after this many ms
}

// Fault applies to the n-th produce request the cluster receives (0-based).
type Fault struct {
	Kind    string `json:"kind"` // ok temp perm drop-before lost-ack cut stall slow leader-move write-stall
	Code    int16  `json:"code,omitempty"`
	CutAt   int    `json:"cut_at,omitempty"`
	DelayMs int    `json:"delay_ms,omitempty"`
}

// Case is a replayable Writer scenario.
type Case struct {
	Brokers        int      `json:"brokers"`
	Topics         []string `json:"topics"`
	Partitions     []int    `json:"partitions"` // per topic
	ProduceMax     int16    `json:"produce_max"`
	BatchSize      int      `json:"batch_size"`
	BatchBytes     int64    `json:"batch_bytes"`
	BatchTimeoutMs int      `json:"batch_timeout_ms"`
	// BatchTimeoutUs > 0 replaces BatchTimeoutMs: a BatchTimeout below a millisecond (BatchTimeoutMs then only tells the
	// oracles which whole number of milliseconds bounds it)
	BatchTimeoutUs int `json:"batch_timeout_us,omitempty"`
	MaxAttempts    int      `json:"max_attempts"`
	BackoffMinMs   int      `json:"backoff_min_ms"`
	BackoffMaxMs   int      `json:"backoff_max_ms"`
	Acks           int      `json:"acks"` // 1 or -1
	Compression    int      `json:"compression"`
	Async          bool     `json:"async"`
	Balancer       string   `json:"balancer"`
	WriterTopic    bool     `json:"writer_topic"`
	WriteTimeoutMs int      `json:"write_timeout_ms"`
	Callers        [][]Call `json:"callers"`
	Faults         []Fault  `json:"faults"`
	// CloseEarly closes the writer while callers may still be running (C09).
	CloseAfterUs int `json:"close_after_us,omitempty"`
	// AbortAfterCalls: once every caller has returned, all connections are reset (stalled requests fail at once).
	AbortAfterCalls bool `json:"abort_after_calls,omitempty"`
	// CloseWatchdogMs overrides the derived watchdog for Close.
	CloseWatchdogMs int `json:"close_watchdog_ms,omitempty"`
	// CallTimeoutMs bounds each WriteMessages call (default 60 s).
	CallTimeoutMs int `json:"call_timeout_ms,omitempty"`
	// SettleMs: after the callers are done, wait (without any further input)
	// until every accepted message was seen in a produce request, at most this long.
	SettleMs int `json:"settle_ms,omitempty"`
	// ViaNewWriter: build the Writer with kafka.NewWriter(WriterConfig{...}) (the pre-0.4 constructor, which copies the
	// configuration into a Writer) and then point it at the scenario's transport.
	ViaNewWriter bool `json:"via_new_writer,omitempty"`
	// DefaultBatchBytes: leave Writer.BatchBytes unset (the documented default of 1048576 applies; BatchBytes above holds it
	// for the oracle).
	DefaultBatchBytes bool `json:"default_batch_bytes,omitempty"`
	// LoggerDelayUs > 0: the Writer gets a Logger that takes this long per line (user callbacks are part of the schedule).
	LoggerDelayUs int `json:"logger_delay_us,omitempty"`
	// StrictLateMs (oracle hint used by C08's steady-stream stratum): >0 = the broker is healthy and batches tiny, a
	// message reaching the broker more than BatchTimeout + this many ms after it was accepted is a violation.
	StrictLateMs int `json:"strict_late_ms,omitempty"`
}

// Attempts is the limit on delivery attempts in force: MaxAttempts, or the documented default of 10 when that is not positive.
func (c Case) Attempts() int {
	if c.MaxAttempts > 0 {
		return c.MaxAttempts
	}
	return 10
}

// ID identifies a message: caller.call.index.
type ID struct{ Caller, Call, Index int }

func (i ID) String() string { return fmt.Sprintf("%d.%d.%d", i.Caller, i.Call, i.Index) }

// ParseID extracts the id from a message value.
func ParseID(v []byte) (ID, bool) {
	s := string(v)
	k := strings.IndexByte(s, '|')
	if k < 0 {
		return ID{}, false
	}
	p := strings.Split(s[:k], ".")
	if len(p) != 3 {
		return ID{}, false
	}
	a, e1 := strconv.Atoi(p[0])
	b, e2 := strconv.Atoi(p[1])
	c, e3 := strconv.Atoi(p[2])
	if e1 != nil || e2 != nil || e3 != nil {
		return ID{}, false
	}
	return ID{a, b, c}, true
}

// Build constructs the kafka.Message of a generated message.
func Build(id ID, m Msg) kafka.Message {
	prefix := id.String() + "|"
	v := make([]byte, 0, len(prefix)+m.ValueSize)
	v = append(v, prefix...)
	for len(v) < m.ValueSize {
		v = append(v, byte('a'+(len(v)*7+id.Index)%26))
	}
	msg := kafka.Message{Topic: m.Topic, Value: v}
	if m.TimeOffMs != 0 {
		msg.Time = time.Date(2021, 1, 1, 0, 0, 0, 0, time.UTC).Add(time.Duration(m.TimeOffMs) * time.Millisecond)
	}
	if m.ForceTopic == "-" {
		msg.Topic = ""
	} else if m.ForceTopic != "" {
		msg.Topic = m.ForceTopic
	}
	if m.KeyLen >= 0 {
		k := make([]byte, m.KeyLen)
		for i := range k {
			k[i] = byte(m.KeySeed*31 + i*17 + 1)
		}
		msg.Key = k
	}
	for h := 0; h < m.Headers; h++ {
		hv := make([]byte, m.HeaderLen)
		for i := range hv {
			hv[i] = byte('A' + (i+h)%26)
		}
		msg.Headers = append(msg.Headers, kafka.Header{Key: fmt.Sprintf("h%d", h), Value: hv})
	}
	return msg
}

func varintLen(v int64) int {
	u := uint64((v << 1) ^ (v >> 63))
	n := 1
	for u >= 0x80 {
		u >>= 7
		n++
	}
	return n
}

// TotalSize is the pinned size measure of BatchBytes (DESIGN A.3): the
// format-1 message size plus the varint-encoded headers.
func TotalSize(m *kafka.Message) int64 {
	n := 4 + 1 + 1 + 8 + 4 + len(m.Key) + 4 + len(m.Value)
	n += varintLen(int64(len(m.Headers)))
	for _, h := range m.Headers {
		n += varintLen(int64(len(h.Key))) + len(h.Key) + varintLen(int64(len(h.Value))) + len(h.Value)
	}
	return int64(n)
}

// CallResult is what one WriteMessages call returned.
type CallResult struct {
	ID        [2]int // caller, call
	N         int
	Started   time.Time
	Returned  time.Time
	Err       error
	PerMsg    []error // non-nil when Err is WriteErrors
	IsWriteEs bool
	Msgs      []kafka.Message
}

// Completion is one invocation of the Completion callback.
type Completion struct {
	IDs       []ID
	Err       error
	At        time.Time
	Topic     string
	Partition int
	Offsets   []int64
}

// ProduceSeen is one produce request as seen by the cluster.
type ProduceSeen struct {
	Seq       int64
	At        time.Time
	Topic     string
	Partition int32
	IDs       []ID
	Sizes     []int64 // pinned size of each record as a kafka.Message
	Fault     string
	Outcome   string // journal outcome
	ErrorCode int16
	Applied   bool
	Acked     bool // applied, answered with code 0 and fully delivered
	NTopics   int
	NParts    int
	Version   int16
}

// Result of a run.
type Result struct {
	Case                        Case
	Calls                       []CallResult
	Completions                 []Completion
	Produces                    []ProduceSeen
	Choice                      map[ID][2]any // topic, partition chosen by the balancer
	OfferedN                    map[ID]int
	OfferedBad                  map[ID]string // the list offered to the balancer for this message was not 0..n-1: what it was
	Logs                        map[string][][]refcodec.Record // topic -> partition -> records
	CloseErr                    error
	CloseTook                   time.Duration
	CloseHung                   bool
	CloseStarted, CloseReturned time.Time
	// MaxJitter: the longest oversleep a probe goroutine (sleeping 1 ms in a loop) saw while the scenario ran: how late
	// the machine itself was.  Rules that bound a latency are judged only when the machine was on time.
	MaxJitter time.Duration
	Writer                      *kafka.Writer
	Violations                  []string
	Stalls                      int
	Unsent                      []ID // accepted messages not seen in any produce request when the settle period ended
	SettledAt                   time.Time
	AfterClose                  error // result of WriteMessages after Close
	AfterCloseEmpty             error // ... of a WriteMessages call without messages
	Cluster                     *fakecluster.Cluster
	Net                         *memnet.Network
}

type recordingBalancer struct {
	inner kafka.Balancer
	mu    sync.Mutex
	res   *Result
}

func (b *recordingBalancer) Balance(msg kafka.Message, partitions ...int) int {
	p := b.inner.Balance(msg, partitions...)
	if id, ok := ParseID(msg.Value); ok {
		b.mu.Lock()
		b.res.Choice[id] = [2]any{msg.Topic, p}
		b.res.OfferedN[id] = len(partitions)
		for i, v := range partitions {
			if v != i {
				b.res.OfferedBad[id] = fmt.Sprintf("entry %d of the %d offered is %d", i, len(partitions), v)
				break
			}
		}
		b.mu.Unlock()
	}
	return p
}

func makeBalancer(name string) kafka.Balancer {
	switch name {
	case "hash":
		return &kafka.Hash{}
	case "crc32":
		return kafka.CRC32Balancer{}
	case "murmur2":
		return kafka.Murmur2Balancer{}
	case "leastbytes":
		return &kafka.LeastBytes{}
	case "refhash":
		return &kafka.ReferenceHash{}
	case "first":
		return kafka.BalancerFunc(func(m kafka.Message, ps ...int) int { return ps[0] })
	}
	return &kafka.RoundRobin{}
}

// StallTimeout is how long a stalled (never answered) produce request makes
// the client wait; WriteTimeoutMs of cases with stall faults should be near it.
func hasStall(c Case) bool {
	for _, f := range c.Faults {
		if f.Kind == "stall" {
			return true
		}
	}
	return false
}

func recordSize(r refcodec.Record) int64 {
	m := kafka.Message{Key: r.Key, Value: r.Value}
	for _, h := range r.Headers {
		m.Headers = append(m.Headers, kafka.Header{Key: h.Key, Value: h.Value})
	}
	return TotalSize(&m)
}

// Run executes the scenario.
func Run(c Case) *Result {
	res := &Result{Case: c, Choice: map[ID][2]any{}, OfferedN: map[ID]int{}, OfferedBad: map[ID]string{}, Logs: map[string][][]refcodec.Record{}}
	stopProbe, probeDone := make(chan struct{}), make(chan time.Duration)
	go func() {
		var max time.Duration
		for {
			select {
			case <-stopProbe:
				probeDone <- max
				return
			default:
			}
			t0 := time.Now()
			time.Sleep(time.Millisecond)
			if d := time.Since(t0) - time.Millisecond; d > max {
				max = d
			}
		}
	}()
	defer func() { close(stopProbe); res.MaxJitter = <-probeDone }()
	nw := memnet.New()
	cl := fakecluster.New(nw, c.Brokers)
	res.Cluster, res.Net = cl, nw
	for i, t := range c.Topics {
		cl.CreateTopic(t, c.Partitions[i])
	}
	if c.ProduceMax >= 0 {
		cl.SetVersions(0, 0, 0, c.ProduceMax)
	}
	var mu sync.Mutex
	var released atomic.Bool
	produceIdx := 0
	faultOf := map[int64]string{}
	cl.SetHook(func(cl *fakecluster.Cluster, r *fakecluster.Request) *fakecluster.Action {
		if r.ApiKey != 0 {
			return nil
		}
		mu.Lock()
		i := produceIdx
		produceIdx++
		var f Fault
		if i < len(c.Faults) {
			f = c.Faults[i]
		}
		faultOf[r.Seq] = f.Kind
		mu.Unlock()
		switch f.Kind {
		case "temp", "perm":
			return &fakecluster.Action{ErrorCode: f.Code, Tag: f.Kind}
		case "drop-before":
			return &fakecluster.Action{DropBeforeApply: true, Tag: f.Kind}
		case "lost-ack":
			return &fakecluster.Action{DropResponse: true, Tag: f.Kind}
		case "cut":
			return &fakecluster.Action{CutResponse: true, CutResponseAt: f.CutAt, Tag: f.Kind}
		case "write-stall":
			// this request is answered; the client's NEXT write on this connection gets stuck after a few bytes for DelayMs
			// (the broker stops reading), then goes through
			r.Conn.StallClientWrites(8, time.Duration(f.DelayMs)*time.Millisecond)
			return &fakecluster.Action{Tag: f.Kind}
		case "stall":
			if released.Load() {
				return nil
			}
			return &fakecluster.Action{NoResponse: true, Tag: f.Kind}
		case "slow":
			return &fakecluster.Action{Delay: time.Duration(f.DelayMs) * time.Millisecond, Tag: f.Kind}
		case "leader-move":
			// move every partition named in the request to another broker first
			for _, tv := range r.Body["Topics"].([]any) {
				tm := tv.(map[string]any)
				for _, pv := range tm["Partitions"].([]any) {
					pid := int32(pv.(map[string]any)["Partition"].(int64))
					ids := cl.BrokerIDs()
					if len(ids) > 1 {
						next := ids[0]
						for _, id := range ids {
							if id != r.BrokerID {
								next = id
								break
							}
						}
						cl.MoveLeader(tm["Topic"].(string), pid, next)
					}
				}
			}
			return &fakecluster.Action{Tag: f.Kind}
		}
		return nil
	})

	wt := time.Duration(c.WriteTimeoutMs) * time.Millisecond
	tr := &kafka.Transport{Dial: nw.Dial, MetadataTTL: 30 * time.Millisecond, DialTimeout: 2 * time.Second, IdleTimeout: 5 * time.Second, ClientID: "wsim"}
	bal := &recordingBalancer{inner: makeBalancer(c.Balancer), res: res}
	var slowLogger kafka.Logger
	if c.LoggerDelayUs > 0 {
		d := time.Duration(c.LoggerDelayUs) * time.Microsecond
		slowLogger = kafka.LoggerFunc(func(string, ...interface{}) { time.Sleep(d) })
	}
	w := &kafka.Writer{
		Addr: kafka.TCP("b1.fake:9092"), Transport: tr, Balancer: bal,
		BatchSize: c.BatchSize, BatchBytes: c.BatchBytes, BatchTimeout: c.batchTimeout(),
		MaxAttempts: c.MaxAttempts, WriteBackoffMin: time.Duration(c.BackoffMinMs) * time.Millisecond, WriteBackoffMax: time.Duration(c.BackoffMaxMs) * time.Millisecond,
		RequiredAcks: kafka.RequiredAcks(c.Acks), Compression: kafka.Compression(c.Compression), Async: c.Async,
		WriteTimeout: wt, ReadTimeout: 5 * time.Second,
	}
	if c.WriterTopic {
		w.Topic = c.Topics[0]
	}
	if c.ViaNewWriter && c.Acks != 0 {
		cfg := kafka.WriterConfig{Brokers: []string{"b1.fake:9092"}, Topic: w.Topic, Balancer: bal, MaxAttempts: c.MaxAttempts, BatchSize: c.BatchSize, BatchBytes: int(c.BatchBytes),
			BatchTimeout: c.batchTimeout(), ReadTimeout: 5 * time.Second, WriteTimeout: wt, RequiredAcks: c.Acks, Async: c.Async}
		if c.Compression != 0 {
			cfg.CompressionCodec = kafka.Compression(c.Compression).Codec()
		}
		nw2 := kafka.NewWriter(cfg)
		nw2.Transport = tr
		nw2.WriteBackoffMin, nw2.WriteBackoffMax = w.WriteBackoffMin, w.WriteBackoffMax
		w = nw2
	}
	if c.Balancer == "default" {
		// no Balancer configured: the Writer's own default (round-robin) applies; the choices are not recorded then
		w.Balancer = nil
	}
	if slowLogger != nil {
		w.Logger = slowLogger
	}
	if c.DefaultBatchBytes {
		w.BatchBytes = 0
	}
	var cmu sync.Mutex
	w.Completion = func(msgs []kafka.Message, err error) {
		comp := Completion{Err: err, At: time.Now()}
		for _, m := range msgs {
			if id, ok := ParseID(m.Value); ok {
				comp.IDs = append(comp.IDs, id)
			}
			comp.Topic, comp.Partition = m.Topic, m.Partition
			comp.Offsets = append(comp.Offsets, m.Offset)
		}
		cmu.Lock()
		res.Completions = append(res.Completions, comp)
		cmu.Unlock()
	}

	var wg sync.WaitGroup
	var rmu sync.Mutex
	for ci, calls := range c.Callers {
		wg.Add(1)
		go func(ci int, calls []Call) {
			defer wg.Done()
			for ki, call := range calls {
				if call.DelayUs > 0 {
					time.Sleep(time.Duration(call.DelayUs) * time.Microsecond)
				}
				msgs := make([]kafka.Message, len(call.Msgs))
				for mi, m := range call.Msgs {
					msgs[mi] = Build(ID{ci, ki, mi}, m)
				}
				callTimeout := 60 * time.Second
				if c.CallTimeoutMs > 0 {
					callTimeout = time.Duration(c.CallTimeoutMs) * time.Millisecond
				}
				ctx, cancel := context.WithTimeout(context.Background(), callTimeout)
				if call.CancelMs > 0 {
					cancel()
					ctx, cancel = context.WithTimeout(context.Background(), time.Duration(call.CancelMs)*time.Millisecond)
				}
				cr := CallResult{ID: [2]int{ci, ki}, N: len(msgs), Started: time.Now(), Msgs: msgs}
				err := w.WriteMessages(ctx, msgs...)
				cancel()
				cr.Returned = time.Now()
				cr.Err = err
				var wes kafka.WriteErrors
				if errors.As(err, &wes) {
					cr.IsWriteEs = true
					cr.PerMsg = wes
				}
				rmu.Lock()
				res.Calls = append(res.Calls, cr)
				rmu.Unlock()
			}
		}(ci, calls)
	}
	callersDone := make(chan struct{})
	go func() { wg.Wait(); close(callersDone) }()
	if c.AbortAfterCalls {
		go func() {
			<-callersDone
			released.Store(true)
			for _, cs := range nw.Conns() {
				nw.AbortConn(cs.ID, true)
			}
		}()
	}
	if c.CloseAfterUs > 0 {
		select {
		case <-callersDone:
		case <-time.After(time.Duration(c.CloseAfterUs) * time.Microsecond):
		}
	} else {
		<-callersDone
	}
	if c.SettleMs > 0 {
		deadline := time.Now().Add(time.Duration(c.SettleMs) * time.Millisecond)
		for {
			want := map[ID]bool{}
			rmu.Lock()
			for _, call := range res.Calls {
				if call.Err == nil {
					for i := 0; i < call.N; i++ {
						want[ID{call.ID[0], call.ID[1], i}] = true
					}
				}
			}
			rmu.Unlock()
			for _, ex := range cl.Journal() {
				if ex.ApiKey != 0 || ex.Body == nil {
					continue
				}
				for _, tv := range ex.Body["Topics"].([]any) {
					for _, pv := range tv.(map[string]any)["Partitions"].([]any) {
						if rs, _ := pv.(map[string]any)["RecordSet"].(*refcodec.RecordSet); rs != nil {
							for _, r := range rs.AllRecords() {
								if id, ok := ParseID(r.Value); ok {
									delete(want, id)
								}
							}
						}
					}
				}
			}
			if len(want) == 0 || time.Now().After(deadline) {
				for id := range want {
					res.Unsent = append(res.Unsent, id)
				}
				break
			}
			time.Sleep(2 * time.Millisecond)
		}
		res.SettledAt = time.Now()
	}
	closed := make(chan struct{})
	start := time.Now()
	res.CloseStarted = start
	res.Writer = w
	go func() { res.CloseErr = w.Close(); res.CloseReturned = time.Now(); close(closed) }()
	// watchdog: attempts x (timeout + backoff) per queued batch, generous
	nb := 4
	for _, calls := range c.Callers {
		for _, call := range calls {
			nb += len(call.Msgs)
		}
	}
	limit := time.Duration(nb*c.Attempts())*(wt+time.Duration(c.BackoffMaxMs)*time.Millisecond) + 10*time.Second
	if limit > 90*time.Second {
		limit = 90 * time.Second
	}
	if c.CloseWatchdogMs > 0 {
		limit = time.Duration(c.CloseWatchdogMs) * time.Millisecond
	}
	select {
	case <-closed:
	case <-time.After(limit):
		res.CloseHung = true
	}
	res.CloseTook = time.Since(start)
	<-callersDone
	if !res.CloseHung {
		res.AfterClose = w.WriteMessages(context.Background(), Build(ID{99, 0, 0}, Msg{KeyLen: -1, ValueSize: 10, Topic: topicFor(c)}))
		res.AfterCloseEmpty = w.WriteMessages(context.Background()) // a call without messages is a call all the same
	}
	tr.CloseIdleConnections()

	// collect
	for i, t := range c.Topics {
		for p := 0; p < c.Partitions[i]; p++ {
			res.Logs[t] = append(res.Logs[t], cl.Records(t, int32(p)))
		}
	}
	res.Violations = cl.Violations()
	for _, ex := range cl.Journal() {
		if ex.ApiKey != 0 || ex.Body == nil {
			continue
		}
		topics, _ := ex.Body["Topics"].([]any)
		for _, tv := range topics {
			tm := tv.(map[string]any)
			parts, _ := tm["Partitions"].([]any)
			for _, pv := range parts {
				pm := pv.(map[string]any)
				ps := ProduceSeen{Seq: ex.Seq, At: ex.At, Topic: tm["Topic"].(string), Partition: int32(pm["Partition"].(int64)), Outcome: ex.Outcome, ErrorCode: ex.ErrorCode, NTopics: len(topics), NParts: len(parts), Version: ex.Version}
				mu.Lock()
				ps.Fault = faultOf[ex.Seq]
				mu.Unlock()
				if rs, _ := pm["RecordSet"].(*refcodec.RecordSet); rs != nil {
					for _, r := range rs.AllRecords() {
						if id, ok := ParseID(r.Value); ok {
							ps.IDs = append(ps.IDs, id)
						} else {
							ps.IDs = append(ps.IDs, ID{-1, -1, -1})
						}
						ps.Sizes = append(ps.Sizes, recordSize(r))
					}
				}
				for _, a := range ex.Applied {
					if a.Topic == ps.Topic && a.Partition == ps.Partition {
						ps.Applied = true
					}
				}
				if ps.Applied && (ex.Outcome == "answered" || (ex.Outcome == "cut" && ex.CutAt == ex.RespBytes)) {
					code := int64(0)
					if ex.RespBody != nil {
						for _, rt := range ex.RespBody["Topics"].([]any) {
							for _, rp := range rt.(map[string]any)["Partitions"].([]any) {
								rpm := rp.(map[string]any)
								if rt.(map[string]any)["Topic"] == ps.Topic && rpm["Partition"].(int64) == int64(ps.Partition) {
									code, _ = rpm["ErrorCode"].(int64)
								}
							}
						}
					}
					ps.Acked = code == 0
				}
				if ps.Fault == "stall" {
					res.Stalls++
				}
				res.Produces = append(res.Produces, ps)
			}
		}
	}
	sort.Slice(res.Calls, func(i, j int) bool {
		if res.Calls[i].ID[0] != res.Calls[j].ID[0] {
			return res.Calls[i].ID[0] < res.Calls[j].ID[0]
		}
		return res.Calls[i].ID[1] < res.Calls[j].ID[1]
	})
	cl.Close()
	return res
}

func topicFor(c Case) string {
	if c.WriterTopic {
		return ""
	}
	return c.Topics[0]
}

func (c Case) batchTimeout() time.Duration {
	if c.BatchTimeoutUs > 0 {
		return time.Duration(c.BatchTimeoutUs) * time.Microsecond
	}
	return time.Duration(c.BatchTimeoutMs) * time.Millisecond
}

// IsClosedPipe reports whether err is io.ErrClosedPipe.
func IsClosedPipe(err error) bool { return errors.Is(err, io.ErrClosedPipe) }

// GoroutineDump returns the stacks of all goroutines.
func GoroutineDump() string {
	buf := make([]byte, 1<<20)
	n := runtime.Stack(buf, true)
	return string(buf[:n])
}
