// Package gsim runs generated consumer-group histories (several group Readers
// against the fake coordinator) and records the application-side log, globally
// sequenced with the coordinator journal.  Used by C03, C09 and C10.
package gsim

import (
	"context"
	"errors"
	"fmt"
	"io"
	"net"
	"sync"
	"syscall"
	"time"

	kafka "github.com/segmentio/kafka-go"

	"verif/fakecluster"
	"verif/memnet"
	"verif/refcodec"
)

// Step of a history.
type Step struct {
	Op     string `json:"op"` // join close crash evict rebalance fetch commit read append sleep moveleader
	Member int    `json:"member,omitempty"`
	N      int    `json:"n,omitempty"`     // fetch: messages; append: records; sleep: ms
	Topic  int    `json:"topic,omitempty"` // append / moveleader
	Part   int    `json:"part,omitempty"`  // append / moveleader
	Pick   int    `json:"pick,omitempty"`  // commit: which of the member's fetched-but-uncommitted messages (index from the oldest, modulo)
	UpTo   bool   `json:"up_to,omitempty"` // commit: pass every fetched message up to the picked one (in order) instead of only the picked one
	Mix    bool   `json:"mix,omitempty"`   // commit with UpTo: pass the messages with the topics alternating (A,B,A,B...) as far as possible
	// TimeoutMs (commit): the call's context ends after this many ms (default 8 s): with a slow coordinator the caller gives
	// up while its commit is still in flight.
	TimeoutMs int `json:"timeout_ms,omitempty"`
}

// Fault applies to the n-th request of an API (0-based, counted per API).
type Fault struct {
	API  string `json:"api"` // findcoordinator join sync heartbeat commit offsetfetch leave fetch
	Nth  int    `json:"nth"`
	Kind string `json:"kind"` // code drop lost-ack slow (slow: answered correctly after Code milliseconds) code-not-first (commit: every partition entry of a topic but the first is refused)
	Code int16  `json:"code,omitempty"`
}

// Case is a replayable history.
type Case struct {
	Brokers          int     `json:"brokers"`
	Topics           int     `json:"topics"`
	Partitions       []int   `json:"partitions"`
	Initial          [][]int `json:"initial"` // records per topic/partition at the start
	Members          int     `json:"members"`
	CommitIntervalMs []int   `json:"commit_interval_ms"` // per member; 0 = synchronous commits
	StartLast        bool    `json:"start_last"`
	Balancer         string  `json:"balancer"` // range | roundrobin
	MultiTopic       bool    `json:"multi_topic"`
	QueueCapacity    int     `json:"queue_capacity"`
	Steps            []Step  `json:"steps"`
	Faults           []Fault `json:"faults"`
	Quiesce          bool    `json:"quiesce"` // after the steps: stop faults, drain with the surviving members
	// NarrowMembers (with MultiTopic): these members subscribe to the first topic only, the others to all topics.
	NarrowMembers []int `json:"narrow_members,omitempty"`
	// MaxBytes of the readers (0 = 1 MiB): small values make the broker end fetch responses inside a batch.
	MaxBytes int `json:"max_bytes,omitempty"`
	// ReverseOffsetFetch: the coordinator lists the partitions of its OffsetFetch answers in reverse order.
	ReverseOffsetFetch bool `json:"reverse_offset_fetch,omitempty"`
}

// AppEvent is one application-side observation.
type AppEvent struct {
	Seq       int64 // cluster journal sequence number read when the event was recorded
	At        time.Time
	Member    int
	Kind      string // delivered | commit-call | commit-return | read (ReadMessage: delivered, commit implied) | error | closed
	Topic     string
	Partition int
	Offset    int64
	Value     string
	Err       error
	CallID    int
	SeqBefore int64 // for calls: sequence number read before the call started
}

// Result of a run.
type Result struct {
	Case        Case
	Events      []AppEvent
	Cluster     *fakecluster.Cluster
	Net         *memnet.Network
	Journal     []*fakecluster.Exchange
	Topics      []string
	Stored      map[string][][]refcodec.Record
	CloseTook   map[int]time.Duration
	CloseHung   []int
	Crashed     map[int]bool
	Closed      map[int]bool
	MemberIDs   map[int][]string // coordinator member ids each reader used (from its JoinGroup responses)
	ConnsOf     map[int][]int
	Quiesced    bool
	DueTopics   []int // topic indexes at least one surviving member subscribes to (what quiescence is about)
	Undelivered []string
	StepTime    map[string]time.Duration
}

type member struct {
	idx     int
	r       *kafka.Reader
	mu      sync.Mutex
	conns   []int
	severed bool
	fetched []kafka.Message // fetched and not yet passed to CommitMessages
	closed  bool
}

const GroupID = "grp"

func topicName(i int) string { return fmt.Sprintf("t%d", i) }

var apiKeys = map[string]int16{"findcoordinator": 10, "join": 11, "sync": 14, "heartbeat": 12, "commit": 8, "offsetfetch": 9, "leave": 13, "fetch": 1}

func (c Case) narrow(i int) bool {
	for _, n := range c.NarrowMembers {
		if n == i {
			return true
		}
	}
	return false
}

// Run executes the history.
func Run(c Case) *Result {
	res := &Result{Case: c, Stored: map[string][][]refcodec.Record{}, CloseTook: map[int]time.Duration{}, Crashed: map[int]bool{}, Closed: map[int]bool{}, MemberIDs: map[int][]string{}, ConnsOf: map[int][]int{}}
	nw := memnet.New()
	cl := fakecluster.New(nw, c.Brokers)
	cl.ReverseOffsetFetchOrder = c.ReverseOffsetFetch
	res.Cluster, res.Net = cl, nw
	nextOff := map[string][]int64{}
	seqNo := 0
	appendRecords := func(t string, p int, n int) {
		var recs []refcodec.Record
		for i := 0; i < n; i++ {
			seqNo++
			recs = append(recs, refcodec.Record{Offset: nextOff[t][p], Timestamp: int64(1000 + seqNo), Key: []byte(fmt.Sprintf("k%d", seqNo)), Value: []byte(fmt.Sprintf("%s/%d/%d", t, p, nextOff[t][p]))})
			nextOff[t][p]++
		}
		if len(recs) > 0 {
			cl.AppendBatches(t, int32(p), refcodec.MakeBatchV2(recs, 0))
		}
	}
	for ti := 0; ti < c.Topics; ti++ {
		t := topicName(ti)
		res.Topics = append(res.Topics, t)
		cl.CreateTopic(t, c.Partitions[ti])
		nextOff[t] = make([]int64, c.Partitions[ti])
		for p := 0; p < c.Partitions[ti]; p++ {
			appendRecords(t, p, c.Initial[ti][p])
		}
	}
	var fmu sync.Mutex
	counts := map[int16]int{}
	faultsOn := true
	cl.SetHook(func(cl *fakecluster.Cluster, r *fakecluster.Request) *fakecluster.Action {
		fmu.Lock()
		defer fmu.Unlock()
		n := counts[r.ApiKey]
		counts[r.ApiKey]++
		if !faultsOn {
			return nil
		}
		for _, f := range c.Faults {
			if apiKeys[f.API] == r.ApiKey && f.Nth == n {
				switch f.Kind {
				case "drop":
					return &fakecluster.Action{DropBeforeApply: true, Tag: "fault-drop"}
				case "lost-ack":
					return &fakecluster.Action{DropResponse: true, Tag: "fault-lost-ack"}
				case "code-not-first":
					return &fakecluster.Action{ErrorCode: f.Code, ErrorSkipFirst: true, Tag: fmt.Sprintf("fault-code-%d-not-first", f.Code)}
				case "slow":
					return &fakecluster.Action{Delay: time.Duration(f.Code) * time.Millisecond, Tag: "fault-slow"}
				default:
					return &fakecluster.Action{ErrorCode: f.Code, Tag: fmt.Sprintf("fault-code-%d", f.Code)}
				}
			}
		}
		return nil
	})

	var emu sync.Mutex
	record := func(e AppEvent) {
		e.At = time.Now()
		if e.Seq == 0 {
			e.Seq = cl.Seq()
		}
		emu.Lock()
		res.Events = append(res.Events, e)
		emu.Unlock()
	}
	members := make([]*member, c.Members)
	newMember := func(i int) *member {
		m := &member{idx: i}
		d := &kafka.Dialer{Timeout: 2 * time.Second, ClientID: fmt.Sprintf("m%d", i), DialFunc: func(ctx context.Context, network, addr string) (net.Conn, error) {
			m.mu.Lock()
			dead := m.severed
			m.mu.Unlock()
			if dead {
				return nil, &net.OpError{Op: "dial", Net: network, Err: syscall.EHOSTUNREACH}
			}
			conn, err := nw.Dial(ctx, network, addr)
			if err == nil {
				m.mu.Lock()
				m.conns = append(m.conns, memnet.ConnID(conn))
				if m.severed {
					nw.AbortConn(memnet.ConnID(conn), true)
				}
				m.mu.Unlock()
			}
			return conn, err
		}}
		var bal kafka.GroupBalancer = kafka.RangeGroupBalancer{}
		if c.Balancer == "roundrobin" {
			bal = kafka.RoundRobinGroupBalancer{}
		}
		maxBytes := 1 << 20
		if c.MaxBytes > 0 {
			maxBytes = c.MaxBytes
		}
		cfg := kafka.ReaderConfig{Brokers: []string{"b1.fake:9092"}, GroupID: GroupID, Dialer: d, MinBytes: 1, MaxBytes: maxBytes, MaxWait: 200 * time.Millisecond,
			QueueCapacity: c.QueueCapacity, ReadBackoffMin: time.Millisecond, ReadBackoffMax: 5 * time.Millisecond, MaxAttempts: 3,
			HeartbeatInterval: 15 * time.Millisecond, SessionTimeout: 5 * time.Second, RebalanceTimeout: 150 * time.Millisecond, JoinGroupBackoff: 10 * time.Millisecond,
			CommitInterval: time.Duration(c.CommitIntervalMs[i]) * time.Millisecond, GroupBalancers: []kafka.GroupBalancer{bal}, ReadLagInterval: -1,
			StartOffset: kafka.FirstOffset, WatchPartitionChanges: false}
		if c.StartLast {
			cfg.StartOffset = kafka.LastOffset
		}
		if c.MultiTopic && c.Topics > 1 {
			cfg.GroupTopics = res.Topics
			if c.narrow(i) {
				cfg.GroupTopics = res.Topics[:1]
			}
		} else {
			cfg.Topic = res.Topics[0]
		}
		m.r = kafka.NewReader(cfg)
		return m
	}
	closeMember := func(m *member) {
		if m == nil || m.closed {
			return
		}
		m.closed = true
		done := make(chan struct{})
		t0 := time.Now()
		go func() { m.r.Close(); close(done) }()
		select {
		case <-done:
			res.CloseTook[m.idx] = time.Since(t0)
		case <-time.After(25 * time.Second):
			res.CloseHung = append(res.CloseHung, m.idx)
		}
		record(AppEvent{Member: m.idx, Kind: "closed"})
	}
	callID := 0
	fetchOne := func(m *member, timeout time.Duration, viaRead bool) bool {
		callID++
		before := cl.Seq()
		ctx, cancel := context.WithTimeout(context.Background(), timeout)
		defer cancel()
		var msg kafka.Message
		var err error
		if viaRead {
			msg, err = m.r.ReadMessage(ctx)
		} else {
			msg, err = m.r.FetchMessage(ctx)
		}
		if err != nil {
			if viaRead && (msg.Topic != "" || len(msg.Value) > 0) {
				// ReadMessage fetched the message but could not commit it: the program has the message
				// (kind "read-uncommitted": handed over, nothing acknowledged, not passed to a later commit)
				record(AppEvent{Member: m.idx, Kind: "read-uncommitted", Topic: msg.Topic, Partition: msg.Partition, Offset: msg.Offset, Value: string(msg.Value), Err: err, CallID: callID, SeqBefore: before})
				m.fetched = append(m.fetched, msg)
				return true
			}
			if !errors.Is(err, context.DeadlineExceeded) {
				record(AppEvent{Member: m.idx, Kind: "error", Err: err, CallID: callID, SeqBefore: before})
			}
			return false
		}
		kind := "delivered"
		if viaRead {
			kind = "read"
		} else {
			m.fetched = append(m.fetched, msg)
		}
		record(AppEvent{Member: m.idx, Kind: kind, Topic: msg.Topic, Partition: msg.Partition, Offset: msg.Offset, Value: string(msg.Value), CallID: callID, SeqBefore: before})
		return true
	}
	mixNext := false
	commitTimeout := 8 * time.Second
	commit := func(m *member, pick int, upTo bool) {
		if len(m.fetched) == 0 {
			return
		}
		k := pick % len(m.fetched)
		var msgs []kafka.Message
		if upTo {
			msgs = append(msgs, m.fetched[:k+1]...)
			m.fetched = append([]kafka.Message{}, m.fetched[k+1:]...)
		} else {
			msgs = []kafka.Message{m.fetched[k]}
			m.fetched = append(append([]kafka.Message{}, m.fetched[:k]...), m.fetched[k+1:]...)
		}
		if mixNext && len(msgs) > 2 {
			// the same messages, topics alternating (the order inside one topic-partition is kept)
			byTopic := map[string][]kafka.Message{}
			var names []string
			for _, msg := range msgs {
				if _, ok := byTopic[msg.Topic]; !ok {
					names = append(names, msg.Topic)
				}
				byTopic[msg.Topic] = append(byTopic[msg.Topic], msg)
			}
			var mixed []kafka.Message
			for len(mixed) < len(msgs) {
				for _, n := range names {
					if q := byTopic[n]; len(q) > 0 {
						mixed = append(mixed, q[0])
						byTopic[n] = q[1:]
					}
				}
			}
			msgs = mixed
		}
		callID++
		id := callID
		before := cl.Seq()
		for _, msg := range msgs {
			record(AppEvent{Seq: before, Member: m.idx, Kind: "commit-call", Topic: msg.Topic, Partition: msg.Partition, Offset: msg.Offset, CallID: id, SeqBefore: before})
		}
		ctx, cancel := context.WithTimeout(context.Background(), commitTimeout)
		err := m.r.CommitMessages(ctx, msgs...)
		cancel()
		for _, msg := range msgs {
			record(AppEvent{Member: m.idx, Kind: "commit-return", Topic: msg.Topic, Partition: msg.Partition, Offset: msg.Offset, Err: err, CallID: id, SeqBefore: before})
		}
	}

	res.StepTime = map[string]time.Duration{}
	for _, s := range c.Steps {
		stepStart := time.Now()
		stepOp := s.Op
		defer func() {}()
		_ = stepOp
		var m *member
		if s.Member >= 0 && s.Member < len(members) {
			m = members[s.Member]
		}
		alive := m != nil && !m.closed && !res.Crashed[s.Member]
		switch s.Op {
		case "join":
			if m == nil {
				members[s.Member] = newMember(s.Member)
				// the group loop of a Reader starts with NewReader; a first fetch attempt makes sure it is running
				fetchOne(members[s.Member], 30*time.Millisecond, false)
			}
		case "close":
			if alive {
				closeMember(m)
				res.Closed[s.Member] = true
			}
		case "crash":
			if alive {
				m.mu.Lock()
				m.severed = true
				ids := append([]int{}, m.conns...)
				m.mu.Unlock()
				for _, id := range ids {
					nw.AbortConn(id, true)
				}
				res.Crashed[s.Member] = true
			}
		case "evict":
			// the coordinator's session timeout for a crashed (or slow) member, on harness command
			if m != nil {
				for _, id := range memberIDsOf(cl, m) {
					cl.EvictMember(GroupID, id)
				}
			}
		case "rebalance":
			cl.ForceRebalance(GroupID)
		case "fetch":
			if alive {
				for i := 0; i < s.N; i++ {
					if !fetchOne(m, 120*time.Millisecond, false) {
						break
					}
				}
			}
		case "read":
			if alive {
				fetchOne(m, 250*time.Millisecond, true)
			}
		case "commit":
			if alive {
				mixNext = s.Mix
				if s.TimeoutMs > 0 {
					commitTimeout = time.Duration(s.TimeoutMs) * time.Millisecond
				}
				commit(m, s.Pick, s.UpTo)
				commitTimeout = 8 * time.Second
				mixNext = false
			}
		case "commitclose":
			// CommitMessages is in progress (possibly in its retry back-off) when the reader is closed
			if alive && len(m.fetched) > 0 {
				done := make(chan struct{})
				go func() { commit(m, s.Pick, s.UpTo); close(done) }()
				time.Sleep(time.Duration(s.N) * time.Millisecond)
				closeMember(m)
				res.Closed[s.Member] = true
				select {
				case <-done:
				case <-time.After(10 * time.Second):
				}
			}
		case "append":
			t := res.Topics[s.Topic%c.Topics]
			appendRecords(t, s.Part%c.Partitions[s.Topic%c.Topics], s.N)
		case "moveleader":
			t := res.Topics[s.Topic%c.Topics]
			ids := cl.BrokerIDs()
			cl.MoveLeader(t, int32(s.Part%c.Partitions[s.Topic%c.Topics]), ids[s.N%len(ids)])
		case "sleep":
			time.Sleep(time.Duration(s.N) * time.Millisecond)
		}
		res.StepTime[s.Op] += time.Since(stepStart)
	}
	quiesceStart := time.Now()
	if c.Quiesce {
		fmu.Lock()
		faultsOn = false
		fmu.Unlock()
		// crashed members are gone for good: evict them so the survivors can take over
		for i, m := range members {
			if m != nil && res.Crashed[i] {
				for _, id := range memberIDsOf(cl, m) {
					cl.EvictMember(GroupID, id)
				}
			}
		}
		var survivors []*member
		for i, m := range members {
			if m != nil && !m.closed && !res.Crashed[i] {
				survivors = append(survivors, m)
			}
		}
		res.DueTopics = []int{0}
		if c.MultiTopic {
			for ti := 1; ti < c.Topics; ti++ {
				for _, m := range survivors {
					if !c.narrow(m.idx) {
						res.DueTopics = append(res.DueTopics, ti)
						break
					}
				}
			}
		}
		if len(survivors) > 0 {
			res.Quiesced = true
			deadline := time.Now().Add(12 * time.Second)
			idle := 0
			for time.Now().Before(deadline) && idle < 2 {
				got := false
				for _, m := range survivors {
					for fetchOne(m, 70*time.Millisecond, false) {
						got = true
					}
				}
				if got {
					idle = 0
				} else if c.StartLast || allDelivered(res, cl, c) {
					idle++ // (with StartOffset = LastOffset the records before the first position are never due)
				}
			}
		}
	}
	res.StepTime["quiesce"] = time.Since(quiesceStart)
	closeStart := time.Now()
	defer func() { res.StepTime["final-close"] = time.Since(closeStart) }()
	for _, m := range members {
		if m != nil && !m.closed {
			if res.Crashed[m.idx] {
				// a crashed process never calls Close; release its goroutines after the verdicts are in
				go m.r.Close()
				continue
			}
			closeMember(m)
		}
	}
	for ti, t := range res.Topics {
		for p := 0; p < c.Partitions[ti]; p++ {
			res.Stored[t] = append(res.Stored[t], cl.Records(t, int32(p)))
		}
	}
	for i, m := range members {
		if m != nil {
			res.MemberIDs[i] = memberIDsOf(cl, m)
			m.mu.Lock()
			res.ConnsOf[i] = append([]int{}, m.conns...)
			m.mu.Unlock()
		}
	}
	res.Journal = cl.Journal()
	return res
}

// memberIDsOf lists the coordinator member ids handed to this reader (its
// JoinGroup requests carry the reader's client id).
func memberIDsOf(cl *fakecluster.Cluster, m *member) []string {
	seen := map[string]bool{}
	var out []string
	for _, ex := range cl.Journal() {
		if ex.ApiKey == 11 && ex.ClientID == fmt.Sprintf("m%d", m.idx) && ex.RespBody != nil {
			if id, _ := ex.RespBody["MemberID"].(string); id != "" && !seen[id] {
				if code, _ := ex.RespBody["ErrorCode"].(int64); code == 0 {
					seen[id] = true
					out = append(out, id)
				}
			}
		}
	}
	return out
}

func allDelivered(res *Result, cl *fakecluster.Cluster, c Case) bool {
	delivered := map[string]bool{}
	for _, e := range res.Events {
		if e.Kind == "delivered" || e.Kind == "read" || e.Kind == "read-uncommitted" {
			delivered[fmt.Sprintf("%s/%d/%d", e.Topic, e.Partition, e.Offset)] = true
		}
	}
	for _, ti := range res.DueTopics {
		t := topicName(ti)
		for p := 0; p < c.Partitions[ti]; p++ {
			for _, r := range cl.Records(t, int32(p)) {
				if !delivered[fmt.Sprintf("%s/%d/%d", t, p, r.Offset)] {
					return false
				}
			}
		}
	}
	return true
}

// IsClosed reports io.EOF / closed pipe style errors.
func IsClosed(err error) bool { return errors.Is(err, io.EOF) || errors.Is(err, io.ErrClosedPipe) }
