// Package c06 decides property C06: a response is only ever delivered to the
// call that sent the request.
package c06

import (
	"context"
	"errors"
	"fmt"
	"io"
	"runtime"
	"sort"
	"strings"
	"sync"
	"sync/atomic"
	"testing"
	"time"

	kafka "github.com/segmentio/kafka-go"
	gzipcodec "github.com/segmentio/kafka-go/compress/gzip"
	"github.com/segmentio/kafka-go/protocol"
	"github.com/segmentio/kafka-go/protocol/fetch"
	"github.com/segmentio/kafka-go/protocol/findcoordinator"
	"github.com/segmentio/kafka-go/protocol/listoffsets"
	"github.com/segmentio/kafka-go/protocol/metadata"
	"github.com/segmentio/kafka-go/protocol/offsetfetch"
	"github.com/segmentio/kafka-go/protocol/produce"
	"pgregory.net/rapid"

	"verif/fakecluster"
	"verif/internal/ev"
	"verif/memnet"
	"verif/refcodec"
	"verif/sched"
)

func TestMain(m *testing.M) { ev.Main(m, "C06") }

// call is one payload-tagged operation: it asks for something only it asks for.
type call struct {
	Kind      string `json:"kind"`
	Tag       int    `json:"tag"`                  // unique within the case, >= 1000
	Fault     string `json:"fault,omitempty"`      // broker side: delay dribble hold cut drop
	FaultArg  int    `json:"fault_arg,omitempty"`  // ms / bytes
	CancelUs  int    `json:"cancel_us,omitempty"`  // transport: cancel the context after this long (0 = never)
	TimeoutUs int    `json:"timeout_us,omitempty"` // transport: context deadline (becomes the connection deadline of the exchange)
}

type xCase struct {
	Mode       string         `json:"mode"` // conn | transport
	Brokers    int            `json:"brokers"`
	Goroutines [][]call       `json:"goroutines"`
	DeadlineMs int            `json:"deadline_ms"`       // conn mode: SetDeadline for the whole Conn (0 = none)
	IdleMs     int            `json:"idle_ms"`           // transport idle timeout
	Sched      map[string]int `json:"sched"`             // schedule point -> yields
	Barrier    bool           `json:"barrier,omitempty"` // conn mode: the goroutines issue their i-th calls at the same instant
	// FailedWrite (conn mode): before anything else, one of the extra Conns is asked to write a message compressed with a codec
	// that cannot be set up (gzip with a level that does not exist).  The call fails; what it leaves behind in the library's
	// shared buffers must not matter to the calls that follow.
	FailedWrite bool `json:"failed_write,omitempty"`
}

// barrier releases n goroutines together, round after round.  The waiters spin (there are at most as many as cores), so
// that they leave the barrier within nanoseconds of each other: windows of a few instructions need that.
type barrier struct {
	n     int32
	count atomic.Int32
	gen   atomic.Int32
}

func newBarrier(n int) *barrier { return &barrier{n: int32(n)} }

func (b *barrier) wait() {
	g := b.gen.Load()
	if b.count.Add(1) == b.n {
		b.count.Store(0)
		b.gen.Add(1)
		return
	}
	t0 := time.Now()
	for i := 0; b.gen.Load() == g; i++ {
		if i%4096 == 4095 {
			if time.Since(t0) > 2*time.Second {
				return // a goroutine that failed early must not hold the others
			}
			runtime.Gosched()
		}
	}
}

func init() { ev.Register("xtalk", func(tb ev.TB, c xCase) { run(tb, c) }) }

func TestReplay(t *testing.T) { ev.RunReplay(t) }

const nTopics = 12

func topicName(i int) string { return fmt.Sprintf("tag-%02d", i%nTopics) }

type outcome struct {
	c    call
	err  error
	got  string
	want string
	// raw: bytes the call returned, kept as they were handed out and looked at only when every call of the case is over
	// (what a call returned stays its own answer, whatever the Conn reads afterwards)
	raw []byte
}

func run(tb ev.TB, c xCase) (labels []string, nontrivial bool) {
	nw := memnet.New()
	cl := fakecluster.New(nw, c.Brokers)
	defer cl.Close()
	cl.CreateTopic("t", 1)
	cl.MoveLeader("t", 0, 1)
	for i := 0; i < nTopics; i++ {
		cl.CreateTopic(topicName(i), 1+i%3)
	}
	var recs []refcodec.Record
	for i := 0; i < 5; i++ {
		recs = append(recs, refcodec.Record{Offset: int64(i), Timestamp: int64(1 + i), Value: []byte(fmt.Sprintf("seed-%d", i))})
	}
	cl.AppendBatches("t", 0, refcodec.MakeBatchV2(recs, 1)) // gzip: reading goes through the library's shared decompression buffers
	// a second partition, read through a Conn of its own by "readZ" calls at the same time as the first Conn is used
	cl.CreateTopic("z", 1)
	cl.MoveLeader("z", 0, 1)
	var zrecs []refcodec.Record
	for i := 0; i < 6; i++ {
		zrecs = append(zrecs, refcodec.Record{Offset: int64(i), Timestamp: int64(1 + i), Value: []byte(fmt.Sprintf("zeed-%d", i))}) // same shape as the records of "t": mixed-up bytes still parse
	}
	cl.AppendBatches("z", 0, refcodec.MakeBatchV2(zrecs, 1))
	cl.CreateTopic("y", 1)
	cl.MoveLeader("y", 0, 1)
	var yrecs []refcodec.Record
	for i := 0; i < 6; i++ {
		yrecs = append(yrecs, refcodec.Record{Offset: int64(i), Timestamp: int64(1 + i), Value: []byte(fmt.Sprintf("yeed-%d", i))})
	}
	cl.AppendBatches("y", 0, refcodec.MakeBatchV2(yrecs, 1))
	// a partition with an open transaction: a read_committed fetch at its last stable offset is answered with an empty record
	// set although the high watermark lies beyond ("readLSO" calls, on a Conn of their own)
	cl.CreateTopic("s", 1)
	cl.MoveLeader("s", 0, 1)
	var srecs []refcodec.Record
	for i := 0; i < 5; i++ {
		srecs = append(srecs, refcodec.Record{Offset: int64(i), Timestamp: int64(1 + i), Value: []byte(fmt.Sprintf("txn-%d", i))})
	}
	cl.AppendBatches("s", 0, refcodec.MakeBatchV2(srecs[:2], 1), refcodec.MakeBatchV2(srecs[2:], 1))
	cl.Lock()
	cl.PartitionUnlocked("s", 0).OpenTxnFrom = 2
	cl.Unlock()
	// a topic whose records are read one by one by "fetchRecords" calls while other calls use the transport: empty and
	// null keys and values next to ordinary ones
	cl.CreateTopic("e", 1)
	cl.MoveLeader("e", 0, 1)
	cl.AppendBatches("e", 0, refcodec.MakeBatchV2([]refcodec.Record{
		{Offset: 0, Timestamp: 1, Key: []byte{}, Value: []byte{}}, {Offset: 1, Timestamp: 2, Key: []byte("ek-1"), Value: []byte("e-1")},
		{Offset: 2, Timestamp: 3, KeyNull: true, Value: []byte("e-2")}, {Offset: 3, Timestamp: 4, Key: []byte("ek-3"), Value: []byte{}}, {Offset: 4, Timestamp: 5, Key: []byte("ek-4"), Value: []byte("e-4")}}, 0))
	faults := map[int]call{}
	for _, g := range c.Goroutines {
		for _, k := range g {
			faults[k.Tag] = k
			cl.SetCommitted(fmt.Sprintf("g-%d", k.Tag), "t", 0, int64(k.Tag))
			cl.SetCoordinator(fmt.Sprintf("g-%d", k.Tag), 1)
		}
	}
	tagOf := func(r *fakecluster.Request) int {
		switch r.ApiKey {
		case 2:
			p := r.Body["Topics"].([]any)[0].(map[string]any)["Partitions"].([]any)[0].(map[string]any)
			if ts := p["Timestamp"].(int64); ts > 0 {
				return int(ts)
			}
			return 0 // first / last offset lookups of Seek: answered from the log
		case 10:
			var t int
			fmt.Sscanf(r.Body["Key"].(string), "k-%d", &t)
			return t
		case 9, 14:
			var t int
			fmt.Sscanf(r.Body["GroupID"].(string), "g-%d", &t)
			return t
		case 1:
			p := r.Body["Topics"].([]any)[0].(map[string]any)["Partitions"].([]any)[0].(map[string]any)
			if mb := int(p["PartitionMaxBytes"].(int64)); mb < 1<<20 {
				return mb // the tag travels in the partition byte limit
			}
			return 0 // batches read by readEarly / readZ / fetchRecords: answered from the log
		case 0:
			for _, tv := range r.Body["Topics"].([]any) {
				for _, pv := range tv.(map[string]any)["Partitions"].([]any) {
					if rs, _ := pv.(map[string]any)["RecordSet"].(*refcodec.RecordSet); rs != nil {
						for _, rec := range rs.AllRecords() {
							var t int
							if n, _ := fmt.Sscanf(string(rec.Value), "p-%d", &t); n == 1 {
								return t
							}
						}
					}
				}
			}
		case 19:
			var t int
			fmt.Sscanf(r.Body["Topics"].([]any)[0].(map[string]any)["Name"].(string), "new-%d", &t)
			return t
		}
		return 0
	}
	var holds sync.WaitGroup
	cl.SetHook(func(cl *fakecluster.Cluster, r *fakecluster.Request) *fakecluster.Action {
		tag := tagOf(r)
		if tag == 0 {
			return nil
		}
		f := faults[tag]
		act := &fakecluster.Action{Tag: fmt.Sprintf("%s/%d", f.Fault, tag)}
		// the answer is derived from the tag
		act.Mutate = func(body map[string]any) {
			switch r.ApiKey {
			case 2:
				p := body["Topics"].([]any)[0].(map[string]any)["Partitions"].([]any)[0].(map[string]any)
				p["Offset"], p["Timestamp"], p["ErrorCode"] = int64(tag)+7, int64(tag), int64(0)
			case 10:
				body["NodeID"], body["Host"], body["Port"], body["ErrorCode"] = int64(tag), fmt.Sprintf("h-%d", tag), int64(9092), int64(0)
			case 14:
				body["ErrorCode"], body["Assignments"] = int64(0), assignmentOf(tag)
			case 1:
				p := body["Topics"].([]any)[0].(map[string]any)["Partitions"].([]any)[0].(map[string]any)
				p["HighWatermark"] = int64(1000000 + tag)
			case 19:
				body["Topics"].([]any)[0].(map[string]any)["ErrorCode"] = int64(40 + tag%7) // derived from the name
			}
		}
		switch f.Fault {
		case "delay":
			act.Delay = time.Duration(f.FaultArg) * time.Millisecond
		case "dribble":
			act.Chunk = 1 + f.FaultArg%3
		case "hold":
			ch := make(chan struct{})
			act.Hold = ch
			holds.Add(1)
			go func() { defer holds.Done(); time.Sleep(time.Duration(f.FaultArg) * time.Millisecond); close(ch) }()
		case "cut":
			act.CutResponse, act.CutResponseAt = true, f.FaultArg
		case "drop":
			act.DropResponse = true
		}
		if r.ApiKey == 19 {
			act.ErrorCode = int16(40 + tag%7) // never create the topic (keeps metadata stable)
		}
		return act
	})
	table := sched.Table{}
	for p, n := range c.Sched {
		table[p] = []sched.Action{{Kind: "yield", N: n}, {Kind: "pass"}}
	}
	ctl := sched.Install(table)
	defer ctl.Uninstall()

	var mu sync.Mutex
	var outs []outcome
	record := func(o outcome) { mu.Lock(); outs = append(outs, o); mu.Unlock() }
	var wg sync.WaitGroup

	if c.Mode == "conn" {
		d := &kafka.Dialer{DialFunc: nw.Dial, Timeout: 3 * time.Second, ClientID: "c06"}
		ctx, cancel := context.WithTimeout(context.Background(), 3*time.Second)
		conn, err := d.DialLeader(ctx, "tcp", "b1.fake:9092", "t", 0)
		cancel()
		if err != nil {
			tb.Fatalf("harness: dial: %v", err)
		}
		defer conn.Close()
		ctx2, cancel2 := context.WithTimeout(context.Background(), 3*time.Second)
		connZ, err := d.DialLeader(ctx2, "tcp", "b1.fake:9092", "z", 0)
		cancel2()
		if err != nil {
			tb.Fatalf("harness: dial: %v", err)
		}
		defer connZ.Close()
		connZ.SetDeadline(time.Now().Add(30 * time.Second))
		ctx3, cancel3 := context.WithTimeout(context.Background(), 3*time.Second)
		connY, err := d.DialLeader(ctx3, "tcp", "b1.fake:9092", "y", 0)
		cancel3()
		if err != nil {
			tb.Fatalf("harness: dial: %v", err)
		}
		defer connY.Close()
		connY.SetDeadline(time.Now().Add(30 * time.Second))
		ctx4, cancel4 := context.WithTimeout(context.Background(), 3*time.Second)
		connS, err := d.DialLeader(ctx4, "tcp", "b1.fake:9092", "s", 0)
		cancel4()
		if err != nil {
			tb.Fatalf("harness: dial: %v", err)
		}
		defer connS.Close()
		connS.SetDeadline(time.Now().Add(30 * time.Second))
		var sMu sync.Mutex
		if c.FailedWrite {
			for i := 0; i < 2; i++ {
				if _, err := connY.WriteCompressedMessages(&gzipcodec.Codec{Level: 42}, kafka.Message{Value: []byte("never written")}); err == nil {
					ev.Inconclusive("c06/failed-write-succeeded")
				}
			}
			labels = append(labels, "after_failed_compressed_write")
		}
		if c.DeadlineMs > 0 {
			conn.SetDeadline(time.Now().Add(time.Duration(c.DeadlineMs) * time.Millisecond))
		} else {
			conn.SetDeadline(time.Now().Add(5 * time.Second))
		}
		bar := newBarrier(len(c.Goroutines))
		for _, g := range c.Goroutines {
			wg.Add(1)
			go func(g []call) {
				defer wg.Done()
				for _, k := range g {
					if c.Barrier {
						bar.wait()
					}
					o := outcome{c: k}
					switch k.Kind {
					case "offset":
						var off int64
						off, o.err = conn.ReadOffset(time.Unix(0, int64(k.Tag)*int64(time.Millisecond)))
						o.got, o.want = fmt.Sprint(off), fmt.Sprint(k.Tag+7)
					case "partitions":
						var ps []kafka.Partition
						ps, o.err = conn.ReadPartitions(topicName(k.Tag))
						names := map[string]bool{}
						for _, p := range ps {
							names[p.Topic] = true
						}
						var ns []string
						for n := range names {
							ns = append(ns, n)
						}
						sort.Strings(ns)
						o.got, o.want = strings.Join(ns, ","), topicName(k.Tag)
					case "readEarly":
						// a batch that is closed before it was read to its end: the rest of the fetch response has to be skipped
						// before any other call reads its own response from the connection
						if _, err := conn.Seek(0, kafka.SeekStart); err != nil {
							o.err = err
							break
						}
						b := conn.ReadBatchWith(kafka.ReadBatchConfig{MinBytes: 1, MaxBytes: 1 << 20, MaxWait: 20 * time.Millisecond})
						m, err := b.ReadMessage()
						for extra := k.Tag % 3; extra > 0 && err == nil; extra-- {
							// a second or third message after a pause (the batch stays open while other Conns work); it has
							// to be the record following the first one
							time.Sleep(time.Duration(k.Tag%4) * 100 * time.Microsecond)
							m2, err2 := b.ReadMessage()
							if err2 != nil {
								break
							}
							if m2.Offset <= m.Offset {
								err = fmt.Errorf("harness marker")
								o.got, o.want = fmt.Sprintf("offset %d after %d", m2.Offset, m.Offset), "increasing offsets inside one batch"
							}
							m = m2
						}
						if o.want != "" {
							b.Close()
							break
						}
						cerr := b.Close()
						b.Close() // closing twice is harmless (a deferred Close after an explicit one is common)
						switch {
						case err != nil:
							o.err = err
						case cerr != nil:
							o.err = cerr
						default:
							// the Conn has one position shared by all callers: whatever offset the batch started at, the
							// message must be the record the log holds at that offset (compared below)
							o.got, o.want = fmt.Sprintf("%d:%s", m.Offset, m.Value), "record-at-offset"
						}
					case "readLSO":
						// a read_committed consumer standing at the last stable offset: nothing to read, then (one call in two) the
						// two stable records before it; all on a fourth Conn while the others are in use
						sMu.Lock()
						pos := int64(2)
						if k.Tag%2 == 0 {
							pos = 0
						}
						if _, err := connS.Seek(pos, kafka.SeekAbsolute|kafka.SeekDontCheck); err != nil {
							o.err = err
							sMu.Unlock()
							break
						}
						b := connS.ReadBatchWith(kafka.ReadBatchConfig{MinBytes: 1, MaxBytes: 1 << 20, MaxWait: time.Millisecond, IsolationLevel: kafka.ReadCommitted})
						var got []string
						for {
							m, err := b.ReadMessage()
							if err != nil {
								break
							}
							got = append(got, fmt.Sprintf("%d:%s", m.Offset, m.Value))
						}
						cerr := b.Close()
						sMu.Unlock()
						if cerr != nil {
							o.err = cerr
							break
						}
						o.got, o.want = strings.Join(got, " "), ""
						if pos == 0 {
							o.want = "0:txn-0 1:txn-1"
						}
					case "readZ":
						// another Conn (its own connection, its own partition) in use at the same time
						if _, err := connZ.Seek(0, kafka.SeekStart); err != nil {
							o.err = err
							break
						}
						b := connZ.ReadBatchWith(kafka.ReadBatchConfig{MinBytes: 1, MaxBytes: 1 << 20, MaxWait: 20 * time.Millisecond})
						// ... and a third one: two batches of two Conns open at the same time, read alternately by this caller
						var by *kafka.Batch
						if k.Tag%2 == 0 {
							if _, err := connY.Seek(0, kafka.SeekStart); err == nil {
								by = connY.ReadBatchWith(kafka.ReadBatchConfig{MinBytes: 1, MaxBytes: 1 << 20, MaxWait: 20 * time.Millisecond})
							}
						}
						var got []string
						for i := 0; i < 3; i++ {
							m, err := b.ReadMessage()
							if err != nil {
								o.err = err
								break
							}
							got = append(got, fmt.Sprintf("%d:%s", m.Offset, m.Value))
							if by != nil {
								if my, err := by.ReadMessage(); err == nil && string(my.Value) != fmt.Sprintf("yeed-%d", my.Offset) {
									got = append(got, fmt.Sprintf("-1:third-Conn-read-%s-at-%d", my.Value, my.Offset))
								}
							}
							time.Sleep(time.Duration(k.Tag%4) * 100 * time.Microsecond)
						}
						b.Close()
						b.Close()
						if by != nil {
							by.Close()
							by.Close()
						}
						if k.Tag%3 == 0 {
							// A batch that was closed with half of its (compressed) records unread is asked once more, after another
							// batch has been decompressed: a closed batch has nothing to deliver, least of all records of the other one.
							if _, err := connY.Seek(0, kafka.SeekStart); err == nil {
								b2 := connY.ReadBatchWith(kafka.ReadBatchConfig{MinBytes: 1, MaxBytes: 1 << 20, MaxWait: 20 * time.Millisecond})
								b2.ReadMessage()
								if late, err := b.ReadMessage(); err == nil {
									got = append(got, fmt.Sprintf("-1:closed-batch-delivered-%s-at-%d", late.Value, late.Offset))
								}
								b2.Close()
							}
						}
						// the other Conn's position is shared by the readZ callers only: whatever offsets came, each value must be
						// the record of topic z at that offset -- also when a later read of the batch failed
						for _, g := range got {
							var off int
							var val string
							fmt.Sscanf(g, "%d:%s", &off, &val)
							if off < 0 || off >= 6 || val != fmt.Sprintf("zeed-%d", off) {
								o.err, o.got, o.want = nil, "second Conn read "+g, "ok"
							}
						}
						if o.err == nil && o.want == "" && len(got) >= 3 {
							o.got, o.want = "ok", "ok"
						}
					case "write":
						var off int64
						_, _, off, _, o.err = conn.WriteCompressedMessagesAt(nil, kafka.Message{Value: []byte(fmt.Sprintf("p-%d", k.Tag))})
						o.got, o.want = fmt.Sprint(off), "log" // checked against the log below
					case "create":
						o.err = conn.CreateTopics(kafka.TopicConfig{Topic: fmt.Sprintf("new-%d", k.Tag), NumPartitions: 1, ReplicationFactor: 1})
						o.got, o.want = "", ""
						if ke, ok := o.err.(kafka.Error); ok {
							o.got, o.want, o.err = fmt.Sprint(int(ke)), fmt.Sprint(40+k.Tag%7), nil
						} else if o.err == nil {
							o.got, o.want = "no error", fmt.Sprint(40+k.Tag%7)
						}
					case "coordinator":
						var id int32
						var host string
						id, host, _, o.err = conn.VerifFindCoordinator(fmt.Sprintf("k-%d", k.Tag))
						o.got, o.want = fmt.Sprintf("%d %s", id, host), fmt.Sprintf("%d h-%d", k.Tag, k.Tag)
					case "committed":
						var m map[int32]int64
						m, o.err = conn.VerifOffsetFetch(fmt.Sprintf("g-%d", k.Tag), "t", []int32{0})
						o.got, o.want = fmt.Sprint(m[0]), fmt.Sprint(k.Tag)
					case "assignment":
						// the opaque assignment bytes of a SyncGroup answer, kept by the caller while the Conn goes on being used
						o.raw, o.err = conn.VerifSyncGroup(fmt.Sprintf("g-%d", k.Tag), "m", 1, nil, nil)
						o.want = string(assignmentOf(k.Tag))
					}
					record(o)
				}
			}(g)
		}
		// The Conn has a deadline, so every call returns (with its answer or an error) soon after it; a call that is still
		// not back long after observed neither, e.g. readers spinning over a response that no call claims.
		done := make(chan struct{})
		go func() { wg.Wait(); close(done) }()
		limit := 25 * time.Second
		if c.DeadlineMs > 0 {
			limit += time.Duration(c.DeadlineMs) * time.Millisecond
		}
		// "Still not back" is decided by progress, not by the clock alone (the machine may be saturated): past the limit,
		// three samples 5 s apart without a single further call returning.
		started := time.Now()
		last, still := -1, 0
	watch:
		for {
			select {
			case <-done:
				break watch
			case <-time.After(5 * time.Second):
			}
			mu.Lock()
			returned := len(outs)
			mu.Unlock()
			if returned == last {
				still++
			} else {
				still = 0
			}
			last = returned
			stuck := time.Since(started) > limit && still >= 3
			tooLong := time.Since(started) > 15*time.Minute
			if !stuck && !tooLong {
				continue
			}
			conn.Close()
			select {
			case <-done:
			case <-time.After(10 * time.Second):
			}
			if !stuck {
				ev.Inconclusive("hammer_slow_machine")
				return
			}
			total := 0
			for _, g := range c.Goroutines {
				total += len(g)
			}
			ev.Fail(tb, "xtalk", "c06/conn/calls-never-returned", c, "%d of %d calls on the Conn had returned %v after the start (deadline %d ms) and none of the others returned during the next 15 s: they observed neither their response nor an error", returned, total, time.Since(started).Round(time.Second), c.DeadlineMs)
			return
		}
	} else {
		tr := &kafka.Transport{Dial: nw.Dial, MetadataTTL: 50 * time.Millisecond, IdleTimeout: time.Duration(c.IdleMs) * time.Millisecond, DialTimeout: 2 * time.Second, ClientID: "c06"}
		defer tr.CloseIdleConnections()
		addr := kafka.TCP("b1.fake:9092")
		for _, g := range c.Goroutines {
			wg.Add(1)
			go func(g []call) {
				defer wg.Done()
				for _, k := range g {
					o := outcome{c: k}
					timeout := 3 * time.Second
					if k.TimeoutUs > 0 {
						timeout = time.Duration(k.TimeoutUs) * time.Microsecond
					}
					ctx, cancel := context.WithTimeout(context.Background(), timeout)
					if k.CancelUs > 0 {
						go func() { time.Sleep(time.Duration(k.CancelUs) * time.Microsecond); cancel() }()
					}
					var req protocol.Message
					switch k.Kind {
					case "offset":
						req = &listoffsets.Request{ReplicaID: -1, Topics: []listoffsets.RequestTopic{{Topic: "t", Partitions: []listoffsets.RequestPartition{{Partition: 0, CurrentLeaderEpoch: -1, Timestamp: int64(k.Tag)}}}}}
					case "offsets2":
						// a request the Transport splits into two sub-requests (one per entry); a fault on the call delays the first
						req = &listoffsets.Request{ReplicaID: -1, Topics: []listoffsets.RequestTopic{{Topic: "t", Partitions: []listoffsets.RequestPartition{
							{Partition: 0, CurrentLeaderEpoch: -1, Timestamp: int64(k.Tag)}, {Partition: 0, CurrentLeaderEpoch: -1, Timestamp: int64(k.Tag + 100000)}}}}}
					case "partitions":
						req = &metadata.Request{TopicNames: []string{topicName(k.Tag)}}
					case "write":
						req = &produce.Request{Acks: -1, Timeout: 1000, Topics: []produce.RequestTopic{{Topic: "t", Partitions: []produce.RequestPartition{{Partition: 0,
							RecordSet: protocol.RecordSet{Records: protocol.NewRecordReader(protocol.Record{Value: protocol.NewBytes([]byte(fmt.Sprintf("p-%d", k.Tag)))})}}}}}}
					case "coordinator":
						req = &findcoordinator.Request{Key: fmt.Sprintf("k-%d", k.Tag)}
					case "committed":
						req = &offsetfetch.Request{GroupID: fmt.Sprintf("g-%d", k.Tag), Topics: []offsetfetch.RequestTopic{{Name: "t", PartitionIndexes: []int32{0}}}}
					case "fetchRecords":
						req = &fetch.Request{ReplicaID: -1, MaxWaitTime: 1, MinBytes: 0, MaxBytes: 1 << 20, Topics: []fetch.RequestTopic{{Topic: "e", Partitions: []fetch.RequestPartition{{Partition: 0, FetchOffset: 0, PartitionMaxBytes: 1 << 20, CurrentLeaderEpoch: -1}}}}}
					case "fetch":
						req = &fetch.Request{ReplicaID: -1, MaxWaitTime: 1, MinBytes: 0, MaxBytes: 1 << 20, Topics: []fetch.RequestTopic{{Topic: "t", Partitions: []fetch.RequestPartition{{Partition: 0, FetchOffset: 0, PartitionMaxBytes: int32(k.Tag), CurrentLeaderEpoch: -1}}}}}
					}
					res, err := tr.RoundTrip(ctx, addr, req)
					cancel()
					o.err = err
					if err == nil {
						switch r := res.(type) {
						case *listoffsets.Response:
							if k.Kind == "offsets2" {
								var got []string
								failed := false
								for _, tp := range r.Topics {
									for _, pp := range tp.Partitions {
										failed = failed || pp.ErrorCode != 0
										got = append(got, fmt.Sprintf("ts%d->%d", pp.Timestamp, pp.Offset))
									}
								}
								if failed {
									o.got, o.want = "", "" // a sub-request failed (cut, deadline): reported on that entry, nothing to compare
									break
								}
								sort.Strings(got)
								want := []string{fmt.Sprintf("ts%d->%d", k.Tag, k.Tag+7), fmt.Sprintf("ts%d->%d", k.Tag+100000, k.Tag+100007)}
								sort.Strings(want)
								o.got, o.want = strings.Join(got, " "), strings.Join(want, " ")
								break
							}
							o.got, o.want = fmt.Sprint(r.Topics[0].Partitions[0].Offset, r.Topics[0].Partitions[0].Timestamp), fmt.Sprint(k.Tag+7, k.Tag)
						case *metadata.Response:
							var ns []string
							for _, t := range r.Topics {
								ns = append(ns, t.Name)
							}
							o.got, o.want = strings.Join(ns, ","), topicName(k.Tag)
						case *produce.Response:
							o.got, o.want = fmt.Sprint(r.Topics[0].Partitions[0].BaseOffset), "log"
							if r.Topics[0].Partitions[0].ErrorCode != 0 {
								o.got, o.want = "", ""
							}
						case *findcoordinator.Response:
							o.got, o.want = fmt.Sprintf("%d %s", r.NodeID, r.Host), fmt.Sprintf("%d h-%d", k.Tag, k.Tag)
						case *offsetfetch.Response:
							o.got, o.want = fmt.Sprint(r.Topics[0].Partitions[0].CommittedOffset), fmt.Sprint(k.Tag)
						case *fetch.Response:
							if k.Kind == "fetchRecords" {
								// the records are consumed one at a time, keys and values released as the caller goes, while the other
								// goroutines keep the transport busy: what is read must stay this response's content
								var got []string
								if rr := r.Topics[0].Partitions[0].RecordSet.Records; rr != nil && r.Topics[0].Partitions[0].ErrorCode == 0 {
									for {
										rec, err := rr.ReadRecord()
										if err != nil {
											break
										}
										runtime.Gosched()
										time.Sleep(time.Duration(k.Tag%5) * 50 * time.Microsecond)
										kb, vb := []byte(nil), []byte(nil)
										if rec.Key != nil {
											kb, _ = io.ReadAll(rec.Key)
											rec.Key.Close()
										}
										if rec.Value != nil {
											vb, _ = io.ReadAll(rec.Value)
											rec.Value.Close()
										}
										got = append(got, fmt.Sprintf("%d:%s=%s", rec.Offset, kb, vb))
									}
									o.got, o.want = strings.Join(got, " "), "0:= 1:ek-1=e-1 2:=e-2 3:ek-3= 4:ek-4=e-4"
								} else {
									o.got, o.want = "", ""
								}
								break
							}
							o.got, o.want = fmt.Sprint(r.Topics[0].Partitions[0].HighWatermark), fmt.Sprint(1000000+k.Tag)
							if r.Topics[0].Partitions[0].ErrorCode != 0 {
								o.got, o.want = "", ""
							}
						default:
							o.got, o.want = fmt.Sprintf("%T", res), "a response of the request's type"
						}
					}
					record(o)
				}
			}(g)
		}
		// every round trip has a context of at most 3 s: a call that is not back long after its context ended, while no
		// other call returns either, observed neither its response nor an error
		done := make(chan struct{})
		go func() { wg.Wait(); close(done) }()
		started := time.Now()
		last, still := -1, 0
	watchTr:
		for {
			select {
			case <-done:
				break watchTr
			case <-time.After(5 * time.Second):
			}
			mu.Lock()
			returned := len(outs)
			mu.Unlock()
			if returned == last {
				still++
			} else {
				still = 0
			}
			last = returned
			if time.Since(started) > 20*time.Second && still >= 3 {
				total := 0
				for _, g := range c.Goroutines {
					total += len(g)
				}
				ev.Fail(tb, "xtalk", "c06/transport/calls-never-returned", c, "%d of %d round trips had returned %v after the start and none of the others returned during the last 15 s, although every call's context ends after at most 3 s: they observed neither their response nor an error", returned, total, time.Since(started).Round(time.Second))
				return
			}
			if time.Since(started) > 15*time.Minute {
				ev.Inconclusive("transport_slow_machine")
				return
			}
		}
	}
	holds.Wait()

	// The broker of this unit answers every request correctly (some answers late or in small pieces, and in transport mode
	// cut or dropped).  io.ErrNoProgress is what a Conn returns when the response header it reads belongs to no call in
	// flight: on a Conn whose responses were neither cut nor dropped that can only be bytes of one response read as another.
	if c.Mode == "conn" {
		for _, o := range outs {
			if errors.Is(o.err, io.ErrNoProgress) {
				ev.Fail(tb, "xtalk", "c06/conn/stream-misaligned", c, "conn call %s tag %d failed with %v although the broker answered every request completely: part of one response was read as the start of another", o.c.Kind, o.c.Tag, o.err)
				return
			}
		}
	}
	// oracle: every call got an error or the answer carrying its own tag
	log := cl.Records("t", 0)
	lab := map[string]bool{}
	errs, oks := 0, 0
	for _, o := range outs {
		if o.err != nil {
			errs++
			ev.Count("failed_"+o.c.Kind, 1)
			if o.c.Kind == "readZ" || o.c.Kind == "readEarly" {
				ev.Note("example_error_"+o.c.Kind+"_"+c.Mode, fmt.Sprintf("%v (hammer=%v)", o.err, c.Barrier))
			}
			continue
		}
		oks++
		ev.Count("answered_"+o.c.Kind, 1)
		if o.c.Kind == "assignment" {
			o.got = string(o.raw)
		}
		want := o.want
		if want == "record-at-offset" {
			var off int64
			var val string
			fmt.Sscanf(o.got, "%d:%s", &off, &val)
			inLog := "<no record at that offset>"
			for _, r := range log {
				if r.Offset == off {
					inLog = string(r.Value)
				}
			}
			if val != inLog {
				ev.Fail(tb, "xtalk", "c06/"+c.Mode+"/readEarly", c, "%s call tag %d read %q at offset %d, the log holds %q there", c.Mode, o.c.Tag, val, off, inLog)
				return
			}
			continue
		}
		if want == "log" {
			var off int64
			fmt.Sscan(o.got, &off)
			want = fmt.Sprintf("p-%d", o.c.Tag)
			got := "<no record at that offset>"
			for _, r := range log {
				if r.Offset == off {
					got = string(r.Value)
				}
			}
			if got != want {
				ev.Fail(tb, "xtalk", "c06/"+c.Mode+"/write-ack-of-another-call", c, "%s call tag %d was told base offset %d, the log holds %q there, not its own record %q", c.Mode, o.c.Tag, off, got, want)
				return
			}
			continue
		}
		if o.got != want {
			ev.Fail(tb, "xtalk", "c06/"+c.Mode+"/"+o.c.Kind, c, "%s call %s tag %d received %q, the answer to its own request is %q (fault on it: %q)", c.Mode, o.c.Kind, o.c.Tag, o.got, want, o.c.Fault)
			return
		}
	}
	for _, v := range cl.Violations() {
		ev.Fail(tb, "xtalk", "c06/malformed-request", c, "the fake broker rejected a request: %s", v)
		return
	}
	// evidence
	overlap := len(c.Goroutines) >= 2
	cancelled, faulted := false, false
	for _, g := range c.Goroutines {
		for _, k := range g {
			if k.CancelUs > 0 {
				cancelled = true
				lab["cancel_while_inflight"] = true
			}
			if k.TimeoutUs > 0 {
				cancelled = true
				lab["deadline_while_response_late"] = true
			}
			if k.Fault != "" {
				faulted = true
				lab["fault_"+k.Fault] = true
			}
		}
	}
	if c.Mode == "transport" && (cancelled || faulted) && oks > 0 {
		lab["conn_reused_after_cancel_or_fault"] = true
	}
	if errs > 0 {
		lab["some_calls_failed"] = true
	}
	if oks > 0 {
		lab["some_calls_answered"] = true
	}
	lab["mode_"+c.Mode] = true
	for k := range lab {
		labels = append(labels, k)
	}
	sort.Strings(labels)
	ev.Count("calls_answered", int64(oks))
	ev.Count("calls_failed", int64(errs))
	return labels, overlap && (cancelled || faulted)
}

func genCase(t *rapid.T, mode string) xCase {
	c := xCase{Mode: mode, Brokers: 1, Sched: map[string]int{}}
	kinds := []string{"offset", "partitions", "write", "create", "coordinator", "committed", "assignment", "readEarly", "readEarly", "readZ", "readZ", "readLSO"}
	if mode == "transport" {
		c.Brokers = rapid.IntRange(1, 3).Draw(t, "brokers")
		c.IdleMs = rapid.SampledFrom([]int{1, 5, 50, 1000}).Draw(t, "idleMs")
		kinds = []string{"offset", "offsets2", "offsets2", "partitions", "write", "coordinator", "committed", "fetch", "fetchRecords", "fetchRecords"}
	} else {
		c.DeadlineMs = rapid.SampledFrom([]int{0, 0, 0, 30, 120}).Draw(t, "deadlineMs")
	}
	if mode == "conn" {
		c.FailedWrite = rapid.IntRange(0, 3).Draw(t, "failedWrite") == 0
	}
	ng := rapid.IntRange(2, 8).Draw(t, "goroutines")
	if mode == "transport" {
		ng = rapid.IntRange(2, 12).Draw(t, "goroutines")
	}
	tag := 1000
	for g := 0; g < ng; g++ {
		n := rapid.IntRange(2, 8).Draw(t, "calls")
		var calls []call
		for i := 0; i < n; i++ {
			tag++
			k := call{Kind: rapid.SampledFrom(kinds).Draw(t, "kind"), Tag: tag}
			switch rapid.IntRange(0, 9).Draw(t, "faultKind") {
			case 0:
				k.Fault, k.FaultArg = "delay", rapid.IntRange(1, 12).Draw(t, "ms")
			case 1:
				k.Fault, k.FaultArg = "dribble", rapid.IntRange(0, 2).Draw(t, "chunk")
			case 2:
				k.Fault, k.FaultArg = "hold", rapid.IntRange(1, 25).Draw(t, "ms")
			case 3:
				if mode == "transport" {
					k.Fault, k.FaultArg = "cut", rapid.IntRange(0, 40).Draw(t, "cutAt")
				}
			case 4:
				if mode == "transport" {
					k.Fault = "drop"
				}
			}
			if mode == "transport" {
				switch rapid.IntRange(0, 7).Draw(t, "cancel") {
				case 0:
					k.CancelUs = rapid.SampledFrom([]int{1, 50, 300, 2000, 8000}).Draw(t, "cancelUs")
				case 1, 2:
					// a deadline that expires while the (delayed, held or dribbled) response is on its way
					k.TimeoutUs = rapid.SampledFrom([]int{200, 1000, 3000, 8000}).Draw(t, "timeoutUs")
					if k.Fault == "" {
						k.Fault, k.FaultArg = rapid.SampledFrom([]string{"delay", "hold"}).Draw(t, "lateKind"), rapid.IntRange(2, 15).Draw(t, "lateMs")
					}
				}
			}
			calls = append(calls, k)
		}
		if mode == "transport" && rapid.IntRange(0, 2).Draw(t, "lateThenNext") == 0 {
			// the deterministic form of "an exchange is abandoned, its answer arrives late, the next call follows on the same
			// route": a call whose deadline (1-3 ms) ends while the broker holds the answer (10-30 ms), then two plain calls
			kind := rapid.SampledFrom([]string{"offset", "coordinator", "committed"}).Draw(t, "lateKind2")
			tag++
			late := call{Kind: kind, Tag: tag, TimeoutUs: rapid.SampledFrom([]int{1000, 2000, 3000}).Draw(t, "lateTimeoutUs"), Fault: "hold", FaultArg: rapid.IntRange(10, 30).Draw(t, "lateHoldMs")}
			tag++
			n1 := call{Kind: kind, Tag: tag}
			tag++
			n2 := call{Kind: rapid.SampledFrom(kinds).Draw(t, "nextKind"), Tag: tag}
			calls = append([]call{late, n1, n2}, calls...)
		}
		c.Goroutines = append(c.Goroutines, calls)
	}
	for _, p := range []string{"conn.peeked", "conn.wrote", "transport.beforeRelease", "batch.closing"} {
		if rapid.IntRange(0, 2).Draw(t, "sched:"+p) == 0 {
			c.Sched[p] = rapid.IntRange(1, 20).Draw(t, "yields")
		}
	}
	return c
}

func fp(c xCase, labels []string) string {
	kinds := map[string]int{}
	for _, g := range c.Goroutines {
		for _, k := range g {
			kinds[k.Kind+"/"+k.Fault]++
		}
	}
	var ks []string
	for k, n := range kinds {
		ks = append(ks, fmt.Sprintf("%s%d", k, n))
	}
	sort.Strings(ks)
	return fmt.Sprintf("%s b%d g%d d%d i%d %v %v %v", c.Mode, c.Brokers, len(c.Goroutines), c.DeadlineMs, c.IdleMs, ks, c.Sched, labels)
}

func TestConnCrossTalk(t *testing.T) {
	rapid.Check(t, func(t *rapid.T) {
		c := genCase(t, "conn")
		ev.InFlight("xtalk", c)
		labels, nt := run(t, c)
		ev.Case(fp(c, labels), nt, labels...)
		ev.Sample(c)
	})
}

func TestTransportCrossTalk(t *testing.T) {
	rapid.Check(t, func(t *rapid.T) {
		c := genCase(t, "transport")
		ev.InFlight("xtalk", c)
		labels, nt := run(t, c)
		ev.Case(fp(c, labels), nt, labels...)
		ev.Sample(c)
	})
}

// TestConnHammer: many goroutines issue cheap requests on one Conn as fast as they can, without faults: windows of a few
// instructions (e.g. two requests obtaining the same correlation id) are only hit by volume and true parallelism.
func TestConnHammer(t *testing.T) {
	rapid.Check(t, func(t *rapid.T) {
		// the deadline bounds the case: a response nobody waits for would otherwise keep the readers spinning forever
		c := xCase{Mode: "conn", Brokers: 1, Sched: map[string]int{}, DeadlineMs: 6000, Barrier: rapid.IntRange(0, 3).Draw(t, "barrier") != 0}
		ng := rapid.IntRange(6, 16).Draw(t, "goroutines")
		n := rapid.SampledFrom([]int{150, 400, 800}).Draw(t, "calls")
		kinds := []string{"offset", "partitions", "partitions", "coordinator", "committed"}
		if rapid.Bool().Draw(t, "withBatches") {
			kinds = append(kinds, "readEarly", "readEarly", "readZ", "readZ", "readZ", "readLSO")
		}
		tag := 1000
		for g := 0; g < ng; g++ {
			var calls []call
			for i := 0; i < n; i++ {
				tag++
				calls = append(calls, call{Kind: kinds[rapid.IntRange(0, len(kinds)-1).Draw(t, "kind")], Tag: tag})
			}
			c.Goroutines = append(c.Goroutines, calls)
		}
		ev.InFlight("xtalk", c)
		labels, _ := run(t, c)
		ev.Case(fmt.Sprintf("hammer g%d n%d %v", ng, n, labels), true, append(labels, "hammer")...)
	})
}


// assignmentOf is the opaque member assignment the fake coordinator hands out for tag (long enough to sit in the
// middle of a read buffer, short enough to be buffered whole).
func assignmentOf(tag int) []byte {
	b := []byte(fmt.Sprintf("[assignment of tag %d]", tag))
	for len(b) < 40+tag%300 {
		b = append(b, byte('a'+(len(b)+tag)%26))
	}
	return b
}
