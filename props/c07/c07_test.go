// Package c07 decides property C07: Writer preserves per-partition submission
// order, also across retries.
package c07

import (
	"fmt"
	"sort"
	"strings"
	"testing"

	"pgregory.net/rapid"

	"verif/internal/ev"
	"verif/internal/wsim"
)

func TestMain(m *testing.M) { ev.Main(m, "C07") }

func init() { ev.Register("order", func(tb ev.TB, c wsim.Case) { check(tb, c) }) }

func TestReplay(t *testing.T) { ev.RunReplay(t) }

func less(a, b wsim.ID) bool {
	if a.Call != b.Call {
		return a.Call < b.Call
	}
	return a.Index < b.Index
}

func setKey(ids []wsim.ID) string {
	s := make([]string, len(ids))
	for i, id := range ids {
		s[i] = id.String()
	}
	sort.Strings(s)
	return strings.Join(s, ",")
}

func check(tb ev.TB, c wsim.Case) (labels []string, nontrivial bool) {
	res := wsim.Run(c)
	if res.CloseHung {
		// Close not returning is C09's business; what was appended so far still has to respect the order rules
		ev.Inconclusive("close_hung")
	}
	fail := func(sig, format string, args ...any) {
		var b strings.Builder
		for _, p := range res.Produces {
			fmt.Fprintf(&b, "  produce seq%d %s/%d ids=%v fault=%q outcome=%s applied=%v\n", p.Seq, p.Topic, p.Partition, p.IDs, p.Fault, p.Outcome, p.Applied)
		}
		ev.Fail(tb, "order", sig, c, format+"\n%s", append(args, b.String())...)
	}
	// group applied requests per partition in journal (= log) order
	type pk struct {
		t string
		p int32
	}
	applied := map[pk][]wsim.ProduceSeen{}
	all := map[pk][]wsim.ProduceSeen{}
	for _, p := range res.Produces {
		k := pk{p.Topic, p.Partition}
		all[k] = append(all[k], p)
		if p.Applied {
			applied[k] = append(applied[k], p)
		}
	}
	for k, reqs := range applied {
		// the log must be the concatenation of the applied requests (harness sanity + no reordering inside the broker)
		var fromReqs []wsim.ID
		for _, r := range reqs {
			fromReqs = append(fromReqs, r.IDs...)
		}
		var inLog []wsim.ID
		for _, r := range res.Logs[k.t][k.p] {
			id, _ := wsim.ParseID(r.Value)
			inLog = append(inLog, id)
		}
		if res.CloseHung && len(inLog) <= len(fromReqs) {
			fromReqs = fromReqs[:len(inLog)] // the writer is still running: the journal may be ahead of the log snapshot
		}
		if fmt.Sprint(fromReqs) != fmt.Sprint(inLog) {
			tb.Fatalf("harness: log of %s/%d %v is not the concatenation of the applied requests %v", k.t, k.p, inLog, fromReqs)
		}
		// order inside every copy = submission order (per submitter)
		for _, r := range reqs {
			last := map[int]wsim.ID{}
			for _, id := range r.IDs {
				if prev, ok := last[id.Caller]; ok && !less(prev, id) {
					fail("c07/order-inside-batch", "partition %s/%d request seq %d carries %v after %v of the same submitter", k.t, k.p, r.Seq, id, prev)
					return
				}
				last[id.Caller] = id
			}
		}
		// every copy of an earlier batch precedes every copy of a later one
		firstAt := map[string]int{}
		lastKey := ""
		closed := map[string]bool{}
		for i, r := range reqs {
			key := setKey(r.IDs)
			if _, ok := firstAt[key]; !ok {
				firstAt[key] = i
			}
			if key != lastKey {
				if closed[key] {
					fail("c07/copy-after-successor", "partition %s/%d: a copy of batch {%s} (seq %d) was appended after a later batch had been appended", k.t, k.p, key, r.Seq)
					return
				}
				if lastKey != "" {
					closed[lastKey] = true
				}
				lastKey = key
			}
		}
		// per submitter, first occurrences in the log are in submission order
		seen := map[wsim.ID]bool{}
		last := map[int]wsim.ID{}
		for _, id := range inLog {
			if seen[id] {
				continue
			}
			seen[id] = true
			if prev, ok := last[id.Caller]; ok && !less(prev, id) {
				fail("c07/log-order", "partition %s/%d: message %v of submitter %d was appended after its later message %v", k.t, k.p, id, id.Caller, prev)
				return
			}
			last[id.Caller] = id
		}
		if len(firstAt) >= 2 {
			labels = append(labels, "multi_batch_partition")
			retry := false
			for i := 1; i < len(all[k]); i++ {
				if setKey(all[k][i].IDs) == setKey(all[k][i-1].IDs) {
					retry = true
				}
			}
			if retry {
				nontrivial = true
				labels = append(labels, "retry_with_other_batches")
			}
		}
	}
	// retry while the successor was already queued: a failed/lost first attempt of batch k whose successor k+1 was submitted before the retry arrived
	for k, reqs := range all {
		_ = k
		for i := 0; i+1 < len(reqs); i++ {
			if setKey(reqs[i].IDs) == setKey(reqs[i+1].IDs) && i+2 < len(reqs) {
				labels = append(labels, "retry_with_successor_queued")
				break
			}
		}
	}
	if c.Async {
		labels = append(labels, "async")
	}
	sort.Strings(labels)
	return labels, nontrivial
}

func TestOrder(t *testing.T) {
	rapid.Check(t, func(t *rapid.T) {
		c := wsim.GenCase(t, wsim.BiasOrder, -1)
		// ordering needs batches to queue up: small batches, few partitions
		c.BatchSize = rapid.IntRange(1, 3).Draw(t, "batchSize2")
		if c.MaxAttempts < 2 {
			c.MaxAttempts = 2 + rapid.IntRange(0, 2).Draw(t, "attempts2")
		}
		switch rapid.IntRange(0, 7).Draw(t, "extraStratum") {
		case 0, 1:
			c.LoggerDelayUs = rapid.SampledFrom([]int{100, 1000, 3000}).Draw(t, "loggerDelayUs")
		case 2:
			// the batch timer of a partial batch fires just when the same submitter fills the next batch
			c.Async = true
			c.BatchSize = rapid.IntRange(2, 3).Draw(t, "raceBatchSize")
			c.BatchTimeoutMs = rapid.IntRange(2, 6).Draw(t, "raceTimeoutMs")
			c.Balancer = "first"
			c.Faults = nil
			c.LoggerDelayUs = rapid.SampledFrom([]int{0, 500, 2000}).Draw(t, "raceLoggerDelayUs")
			proto := c.Callers[0][0].Msgs[0]
			proto.ForceTopic = ""
			if !c.WriterTopic {
				proto.Topic = c.Topics[0]
			}
			var calls []wsim.Call
			for i := 0; i < 12; i++ {
				jitter := rapid.IntRange(-400, 400).Draw(t, "jitterUs")
				calls = append(calls, wsim.Call{Msgs: []wsim.Msg{proto}, DelayUs: 200})
				full := make([]wsim.Msg, c.BatchSize)
				for k := range full {
					full[k] = proto
				}
				calls = append(calls, wsim.Call{Msgs: full, DelayUs: c.BatchTimeoutMs*1000 + jitter})
			}
			c.Callers = [][]wsim.Call{calls}
			c.SettleMs = 500
		case 4:
			// the broker stops reading in the middle of a produce request for longer than WriteTimeout, then reads on: the
			// attempt is abandoned and retried elsewhere, what was stuck in the pipe must not arrive later as a copy
			c.WriteTimeoutMs = rapid.IntRange(60, 150).Draw(t, "stallWriteTimeoutMs")
			if c.MaxAttempts < 3 {
				c.MaxAttempts = 3
			}
			c.Balancer = "first"
			nOK := rapid.IntRange(0, 3).Draw(t, "stallAfterOK")
			c.Faults = nil
			for i := 0; i < nOK; i++ {
				c.Faults = append(c.Faults, wsim.Fault{Kind: "ok"})
			}
			stallMs := c.WriteTimeoutMs*2 + rapid.IntRange(50, 300).Draw(t, "stallExtraMs")
			c.Faults = append(c.Faults, wsim.Fault{Kind: "write-stall", DelayMs: stallMs})
			// the writer stays in use until well after the stall has ended: one more call of the first submitter after a pause
			last := c.Callers[0][len(c.Callers[0])-1]
			last.DelayUs = (stallMs + 250) * 1000
			c.Callers[0] = append(c.Callers[0], last)
			c.SettleMs = 500
		case 3:
			// stampede: several submitters make the first ever submission to one partition at the same moment; each then
			// fills a batch at once, while its first message still sits in a partial batch waiting for BatchTimeout
			c.Async = true
			c.BatchSize = rapid.IntRange(2, 3).Draw(t, "stampedeBatchSize")
			c.BatchTimeoutMs = rapid.IntRange(20, 60).Draw(t, "stampedeTimeoutMs")
			c.Balancer = "first"
			c.Faults = nil
			proto := c.Callers[0][0].Msgs[0]
			proto.ForceTopic = ""
			if !c.WriterTopic {
				proto.Topic = c.Topics[0]
			}
			full := make([]wsim.Msg, c.BatchSize)
			for k := range full {
				full[k] = proto
			}
			c.Callers = nil
			for i, n := 0, rapid.IntRange(3, 8).Draw(t, "stampede"); i < n; i++ {
				c.Callers = append(c.Callers, []wsim.Call{{Msgs: []wsim.Msg{proto}}, {Msgs: full}})
			}
			c.SettleMs = c.BatchTimeoutMs + 500
		}
		labels, nt := check(t, c)
		if c.LoggerDelayUs > 0 {
			labels = append(labels, "slow_logger")
		}
		kinds := map[string]int{}
		for _, f := range c.Faults {
			kinds[f.Kind]++
		}
		ev.Case(fmt.Sprintf("p%v bs%d async%v %s callers%d faults%v labels%v", c.Partitions, c.BatchSize, c.Async, c.Balancer, len(c.Callers), kinds, labels), nt, labels...)
		ev.Sample(c)
	})
}

// TestFlood: one call that completes hundreds of batches for one partition and leaves a partial batch open, under a BatchTimeout
// of microseconds, so that the timer of the open batch fires (and further submitters arrive) while the completed batches are
// still on their way to the queue; then a second submitter hammering short calls into the same partition.  Anything that
// hands batches to the partition's queue outside the critical section that sealed them shows up as a log out of order.
func TestFlood(t *testing.T) {
	rapid.Check(t, func(t *rapid.T) {
		bs := rapid.IntRange(2, 3).Draw(t, "batchSize")
		n := rapid.IntRange(400, 3000).Draw(t, "batches")*bs + rapid.IntRange(1, bs-1).Draw(t, "tail")
		c := wsim.Case{Brokers: 1, ProduceMax: rapid.SampledFrom([]int16{2, 7, 8}).Draw(t, "produceMax"), BatchSize: bs, BatchBytes: 1 << 20,
			BatchTimeoutMs: 1, BatchTimeoutUs: rapid.IntRange(5, 80).Draw(t, "batchTimeoutUs"), MaxAttempts: 2, BackoffMinMs: 1, BackoffMaxMs: 2, Acks: -1,
			Async: rapid.Bool().Draw(t, "async"), Balancer: "first", WriterTopic: true, WriteTimeoutMs: 20000, CallTimeoutMs: 60000,
			Topics: []string{"ta"}, Partitions: []int{rapid.IntRange(1, 2).Draw(t, "partitions")}, SettleMs: 5000}
		msgs := make([]wsim.Msg, n)
		for i := range msgs {
			msgs[i] = wsim.Msg{KeyLen: -1, ValueSize: 8}
		}
		c.Callers = [][]wsim.Call{{{Msgs: msgs}}}
		// further submitters: short calls in quick succession (each opens or fills a batch of its own)
		for k, extra := 0, rapid.IntRange(0, 2).Draw(t, "extraSubmitters"); k < extra; k++ {
			var calls []wsim.Call
			for i, m := 0, rapid.IntRange(50, 300).Draw(t, "extraCalls"); i < m; i++ {
				calls = append(calls, wsim.Call{Msgs: msgs[:1+(i+k)%bs]})
			}
			c.Callers = append(c.Callers, calls)
		}
		labels, _ := check(t, c)
		ev.Case(fmt.Sprintf("flood bs%d us%d async%v callers%d n%d", bs, c.BatchTimeoutUs, c.Async, len(c.Callers), n/100), true, append(labels, "flood")...)
	})
}
