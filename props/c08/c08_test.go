// Package c08 decides property C08: Writer batches respect size limits and are
// flushed without further input.
package c08

import (
	"context"
	"errors"
	"fmt"
	"sort"
	"strings"
	"testing"
	"time"

	kafka "github.com/segmentio/kafka-go"
	"pgregory.net/rapid"

	"verif/internal/ev"
	"verif/internal/wsim"
)

func TestMain(m *testing.M) { ev.Main(m, "C08") }

func init() { ev.Register("sizes", func(tb ev.TB, c wsim.Case) { check(tb, c) }) }

func TestReplay(t *testing.T) { ev.RunReplay(t) }

const lateSlack = 250 * time.Millisecond

// validity of a call per the statement: no message larger than BatchBytes, no
// mix of writer-level and message-level topics (and a topic somewhere).
func classify(c wsim.Case, ci, ki int) (oversize, badTopic bool, msgs []kafka.Message) {
	call := c.Callers[ci][ki]
	for mi, m := range call.Msgs {
		msg := wsim.Build(wsim.ID{Caller: ci, Call: ki, Index: mi}, m)
		msgs = append(msgs, msg)
		if wsim.TotalSize(&msg) > c.BatchBytes {
			oversize = true
		}
		if (c.WriterTopic && msg.Topic != "") || (!c.WriterTopic && msg.Topic == "") {
			badTopic = true
		}
	}
	return
}

func check(tb ev.TB, c wsim.Case) (labels []string, nontrivial bool) {
	res := wsim.Run(c)
	if res.CloseHung {
		ev.Inconclusive("close_hung")
		return nil, false
	}
	fail := func(sig, format string, args ...any) {
		var b strings.Builder
		for _, p := range res.Produces {
			fmt.Fprintf(&b, "  produce seq%d %s/%d n=%d sizes=%v\n", p.Seq, p.Topic, p.Partition, len(p.IDs), p.Sizes)
		}
		for _, cl := range res.Calls {
			fmt.Fprintf(&b, "  call %v n=%d took=%v err=%v\n", cl.ID, cl.N, cl.Returned.Sub(cl.Started), cl.Err)
		}
		ev.Fail(tb, "sizes", sig, c, format+"\n%s", append(args, b.String())...)
	}
	for _, v := range res.Violations {
		fail("c08/malformed-request", "the fake broker rejected a request as malformed: %s", v)
		return
	}
	sent := map[wsim.ID]wsim.ProduceSeen{}
	bySize, byTimer := 0, 0
	for _, p := range res.Produces {
		if p.NTopics != 1 || p.NParts != 1 {
			fail("c08/multi-partition-request", "produce request seq %d carries %d topics / %d partitions", p.Seq, p.NTopics, p.NParts)
			return
		}
		// "all records of one request belong to a single topic-partition": judged by where the balancer sent each record
		for _, id := range p.IDs {
			first, ok1 := res.Choice[p.IDs[0]]
			ch, ok2 := res.Choice[id]
			if ok1 && ok2 && (first[0] != ch[0] || first[1] != ch[1]) {
				name := func(x [2]any) string {
					t, _ := x[0].(string)
					if t == "" {
						t = c.Topics[0]
					}
					return fmt.Sprintf("%s/%v", t, x[1])
				}
				fail("c08/request-mixes-partitions", "produce request seq %d (for %s/%d) carries message %v, which the balancer sent to %s, next to message %v, which it sent to %s", p.Seq, p.Topic, p.Partition, p.IDs[0], name(first), id, name(ch))
				return
			}
		}
		if len(p.IDs) > c.BatchSize {
			fail("c08/batch-size", "produce request seq %d carries %d messages, BatchSize is %d", p.Seq, len(p.IDs), c.BatchSize)
			return
		}
		var sum int64
		for _, s := range p.Sizes {
			sum += s
		}
		if sum > c.BatchBytes {
			fail("c08/batch-bytes", "produce request seq %d carries %d bytes of messages, BatchBytes is %d", p.Seq, sum, c.BatchBytes)
			return
		}
		if sum == c.BatchBytes || len(p.IDs) == c.BatchSize {
			labels = append(labels, "exact_limit")
			bySize++
		} else {
			byTimer++
		}
		for _, id := range p.IDs {
			if _, dup := sent[id]; !dup {
				sent[id] = p
			}
		}
	}
	if bySize > 0 && byTimer > 0 {
		nontrivial = true
	}
	if byTimer > 0 {
		labels = append(labels, "timer_flush")
	}
	accepted := map[wsim.ID]wsim.CallResult{}
	for _, call := range res.Calls {
		over, bad, _ := classify(c, call.ID[0], call.ID[1])
		if over || bad {
			if over {
				labels = append(labels, "oversize_rejected")
			}
			if bad {
				labels = append(labels, "topic_mix_rejected")
			}
			nontrivial = true
			if call.Err == nil {
				fail("c08/invalid-call-accepted", "call %v (oversize=%v topic-mix=%v) returned nil", call.ID, over, bad)
				return
			}
			var tooLarge kafka.MessageTooLargeError
			if over && !bad && !errors.As(call.Err, &tooLarge) {
				fail("c08/oversize-error-type", "call %v with an oversize message returned %T %v, want MessageTooLargeError", call.ID, call.Err, call.Err)
				return
			}
			for i := 0; i < call.N; i++ {
				id := wsim.ID{Caller: call.ID[0], Call: call.ID[1], Index: i}
				if p, ok := sent[id]; ok {
					fail("c08/sent-despite-rejection", "call %v was rejected (%v) but its message %v was sent in produce request seq %d", call.ID, call.Err, id, p.Seq)
					return
				}
			}
			continue
		}
		if call.Err != nil {
			if errors.Is(call.Err, context.DeadlineExceeded) {
				// a valid call that never completed although nothing was wrong with the broker
				missing := 0
				for i := 0; i < call.N; i++ {
					if _, ok := sent[wsim.ID{Caller: call.ID[0], Call: call.ID[1], Index: i}]; !ok {
						missing++
					}
				}
				if missing > 0 {
					fail("c08/never-flushed", "call %v did not return within %d ms and %d of its %d messages were never sent although no further input was needed", call.ID, c.CallTimeoutMs, missing, call.N)
					return
				}
				ev.Inconclusive("call_slow_but_sent")
				continue
			}
			fail("c08/valid-call-failed", "valid call %v failed: %v", call.ID, call.Err)
			return
		}
		for i := 0; i < call.N; i++ {
			accepted[wsim.ID{Caller: call.ID[0], Call: call.ID[1], Index: i}] = call
		}
	}
	// every accepted message was scheduled without further input
	if len(res.Unsent) > 0 && res.MaxJitter > 500*time.Millisecond {
		ev.Inconclusive("unsent_on_a_late_machine")
		return labels, false
	}
	if len(res.Unsent) > 0 {
		sort.Slice(res.Unsent, func(i, j int) bool { return res.Unsent[i].String() < res.Unsent[j].String() })
		fail("c08/never-flushed", "%d accepted messages (first %v) were not sent within %d ms after the last call returned, without further input (BatchTimeout %d ms)", len(res.Unsent), res.Unsent[0], c.SettleMs, c.BatchTimeoutMs)
		return
	}
	bt := time.Duration(c.BatchTimeoutMs) * time.Millisecond
	for id, call := range accepted {
		p, ok := sent[id]
		if !ok {
			if c.SettleMs == 0 && c.Async {
				continue // flushed by Close; covered by the settle strata
			}
			fail("c08/never-flushed", "accepted message %v never reached the broker", id)
			return
		}
		// batch open time >= start of the earliest call contributing to the request
		open := call.Started
		for _, other := range p.IDs {
			if oc, ok := accepted[other]; ok && oc.Started.Before(open) {
				open = oc.Started
			}
		}
		if late := p.At.Sub(open) - bt; late > lateSlack {
			if c.StrictLateMs > 0 && late > time.Duration(c.StrictLateMs)*time.Millisecond {
				if res.MaxJitter > 150*time.Millisecond {
					ev.Inconclusive("late_flush_on_a_late_machine") // the machine itself overslept by that much during the scenario
					continue
				}
				fail("c08/held-beyond-batch-timeout", "message %v was accepted %v before the produce request carrying it reached the (healthy, idle) broker; BatchTimeout is %d ms and the batch was opened no later than the acceptance of its first message", id, p.At.Sub(open), c.BatchTimeoutMs)
				return
			}
			ev.Inconclusive("late_flush")
		}
	}
	// "closed as soon as it is full": in the full-batch stratum every call fills its batches
	if c.BatchTimeoutMs >= 10000 {
		labels = append(labels, "full_batch_no_timer")
		for _, call := range res.Calls {
			if d := call.Returned.Sub(call.Started); d > 3*time.Second && !c.Async && res.MaxJitter < 500*time.Millisecond {
				fail("c08/full-batch-waited-for-timer", "call %v filled its batches exactly but took %v (BatchTimeout %d ms): the full batch was not closed when it became full", call.ID, d, c.BatchTimeoutMs)
				return
			}
		}
	}
	if c.Async && c.SettleMs > 0 {
		labels = append(labels, "async_settle")
	}
	if c.StrictLateMs > 0 {
		labels = append(labels, "steady_stream")
	}
	sort.Strings(labels)
	return dedup(labels), nontrivial
}

func dedup(s []string) []string {
	out := s[:0]
	for i, x := range s {
		if i == 0 || x != s[i-1] {
			out = append(out, x)
		}
	}
	return out
}

var caseNo int

func TestSizes(t *testing.T) {
	rapid.Check(t, func(t *rapid.T) {
		caseNo++
		c := wsim.GenCase(t, wsim.BiasSizes, -1)
		c.MaxAttempts = 2
		c.BatchTimeoutMs = rapid.IntRange(2, 40).Draw(t, "batchTimeoutMs2")
		c.CallTimeoutMs = c.BatchTimeoutMs + 4000
		c.BatchBytes = int64(rapid.IntRange(64, 1500).Draw(t, "batchBytes"))
		c.BatchSize = rapid.IntRange(1, 10).Draw(t, "batchSize2")
		if len(c.Callers) > 3 {
			c.Callers = c.Callers[:3]
		}
		// sizes around the limits
		for ci := range c.Callers {
			for ki := range c.Callers[ci] {
				msgs := c.Callers[ci][ki].Msgs
				for mi := range msgs {
					m := &msgs[mi]
					built := wsim.Build(wsim.ID{Caller: ci, Call: ki, Index: mi}, wsim.Msg{Topic: m.Topic, KeyLen: m.KeyLen, ValueSize: 0, Headers: m.Headers, HeaderLen: m.HeaderLen})
					overhead := int(wsim.TotalSize(&built)) - len(built.Value)
					switch rapid.IntRange(0, 9).Draw(t, "sizeKind") {
					case 0: // exactly BatchBytes
						m.ValueSize = int(c.BatchBytes) - overhead
					case 1: // one more than fits: oversize
						m.ValueSize = int(c.BatchBytes) - overhead + 1
					case 2: // half, so that two fill a batch exactly when BatchBytes is even
						m.ValueSize = int(c.BatchBytes)/2 - overhead
					case 3:
						m.ValueSize = int(c.BatchBytes) - overhead - 1
					default:
						m.ValueSize = rapid.IntRange(8, 100).Draw(t, "valueSize2")
					}
					if m.ValueSize < 8 {
						m.ValueSize = 8
					}
				}
				switch rapid.IntRange(0, 14).Draw(t, "topicFault") {
				case 0:
					if c.WriterTopic {
						msgs[len(msgs)-1].ForceTopic = c.Topics[0] // writer-level and message-level topic
					} else {
						msgs[len(msgs)-1].ForceTopic = "-" // no topic anywhere
					}
				}
			}
		}
		switch caseNo % 4 {
		case 0: // async: accepted messages must leave without further input
			c.Async = true
			c.SettleMs = c.BatchTimeoutMs + 3000
		case 1: // full batches, timer far away
			c.Async = false
			c.BatchTimeoutMs = 10000
			c.CallTimeoutMs = 6000
			c.BatchBytes = 1 << 20
			c.Balancer = "first"
			c.BatchSize = rapid.IntRange(1, 4).Draw(t, "batchSize3")
			for ci := range c.Callers {
				for ki := range c.Callers[ci] {
					call := &c.Callers[ci][ki]
					n := c.BatchSize * rapid.IntRange(1, 2).Draw(t, "multiples")
					for len(call.Msgs) < n {
						call.Msgs = append(call.Msgs, call.Msgs[0])
					}
					call.Msgs = call.Msgs[:n]
					for mi := range call.Msgs {
						call.Msgs[mi].ValueSize = 20
						call.Msgs[mi].ForceTopic = ""
						if !c.WriterTopic {
							call.Msgs[mi].Topic = c.Topics[0]
						}
					}
				}
			}
			// one submitter, so that batches are filled by exactly one call
			c.Callers = c.Callers[:1]
			if rapid.IntRange(0, 2).Draw(t, "byteExact") == 0 {
				// filled by bytes instead: a small message opens a batch, the next one is exactly BatchBytes long, overflows it and
				// fills the new batch on its own; both batches must leave at once (the timer is 10 s away)
				c.BatchSize = 100
				c.BatchBytes = int64(rapid.IntRange(200, 1500).Draw(t, "exactBatchBytes"))
				proto := c.Callers[0][0].Msgs[0]
				proto.ForceTopic = ""
				if !c.WriterTopic {
					proto.Topic = c.Topics[0]
				}
				small, exact := proto, proto
				small.ValueSize = 20
				built := wsim.Build(wsim.ID{Caller: 0, Call: 0, Index: 1}, wsim.Msg{Topic: exact.Topic, KeyLen: exact.KeyLen, ValueSize: 0, Headers: exact.Headers, HeaderLen: exact.HeaderLen})
				exact.ValueSize = int(c.BatchBytes) - (int(wsim.TotalSize(&built)) - len(built.Value))
				if exact.ValueSize >= 8 {
					c.Callers = [][]wsim.Call{{{Msgs: []wsim.Msg{small, exact}}}}
				}
			}
		case 3:
			if caseNo%8 == 3 {
				// BatchBytes left at its default (1048576): the same limits apply
				c.DefaultBatchBytes = true
				c.BatchBytes = 1 << 20
				c.BatchSize = 100
				c.Balancer = "first"
				proto := c.Callers[0][0].Msgs[0]
				proto.ForceTopic = ""
				if !c.WriterTopic {
					proto.Topic = c.Topics[0]
				}
				built := wsim.Build(wsim.ID{Caller: 0, Call: 0, Index: 1}, wsim.Msg{Topic: proto.Topic, KeyLen: proto.KeyLen, ValueSize: 0, Headers: proto.Headers, HeaderLen: proto.HeaderLen})
				overhead := int(wsim.TotalSize(&built)) - len(built.Value)
				small, big := proto, proto
				small.ValueSize = 20
				big.ValueSize = (1 << 20) - overhead + rapid.SampledFrom([]int{-1, 0, 1, 1, 2, 1000}).Draw(t, "aroundDefault")
				c.Callers = [][]wsim.Call{{{Msgs: []wsim.Msg{small, big}}}}
				c.Async = false
			} else {
				c.Async = false
			}
		case 2:
			if caseNo%16 == 2 {
				// steady stream: one submitter keeps appending to one partition with gaps shorter than BatchTimeout and never
				// fills the batch; every message must still leave BatchTimeout after its batch was opened
				c.Async = rapid.Bool().Draw(t, "streamAsync")
				c.BatchTimeoutMs = rapid.IntRange(30, 80).Draw(t, "streamTimeout")
				c.BatchSize, c.BatchBytes = 1000, 1<<20
				c.Balancer = "first"
				c.Faults = nil
				c.StrictLateMs = 700
				gap := c.BatchTimeoutMs * 1000 / rapid.IntRange(2, 5).Draw(t, "gapDiv")
				n := 1600 * 1000 / gap
				proto := c.Callers[0][0].Msgs[0]
				proto.ValueSize, proto.ForceTopic = 16, ""
				if !c.WriterTopic {
					proto.Topic = c.Topics[0]
				}
				if c.Async {
					var calls []wsim.Call
					for i := 0; i < n; i++ {
						calls = append(calls, wsim.Call{Msgs: []wsim.Msg{proto}, DelayUs: gap})
					}
					c.Callers = [][]wsim.Call{calls}
					c.SettleMs = c.BatchTimeoutMs + 3000
				} else {
					// synchronous submitters block until their batch is sent: n submitters, the i-th starts after i gaps
					c.Callers = nil
					for i := 0; i < n && i < 300; i++ {
						c.Callers = append(c.Callers, []wsim.Call{{Msgs: []wsim.Msg{proto}, DelayUs: gap * (i + 1)}})
					}
					c.CallTimeoutMs = 8000
				}
			} else if caseNo%16 == 10 {
				// Writer built by NewWriter(WriterConfig): the configured BatchTimeout applies to a lone message on an idle writer
				c.ViaNewWriter = true
				c.Async = rapid.Bool().Draw(t, "cfgAsync")
				c.BatchTimeoutMs = rapid.IntRange(5, 60).Draw(t, "cfgTimeout")
				c.BatchSize, c.BatchBytes = 100, 1<<20
				c.Faults = nil
				c.StrictLateMs = 600
				proto := c.Callers[0][0].Msgs[0]
				proto.ValueSize, proto.ForceTopic = 16, ""
				if !c.WriterTopic {
					proto.Topic = c.Topics[0]
				}
				c.Callers = [][]wsim.Call{{{Msgs: []wsim.Msg{proto}}}}
				c.SettleMs = c.BatchTimeoutMs + 3000
				if rapid.Bool().Draw(t, "subMillisecond") {
					// a BatchTimeout below one millisecond is a BatchTimeout too
					c.ViaNewWriter = rapid.Bool().Draw(t, "subMsViaNewWriter")
					c.BatchTimeoutMs, c.BatchTimeoutUs = 1, rapid.SampledFrom([]int{1, 50, 500, 999}).Draw(t, "batchTimeoutUs")
				}
			} else {
				c.Async = false
				c.ViaNewWriter = rapid.IntRange(0, 3).Draw(t, "viaNewWriter") == 0
			}
		default:
			c.Async = false
		}
		labels, nt := check(t, c)
		if c.ViaNewWriter {
			labels = append(labels, "via_new_writer")
		}
		ev.Case(fmt.Sprintf("bs%d bb%d bt%d async%v %s callers%d labels%v", c.BatchSize, c.BatchBytes, c.BatchTimeoutMs, c.Async, c.Balancer, len(c.Callers), labels), nt, labels...)
		ev.Sample(c)
	})
}
