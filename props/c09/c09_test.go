// Package c09 decides property C09: Close, cancellation and use-after-close
// behave and terminate in every schedule.
package c09

import (
	"context"
	"errors"
	"fmt"
	"io"
	"net"
	"regexp"
	"runtime"
	"sort"
	"strings"
	"sync"
	"sync/atomic"
	"testing"
	"time"

	kafka "github.com/segmentio/kafka-go"
	"github.com/segmentio/kafka-go/protocol/createtopics"
	"github.com/segmentio/kafka-go/protocol/listoffsets"
	"pgregory.net/rapid"

	"verif/fakecluster"
	"verif/internal/ev"
	"verif/internal/wsim"
	"verif/memnet"
	"verif/refcodec"
	"verif/sched"
)

func init() {
	ev.Timed("c09/roundtrip-cancel", "c09/write-cancel-not-honoured", "c09/cancel-not-honoured", "c09/blocked-fetch-survives-close", "c09/next-after-close")
}

func TestMain(m *testing.M) { ev.Main(m, "C09") }

func TestReplay(t *testing.T) { ev.RunReplay(t) }

// ---------------------------------------------------------------------------
// goroutine census

var goroutineHeader = regexp.MustCompile(`(?m)^goroutine \d+ \[`)

// libraryGoroutines returns the stacks of goroutines that are inside the
// library (and not merely harness goroutines calling into it).
func libraryGoroutines() []string {
	buf := make([]byte, 4<<20)
	n := runtime.Stack(buf, true)
	var out []string
	for _, g := range strings.Split(string(buf[:n]), "\n\n") {
		if !strings.Contains(g, "github.com/segmentio/kafka-go") {
			continue
		}
		if strings.Contains(g, "verif/props") || strings.Contains(g, "verif/internal") || strings.Contains(g, "verif/fakecluster") || strings.Contains(g, "verif/memnet") {
			continue
		}
		out = append(out, g)
	}
	return out
}

func normalize(stack string) string {
	lines := strings.Split(stack, "\n")
	var fn []string
	for _, l := range lines[1:] {
		if !strings.HasPrefix(l, "\t") {
			if i := strings.LastIndex(l, "("); i > 0 {
				l = l[:i]
			}
			fn = append(fn, l)
		}
	}
	return strings.Join(fn, " < ")
}

// waitNoLibraryGoroutines waits until the number of library goroutines is back
// to the baseline; it returns the leftovers.
func waitNoLibraryGoroutines(baseline int, max time.Duration) []string {
	deadline := time.Now().Add(max)
	for {
		gs := libraryGoroutines()
		if len(gs) <= baseline || time.Now().After(deadline) {
			if len(gs) <= baseline {
				return nil
			}
			return gs
		}
		time.Sleep(5 * time.Millisecond)
	}
}

// stuck reports whether the library goroutines are identical in two dumps one second apart.
func stuck() (bool, string) {
	a := libraryGoroutines()
	time.Sleep(time.Second)
	b := libraryGoroutines()
	na := map[string]int{}
	for _, g := range a {
		na[normalize(g)]++
	}
	nb := map[string]int{}
	for _, g := range b {
		nb[normalize(g)]++
	}
	if len(na) != len(nb) {
		return false, ""
	}
	var desc []string
	for k, v := range na {
		if nb[k] != v {
			return false, ""
		}
		desc = append(desc, fmt.Sprintf("%dx %s", v, k))
	}
	sort.Strings(desc)
	for _, g := range b {
		if strings.Contains(g, "[running]") || strings.Contains(g, "[runnable]") {
			return false, ""
		}
	}
	return true, strings.Join(desc, "\n    ")
}

// ---------------------------------------------------------------------------
// Writer

type writerCase struct {
	W     wsim.Case                 `json:"w"`
	Sched map[string][]sched.Action `json:"sched"`
}

func init() {
	ev.Register("writer", func(tb ev.TB, c writerCase) { runWriter(tb, c) })
	ev.Register("reader", func(tb ev.TB, c readerCase) { runReader(tb, c) })
	ev.Register("transport", func(tb ev.TB, c transportCase) { runTransport(tb, c) })
}

func runWriter(tb ev.TB, c writerCase) (labels []string, nontrivial bool) {
	base := len(libraryGoroutines())
	ctl := sched.Install(sched.Table(c.Sched))
	res := wsim.Run(c.W)
	ctl.Uninstall()
	lab := map[string]bool{}
	fail := func(sig, format string, args ...any) {
		ev.Fail(tb, "writer", sig, c, format, args...)
	}
	if res.CloseHung {
		if ok, desc := stuck(); ok {
			fail("c09/writer-close-hang", "Writer.Close did not return within %d ms and the library goroutines are stuck:\n    %s", c.W.CloseWatchdogMs, desc)
		} else {
			ev.Inconclusive("writer_close_slow")
		}
		return nil, false
	}
	// (c) after Close
	if !wsim.IsClosedPipe(res.AfterCloseEmpty) {
		fail("c09/write-after-close", "WriteMessages (called with no messages) after Close returned %v, want io.ErrClosedPipe", res.AfterCloseEmpty)
		return
	}
	if !wsim.IsClosedPipe(res.AfterClose) {
		fail("c09/write-after-close", "WriteMessages after Close returned %v, want io.ErrClosedPipe", res.AfterClose)
		return
	}
	// (b) nothing happens after Close returned: every Completion ran, no produce request arrives later
	for _, comp := range res.Completions {
		if comp.At.After(res.CloseReturned.Add(2 * time.Millisecond)) {
			fail("c09/completion-after-close", "a Completion callback ran %v after Close had returned", comp.At.Sub(res.CloseReturned))
			return
		}
	}
	for _, p := range res.Produces {
		if p.At.After(res.CloseReturned.Add(2 * time.Millisecond)) {
			fail("c09/produce-after-close", "a produce request (seq %d) reached the broker %v after Close had returned", p.Seq, p.At.Sub(res.CloseReturned))
			return
		}
	}
	// every message accepted before Close began was sent or exhausted its attempts, and its Completion ran
	completed := map[wsim.ID]bool{}
	for _, comp := range res.Completions {
		for _, id := range comp.IDs {
			completed[id] = true
		}
	}
	sent := map[wsim.ID]int{}
	for _, p := range res.Produces {
		for _, id := range p.IDs {
			sent[id]++
		}
	}
	overlapped := false
	// (d) a call whose context ended while it was blocked returns promptly with the context's error
	for _, call := range res.Calls {
		cm := c.W.Callers[call.ID[0]][call.ID[1]].CancelMs
		if cm <= 0 {
			continue
		}
		dur := call.Returned.Sub(call.Started)
		ctxEnd := time.Duration(cm) * time.Millisecond
		if dur > ctxEnd+time.Second {
			fail("c09/write-cancel-not-honoured", "WriteMessages call %v whose context ended after %v returned only after %v (%v)", call.ID, ctxEnd, dur, call.Err)
			return
		}
		if dur >= ctxEnd {
			// (the contexts of these calls end by deadline, and the Transport makes a context's deadline the deadline of the
			// connection: a time-out reported by the connection is that deadline, as in the Transport unit below)
			var ne net.Error
			if call.Err != nil && !call.IsWriteEs && !errors.Is(call.Err, context.DeadlineExceeded) && !errors.Is(call.Err, context.Canceled) && !wsim.IsClosedPipe(call.Err) && !(errors.As(call.Err, &ne) && ne.Timeout()) {
				fail("c09/write-cancel-wrong-error", "WriteMessages call %v whose context ended after %v returned %v, want an error wrapping the context's error", call.ID, ctxEnd, call.Err)
				return
			}
			if errors.Is(call.Err, context.DeadlineExceeded) {
				lab["write_returned_ctx_error"] = true
				overlapped = true
			}
		}
	}
	for _, call := range res.Calls {
		if call.Returned.After(res.CloseStarted) {
			overlapped = true
			lab["close_overlapped_a_call"] = true
		}
		accepted := call.Err == nil || call.IsWriteEs
		if !accepted {
			if call.Returned.After(res.CloseStarted) && !wsim.IsClosedPipe(call.Err) && !errors.Is(call.Err, context.DeadlineExceeded) && !errors.Is(call.Err, context.Canceled) {
				lab["call_during_close_other_error"] = true
			}
			if wsim.IsClosedPipe(call.Err) {
				lab["call_rejected_closed"] = true
			}
			continue
		}
		for i := 0; i < call.N; i++ {
			id := wsim.ID{Caller: call.ID[0], Call: call.ID[1], Index: i}
			if !completed[id] {
				fail("c09/accepted-message-not-completed", "call %v was accepted (%v) but the Completion callback never ran for message %v before Close returned (sent %d times)", call.ID, call.Err, id, sent[id])
				return
			}
			if sent[id] == 0 {
				fail("c09/accepted-message-never-sent", "call %v was accepted but message %v never reached a broker before Close returned", call.ID, id)
				return
			}
		}
	}
	for _, comp := range res.Completions {
		_ = comp
	}
	// (f) no library goroutine outlives Close (the transport is owned by the scenario and was closed)
	if left := waitNoLibraryGoroutines(base, 3*time.Second); left != nil {
		var kinds []string
		for _, g := range left {
			kinds = append(kinds, normalize(g))
		}
		sort.Strings(kinds)
		fail("c09/writer-goroutine-leak", "%d library goroutines outlive Writer.Close by more than 3 s:\n    %s", len(left)-base, strings.Join(kinds, "\n    "))
		return
	}
	for p, acts := range c.Sched {
		for _, a := range acts {
			if a.Kind == "park" {
				lab["parked_"+p] = true
			}
		}
	}
	if ctl.Parked > 0 {
		lab["schedule_point_parked"] = true
	}
	for _, f := range c.W.Faults {
		if f.Kind == "stall" || f.Kind == "slow" {
			lab["close_with_"+f.Kind+"_broker"] = true
		}
	}
	if c.W.CloseAfterUs > 0 {
		lab["close_while_callers_run"] = true
	}
	for k := range lab {
		labels = append(labels, k)
	}
	sort.Strings(labels)
	return labels, overlapped || ctl.Parked > 0
}

func TestWriterClose(t *testing.T) {
	rapid.Check(t, func(t *rapid.T) {
		w := wsim.GenCase(t, wsim.BiasFaults, -1)
		// keep faults to those that end by themselves quickly
		var fs []wsim.Fault
		for _, f := range w.Faults {
			if f.Kind == "slow" || f.Kind == "temp" || f.Kind == "lost-ack" || f.Kind == "ok" {
				fs = append(fs, f)
			}
		}
		w.Faults = fs
		w.CloseAfterUs = rapid.SampledFrom([]int{1, 50, 200, 1000, 5000, 20000}).Draw(t, "closeAfterUs")
		w.CallTimeoutMs = 4000
		w.WriteTimeoutMs = 1000
		w.CloseWatchdogMs = 8000
		c := writerCase{W: w, Sched: map[string][]sched.Action{}}
		switch rapid.IntRange(0, 5).Draw(t, "stratum") {
		case 5:
			// stampede: several callers make the very first submission to one partition at the same moment, then Close
			n := rapid.IntRange(3, 8).Draw(t, "stampede")
			proto := c.W.Callers[0][0]
			proto.DelayUs, proto.CancelMs = 0, 0
			if len(proto.Msgs) > 2 {
				proto.Msgs = proto.Msgs[:2]
			}
			c.W.Callers = nil
			for i := 0; i < n; i++ {
				c.W.Callers = append(c.W.Callers, []wsim.Call{proto, proto})
			}
			c.W.Balancer = "first"
			c.W.Faults = nil
			c.W.CloseAfterUs = rapid.SampledFrom([]int{0, 0, 2000, 50000}).Draw(t, "closeAfterUs3")
		case 4:
			// calls blocked on a broker that stops answering, with contexts that end first
			c.W.Async = false
			if len(c.W.Callers) > 2 {
				c.W.Callers = c.W.Callers[:2]
			}
			for ci := range c.W.Callers {
				if len(c.W.Callers[ci]) > 2 {
					c.W.Callers[ci] = c.W.Callers[ci][:2]
				}
				for ki := range c.W.Callers[ci] {
					c.W.Callers[ci][ki].CancelMs = rapid.IntRange(1, 150).Draw(t, "cancelMs")
				}
			}
			nstall := rapid.IntRange(0, 3).Draw(t, "okBeforeStall")
			c.W.Faults = nil
			for i := 0; i < nstall; i++ {
				c.W.Faults = append(c.W.Faults, wsim.Fault{Kind: "ok"})
			}
			for i := 0; i < 64; i++ {
				c.W.Faults = append(c.W.Faults, wsim.Fault{Kind: "stall"})
			}
			c.W.MaxAttempts = 1
			c.W.WriteTimeoutMs = 2000
			c.W.AbortAfterCalls = true
			c.W.CloseAfterUs = rapid.SampledFrom([]int{0, 0, 20000, 300000}).Draw(t, "closeAfterUs2")
			c.W.CloseWatchdogMs = 60000
		case 0:
			// the window between the closed-check and the batching: callers park after entering until Close has marked the writer closed
			c.Sched["writer.entered"] = []sched.Action{{Kind: "park", Event: "at:writer.closeMarked", MaxMs: 100}}
			c.W.CloseAfterUs = 300
		case 1:
			c.Sched["writer.beforeBatch"] = []sched.Action{{Kind: "park", Event: "at:writer.closeMarked", MaxMs: 100}}
			c.W.CloseAfterUs = 300
		case 2:
			c.Sched["writer.timerFired"] = []sched.Action{{Kind: "yield", N: rapid.IntRange(1, 50).Draw(t, "yields")}}
			c.Sched["writer.closeMarked"] = []sched.Action{{Kind: "sleep", N: rapid.IntRange(1, 3000).Draw(t, "sleepUs")}}
		}
		ev.InFlight("writer", c)
		labels, nt := runWriter(t, c)
		ev.Case(fmt.Sprintf("writer close@%d async%v callers%d sched%v %v", c.W.CloseAfterUs, c.W.Async, len(c.W.Callers), keys(c.Sched), labels), nt, labels...)
		ev.Sample(c)
	})
}

func keys(m map[string][]sched.Action) []string {
	var ks []string
	for k := range m {
		ks = append(ks, k)
	}
	sort.Strings(ks)
	return ks
}

// ---------------------------------------------------------------------------
// Reader (plain and consumer group)

type readerCase struct {
	Group       bool   `json:"group"`
	Members     int    `json:"members"`
	Records     int    `json:"records"`
	FetchFirst  int    `json:"fetch_first"`  // messages to fetch before the event
	Blocked     string `json:"blocked"`      // what is blocked when the event happens: fetch | commit | none
	Event       string `json:"event"`        // close | cancel
	BrokerState string `json:"broker_state"` // normal | stall-fetch | stall-heartbeat | slow
	CloseDuring string `json:"close_during"` // "" | rebalance
	CommitMs    int    `json:"commit_interval_ms"`
	DelayUs     int    `json:"delay_us"`
	// QueueCap > 0: ReaderConfig.QueueCapacity.  With Records == QueueCap + FetchFirst and nobody polling, the queue is
	// exactly full when the partition reader has delivered everything; broker state error-fetch then gives it an error to
	// report (a fetch answered with TOPIC_AUTHORIZATION_FAILED) while there is no room for it.
	QueueCap int `json:"queue_cap,omitempty"`
	// FutureCodec: after the records the partitions hold one more batch, compressed with a codec id the library does not
	// know: the reader cannot proceed and says so; whatever it opened while trying must be released by Close
	FutureCodec bool `json:"future_codec,omitempty"`
}

func runReader(tb ev.TB, c readerCase) (labels []string, nontrivial bool) {
	base := len(libraryGoroutines())
	nw := memnet.New()
	cl := fakecluster.New(nw, 1)
	defer cl.Close()
	cl.CreateTopic("t", 2)
	for p := int32(0); p < 2; p++ {
		var recs []refcodec.Record
		for i := 0; i < c.Records; i++ {
			recs = append(recs, refcodec.Record{Offset: int64(i), Timestamp: int64(1 + i), Value: []byte(fmt.Sprintf("v%d", i))})
		}
		if len(recs) > 0 {
			cl.AppendBatches("t", p, refcodec.MakeBatchV2(recs, 0))
		}
		if c.FutureCodec {
			cl.AppendBatches("t", p, refcodec.MakeBatchV2([]refcodec.Record{{Offset: int64(c.Records), Timestamp: 99, Value: []byte("sealed")}}, 5))
		}
	}
	var mu sync.Mutex
	stalled := false
	coordErrs := 0
	cl.SetHook(func(cl *fakecluster.Cluster, r *fakecluster.Request) *fakecluster.Action {
		mu.Lock()
		s := stalled
		if c.BrokerState == "coord-error" && r.ApiKey == 10 && coordErrs < 3 {
			// the first FindCoordinator requests fail: the group is joined only after retries
			coordErrs++
			mu.Unlock()
			return &fakecluster.Action{ErrorCode: 15, Tag: "coord-error"}
		}
		mu.Unlock()
		if !s {
			return nil
		}
		switch {
		case c.BrokerState == "stall-fetch" && r.ApiKey == 1:
			return &fakecluster.Action{NoResponse: true, Tag: "stall"}
		case c.BrokerState == "stall-heartbeat" && r.ApiKey == 12:
			return &fakecluster.Action{NoResponse: true, Tag: "stall"}
		case c.BrokerState == "stall-commit" && r.ApiKey == 8:
			return &fakecluster.Action{NoResponse: true, Tag: "stall"}
		case c.BrokerState == "stall-leave" && r.ApiKey == 13:
			// the coordinator never answers LeaveGroup: Close gives up after the group's Timeout
			return &fakecluster.Action{NoResponse: true, Tag: "stall"}
		case c.BrokerState == "error-fetch" && r.ApiKey == 1:
			return &fakecluster.Action{ErrorCode: 29, Tag: "fetch-error"}
		case c.BrokerState == "slow":
			return &fakecluster.Action{Delay: 3 * time.Millisecond, Tag: "slow"}
		}
		return nil
	})
	fail := func(sig, format string, args ...any) { ev.Fail(tb, "reader", sig, c, format, args...) }
	var conns []int
	var cmu sync.Mutex
	dialer := func(i int) *kafka.Dialer {
		return &kafka.Dialer{Timeout: time.Second, ClientID: fmt.Sprintf("c09-%d", i), DialFunc: func(ctx context.Context, network, addr string) (net.Conn, error) {
			conn, err := nw.Dial(ctx, network, addr)
			if err == nil {
				cmu.Lock()
				conns = append(conns, memnet.ConnID(conn))
				cmu.Unlock()
			}
			return conn, err
		}}
	}
	n := 1
	if c.Group {
		n = c.Members
	}
	var readers []*kafka.Reader
	for i := 0; i < n; i++ {
		cfg := kafka.ReaderConfig{Brokers: []string{"b1.fake:9092"}, Topic: "t", Dialer: dialer(i), MinBytes: 1, MaxBytes: 1 << 20, MaxWait: 200 * time.Millisecond, ReadLagInterval: -1,
			ReadBackoffMin: time.Millisecond, ReadBackoffMax: 5 * time.Millisecond, MaxAttempts: 2}
		if c.Records > 3 && c.DelayUs%200 == 0 {
			cfg.QueueCapacity = 1 + c.Records%3 // a lagging consumer: the partition readers wait on a full queue
		}
		if c.QueueCap > 0 {
			cfg.QueueCapacity = c.QueueCap
		}
		if c.Group {
			cfg.GroupID = "g"
			cfg.HeartbeatInterval = 10 * time.Millisecond
			cfg.SessionTimeout = 2 * time.Second
			cfg.RebalanceTimeout = 150 * time.Millisecond
			cfg.JoinGroupBackoff = 10 * time.Millisecond
			cfg.CommitInterval = time.Duration(c.CommitMs) * time.Millisecond
		} else {
			cfg.Partition = 0
		}
		readers = append(readers, kafka.NewReader(cfg))
	}
	r := readers[0]
	var fetched []kafka.Message
	for i := 0; i < c.FetchFirst; i++ {
		ctx, cancel := context.WithTimeout(context.Background(), 3*time.Second)
		m, err := r.FetchMessage(ctx)
		cancel()
		if err != nil {
			break
		}
		fetched = append(fetched, m)
	}
	for _, other := range readers[1:] {
		ctx, cancel := context.WithTimeout(context.Background(), 100*time.Millisecond)
		other.FetchMessage(ctx)
		cancel()
	}
	joined := len(cl.GroupMembers("g")) > 0
	mu.Lock()
	stalled = c.BrokerState != "normal" && c.BrokerState != "coord-error"
	mu.Unlock()
	if c.CloseDuring == "rebalance" && c.Group {
		cl.ForceRebalance("g")
	}
	// a call is blocked when the event happens
	type result struct {
		err  error
		took time.Duration
	}
	blockedDone := make(chan result, 1)
	ctx, cancel := context.WithCancel(context.Background())
	defer cancel()
	var eventAt time.Time
	if (c.Blocked == "commit" || c.Blocked == "commit-flood") && (!c.Group || len(fetched) == 0) {
		c.Blocked = "none" // nothing to commit
	}
	switch c.Blocked {
	case "fetch":
		go func() {
			// drain what is available, then block
			for spins := 0; ; {
				_, err := r.FetchMessage(ctx)
				var ke kafka.Error
				if errors.As(err, &ke) && spins < 200 {
					// the Reader hands errors of its group loop (e.g. coordinator not available) to the caller and goes on; one
					// that was already queued may also win the race against the context's end, the next call then reports the latter
					if ctx.Err() != nil {
						spins++
					}
					continue
				}
				if err != nil {
					blockedDone <- result{err, time.Since(eventAt)}
					return
				}
			}
		}()
	case "commit":
		go func() {
			err := r.CommitMessages(ctx, fetched[len(fetched)-1])
			blockedDone <- result{err, time.Since(eventAt)}
		}()
	case "setoffset-loop":
		// the application keeps repositioning the reader (every SetOffset restarts the partition reader) while Close arrives
		go func() {
			var err error
			for i := 0; err == nil && ctx.Err() == nil && i < 200000; i++ {
				err = r.SetOffset(int64(i % (c.Records + 1)))
			}
			blockedDone <- result{err, time.Since(eventAt)}
		}()
	case "commit-flood":
		// interval commits are only queued: the application goes on committing while the commit loop sits in a request the
		// coordinator does not answer, until the queue (QueueCapacity) is full and CommitMessages itself blocks
		go func() {
			for i := 0; i < 600; i++ {
				if err := r.CommitMessages(ctx, fetched[len(fetched)-1]); err != nil {
					blockedDone <- result{err, time.Since(eventAt)}
					return
				}
				time.Sleep(2 * time.Millisecond)
			}
			blockedDone <- result{nil, time.Since(eventAt)}
		}()
	}
	time.Sleep(time.Duration(c.DelayUs) * time.Microsecond)
	eventAt = time.Now()
	closeReturned := map[string]time.Time{}
	closeStarted := map[string]time.Time{}
	switch c.Event {
	case "cancel":
		cancel()
		if c.Blocked != "none" {
			select {
			case res := <-blockedDone:
				if c.Blocked == "fetch" && !errors.Is(res.err, context.Canceled) {
					fail("c09/cancel-wrong-error", "FetchMessage blocked with a context that was cancelled returned %v, want an error wrapping context.Canceled", res.err)
					return
				}
				if c.Blocked == "commit-flood" {
					ev.Label("commit_flood_returned_after_cancel")
				}
				if (c.Blocked == "commit" || c.Blocked == "commit-flood") && res.err != nil && !errors.Is(res.err, context.Canceled) {
					// a commit that completed or failed for its own reason before the cancellation is fine
					var ke kafka.Error
					if !errors.As(res.err, &ke) && !errors.Is(res.err, io.ErrClosedPipe) {
						fail("c09/cancel-wrong-error", "CommitMessages with a cancelled context returned %v", res.err)
						return
					}
				}
			case <-time.After(2 * time.Second):
				fail("c09/cancel-not-honoured", "%s did not return within 2 s of its context being cancelled (broker %s)", c.Blocked, c.BrokerState)
				return
			}
		}
	}
	// Close every reader (always; for Event == close this is the event itself)
	for i, rd := range readers {
		done := make(chan struct{})
		t0 := time.Now()
		go func() { rd.Close(); close(done) }()
		select {
		case <-done:
		case <-time.After(25 * time.Second):
			if ok, desc := stuck(); ok {
				fail("c09/reader-close-hang", "Reader.Close (reader %d) did not return within 25 s and the library goroutines are stuck:\n    %s", i, desc)
			} else {
				ev.Inconclusive("reader_close_slow")
			}
			return
		}
		closeReturned[fmt.Sprintf("c09-%d", i)] = time.Now()
		closeStarted[fmt.Sprintf("c09-%d", i)] = t0
	}
	allClosedAt := time.Now()
	if c.Event == "close" && c.Blocked != "none" {
		select {
		case res := <-blockedDone:
			if c.Blocked == "fetch" && !errors.Is(res.err, io.EOF) {
				fail("c09/blocked-fetch-after-close", "FetchMessage blocked while the Reader was closed returned %v, want io.EOF", res.err)
				return
			}
		case <-time.After(2 * time.Second):
			if c.Blocked == "fetch" {
				fail("c09/blocked-fetch-survives-close", "FetchMessage was still blocked 2 s after Reader.Close returned")
				return
			}
			// The statement makes no claim about a CommitMessages call that is blocked (with a live
			// context) when the reader is closed: observation only; its context is cancelled below.
			ev.Inconclusive("obs_commit_blocked_across_close")
			cancel()
		}
	}
	// (c) use after close
	cctx, ccancel := context.WithTimeout(context.Background(), time.Second)
	if _, err := r.FetchMessage(cctx); !errors.Is(err, io.EOF) {
		ccancel()
		fail("c09/fetch-after-close", "FetchMessage after Close returned %v, want io.EOF", err)
		return
	}
	if _, err := r.ReadMessage(cctx); !errors.Is(err, io.EOF) {
		ccancel()
		fail("c09/read-after-close", "ReadMessage after Close returned %v, want io.EOF", err)
		return
	}
	ccancel()
	// (e) the member left the group, and nothing is sent after Close returned
	time.Sleep(30 * time.Millisecond)
	journal := cl.Journal()
	if c.Group && joined {
		left := map[string]time.Time{}
		for _, ex := range journal {
			if ex.ApiKey == 13 && ex.Body != nil {
				id := ex.Body["MemberID"].(string)
				if _, ok := left[id]; !ok {
					left[id] = ex.At
				}
			}
		}
		// For every reader: the member id of its last successful JoinGroup before its Close was called must have been
		// given up with a LeaveGroup that reached the coordinator before that Close returned.
		for client, ret := range closeReturned {
			var lastJoin *fakecluster.Exchange = nil
			for k := range journal {
				ex := journal[k]
				if ex.ApiKey == 11 && ex.ClientID == client && ex.At.Before(ret) {
					lastJoin = ex
				}
			}
			if lastJoin == nil || lastJoin.RespBody == nil || lastJoin.Outcome != "answered" || !lastJoin.AnsweredAt.Before(closeStarted[client]) {
				continue // a join still in flight when Close was called: the reader may never have learnt the id
			}
			if code, _ := lastJoin.RespBody["ErrorCode"].(int64); code != 0 {
				continue
			}
			id, _ := lastJoin.RespBody["MemberID"].(string)
			if id == "" || (c.BrokerState != "normal" && c.BrokerState != "coord-error") {
				continue
			}
			at, ok := left[id]
			if !ok {
				fail("c09/no-leave-on-close", "Reader.Close (%s) returned but no LeaveGroup was sent for member %q", client, id)
				return
			}
			if at.After(ret.Add(2 * time.Millisecond)) {
				fail("c09/leave-after-close-returned", "Reader.Close (%s) returned %v before the LeaveGroup for member %q reached the coordinator", client, at.Sub(ret), id)
				return
			}
		}
		lab := "close_joined_member"
		_ = lab
	}
	for _, ex := range journal {
		if ex.At.After(allClosedAt.Add(2*time.Millisecond)) && (ex.ApiKey == 12 || ex.ApiKey == 8 || ex.ApiKey == 1) {
			fail("c09/request-after-close", "a %s request (seq %d) reached the broker %v after Reader.Close had returned", ex.ApiName, ex.Seq, ex.At.Sub(allClosedAt))
			return
		}
	}
	// (f) goroutines and connections
	if left := waitNoLibraryGoroutines(base, 12*time.Second); left != nil {
		var kinds []string
		for _, g := range left {
			kinds = append(kinds, normalize(g))
		}
		sort.Strings(kinds)
		fail("c09/reader-goroutine-leak", "%d library goroutines outlive Reader.Close by more than 12 s:\n    %s", len(left)-base, strings.Join(kinds, "\n    "))
		return
	}
	open := 0
	for _, cs := range nw.Conns() {
		if !cs.ClientClosed {
			open++
		}
	}
	if open > 0 {
		fail("c09/connection-left-open", "%d of the %d connections the Reader opened are still open after Close and after its goroutines ended", open, len(nw.Conns()))
		return
	}
	labels = []string{"event_" + c.Event, "blocked_" + c.Blocked, "broker_" + c.BrokerState}
	if c.Group {
		labels = append(labels, "group_reader")
		if joined {
			labels = append(labels, "close_joined_member")
		}
		if c.CloseDuring == "rebalance" {
			labels = append(labels, "close_during_rebalance")
		}
	} else {
		labels = append(labels, "plain_reader")
	}
	if c.BrokerState == "stall-fetch" || c.BrokerState == "stall-heartbeat" || c.BrokerState == "stall-commit" || c.BrokerState == "stall-leave" {
		labels = append(labels, "blackholed_broker")
	}
	if c.Event == "cancel" && c.Blocked == "fetch" {
		labels = append(labels, "cancel_blocked_fetch")
	}
	return labels, c.Blocked != "none" || c.CloseDuring != ""
}

func TestReaderClose(t *testing.T) {
	rapid.Check(t, func(t *rapid.T) {
		c := readerCase{
			Group:       rapid.Bool().Draw(t, "group"),
			Members:     rapid.IntRange(1, 3).Draw(t, "members"),
			Records:     rapid.IntRange(0, 12).Draw(t, "records"),
			FetchFirst:  rapid.IntRange(0, 5).Draw(t, "fetchFirst"),
			Blocked:     rapid.SampledFrom([]string{"fetch", "fetch", "commit", "none"}).Draw(t, "blocked"),
			Event:       rapid.SampledFrom([]string{"close", "close", "cancel"}).Draw(t, "event"),
			BrokerState: rapid.SampledFrom([]string{"normal", "normal", "normal", "normal", "normal", "slow", "slow", "slow", "stall-fetch", "stall-heartbeat", "stall-commit", "stall-commit", "stall-leave", "coord-error", "coord-error"}).Draw(t, "broker"),
			CommitMs:    rapid.SampledFrom([]int{0, 0, 10}).Draw(t, "commitMs"),
			DelayUs:     rapid.SampledFrom([]int{0, 100, 2000, 30000}).Draw(t, "delayUs"),
		}
		if c.Blocked == "commit" {
			// a commit can only be blocked in a group reader that fetched something, and stays blocked only while the
			// coordinator does not answer it: make that combination the common one of this stratum
			c.Group = true
			if c.Records == 0 {
				c.Records = 3
			}
			if c.FetchFirst == 0 {
				c.FetchFirst = 1
			}
			c.BrokerState = rapid.SampledFrom([]string{"stall-commit", "stall-commit", "stall-commit", "slow", "normal"}).Draw(t, "commitBroker")
			c.CommitMs = rapid.SampledFrom([]int{0, 0, 0, 10}).Draw(t, "commitMs2")
		}
		if c.Group && rapid.IntRange(0, 3).Draw(t, "rebalance") == 0 {
			c.CloseDuring = "rebalance"
		}
		if c.FetchFirst > c.Records*2 {
			c.FetchFirst = c.Records * 2
		}
		if rapid.IntRange(0, 7).Draw(t, "setOffsetLoop") == 0 {
			// Close while the application keeps calling SetOffset (plain reader)
			c.Group, c.Blocked, c.Event, c.CloseDuring = false, "setoffset-loop", "close", ""
			c.BrokerState = rapid.SampledFrom([]string{"normal", "normal", "slow"}).Draw(t, "solBroker")
			if c.Records < 3 {
				c.Records = 3
			}
			c.DelayUs = rapid.SampledFrom([]int{500, 2000, 30000}).Draw(t, "solDelayUs")
		} else if rapid.IntRange(0, 7).Draw(t, "commitFlood") == 0 {
			// CommitMessages blocked on a full commit queue (interval mode) when its context ends
			c.Group, c.Blocked, c.BrokerState, c.CloseDuring = true, "commit-flood", "stall-commit", ""
			c.Event = rapid.SampledFrom([]string{"cancel", "cancel", "cancel", "close"}).Draw(t, "cfEvent")
			c.CommitMs = rapid.SampledFrom([]int{5, 10, 30}).Draw(t, "cfCommitMs")
			c.QueueCap = rapid.IntRange(1, 3).Draw(t, "cfQueueCap")
			c.Members = 1
			c.Records = 4 + c.QueueCap
			c.FetchFirst = rapid.IntRange(1, 2).Draw(t, "cfFetchFirst")
			c.DelayUs = rapid.SampledFrom([]int{150000, 300000}).Draw(t, "cfDelayUs")
		}
		if c.Blocked != "commit-flood" && c.Blocked != "setoffset-loop" && rapid.IntRange(0, 9).Draw(t, "fullQueueThenError") == 0 {
			// a lagging application: the queue is full to the last slot when the partition reader has an error to report
			c.Group, c.Blocked, c.Event, c.BrokerState, c.CloseDuring = false, "none", rapid.SampledFrom([]string{"close", "cancel"}).Draw(t, "fqEvent"), "error-fetch", ""
			c.QueueCap = rapid.IntRange(1, 4).Draw(t, "queueCap")
			c.FetchFirst = rapid.IntRange(0, 3).Draw(t, "fqFetchFirst")
			c.Records = c.QueueCap + c.FetchFirst
			c.DelayUs = 450000
		}
		if c.QueueCap == 0 && c.Blocked != "commit-flood" && c.Blocked != "setoffset-loop" && rapid.IntRange(0, 9).Draw(t, "futureCodec") == 0 {
			c.FutureCodec, c.Group, c.Blocked, c.Event, c.BrokerState, c.CloseDuring = true, false, "none", "close", "normal", ""
			c.DelayUs = rapid.SampledFrom([]int{2000, 30000, 100000}).Draw(t, "fcDelayUs")
		}
		ev.InFlight("reader", c)
		labels, nt := runReader(t, c)
		ev.Case(fmt.Sprintf("%+v", c), nt, labels...)
		ev.Sample(c)
	})
}

// ---------------------------------------------------------------------------
// Transport round trips

type transportCase struct {
	Stall    string `json:"stall"` // response | dial-blackhole | none
	CancelUs int    `json:"cancel_us"`
	Deadline bool   `json:"deadline"` // context with deadline instead of cancellation
	Calls    int    `json:"calls"`
}

func runTransport(tb ev.TB, c transportCase) (labels []string, nontrivial bool) {
	var stallMetadata atomic.Bool
	nw := memnet.New()
	cl := fakecluster.New(nw, 1)
	defer cl.Close()
	cl.CreateTopic("t", 1)
	cl.SetHook(func(cl *fakecluster.Cluster, r *fakecluster.Request) *fakecluster.Action {
		if r.ApiKey == 2 && c.Stall == "response" {
			return &fakecluster.Action{NoResponse: true}
		}
		if r.ApiKey == 3 && c.Stall == "metadata-after-create" && stallMetadata.Load() {
			// the topic is created, but the brokers stop answering metadata requests: the round trip, which waits for the
			// new topic to show up in the transport's metadata, can only be ended by its context
			return &fakecluster.Action{NoResponse: true}
		}
		return nil
	})
	tr := &kafka.Transport{Dial: nw.Dial, MetadataTTL: 50 * time.Millisecond, DialTimeout: 5 * time.Second}
	if c.Stall == "metadata-after-create" {
		tr.MetadataTTL = 6 * time.Second // (also how long the transport's own metadata requests wait for an answer)
	}
	defer tr.CloseIdleConnections()
	// warm up: metadata known
	wctx, wcancel := context.WithTimeout(context.Background(), 3*time.Second)
	client := &kafka.Client{Addr: kafka.TCP("b1.fake:9092"), Transport: tr}
	if _, err := client.Metadata(wctx, &kafka.MetadataRequest{}); err != nil {
		wcancel()
		tb.Fatalf("harness: warm-up metadata: %v", err)
	}
	wcancel()
	if c.Stall == "dial-blackhole" {
		tr.CloseIdleConnections()
		nw.Blackhole("b1.fake:9092", true)
	}
	stallMetadata.Store(true)
	var wg sync.WaitGroup
	var mu sync.Mutex
	var bad string
	for i := 0; i < c.Calls; i++ {
		wg.Add(1)
		go func(i int) {
			defer wg.Done()
			var ctx context.Context
			var cancel context.CancelFunc
			d := time.Duration(c.CancelUs) * time.Microsecond
			if c.Deadline {
				ctx, cancel = context.WithTimeout(context.Background(), d)
			} else {
				ctx, cancel = context.WithCancel(context.Background())
				go func() { time.Sleep(d); cancel() }()
			}
			defer cancel()
			t0 := time.Now()
			if c.Stall == "metadata-after-create" {
				_, err := tr.RoundTrip(ctx, kafka.TCP("b1.fake:9092"), &createtopics.Request{TimeoutMs: 1000, Topics: []createtopics.RequestTopic{{Name: fmt.Sprintf("made-%d", i), NumPartitions: 1, ReplicationFactor: 1}}})
				took := time.Since(t0)
				mu.Lock()
				defer mu.Unlock()
				if took > d+2*time.Second {
					bad = fmt.Sprintf("a CreateTopics round trip waiting for the new topic to appear in the metadata (which the brokers no longer serve) returned %v after its context ended (err %v)", took-d, err)
				}
				return
			}
			_, err := tr.RoundTrip(ctx, kafka.TCP("b1.fake:9092"), &listoffsets.Request{ReplicaID: -1, Topics: []listoffsets.RequestTopic{{Topic: "t", Partitions: []listoffsets.RequestPartition{{Partition: 0, CurrentLeaderEpoch: -1, Timestamp: -1}}}}})
			took := time.Since(t0)
			mu.Lock()
			defer mu.Unlock()
			if c.Stall == "none" {
				return
			}
			switch {
			case err == nil:
				bad = "a round trip to a broker that never answers returned no error"
			case took > d+2*time.Second:
				bad = fmt.Sprintf("a round trip blocked on a silent broker returned %v after its context ended (err %v)", took-d, err)
			case !errors.Is(err, context.Canceled) && !errors.Is(err, context.DeadlineExceeded):
				var ne net.Error
				if !(errors.As(err, &ne) && ne.Timeout() && c.Deadline) {
					bad = fmt.Sprintf("a round trip whose context ended returned %v, want (an error wrapping) the context's error", err)
				}
			}
		}(i)
	}
	done := make(chan struct{})
	go func() { wg.Wait(); close(done) }()
	select {
	case <-done:
	case <-time.After(10 * time.Second):
		ev.Fail(tb, "transport", "c09/roundtrip-not-cancelled", c, "Transport.RoundTrip calls did not return within 10 s although their contexts ended after %d us (stall: %s)", c.CancelUs, c.Stall)
		return
	}
	if bad != "" {
		ev.Fail(tb, "transport", "c09/roundtrip-cancel", c, "%s", bad)
		return
	}
	return []string{"transport_" + c.Stall}, c.Stall != "none"
}

func TestTransportCancel(t *testing.T) {
	rapid.Check(t, func(t *rapid.T) {
		c := transportCase{
			Stall:    rapid.SampledFrom([]string{"response", "response", "dial-blackhole", "metadata-after-create", "none"}).Draw(t, "stall"),
			CancelUs: rapid.SampledFrom([]int{100, 2000, 20000, 80000}).Draw(t, "cancelUs"),
			Deadline: rapid.Bool().Draw(t, "deadline"),
			Calls:    rapid.IntRange(1, 6).Draw(t, "calls"),
		}
		ev.InFlight("transport", c)
		labels, nt := runTransport(t, c)
		ev.Case(fmt.Sprintf("%+v", c), nt, labels...)
		ev.Sample(c)
	})
}

// ---------------------------------------------------------------------------
// ConsumerGroup used directly

type groupCase struct {
	Members     int    `json:"members"`
	BrokerState string `json:"broker_state"` // normal | coord-error | join-stall | sync-error | heartbeat-stall | slow
	ClosePoint  string `json:"close_point"`  // during-next | in-generation | after-fn-exit | error-pending
	DelayUs     int    `json:"delay_us"`
	Fns         int    `json:"fns"`       // functions started per generation
	LingerMs    int    `json:"linger_ms"` // how long a function takes to return after its context ended
	CloseTwice  bool   `json:"close_twice"`
}

func init() {
	ev.Register("group", func(tb ev.TB, c groupCase) { runGroup(tb, c) })
}

func runGroup(tb ev.TB, c groupCase) (labels []string, nontrivial bool) {
	base := len(libraryGoroutines())
	nw := memnet.New()
	cl := fakecluster.New(nw, 2)
	defer cl.Close()
	cl.CreateTopic("t", 3)
	var mu sync.Mutex
	coordErrs, syncErrs, assignErrs := 0, 0, 0
	joinConns := map[int]bool{}
	cl.SetHook(func(cl *fakecluster.Cluster, r *fakecluster.Request) *fakecluster.Action {
		mu.Lock()
		defer mu.Unlock()
		switch {
		case c.BrokerState == "coord-error" && r.ApiKey == 10 && coordErrs < 3:
			coordErrs++
			return &fakecluster.Action{ErrorCode: 15, Tag: "coord-error"}
		case c.BrokerState == "join-stall" && r.ApiKey == 11:
			return &fakecluster.Action{NoResponse: true, Tag: "stall"}
		case c.BrokerState == "sync-error" && r.ApiKey == 14 && syncErrs < 2:
			syncErrs++
			return &fakecluster.Action{ErrorCode: 27, Tag: "sync-error"}
		case c.BrokerState == "heartbeat-stall" && r.ApiKey == 12:
			return &fakecluster.Action{NoResponse: true, Tag: "stall"}
		case c.BrokerState == "leave-stall" && r.ApiKey == 13:
			return &fakecluster.Action{NoResponse: true, Tag: "stall"}
		case c.BrokerState == "assign-error" && r.ApiKey == 11:
			joinConns[r.ConnID] = true
		case c.BrokerState == "assign-error" && r.ApiKey == 3 && joinConns[r.ConnID] && assignErrs < 2:
			// the partition lookup of the elected leader fails (not with "unknown topic"): the join fails after the
			// coordinator has handed out a member id
			assignErrs++
			return &fakecluster.Action{ErrorCode: 5, ErrorField: "topic", Tag: "assign-error"}
		case c.BrokerState == "slow":
			return &fakecluster.Action{Delay: 3 * time.Millisecond, Tag: "slow"}
		}
		return nil
	})
	fail := func(sig, format string, args ...any) { ev.Fail(tb, "group", sig, c, format, args...) }
	type member struct {
		cg      *kafka.ConsumerGroup
		running sync.WaitGroup
		exited  chan struct{}
	}
	var members []*member
	var fnMu sync.Mutex
	fnRunning := 0
	for i := 0; i < c.Members; i++ {
		d := &kafka.Dialer{Timeout: time.Second, ClientID: fmt.Sprintf("c09g-%d", i), DialFunc: nw.Dial}
		cg, err := kafka.NewConsumerGroup(kafka.ConsumerGroupConfig{ID: "g", Brokers: []string{"b1.fake:9092"}, Dialer: d, Topics: []string{"t"},
			HeartbeatInterval: 10 * time.Millisecond, SessionTimeout: 2 * time.Second, RebalanceTimeout: 150 * time.Millisecond, JoinGroupBackoff: 10 * time.Millisecond,
			PartitionWatchInterval: 20 * time.Millisecond, WatchPartitionChanges: true, Timeout: 1500 * time.Millisecond})
		if err != nil {
			tb.Fatalf("harness: NewConsumerGroup: %v", err)
		}
		members = append(members, &member{cg: cg, exited: make(chan struct{})})
	}
	// every member runs the usual loop: Next, Start functions that wait for the end of the generation
	for _, m := range members {
		go func(m *member) {
			defer close(m.exited)
			for {
				gen, err := m.cg.Next(context.Background())
				if errors.Is(err, kafka.ErrGroupClosed) {
					return
				}
				if err != nil {
					continue
				}
				for f := 0; f < c.Fns; f++ {
					fnMu.Lock()
					fnRunning++
					fnMu.Unlock()
					gen.Start(func(ctx context.Context) {
						<-ctx.Done()
						time.Sleep(time.Duration(c.LingerMs) * time.Millisecond)
						fnMu.Lock()
						fnRunning--
						fnMu.Unlock()
					})
				}
			}
		}(m)
	}
	// wait for the chosen point
	waitUntil := func(max time.Duration, cond func() bool) bool {
		dl := time.Now().Add(max)
		for time.Now().Before(dl) {
			if cond() {
				return true
			}
			time.Sleep(time.Millisecond)
		}
		return false
	}
	switch c.ClosePoint {
	case "in-generation":
		waitUntil(2*time.Second, func() bool { s, _ := cl.GroupState("g"); return s == "Stable" })
	case "during-next":
		// as soon as the first JoinGroup is on its way
		waitUntil(time.Second, func() bool {
			for _, ex := range cl.Journal() {
				if ex.ApiKey == 11 {
					return true
				}
			}
			return false
		})
	case "error-pending":
		waitUntil(time.Second, func() bool {
			for _, ex := range cl.Journal() {
				if ex.ApiKey == 14 || ex.ApiKey == 10 {
					return true
				}
			}
			return false
		})
	case "after-fn-exit":
		waitUntil(2*time.Second, func() bool { s, _ := cl.GroupState("g"); return s == "Stable" })
		cl.ForceRebalance("g")
	}
	time.Sleep(time.Duration(c.DelayUs) * time.Microsecond)
	joinedBefore := len(cl.GroupMembers("g"))
	closeStartedAt := time.Now()
	var closedAt time.Time
	for i, m := range members {
		done := make(chan struct{})
		go func() {
			m.cg.Close()
			if c.CloseTwice {
				m.cg.Close()
			}
			close(done)
		}()
		select {
		case <-done:
		case <-time.After(20 * time.Second):
			if ok, desc := stuck(); ok {
				fail("c09/group-close-hang", "ConsumerGroup.Close (member %d) did not return within 20 s and the library goroutines are stuck:\n    %s", i, desc)
			} else {
				ev.Inconclusive("group_close_slow")
			}
			return
		}
	}
	closedAt = time.Now()
	// the functions of the last generation have returned by the time Close returns
	fnMu.Lock()
	left := fnRunning
	fnMu.Unlock()
	if left > 0 {
		// The statement only bounds how long goroutines may outlive Close (the network timeouts); functions still lingering
		// for a few milliseconds are within it.  Recorded, not judged (C15 judges the hand-over between generations).
		ev.Inconclusive("obs_group_close_returned_before_functions")
	}
	// Next reports the closed group
	for i, m := range members {
		select {
		case <-m.exited:
		case <-time.After(5 * time.Second):
			fail("c09/next-after-close", "member %d: Next did not return ErrGroupClosed within 5 s of Close", i)
			return
		}
		ctx, cancel := context.WithTimeout(context.Background(), time.Second)
		_, err := m.cg.Next(ctx)
		cancel()
		if !errors.Is(err, kafka.ErrGroupClosed) {
			fail("c09/next-after-close", "member %d: Next after Close returned %v, want ErrGroupClosed", i, err)
			return
		}
	}
	time.Sleep(30 * time.Millisecond)
	for _, ex := range cl.Journal() {
		if ex.At.After(closedAt.Add(2*time.Millisecond)) && (ex.ApiKey == 12 || ex.ApiKey == 8 || ex.ApiKey == 11 || ex.ApiKey == 14) {
			fail("c09/group-request-after-close", "a %s request (seq %d) reached the coordinator %v after every ConsumerGroup.Close had returned", ex.ApiName, ex.Seq, ex.At.Sub(closedAt))
			return
		}
	}
	// "leaves the consumer group it had joined": once every Close has returned the coordinator lists none of the member
	// ids it had handed to these clients (a coordinator that does not answer cannot be left: those states make no claim)
	switch c.BrokerState {
	case "normal", "coord-error", "sync-error", "assign-error", "slow":
		handed := map[string]int64{}
		for _, ex := range cl.Journal() {
			if ex.ApiKey == 11 && ex.Outcome == "answered" && ex.RespBody != nil {
				// (a join answered only after Close was called may never have reached the client)
				if code, _ := ex.RespBody["ErrorCode"].(int64); code == 0 && ex.AnsweredAt.Before(closeStartedAt) {
					if id, _ := ex.RespBody["MemberID"].(string); id != "" {
						handed[id] = ex.Seq
					}
				}
			}
		}
		for _, id := range cl.GroupMembers("g") {
			if seq, ok := handed[id]; ok {
				fail("c09/group-member-not-released", "every ConsumerGroup.Close has returned, yet the coordinator still lists member %q, the id it handed out in JoinGroup seq %d: no LeaveGroup was sent for it", id, seq)
				return
			}
		}
	}
	if leftover := waitNoLibraryGoroutines(base, 8*time.Second); leftover != nil {
		var kinds []string
		for _, g := range leftover {
			kinds = append(kinds, normalize(g))
		}
		sort.Strings(kinds)
		fail("c09/group-goroutine-leak", "%d library goroutines outlive ConsumerGroup.Close by more than 8 s:\n    %s", len(leftover)-base, strings.Join(kinds, "\n    "))
		return
	}
	open := 0
	for _, cs := range nw.Conns() {
		if !cs.ClientClosed {
			open++
		}
	}
	if open > 0 {
		fail("c09/group-connection-left-open", "%d of the %d connections the ConsumerGroups opened are still open after Close and after their goroutines ended", open, len(nw.Conns()))
		return
	}
	labels = []string{"cgroup", "cg_close_" + c.ClosePoint, "cg_broker_" + c.BrokerState}
	if joinedBefore > 0 {
		labels = append(labels, "cg_close_joined_member")
	}
	return labels, true
}

func TestGroupClose(t *testing.T) {
	rapid.Check(t, func(t *rapid.T) {
		c := groupCase{
			Members:     rapid.IntRange(1, 3).Draw(t, "members"),
			BrokerState: rapid.SampledFrom([]string{"normal", "normal", "normal", "coord-error", "join-stall", "sync-error", "heartbeat-stall", "leave-stall", "assign-error", "assign-error", "slow"}).Draw(t, "broker"),
			ClosePoint:  rapid.SampledFrom([]string{"during-next", "in-generation", "in-generation", "after-fn-exit", "error-pending"}).Draw(t, "closePoint"),
			DelayUs:     rapid.SampledFrom([]int{0, 100, 2000, 15000, 60000}).Draw(t, "delayUs"),
			Fns:         rapid.IntRange(0, 3).Draw(t, "fns"),
			LingerMs:    rapid.SampledFrom([]int{0, 0, 5, 40}).Draw(t, "lingerMs"),
			CloseTwice:  rapid.IntRange(0, 4).Draw(t, "closeTwice") == 0,
		}
		ev.InFlight("group", c)
		labels, nt := runGroup(t, c)
		ev.Case(fmt.Sprintf("%+v", c), nt, labels...)
		ev.Sample(c)
	})
}
