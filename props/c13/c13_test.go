// Package c13 decides property C13: partition balancers return offered
// partitions and match the reference hashes.
package c13

import (
	"fmt"
	"hash"
	"hash/crc32"
	"hash/fnv"
	"runtime"
	"sort"
	"sync"
	"sync/atomic"
	"testing"

	kafka "github.com/segmentio/kafka-go"
	"pgregory.net/rapid"

	"verif/internal/ev"
)

func TestMain(m *testing.M) { ev.Main(m, "C13") }

// ---------------------------------------------------------------------------
// Reference implementations, written from the reference clients' definitions.
// None of them uses hash/fnv, hash/crc32 or the library's murmur2.

func refFNV1a32(b []byte) uint32 {
	h := uint32(2166136261)
	for _, c := range b {
		h ^= uint32(c)
		h *= 16777619
	}
	return h
}

// bitwise CRC-32/IEEE (reflected, poly 0xEDB88320, init/xorout 0xFFFFFFFF)
func refCRC32(b []byte) uint32 {
	crc := ^uint32(0)
	for _, c := range b {
		crc ^= uint32(c)
		for k := 0; k < 8; k++ {
			if crc&1 != 0 {
				crc = (crc >> 1) ^ 0xEDB88320
			} else {
				crc >>= 1
			}
		}
	}
	return ^crc
}

// Java org.apache.kafka.common.utils.Utils.murmur2, ported with explicit
// 32-bit signed arithmetic (int32 wraps like Java's int; >>> is done on uint32).
func refMurmur2(data []byte) int32 {
	length := int32(len(data))
	seed := int32(-1756908916) // 0x9747b28c
	const m = int32(0x5bd1e995)
	const r = 24
	h := seed ^ length
	length4 := length / 4
	for i := int32(0); i < length4; i++ {
		i4 := i * 4
		k := (int32(data[i4+0]) & 0xff) + ((int32(data[i4+1]) & 0xff) << 8) + ((int32(data[i4+2]) & 0xff) << 16) + ((int32(data[i4+3]) & 0xff) << 24)
		k *= m
		k ^= int32(uint32(k) >> r)
		k *= m
		h *= m
		h ^= k
	}
	switch length % 4 {
	case 3:
		h ^= (int32(data[(length&^3)+2]) & 0xff) << 16
		fallthrough
	case 2:
		h ^= (int32(data[(length&^3)+1]) & 0xff) << 8
		fallthrough
	case 1:
		h ^= int32(data[length&^3]) & 0xff
		h *= m
	}
	h ^= int32(uint32(h) >> 13)
	h *= m
	h ^= int32(uint32(h) >> 15)
	return h
}

// Sarama HashPartitioner: int32(hash) % n, negated when negative.
func refSaramaHash(key []byte, n int) int {
	p := int32(refFNV1a32(key)) % int32(n)
	if p < 0 {
		p = -p
	}
	return int(p)
}

// Sarama ReferenceHashPartitioner: (int32(hash) & 0x7fffffff) % n.
func refSaramaReferenceHash(key []byte, n int) int {
	return int((int32(refFNV1a32(key)) & 0x7fffffff) % int32(n))
}

// librdkafka consistent / consistent_random: crc32(key) % n.
func refRdkafkaCRC32(key []byte, n int) int { return int(refCRC32(key) % uint32(n)) }

// Java default partitioner: toPositive(murmur2(key)) % n.
func refJavaMurmur2(key []byte, n int) int { return int((refMurmur2(key) & 0x7fffffff) % int32(n)) }

func parts(n int) []int {
	p := make([]int, n)
	for i := range p {
		p[i] = i
	}
	return p
}

// ---------------------------------------------------------------------------

type hashCase struct {
	Balancer string `json:"balancer"`
	Key      []byte `json:"key"` // nil encoded as JSON null
	NilKey   bool   `json:"nil_key"`
	N        int    `json:"n"`
}

const (
	bHash = iota
	bRefHash
	bCRC
	bCRCConsistent
	bMurmur
	bMurmurConsistent
	nHashBalancers
)

var balancerNames = [...]string{"Hash", "ReferenceHash", "CRC32", "CRC32Consistent", "Murmur2", "Murmur2Consistent"}

func newBalancer(i int) kafka.Balancer {
	switch i {
	case bHash:
		return &kafka.Hash{}
	case bRefHash:
		return &kafka.ReferenceHash{}
	case bCRC:
		return kafka.CRC32Balancer{}
	case bCRCConsistent:
		return kafka.CRC32Balancer{Consistent: true}
	case bMurmur:
		return kafka.Murmur2Balancer{}
	default:
		return kafka.Murmur2Balancer{Consistent: true}
	}
}

// expected returns (partition, true) when the reference client hashes this key
// deterministically, or (0,false) when its rule is "any offered partition".
func expected(b int, key []byte, n int) (int, bool) {
	switch b {
	case bHash:
		if key == nil {
			return 0, false
		}
		return refSaramaHash(key, n), true
	case bRefHash:
		if key == nil {
			return 0, false
		}
		return refSaramaReferenceHash(key, n), true
	case bCRC:
		if len(key) == 0 {
			return 0, false
		}
		return refRdkafkaCRC32(key, n), true
	case bCRCConsistent:
		return refRdkafkaCRC32(key, n), true
	case bMurmur:
		if key == nil {
			return 0, false
		}
		return refJavaMurmur2(key, n), true
	default:
		return refJavaMurmur2(key, n), true
	}
}

// checkHash evaluates one (balancer, key, n) on a shared instance and on a fresh one.
func checkHash(tb ev.TB, shared []kafka.Balancer, b int, key []byte, n int, ps []int) bool {
	got := shared[b].Balance(kafka.Message{Key: key}, ps...)
	want, det := expected(b, key, n)
	cas := hashCase{balancerNames[b], key, key == nil, n}
	if got < 0 || got >= n {
		ev.Fail(tb, "hash", "membership/"+balancerNames[b], cas, "%s: key=%x nil=%v n=%d returned %d, not an offered partition", balancerNames[b], key, key == nil, n, got)
		return false
	}
	if !det {
		return false
	}
	if got != want {
		ev.Fail(tb, "hash", "ref/"+balancerNames[b], cas, "%s: key=%x n=%d returned %d, reference client gives %d", balancerNames[b], key, n, got, want)
	}
	// purity: a fresh instance and a second call give the same answer
	if g2 := newBalancer(b).Balance(kafka.Message{Key: key, Value: []byte("other")}, ps...); g2 != got {
		ev.Fail(tb, "hash", "pure/"+balancerNames[b], cas, "%s: key=%x n=%d fresh instance returned %d, shared %d", balancerNames[b], key, n, g2, got)
	}
	if g3 := shared[b].Balance(kafka.Message{Key: key}, ps...); g3 != got {
		ev.Fail(tb, "hash", "pure2/"+balancerNames[b], cas, "%s: key=%x n=%d second call returned %d, first %d", balancerNames[b], key, n, g3, got)
	}
	return true
}

func init() {
	ev.Register("hash", func(tb ev.TB, c hashCase) {
		key := c.Key
		if c.NilKey {
			key = nil
		} else if key == nil {
			key = []byte{}
		}
		shared := make([]kafka.Balancer, nHashBalancers)
		for i := range shared {
			shared[i] = newBalancer(i)
		}
		for i, name := range balancerNames {
			if name == c.Balancer {
				checkHash(tb, shared, i, key, c.N, parts(c.N))
			}
		}
	})
	ev.Register("rr", runRoundRobin)
	ev.Register("lb", runLeastBytes)
}

func TestReplay(t *testing.T) { ev.RunReplay(t) }

// TestSmallKeysExhaustive enumerates every key of length 0..2 (plus nil) for
// partition counts 1..64 (quick: a seed-chosen third of the counts per shard).
func TestSmallKeysExhaustive(t *testing.T) {
	shared := make([]kafka.Balancer, nHashBalancers)
	for i := range shared {
		shared[i] = newBalancer(i)
	}
	var ns []int
	if ev.Tier() == "thorough" {
		for n := 1; n <= 64; n++ {
			ns = append(ns, n)
		}
		ns = append(ns, 100, 127, 128, 255, 256, 257, 1000, 65536)
	} else {
		off := int(ev.Seed() % 3)
		ns = []int{1, 2, 3}
		for n := 4 + off; n <= 64; n += 3 {
			ns = append(ns, n)
		}
		ns = append(ns, 257)
	}
	var keys [][]byte
	keys = append(keys, nil, []byte{})
	for a := 0; a < 256; a++ {
		keys = append(keys, []byte{byte(a)})
	}
	for a := 0; a < 256; a++ {
		for b := 0; b < 256; b++ {
			keys = append(keys, []byte{byte(a), byte(b)})
		}
	}
	var det int64
	for _, n := range ns {
		ps := parts(n)
		for _, k := range keys {
			for b := 0; b < nHashBalancers; b++ {
				if checkHash(t, shared, b, k, n, ps) {
					det++
				} else {
					ev.Case("", false, "random_rule_membership_only")
				}
			}
		}
	}
	ev.Bulk(det, "small_key_exhaustive")
	ev.Sample(map[string]any{"unit": "TestSmallKeysExhaustive", "keys": "nil, empty, all 1- and 2-byte keys", "partition_counts": ns, "balancers": balancerNames})
}

func genKey(t *rapid.T) []byte {
	switch rapid.IntRange(0, 9).Draw(t, "keyKind") {
	case 0:
		return nil
	case 1:
		return []byte{}
	case 2: // high-bit bytes
		n := rapid.IntRange(1, 40).Draw(t, "len")
		b := make([]byte, n)
		for i := range b {
			b[i] = byte(rapid.IntRange(0x80, 0xff).Draw(t, "hb"))
		}
		return b
	case 3: // long keys
		return rapid.SliceOfN(rapid.Byte(), 64, 1024).Draw(t, "long")
	case 4: // ascii
		return []byte(rapid.StringMatching(`[a-zA-Z0-9_\-]{1,24}`).Draw(t, "ascii"))
	default:
		return rapid.SliceOfN(rapid.Byte(), 1, 19).Draw(t, "key")
	}
}

func genN(t *rapid.T) int {
	switch rapid.IntRange(0, 5).Draw(t, "nKind") {
	case 0:
		return rapid.SampledFrom([]int{1, 2, 3, 4, 7, 8, 16, 31, 32, 64, 100, 127, 128, 255, 256, 257}).Draw(t, "n")
	case 1:
		return rapid.IntRange(258, 100000).Draw(t, "nBig")
	default:
		return rapid.IntRange(1, 257).Draw(t, "n")
	}
}

// TestRandomKeys compares every hashing balancer with its reference client on
// generated keys (all lengths mod 4, high-bit bytes, nil vs empty).
func TestRandomKeys(t *testing.T) {
	shared := make([]kafka.Balancer, nHashBalancers)
	for i := range shared {
		shared[i] = newBalancer(i)
	}
	rapid.Check(t, func(t *rapid.T) {
		key := genKey(t)
		n := genN(t)
		ps := parts(n)
		for b := 0; b < nHashBalancers; b++ {
			det := checkHash(t, shared, b, key, n, ps)
			lbl := fmt.Sprintf("len_mod4_%d", len(key)%4)
			if key == nil {
				lbl = "nil_key"
			} else if len(key) == 0 {
				lbl = "empty_key"
			}
			ev.Case(fmt.Sprintf("%s/%x/%v/%d", balancerNames[b], key, key == nil, n), det, lbl)
		}
		ev.Sample(hashCase{"all", key, key == nil, n})
	})
}

// ---------------------------------------------------------------------------
// RoundRobin

type rrCase struct {
	ChunkSize  int `json:"chunk_size"`
	N          int `json:"n"`
	Calls      int `json:"calls"`
	Goroutines int `json:"goroutines"` // 1 = sequential
	// Rounds > 0: the goroutines leave a spin barrier together and call Balance once each, Rounds times.
	Rounds int `json:"rounds,omitempty"`
	// Lists non-empty (sequential only): call k is offered the partitions 0..Lists[k]-1 -- one balancer shared by the topics
	// of a Writer without Topic, or a topic whose partition count changes.  Only "one of the offered" is decided then.
	Lists []int `json:"lists,omitempty"`
}

func runRoundRobinLists(tb ev.TB, c rrCase) {
	rr := &kafka.RoundRobin{ChunkSize: c.ChunkSize}
	for k, n := range c.Lists {
		got, panicked := func() (v int, p interface{}) {
			defer func() { p = recover() }()
			return rr.Balance(kafka.Message{Value: []byte{byte(k)}}, parts(n)...), nil
		}()
		if panicked != nil {
			ev.Fail(tb, "rr", "rr/membership-panic", c, "RoundRobin{ChunkSize:%d} call #%d with %d partitions offered (earlier calls: %v) panicked: %v", c.ChunkSize, k, n, c.Lists[:k], panicked)
			return
		}
		if got < 0 || got >= n {
			ev.Fail(tb, "rr", "rr/membership", c, "RoundRobin{ChunkSize:%d} call #%d returned %d, offered 0..%d (earlier calls: %v)", c.ChunkSize, k, got, n-1, c.Lists[:k])
			return
		}
	}
}

// runRoundRobinRounds: every round consists of exactly Goroutines calls, which in any sequential order receive the counter
// values [r*G, (r+1)*G); the multiset of answers of a round is therefore fixed if Balance is atomic.
func runRoundRobinRounds(tb ev.TB, c rrCase) {
	rr := &kafka.RoundRobin{ChunkSize: c.ChunkSize}
	ps := parts(c.N)
	chunk := c.ChunkSize
	if chunk < 1 {
		chunk = 1
	}
	G := c.Goroutines
	res := make([][]int, G)
	in, out := &spinBarrier{n: int32(G)}, &spinBarrier{n: int32(G)}
	var wg sync.WaitGroup
	for g := 0; g < G; g++ {
		wg.Add(1)
		go func(g int) {
			defer wg.Done()
			for r := 0; r < c.Rounds; r++ {
				in.wait()
				res[g] = append(res[g], rr.Balance(kafka.Message{}, ps...))
				out.wait()
			}
		}(g)
	}
	wg.Wait()
	for r := 0; r < c.Rounds; r++ {
		got, want := make([]int, c.N), make([]int, c.N)
		for g := 0; g < G; g++ {
			v := res[g][r]
			if v < 0 || v >= c.N {
				ev.Fail(tb, "rr", "rr/membership", c, "RoundRobin returned %d, not offered (n=%d)", v, c.N)
				return
			}
			got[v]++
			want[((r*G+g)/chunk)%c.N]++
		}
		if fmt.Sprint(got) != fmt.Sprint(want) {
			ev.Fail(tb, "rr", "rr/concurrent-round", c, "RoundRobin{ChunkSize:%d} n=%d: the %d simultaneous calls of round %d (calls %d..%d overall) were spread %v over the partitions, every sequential order gives %v", c.ChunkSize, c.N, G, r, r*G, (r+1)*G-1, got, want)
			return
		}
	}
}

func runRoundRobin(tb ev.TB, c rrCase) {
	rr := &kafka.RoundRobin{ChunkSize: c.ChunkSize}
	ps := parts(c.N)
	chunk := c.ChunkSize
	if chunk < 1 {
		chunk = 1
	}
	if len(c.Lists) > 0 {
		runRoundRobinLists(tb, c)
		return
	}
	if c.Rounds > 0 && c.Goroutines > 1 {
		runRoundRobinRounds(tb, c)
		return
	}
	if c.Goroutines <= 1 {
		for k := 0; k < c.Calls; k++ {
			got := rr.Balance(kafka.Message{Value: []byte{byte(k)}}, ps...)
			want := ps[(k/chunk)%c.N]
			if got != want {
				sig := "rr/sequence"
				if got < 0 || got >= c.N {
					sig = "rr/membership"
				}
				ev.Fail(tb, "rr", sig, c, "RoundRobin{ChunkSize:%d} n=%d call #%d returned %d, want %d", c.ChunkSize, c.N, k, got, want)
				return
			}
		}
		return
	}
	// concurrent: the multiset of answers equals the sequential multiset
	counts := make([]int, c.N)
	var mu sync.Mutex
	var wg sync.WaitGroup
	per := c.Calls / c.Goroutines
	bad := -1
	for g := 0; g < c.Goroutines; g++ {
		wg.Add(1)
		go func() {
			defer wg.Done()
			local := make([]int, c.N)
			for k := 0; k < per; k++ {
				got := rr.Balance(kafka.Message{}, ps...)
				if got < 0 || got >= c.N {
					mu.Lock()
					bad = got
					mu.Unlock()
					return
				}
				local[got]++
			}
			mu.Lock()
			for i, v := range local {
				counts[i] += v
			}
			mu.Unlock()
		}()
	}
	wg.Wait()
	if bad != -1 {
		ev.Fail(tb, "rr", "rr/membership", c, "RoundRobin returned %d, not offered (n=%d)", bad, c.N)
		return
	}
	want := make([]int, c.N)
	for k := 0; k < per*c.Goroutines; k++ {
		want[(k/chunk)%c.N]++
	}
	for i := range want {
		if want[i] != counts[i] {
			ev.Fail(tb, "rr", "rr/concurrent-multiset", c, "RoundRobin{ChunkSize:%d} n=%d under %d goroutines: per-partition counts %v, sequential counts %v", c.ChunkSize, c.N, c.Goroutines, counts, want)
			return
		}
	}
}

func TestRoundRobin(t *testing.T) {
	rapid.Check(t, func(t *rapid.T) {
		c := rrCase{
			ChunkSize:  rapid.IntRange(-2, 7).Draw(t, "chunk"),
			N:          rapid.IntRange(1, 12).Draw(t, "n"),
			Calls:      rapid.IntRange(1, 200).Draw(t, "calls"),
			Goroutines: rapid.SampledFrom([]int{1, 1, 1, 2, 4, 8}).Draw(t, "goroutines"),
		}
		if c.Goroutines > 1 && rapid.IntRange(0, 9).Draw(t, "rrRounds") == 0 {
			c.Rounds = rapid.SampledFrom([]int{100, 300, 1000}).Draw(t, "rounds")
		}
		if c.Goroutines == 1 && rapid.IntRange(0, 3).Draw(t, "varyingLists") == 0 {
			// two or three topics of different sizes behind one balancer, in runs and interleaved
			sizes := rapid.SliceOfN(rapid.IntRange(1, 12), 2, 3).Draw(t, "sizes")
			for k := 0; k < c.Calls; k++ {
				c.Lists = append(c.Lists, rapid.SampledFrom(sizes).Draw(t, "offered"))
			}
		}
		runRoundRobin(t, c)
		lbl := "rr_sequential"
		if c.Goroutines > 1 {
			lbl = "rr_concurrent"
		}
		if len(c.Lists) > 0 {
			lbl = "rr_varying_partition_lists"
		}
		if c.Rounds > 0 {
			ev.Label("rr_barrier_rounds")
		}
		chunk := c.ChunkSize
		if chunk < 1 {
			chunk = 1
		}
		full := c.Calls >= chunk*c.N // at least one full cycle through all partitions
		if full {
			ev.Label("rr_full_cycle")
		}
		ev.Case(fmt.Sprintf("rr/%+v", c), c.N > 1 && c.Calls > chunk, lbl)
		ev.Sample(c)
	})
}

// ---------------------------------------------------------------------------
// LeastBytes

type lbCase struct {
	N          int   `json:"n"`
	Sizes      []int `json:"sizes"`      // key+value bytes of each message (sequential mode)
	KeyPart    []int `json:"key_part"`   // how many of those bytes are in the key
	Goroutines int   `json:"goroutines"` // >1: concurrent mode with equal sizes
	EqualSize  int   `json:"equal_size"`
	PerG       int   `json:"per_goroutine"`
	// Rounds > 0: N goroutines leave a barrier together and call Balance once each, Rounds times, with equal sizes.
	Rounds int `json:"rounds,omitempty"`
}

// spinBarrier releases n spinning goroutines within nanoseconds of each other.
type spinBarrier struct {
	n     int32
	count atomic.Int32
	gen   atomic.Int32
}

func (b *spinBarrier) wait() {
	g := b.gen.Load()
	if b.count.Add(1) == b.n {
		b.count.Store(0)
		b.gen.Add(1)
		return
	}
	for i := 0; b.gen.Load() == g; i++ {
		if i%1024 == 1023 {
			runtime.Gosched()
		}
	}
}

// runLeastBytesRounds: from a balanced state (all counters equal) and with equal message sizes, N calls pick N distinct
// partitions in every sequential order (a call makes its partition non-minimal until all the others have caught up), so
// N concurrent calls must do so as well if Balance is atomic.
func runLeastBytesRounds(tb ev.TB, c lbCase) {
	lb := &kafka.LeastBytes{}
	ps := parts(c.N)
	msg := kafka.Message{Value: make([]byte, c.EqualSize)}
	res := make([][]int, c.N)
	in, out := &spinBarrier{n: int32(c.N)}, &spinBarrier{n: int32(c.N)}
	var wg sync.WaitGroup
	for g := 0; g < c.N; g++ {
		wg.Add(1)
		go func(g int) {
			defer wg.Done()
			for r := 0; r < c.Rounds; r++ {
				in.wait()
				res[g] = append(res[g], lb.Balance(msg, ps...))
				out.wait()
			}
		}(g)
	}
	wg.Wait()
	for r := 0; r < c.Rounds; r++ {
		seen := map[int]int{}
		for g := 0; g < c.N; g++ {
			seen[res[g][r]]++
		}
		if len(seen) != c.N {
			ev.Fail(tb, "lb", "lb/concurrent-double-pick", c, "LeastBytes: %d concurrent calls with equal sizes from a balanced state (round %d) chose %v (partition -> calls): some partition was chosen twice, which no sequential order of the calls produces", c.N, r, seen)
			return
		}
	}
}

func runLeastBytes(tb ev.TB, c lbCase) {
	if c.Rounds > 0 {
		runLeastBytesRounds(tb, c)
		return
	}
	lb := &kafka.LeastBytes{}
	ps := parts(c.N)
	if c.Goroutines <= 1 {
		model := make([]uint64, c.N)
		for i, sz := range c.Sizes {
			kp := 0
			if i < len(c.KeyPart) {
				kp = c.KeyPart[i]
			}
			if kp > sz {
				kp = sz
			}
			msg := kafka.Message{Key: make([]byte, kp), Value: make([]byte, sz-kp)}
			got := lb.Balance(msg, ps...)
			if got < 0 || got >= c.N {
				ev.Fail(tb, "lb", "lb/membership", c, "LeastBytes returned %d, not offered (n=%d)", got, c.N)
				return
			}
			min := model[0]
			for _, v := range model {
				if v < min {
					min = v
				}
			}
			if model[got] != min {
				ev.Fail(tb, "lb", "lb/not-least", c, "LeastBytes call #%d picked partition %d with %d bytes routed; minimum is %d (model %v)", i, got, model[got], min, model)
				return
			}
			model[got] += uint64(sz)
		}
		return
	}
	counts := make([]int, c.N)
	var mu sync.Mutex
	var wg sync.WaitGroup
	bad := -1
	for g := 0; g < c.Goroutines; g++ {
		wg.Add(1)
		go func() {
			defer wg.Done()
			local := make([]int, c.N)
			msg := kafka.Message{Value: make([]byte, c.EqualSize)}
			for k := 0; k < c.PerG; k++ {
				got := lb.Balance(msg, ps...)
				if got < 0 || got >= c.N {
					mu.Lock()
					bad = got
					mu.Unlock()
					return
				}
				local[got]++
			}
			mu.Lock()
			for i, v := range local {
				counts[i] += v
			}
			mu.Unlock()
		}()
	}
	wg.Wait()
	if bad != -1 {
		ev.Fail(tb, "lb", "lb/membership", c, "LeastBytes returned %d, not offered (n=%d)", bad, c.N)
		return
	}
	s := append([]int(nil), counts...)
	sort.Ints(s)
	total := 0
	for _, v := range s {
		total += v
	}
	if total != c.Goroutines*c.PerG || s[len(s)-1]-s[0] > 1 {
		ev.Fail(tb, "lb", "lb/concurrent-spread", c, "LeastBytes under %d goroutines with equal sizes: counts %v (total %d, want %d, spread must be <=1)", c.Goroutines, counts, total, c.Goroutines*c.PerG)
	}
}

func TestLeastBytes(t *testing.T) {
	rapid.Check(t, func(t *rapid.T) {
		c := lbCase{N: rapid.IntRange(1, 12).Draw(t, "n")}
		if m := rapid.IntRange(0, 39).Draw(t, "roundsMode"); m == 0 {
			c.N = rapid.IntRange(2, 8).Draw(t, "nRounds")
			c.Goroutines = c.N
			c.EqualSize = rapid.IntRange(1, 64).Draw(t, "size")
			c.Rounds = rapid.SampledFrom([]int{100, 300, 1000}).Draw(t, "rounds")
			c.PerG = c.Rounds
		} else if rapid.IntRange(0, 3).Draw(t, "mode") == 0 {
			c.Goroutines = rapid.IntRange(2, 8).Draw(t, "goroutines")
			c.EqualSize = rapid.IntRange(1, 64).Draw(t, "size")
			c.PerG = rapid.IntRange(1, 60).Draw(t, "perG")
		} else {
			c.Goroutines = 1
			c.Sizes = rapid.SliceOfN(rapid.OneOf(rapid.IntRange(0, 8), rapid.IntRange(0, 2000)), 1, 80).Draw(t, "sizes")
			c.KeyPart = rapid.SliceOfN(rapid.IntRange(0, 16), 0, len(c.Sizes)).Draw(t, "keyPart")
		}
		runLeastBytes(t, c)
		lbl := "lb_sequential"
		if c.Goroutines > 1 {
			lbl = "lb_concurrent"
		}
		ev.Case(fmt.Sprintf("lb/%+v", c), c.N > 1 && (len(c.Sizes) > 1 || c.PerG*c.Goroutines > 1), lbl)
		ev.Sample(c)
	})
}

// ---------------------------------------------------------------------------
// Hash / ReferenceHash with a user-supplied Hasher: the hash value is chosen
// directly, so that the sign handling is exercised at its boundaries
// (0x7fffffff, 0x80000000, 0xffffffff ...), which no key reaches by chance.

type fixedHasher struct{ v uint32 }

func (f *fixedHasher) Write(p []byte) (int, error) { return len(p), nil }
func (f *fixedHasher) Sum(b []byte) []byte {
	return append(b, byte(f.v>>24), byte(f.v>>16), byte(f.v>>8), byte(f.v))
}
func (f *fixedHasher) Reset()         {}
func (f *fixedHasher) Size() int      { return 4 }
func (f *fixedHasher) BlockSize() int { return 1 }
func (f *fixedHasher) Sum32() uint32  { return f.v }

type customHashCase struct {
	Reference bool   `json:"reference"`
	Hash      uint32 `json:"hash"`
	N         int    `json:"n"`
}

func init() {
	ev.Register("custom-hash", func(tb ev.TB, c customHashCase) { checkCustomHash(tb, c) })
}

func checkCustomHash(tb ev.TB, c customHashCase) {
	key := []byte("any key")
	var got, want int
	name := "Hash"
	if c.Reference {
		name = "ReferenceHash"
		got = (&kafka.ReferenceHash{Hasher: &fixedHasher{c.Hash}}).Balance(kafka.Message{Key: key}, parts(c.N)...)
		want = int((int32(c.Hash) & 0x7fffffff) % int32(c.N))
	} else {
		got = (&kafka.Hash{Hasher: &fixedHasher{c.Hash}}).Balance(kafka.Message{Key: key}, parts(c.N)...)
		p := int32(c.Hash) % int32(c.N)
		if p < 0 {
			p = -p
		}
		want = int(p)
	}
	if got < 0 || got >= c.N {
		ev.Fail(tb, "custom-hash", "custom/"+name+"/not-offered", c, "%s with a Hasher returning %#x chose partition %d of %d offered (0..%d)", name, c.Hash, got, c.N, c.N-1)
		return
	}
	if got != want {
		ev.Fail(tb, "custom-hash", "custom/"+name, c, "%s with a Hasher returning %#x chose partition %d of %d, the Sarama partitioner with that hasher chooses %d", name, c.Hash, got, c.N, want)
	}
}

func TestCustomHasher(t *testing.T) {
	boundaries := []uint32{0, 1, 2, 3, 0x7ffffffe, 0x7fffffff, 0x80000000, 0x80000001, 0x80000002, 0xfffffffe, 0xffffffff, 0xaaaaaaaa, 0x55555555, 0xc0000000, 0x40000000}
	maxN := ev.Scale(64, 512)
	var cases int64
	for _, ref := range []bool{false, true} {
		for _, h := range boundaries {
			for n := 1; n <= maxN; n++ {
				checkCustomHash(t, customHashCase{ref, h, n})
				cases++
			}
		}
	}
	ev.Bulk(cases, "custom_hasher_boundaries")
	rapid.Check(t, func(t *rapid.T) {
		c := customHashCase{Reference: rapid.Bool().Draw(t, "reference"), Hash: rapid.Uint32().Draw(t, "hash"), N: rapid.IntRange(1, 100000).Draw(t, "n")}
		if rapid.IntRange(0, 3).Draw(t, "nearSign") == 0 {
			c.Hash = 0x80000000 + uint32(rapid.IntRange(-70000, 70000).Draw(t, "delta"))
		}
		checkCustomHash(t, c)
		ev.Case(fmt.Sprintf("custom ref=%v h=%#x n=%d", c.Reference, c.Hash, c.N), true, "custom_hasher")
		ev.Sample(c)
	})
}

// ---------------------------------------------------------------------------
// A stateful user-supplied Hasher (crc32, fnv-1): successive calls on one balancer value must each hash only their own key.

type hasherSeqCase struct {
	Reference bool     `json:"reference"`
	Hasher    string   `json:"hasher"` // crc32 | fnv1 | fnv1a
	N         int      `json:"n"`
	Keys      [][]byte `json:"keys"`
}

func newNamedHasher(name string) hash.Hash32 {
	switch name {
	case "crc32":
		return crc32.NewIEEE()
	case "fnv1":
		return fnv.New32()
	}
	return fnv.New32a()
}

func init() {
	ev.Register("hasher-seq", func(tb ev.TB, c hasherSeqCase) { checkHasherSeq(tb, c) })
}

func checkHasherSeq(tb ev.TB, c hasherSeqCase) {
	var bal kafka.Balancer
	name := "Hash"
	if c.Reference {
		name = "ReferenceHash"
		bal = &kafka.ReferenceHash{Hasher: newNamedHasher(c.Hasher)}
	} else {
		bal = &kafka.Hash{Hasher: newNamedHasher(c.Hasher)}
	}
	for i, k := range c.Keys {
		if k == nil {
			continue // nil keys are round-robined
		}
		got := bal.Balance(kafka.Message{Key: k}, parts(c.N)...)
		h := newNamedHasher(c.Hasher)
		h.Write(k)
		v := h.Sum32()
		var want int
		if c.Reference {
			want = int((int32(v) & 0x7fffffff) % int32(c.N))
		} else {
			p := int32(v) % int32(c.N)
			if p < 0 {
				p = -p
			}
			want = int(p)
		}
		if got != want {
			ev.Fail(tb, "hasher-seq", "custom/"+name+"/sequence", c, "%s with a %s Hasher: call %d (key %q) chose partition %d of %d, hashing that key alone gives %d (state of earlier calls leaked into the hash?)", name, c.Hasher, i, k, got, c.N, want)
			return
		}
	}
}

func TestCustomHasherSequences(t *testing.T) {
	rapid.Check(t, func(t *rapid.T) {
		c := hasherSeqCase{Reference: rapid.Bool().Draw(t, "reference"), Hasher: rapid.SampledFrom([]string{"crc32", "fnv1", "fnv1a"}).Draw(t, "hasher"), N: rapid.IntRange(1, 64).Draw(t, "n")}
		for i, n := 0, rapid.IntRange(2, 8).Draw(t, "calls"); i < n; i++ {
			c.Keys = append(c.Keys, rapid.SliceOfN(rapid.Byte(), 0, 12).Draw(t, "key"))
		}
		checkHasherSeq(t, c)
		ev.Case(fmt.Sprintf("hasher-seq %+v", c), true, "custom_hasher_sequence")
		ev.Sample(c)
	})
}

// ---------------------------------------------------------------------------
// LeastBytes with totals beyond 2^32 bytes per partition (the messages share one buffer).

type lbBigCase struct {
	N     int   `json:"n"`
	Sizes []int `json:"sizes_mib"` // value size of each message in MiB
}

func init() { ev.Register("lb-big", func(tb ev.TB, c lbBigCase) { checkLeastBytesBig(tb, c) }) }

var bigBuf []byte

func checkLeastBytesBig(tb ev.TB, c lbBigCase) {
	if bigBuf == nil {
		bigBuf = make([]byte, 1<<30)
	}
	lb := &kafka.LeastBytes{}
	model := make([]uint64, c.N)
	for i, mib := range c.Sizes {
		got := lb.Balance(kafka.Message{Value: bigBuf[:mib<<20]}, parts(c.N)...)
		if got < 0 || got >= c.N {
			ev.Fail(tb, "lb-big", "lb/membership", c, "LeastBytes returned %d, not offered (n=%d)", got, c.N)
			return
		}
		min := model[0]
		for _, v := range model {
			if v < min {
				min = v
			}
		}
		if model[got] != min {
			ev.Fail(tb, "lb-big", "lb/not-least-large-totals", c, "LeastBytes call #%d picked partition %d with %d bytes routed so far; the minimum is %d (model %v)", i, got, model[got], min, model)
			return
		}
		model[got] += uint64(mib) << 20
	}
}

func TestLeastBytesLargeTotals(t *testing.T) {
	rapid.Check(t, func(t *rapid.T) {
		c := lbBigCase{N: rapid.IntRange(2, 3).Draw(t, "n")}
		// enough 0.25-1 GiB messages to take every partition past 4 GiB
		for i, n := 0, rapid.IntRange(12, 30).Draw(t, "calls"); i < n; i++ {
			c.Sizes = append(c.Sizes, rapid.SampledFrom([]int{1024, 1024, 1023, 512, 768, 1}).Draw(t, "mib"))
		}
		checkLeastBytesBig(t, c)
		ev.Case(fmt.Sprintf("lb-big %+v", c), true, "lb_totals_beyond_4GiB")
		ev.Sample(c)
	})
}
