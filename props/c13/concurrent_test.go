package c13

import (
	"fmt"
	"hash/fnv"
	"sync"
	"testing"

	kafka "github.com/segmentio/kafka-go"
	"pgregory.net/rapid"

	"verif/internal/ev"
)

// Key-hashing balancers under concurrent use: one shared balancer value, G goroutines hashing their own key streams.
// A pure function of (key, partition count) gives every call the reference answer whatever the other goroutines do.
// Run in the default build and again with the race detector, whose instrumentation stretches the windows in which
// shared scratch state (pooled hashers) could be handed to two calls at once.

type concHashCase struct {
	Balancer   string `json:"balancer"`
	N          int    `json:"n"`
	Goroutines int    `json:"goroutines"`
	PerG       int    `json:"per_goroutine"`
	KeyLen     int    `json:"key_len"`
	// CustomHasher (Hash, ReferenceHash): the balancer is given an FNV-1a hasher of the user's instead of its pooled ones
	CustomHasher bool `json:"custom_hasher,omitempty"`
	// NilKeys: every other message has no key
	NilKeys bool `json:"nil_keys,omitempty"`
}

func init() { ev.Register("conc-hash", func(tb ev.TB, c concHashCase) { runConcHash(tb, c) }) }

func concKey(g, i, n int) []byte {
	k := make([]byte, n)
	x := uint32(g*1000003+i*7919) | 1
	for j := range k {
		x ^= x << 13
		x ^= x >> 17
		x ^= x << 5
		k[j] = byte(x)
	}
	return k
}

func runConcHash(tb ev.TB, c concHashCase) {
	b := -1
	for i, name := range balancerNames {
		if name == c.Balancer {
			b = i
		}
	}
	if b < 0 {
		tb.Fatalf("harness: unknown balancer %q", c.Balancer)
	}
	bal := newBalancer(b)
	if c.CustomHasher {
		// a Hasher given by the user is one object shared by every call (the balancer serialises its use)
		switch b {
		case bHash:
			bal = &kafka.Hash{Hasher: fnv.New32a()}
		case bRefHash:
			bal = &kafka.ReferenceHash{Hasher: fnv.New32a()}
		}
	}
	ps := parts(c.N)
	type miss struct {
		g, i, got, want int
	}
	var mu sync.Mutex
	var first *miss
	panicked := ""
	var wg sync.WaitGroup
	in := &spinBarrier{n: int32(c.Goroutines)}
	for g := 0; g < c.Goroutines; g++ {
		wg.Add(1)
		go func(g int) {
			defer wg.Done()
			cur := -1
			defer func() {
				if p := recover(); p != nil {
					mu.Lock()
					if first == nil {
						first = &miss{g, cur, -1, -1}
						panicked = fmt.Sprint(p)
					}
					mu.Unlock()
				}
			}()
			in.wait()
			for i := 0; i < c.PerG; i++ {
				cur = i
				key := concKey(g, i, c.KeyLen)
				if c.NilKeys && (g+i)%2 == 0 {
					key = nil // no key: any offered partition is a right answer, picked at random by most balancers
				}
				got := bal.Balance(kafka.Message{Key: key}, ps...)
				want, det := expected(b, key, c.N)
				if (det && got != want) || got < 0 || got >= c.N {
					mu.Lock()
					if first == nil {
						first = &miss{g, i, got, want}
					}
					mu.Unlock()
					return
				}
			}
		}(g)
	}
	wg.Wait()
	if panicked != "" {
		ev.Fail(tb, "conc-hash", "conc-panic/"+c.Balancer, c, "%s shared by %d goroutines, n=%d: Balance panicked in goroutine %d at call #%d: %s", c.Balancer, c.Goroutines, c.N, first.g, first.i, panicked)
		return
	}
	if first != nil {
		ev.Fail(tb, "conc-hash", "conc/"+c.Balancer, c, "%s shared by %d goroutines, n=%d: goroutine %d, key #%d (%d bytes) was sent to partition %d, the reference client sends it to %d",
			c.Balancer, c.Goroutines, c.N, first.g, first.i, c.KeyLen, first.got, first.want)
	}
}

func TestConcurrentHash(t *testing.T) {
	rapid.Check(t, func(t *rapid.T) {
		c := concHashCase{
			Balancer:   rapid.SampledFrom(balancerNames[:]).Draw(t, "balancer"),
			N:          rapid.SampledFrom([]int{2, 3, 7, 16, 100, 1000}).Draw(t, "n"),
			Goroutines: rapid.SampledFrom([]int{2, 4, 8, 16}).Draw(t, "goroutines"),
			PerG:       rapid.SampledFrom([]int{100, 500, 2000}).Draw(t, "perG"),
			KeyLen:     rapid.SampledFrom([]int{1, 8, 64, 300, 1024}).Draw(t, "keyLen"),
		}
		if c.Balancer == "Hash" || c.Balancer == "ReferenceHash" {
			c.CustomHasher = rapid.Bool().Draw(t, "customHasher")
		}
		c.NilKeys = rapid.IntRange(0, 2).Draw(t, "nilKeys") == 0
		runConcHash(t, c)
		ev.Case(fmt.Sprintf("conc-hash/%+v", c), true, "concurrent_hash", "conc_"+c.Balancer)
		ev.Sample(c)
	})
}
