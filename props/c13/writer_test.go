package c13

import (
	"fmt"
	"sync"
	"testing"

	"pgregory.net/rapid"

	"verif/internal/ev"
	"verif/internal/wsim"
)

// What a Writer offers its Balancer: the statement quantifies over "every partition list a Writer can supply", and the
// reference partitioners coincide with the other clients only if that list is 0..n-1 for a topic of n partitions.  The list
// comes from a process-wide cache that grows in steps of 128 entries, so the history of partition counts seen by the
// process matters: a case carries the counts that earlier cases of the same process had already written to (those that
// were larger than anything before them), and a replay writes to topics of those sizes first.

type offerCase struct {
	History  []int  `json:"history,omitempty"`
	Sizes    []int  `json:"sizes"`
	Balancer string `json:"balancer"`
}

var (
	offerMu      sync.Mutex
	offerHistory []int // record-setting partition counts written to so far in this process
	offerMax     int
)

func init() { ev.Register("writer-offer", func(tb ev.TB, c offerCase) { runOffer(tb, c, false) }) }

func runOffer(tb ev.TB, c offerCase, live bool) {
	sizes := c.Sizes
	if !live {
		sizes = append(append([]int(nil), c.History...), c.Sizes...)
	}
	wc := wsim.Case{Brokers: 1, ProduceMax: 7, BatchSize: 1, BatchBytes: 1 << 20, BatchTimeoutMs: 1, MaxAttempts: 1, BackoffMinMs: 1, BackoffMaxMs: 2,
		Acks: -1, Balancer: c.Balancer, WriteTimeoutMs: 5000, SettleMs: 2000}
	var calls []wsim.Call
	for i, n := range sizes {
		name := fmt.Sprintf("w%d", i)
		wc.Topics = append(wc.Topics, name)
		wc.Partitions = append(wc.Partitions, n)
		calls = append(calls, wsim.Call{Msgs: []wsim.Msg{{Topic: name, KeyLen: 3, KeySeed: i, ValueSize: 12}, {Topic: name, KeyLen: -1, ValueSize: 12}}})
	}
	wc.Callers = [][]wsim.Call{calls}
	res := wsim.Run(wc)
	offerMu.Lock()
	for _, n := range sizes {
		if n > offerMax {
			offerMax = n
			offerHistory = append(offerHistory, n)
		}
	}
	offerMu.Unlock()
	for k, call := range calls {
		for m := range call.Msgs {
			id := wsim.ID{Caller: 0, Call: k, Index: m}
			if bad, ok := res.OfferedBad[id]; ok {
				ev.Fail(tb, "writer-offer", "writer-offer/not-contiguous", c, "topic of %d partitions (written after topics of %v partitions): the Writer offered its balancer a list that is not 0..%d: %s", sizes[k], sizes[:k], sizes[k]-1, bad)
				return
			}
			if n, ok := res.OfferedN[id]; ok && n != sizes[k] {
				ev.Fail(tb, "writer-offer", "writer-offer/length", c, "topic of %d partitions (written after topics of %v partitions): the Writer offered its balancer %d partitions", sizes[k], sizes[:k], n)
				return
			}
			if _, ok := res.OfferedN[id]; !ok {
				ev.Inconclusive("writer-offer/balancer-not-consulted")
			}
		}
	}
}

func TestWriterOffers(t *testing.T) {
	rapid.Check(t, func(t *rapid.T) {
		c := offerCase{Balancer: rapid.SampledFrom([]string{"roundrobin", "crc32", "murmur2", "leastbytes", "hash"}).Draw(t, "balancer")}
		gen := rapid.OneOf(rapid.IntRange(1, 127), rapid.IntRange(127, 130), rapid.IntRange(131, 255), rapid.IntRange(255, 258), rapid.IntRange(259, 400))
		c.Sizes = rapid.SliceOfN(gen, 1, 4).Draw(t, "sizes")
		offerMu.Lock()
		c.History = append([]int(nil), offerHistory...)
		offerMu.Unlock()
		runOffer(t, c, true)
		grows := false
		seen := 0
		for _, n := range append(append([]int(nil), c.History...), c.Sizes...) {
			if seen > 0 && n/128 > seen/128 {
				grows = true
			}
			if n > seen {
				seen = n
			}
		}
		if grows {
			ev.Label("offer_cache_grew_in_history")
		}
		big := false
		for _, n := range c.Sizes {
			if n > 128 {
				big = true
			}
		}
		ev.Case(fmt.Sprintf("offer/%v/%v/%s", c.History, c.Sizes, c.Balancer), big, "writer_offers")
		ev.Sample(c)
	})
}

// A Writer without a Balancer distributes round-robin (the documented default): over a sequence of calls the partitions
// of the topic receive the same number of messages, give or take one -- whatever the way the messages are spread over calls.

type defaultBalCase struct {
	Partitions int   `json:"partitions"`
	Calls      []int `json:"calls"` // messages per WriteMessages call, the calls follow each other
}

func init() {
	ev.Register("writer-default", func(tb ev.TB, c defaultBalCase) { runDefaultBalancer(tb, c) })
}

func runDefaultBalancer(tb ev.TB, c defaultBalCase) {
	wc := wsim.Case{Brokers: 1, ProduceMax: 7, BatchSize: 100, BatchBytes: 1 << 20, BatchTimeoutMs: 1, MaxAttempts: 1, BackoffMinMs: 1, BackoffMaxMs: 2,
		Acks: -1, Balancer: "default", WriteTimeoutMs: 5000, SettleMs: 2000, Topics: []string{"d"}, Partitions: []int{c.Partitions}}
	var calls []wsim.Call
	total := 0
	for _, n := range c.Calls {
		var call wsim.Call
		for i := 0; i < n; i++ {
			call.Msgs = append(call.Msgs, wsim.Msg{Topic: "d", KeyLen: -1, ValueSize: 12})
		}
		total += n
		calls = append(calls, call)
	}
	wc.Callers = [][]wsim.Call{calls}
	res := wsim.Run(wc)
	counts := make([]int, c.Partitions)
	logged := 0
	for p, recs := range res.Logs["d"] {
		if p < len(counts) {
			counts[p] = len(recs)
		}
		logged += len(recs)
	}
	if logged != total {
		ev.Inconclusive("writer-default/not-all-logged")
		return
	}
	lo, hi := total/c.Partitions, (total+c.Partitions-1)/c.Partitions
	for p, n := range counts {
		if n < lo || n > hi {
			ev.Fail(tb, "writer-default", "writer-default/uneven", c, "a Writer without Balancer wrote %d messages in calls of %v to a topic of %d partitions: partition %d received %d of them (per partition: %v), a round-robin distribution gives every partition %d..%d", total, c.Calls, c.Partitions, p, n, counts, lo, hi)
			return
		}
	}
}

func TestWriterDefaultBalancer(t *testing.T) {
	rapid.Check(t, func(t *rapid.T) {
		c := defaultBalCase{Partitions: rapid.IntRange(2, 7).Draw(t, "partitions")}
		c.Calls = rapid.SliceOfN(rapid.SampledFrom([]int{1, 1, 1, 2, 3, 5}), 2, 16).Draw(t, "calls")
		runDefaultBalancer(t, c)
		ev.Case(fmt.Sprintf("default-balancer/%+v", c), len(c.Calls) > c.Partitions, "writer_default_balancer")
		ev.Sample(c)
	})
}
