// Package c11 decides property C11: a Conn stays usable after broker-reported
// errors and is never reused misaligned.
package c11

import (
	"context"
	"errors"
	"fmt"
	"io"
	"os"
	"sort"
	"strings"
	"sync"
	"sync/atomic"
	"testing"
	"time"

	kafka "github.com/segmentio/kafka-go"
	"pgregory.net/rapid"

	"verif/fakecluster"
	"verif/internal/ev"
	"verif/memnet"
	"verif/refcodec"
)

func TestMain(m *testing.M) { ev.Main(m, "C11") }

const (
	topic = "t"
	group = "g"
)

// profile fixes the API versions the Conn negotiates.
type profile struct {
	Name                                           string
	Produce, Fetch, Metadata, Join, Create, Delete int16
}

var profiles = []profile{
	{"low", 2, 2, 1, 1, 0, 0},
	{"mid", 3, 5, 6, 2, 1, 1},
	{"high", 7, 10, 6, 2, 2, 1},
}

type env struct {
	nw     *memnet.Network
	cl     *fakecluster.Cluster
	member string
	gen    int32
	mu     sync.Mutex
	armed  *fakecluster.Action
	armAPI int16
	hit    bool
	hitSeq int64
}

func newEnv(tb ev.TB, p profile) *env {
	e := &env{nw: memnet.New()}
	e.cl = fakecluster.New(e.nw, 1)
	e.cl.CreateTopic(topic, 1)
	e.cl.SetVersions(0, 0, 0, p.Produce)
	e.cl.SetVersions(0, 1, 0, p.Fetch)
	e.cl.SetVersions(0, 3, 0, p.Metadata)
	e.cl.SetVersions(0, 11, 0, p.Join)
	e.cl.SetVersions(0, 19, 0, p.Create)
	e.cl.SetVersions(0, 20, 0, p.Delete)
	magic := int8(2)
	if p.Fetch < 4 {
		magic = 1
	}
	recs := []refcodec.Record{{Offset: 0, Timestamp: 1000, Key: []byte("k0"), Value: []byte("v0")}, {Offset: 1, Timestamp: 2000, Key: []byte("k1"), Value: []byte("v1")}, {Offset: 2, Timestamp: 3000, Key: []byte("k2"), Value: []byte("v2")}}
	if magic == 2 {
		e.cl.AppendBatches(topic, 0, refcodec.MakeBatchV2(recs, 0))
	} else {
		e.cl.AppendBatches(topic, 0, refcodec.Batch{Magic: 1, Records: recs})
	}
	e.cl.SetHook(func(cl *fakecluster.Cluster, r *fakecluster.Request) *fakecluster.Action {
		e.mu.Lock()
		defer e.mu.Unlock()
		if e.armed != nil && r.ApiKey == e.armAPI {
			a := e.armed
			e.armed = nil
			e.hit = true
			e.hitSeq = r.Seq
			return a
		}
		return nil
	})
	// prelude on a connection of its own: a stable group with one member
	c := e.dial(tb)
	defer c.Close()
	c.SetDeadline(time.Now().Add(5 * time.Second))
	jr, err := c.VerifJoinGroup(group, "", "consumer", 30000, 30000, []kafka.VerifGroupProtocol{{Name: "range", Metadata: []byte{0, 1}}})
	if err != nil {
		tb.Fatalf("harness: prelude join: %v", err)
	}
	e.member, e.gen = jr.MemberID, jr.GenerationID
	if _, err := c.VerifSyncGroup(group, e.member, e.gen, map[string][]byte{e.member: {1, 2, 3}}, []string{e.member}); err != nil {
		tb.Fatalf("harness: prelude sync: %v", err)
	}
	if err := c.VerifOffsetCommit(group, e.member, e.gen, topic, map[int32]int64{0: 1}, []int32{0}); err != nil {
		tb.Fatalf("harness: prelude commit: %v", err)
	}
	return e
}

func (e *env) dial(tb ev.TB) *kafka.Conn {
	d := &kafka.Dialer{DialFunc: e.nw.Dial, Timeout: 3 * time.Second, ClientID: "c11"}
	ctx, cancel := context.WithTimeout(context.Background(), 3*time.Second)
	defer cancel()
	c, err := d.DialLeader(ctx, "tcp", "b1.fake:9092", topic, 0)
	if err != nil {
		tb.Fatalf("harness: dial: %v", err)
	}
	return c
}

func (e *env) arm(api int16, a *fakecluster.Action) {
	e.mu.Lock()
	e.armed, e.armAPI, e.hit = a, api, false
	e.mu.Unlock()
}

// op is one Conn operation; Run returns a printable result.
type op struct {
	Name   string
	API    int16    // api whose response receives the injected fault
	Fields []string // error fields of that response
	Run    func(e *env, c *kafka.Conn) (string, error)
}

func readAll(c *kafka.Conn) (string, error) {
	b := c.ReadBatchWith(kafka.ReadBatchConfig{MinBytes: 1, MaxBytes: 1 << 20, MaxWait: 20 * time.Millisecond})
	var out []string
	for {
		m, err := b.ReadMessage()
		if err != nil {
			break
		}
		out = append(out, fmt.Sprintf("%d:%s=%s", m.Offset, m.Key, m.Value))
	}
	err := b.Close()
	return strings.Join(out, ","), err
}

var ops = []op{
	{"ApiVersions", 18, []string{"top"}, func(e *env, c *kafka.Conn) (string, error) {
		v, err := c.ApiVersions()
		return fmt.Sprint(len(v)), err
	}},
	{"Controller", 3, []string{"topic"}, func(e *env, c *kafka.Conn) (string, error) {
		b, err := c.Controller()
		return fmt.Sprintf("%d %s:%d", b.ID, b.Host, b.Port), err
	}},
	{"Brokers", 3, []string{"topic"}, func(e *env, c *kafka.Conn) (string, error) {
		b, err := c.Brokers()
		return fmt.Sprint(b), err
	}},
	{"ReadPartitions", 3, []string{"topic", "partition"}, func(e *env, c *kafka.Conn) (string, error) {
		ps, err := c.ReadPartitions(topic)
		var s []string
		for _, p := range ps {
			s = append(s, fmt.Sprintf("%s/%d@%d", p.Topic, p.ID, p.Leader.ID))
		}
		return strings.Join(s, ","), err
	}},
	{"ReadFirstOffset", 2, []string{"partition"}, func(e *env, c *kafka.Conn) (string, error) {
		o, err := c.ReadFirstOffset()
		return fmt.Sprint(o), err
	}},
	{"ReadLastOffset", 2, []string{"partition"}, func(e *env, c *kafka.Conn) (string, error) {
		o, err := c.ReadLastOffset()
		return fmt.Sprint(o), err
	}},
	{"ReadOffset", 2, []string{"partition"}, func(e *env, c *kafka.Conn) (string, error) {
		o, err := c.ReadOffset(time.Unix(2, 0))
		return fmt.Sprint(o), err
	}},
	{"ReadOffsets", 2, []string{"partition"}, func(e *env, c *kafka.Conn) (string, error) {
		a, b, err := c.ReadOffsets()
		return fmt.Sprint(a, b), err
	}},
	{"SeekEnd", 2, []string{"partition"}, func(e *env, c *kafka.Conn) (string, error) {
		o, err := c.Seek(1, kafka.SeekEnd)
		return fmt.Sprint(o), err
	}},
	{"SeekAbsolute", 2, []string{"partition"}, func(e *env, c *kafka.Conn) (string, error) {
		// with bounds check: the Conn asks for the first and last offsets
		o, err := c.Seek(2, kafka.SeekAbsolute)
		return fmt.Sprint(o), err
	}},
	{"Offset", -1, nil, func(e *env, c *kafka.Conn) (string, error) {
		// the Conn's position: a failed Seek before must not have moved it
		o, w := c.Offset()
		return fmt.Sprint(o, w), nil
	}},
	{"ReadAtPosition", 1, []string{"partition"}, func(e *env, c *kafka.Conn) (string, error) {
		m, err := c.ReadMessage(1 << 20) // from wherever the Conn stands
		return fmt.Sprintf("%d:%s", m.Offset, m.Value), err
	}},
	{"ReadBatch", 1, []string{"partition", "top"}, func(e *env, c *kafka.Conn) (string, error) {
		if _, err := c.Seek(0, kafka.SeekAbsolute|kafka.SeekDontCheck); err != nil {
			return "", err
		}
		return readAll(c)
	}},
	{"ReadMessage", 1, []string{"partition"}, func(e *env, c *kafka.Conn) (string, error) {
		if _, err := c.Seek(1, kafka.SeekAbsolute|kafka.SeekDontCheck); err != nil {
			return "", err
		}
		m, err := c.ReadMessage(1 << 20)
		return fmt.Sprintf("%d:%s", m.Offset, m.Value), err
	}},
	{"WriteMessages", 0, []string{"partition"}, func(e *env, c *kafka.Conn) (string, error) {
		_, p, o, _, err := c.WriteCompressedMessagesAt(nil, kafka.Message{Key: []byte("k"), Value: []byte("w")})
		return fmt.Sprint(p, o), err
	}},
	{"WriteCompressed", 0, []string{"partition"}, func(e *env, c *kafka.Conn) (string, error) {
		_, p, o, _, err := c.WriteCompressedMessagesAt(kafka.Gzip.Codec(), kafka.Message{Value: []byte("w1")}, kafka.Message{Value: []byte("w2")})
		return fmt.Sprint(p, o), err
	}},
	{"CreateTopics", 19, []string{"topic"}, func(e *env, c *kafka.Conn) (string, error) {
		return "", c.CreateTopics(kafka.TopicConfig{Topic: "created", NumPartitions: 2, ReplicationFactor: 1})
	}},
	{"CreateTopics3", 19, []string{"topic", "first-topic"}, func(e *env, c *kafka.Conn) (string, error) {
		// several topics in one request; "first-topic": only the first of them is refused, entries follow the failed one
		return "", c.CreateTopics(kafka.TopicConfig{Topic: "created-a", NumPartitions: 1, ReplicationFactor: 1}, kafka.TopicConfig{Topic: "created-b", NumPartitions: 2, ReplicationFactor: 1},
			kafka.TopicConfig{Topic: "created-c", NumPartitions: 1, ReplicationFactor: 1})
	}},
	{"DeleteTopics", 20, []string{"topic"}, func(e *env, c *kafka.Conn) (string, error) {
		return "", c.DeleteTopics("nonexistent-or-not")
	}},
	{"FindCoordinator", 10, []string{"top"}, func(e *env, c *kafka.Conn) (string, error) {
		id, h, p, err := c.VerifFindCoordinator(group)
		return fmt.Sprint(id, h, p), err
	}},
	{"JoinGroup", 11, []string{"top"}, func(e *env, c *kafka.Conn) (string, error) {
		r, err := c.VerifJoinGroup(group, e.member, "consumer", 30000, 30000, []kafka.VerifGroupProtocol{{Name: "range", Metadata: []byte{0, 1}}})
		return fmt.Sprint(r.GenerationID, r.GroupProtocol, r.LeaderID == e.member, len(r.Members)), err
	}},
	{"SyncGroup", 14, []string{"top"}, func(e *env, c *kafka.Conn) (string, error) {
		a, err := c.VerifSyncGroup(group, e.member, e.gen, nil, nil)
		return fmt.Sprint(a), err
	}},
	{"Heartbeat", 12, []string{"top"}, func(e *env, c *kafka.Conn) (string, error) {
		return "", c.VerifHeartbeat(group, e.member, e.gen)
	}},
	{"OffsetCommit", 8, []string{"partition"}, func(e *env, c *kafka.Conn) (string, error) {
		return "", c.VerifOffsetCommit(group, e.member, e.gen, topic, map[int32]int64{0: 2}, []int32{0})
	}},
	{"OffsetFetch", 9, []string{"partition"}, func(e *env, c *kafka.Conn) (string, error) {
		o, err := c.VerifOffsetFetch(group, topic, []int32{0})
		return fmt.Sprint(o), err
	}},
	{"ListGroups", 16, []string{"top"}, func(e *env, c *kafka.Conn) (string, error) {
		g, err := c.VerifListGroups()
		return fmt.Sprint(g), err
	}},
	{"LeaveGroup", 13, []string{"top"}, func(e *env, c *kafka.Conn) (string, error) {
		return "", c.VerifLeaveGroup(group, e.member)
	}},
}

var codes = []int16{3, 6, 7, 19, 27, 29, 41, 120}

type tuple struct {
	Profile string `json:"profile"`
	Op      string `json:"op"`
	Field   string `json:"field"`
	Code    int16  `json:"code"`
	Fault   string `json:"fault"` // "" = broker error code; cut | garbage-size | wrong-correlation | drop
	CutAt   int    `json:"cut_at"`
	Next    string `json:"next"`
	// Site "apiversions": the error code is placed in the answer to the ApiVersions request that the first operation
	// sends implicitly to negotiate its version (Field "empty-list": the broker also lists no APIs, as brokers do
	// that reject the request's version).
	Site string `json:"site,omitempty"`
}

func init() { ev.Register("tuple", func(tb ev.TB, t tuple) { runTuple(tb, t) }) }

func TestReplay(t *testing.T) { ev.RunReplay(t) }

func findOp(name string) *op {
	for i := range ops {
		if ops[i].Name == name {
			return &ops[i]
		}
	}
	return nil
}

func findProfile(name string) profile {
	for _, p := range profiles {
		if p.Name == name {
			return p
		}
	}
	return profiles[0]
}

func classify(err error) string {
	if err == nil {
		return "ok"
	}
	var ke kafka.Error
	if errors.As(err, &ke) {
		return fmt.Sprintf("kafka(%d)", int(ke))
	}
	return "error"
}

func isKafka(err error) bool {
	var ke kafka.Error
	return errors.As(err, &ke)
}

// runTuple evaluates one (operation, fault, next operation) tuple; it returns
// whether the fault reached the client as an error of the first operation.
// callOp runs an operation with a watchdog: every operation works under the Conn's deadline, so one that has not returned
// 20 s after it was called (the deadlines are 0.4 - 1.5 s) never will.
func callOp(o *op, e *env, c *kafka.Conn) (res string, err error, hung bool) {
	type out struct {
		res string
		err error
	}
	ch := make(chan out, 1)
	go func() {
		r, err := o.Run(e, c)
		ch <- out{r, err}
	}()
	select {
	case v := <-ch:
		return v.res, v.err, false
	case <-time.After(20 * time.Second):
		return "", nil, true
	}
}

func runTuple(tb ev.TB, t tuple) (delivered bool, firstClass string) {
	p := findProfile(t.Profile)
	first, next := findOp(t.Op), findOp(t.Next)
	if first == nil || next == nil {
		tb.Fatalf("harness: unknown op in %+v", t)
	}
	if t.Fault != "" && t.Next == "Offset" {
		return false, "accessor-after-transport-fault" // Offset does no I/O: not an operation that can fail
	}
	if (t.Next == "Offset" || t.Next == "ReadAtPosition") && (t.Op == "ReadBatch" || t.Op == "ReadMessage" || t.Op == "ReadAtPosition") {
		// these first operations move the Conn's position themselves (successfully) before the failing request: a fresh Conn
		// is not the reference for what the position is afterwards
		return false, "position-moved-by-first-op"
	}
	sig := func(kind string) string {
		return fmt.Sprintf("c11/%s/%s/%s/next=%s", kind, t.Op, apiVersionTag(first, p), "*")
	}
	// A: the connection under test
	a := newEnv(tb, p)
	defer a.cl.Close()
	ca := a.dial(tb)
	defer ca.Close()
	act := &fakecluster.Action{Tag: "fault"}
	switch t.Fault {
	case "":
		act.ErrorCode, act.ErrorField = t.Code, t.Field
		if t.Field == "first-topic" {
			act.ErrorField, act.ErrorFirstOnly = "topic", true
		}
	case "cut":
		act.CutResponse, act.CutResponseAt = true, t.CutAt
	case "drop":
		act.DropResponse = true
	case "no-response":
		act.NoResponse = true // the request is applied, the answer never comes, the connection stays open: the deadline ends the wait
	case "garbage-size":
		act.RawResponse = []byte{0x7f, 0xff, 0xff, 0xf0, 0, 0, 0, 1, 0, 0}
	case "wrong-correlation":
		bad := int32(0x7ead_beef)
		act.CorrOverride = &bad
	case "bad-length":
		// size prefix and correlation id are right, but the CutAt-th string / bytes / array length inside the body points
		// far beyond the end of the frame: a framing error inside an otherwise complete response
		nth := t.CutAt
		act.MutateFrame = func(frame []byte, fields []refcodec.LenField) []byte {
			var inner []refcodec.LenField
			for _, f := range fields {
				if !f.Varint && f.Off >= 8 && (f.Kind == "string" || f.Kind == "bytes" || f.Kind == "array" || f.Kind == "records_size") {
					inner = append(inner, f)
				}
			}
			if len(inner) == 0 {
				return frame
			}
			f := inner[nth%len(inner)]
			out := append([]byte{}, frame...)
			if f.Width == 2 {
				out[f.Off], out[f.Off+1] = 0x7f, 0xf0
			} else {
				// moderate on purpose: the Conn's readers allocate what an array length announces (the statement about
				// allocations, C20, covers the Transport / Client stack only)
				out[f.Off], out[f.Off+1], out[f.Off+2], out[f.Off+3] = 0, 0, 0x7f, 0xf0
			}
			return out
		}
	}
	if t.Site == "apiversions" {
		if t.Field == "empty-list" {
			act.ErrorField = ""
			act.Mutate = func(body map[string]any) { body["ApiKeys"] = []any{} }
		}
		a.arm(18, act)
	} else {
		a.arm(first.API, act)
	}
	wait := 1500 * time.Millisecond
	if t.Fault != "" {
		wait = 400 * time.Millisecond // stalled reads end at the deadline
	}
	ca.SetDeadline(time.Now().Add(wait))
	_, err1, hung1 := callOp(first, a, ca)
	if hung1 {
		ev.Fail(tb, "tuple", fmt.Sprintf("c11/operation-never-returns/%s", t.Op), t, "%s (%s) with fault %q / code %d in field %q had not returned 20 s after it was called (the Conn's deadline was %v away)", t.Op, apiVersionTag(first, p), t.Fault, t.Code, t.Field, wait)
		return false, "hung"
	}
	a.mu.Lock()
	hit := a.hit
	a.armed = nil
	a.mu.Unlock()
	if !hit {
		return false, "not-reached" // the operation did not issue that request (e.g. served otherwise)
	}
	firstClass = classify(err1)
	connID := 0
	for _, ex := range a.cl.Journal() {
		if ex.Seq == a.hitSeq {
			connID = ex.ConnID
		}
	}
	seqBeforeNext := a.cl.Seq()
	ca.SetDeadline(time.Now().Add(wait))
	resA, errA, hungA := callOp(next, a, ca)
	if hungA {
		ev.Fail(tb, "tuple", fmt.Sprintf("c11/next-operation-never-returns/%s", t.Op), t, "after %s (%s) with fault %q / code %d in field %q [%v], %s on the same Conn had not returned 20 s after it was called (the Conn's deadline was %v away)", t.Op, apiVersionTag(first, p), t.Fault, t.Code, t.Field, err1, t.Next, wait)
		return true, firstClass
	}

	if t.Fault == "" {
		if err1 != nil && !isKafka(err1) {
			ev.Fail(tb, "tuple", sig("kafka-code-became-transport-error"), t, "%s (%s) answered with error code %d in field %q failed with a non-Kafka error: %v", t.Op, apiVersionTag(first, p), t.Code, t.Field, err1)
			return true, firstClass
		}
		// B: a fresh connection to an identical cluster, no first operation
		b := newEnv(tb, p)
		defer b.cl.Close()
		cb := b.dial(tb)
		defer cb.Close()
		cb.SetDeadline(time.Now().Add(1500 * time.Millisecond))
		resB, errB := next.Run(b, cb)
		if classify(errA) != classify(errB) || (errA == nil && resA != resB) {
			ev.Fail(tb, "tuple", sig("next-op-differs"), t,
				"after %s (%s) failed with broker error code %d in field %q [%v], %s on the same Conn returned (%q, %v) but on a fresh Conn (%q, %v)",
				t.Op, apiVersionTag(first, p), t.Code, t.Field, err1, t.Next, resA, errA, resB, errB)
		}
		return err1 != nil, firstClass
	}
	// transport-level / framing faults: the first operation must fail with a
	// non-Kafka error, every later operation must fail, nothing more is written
	if err1 == nil && t.Fault == "bad-length" {
		// The operation reported nothing (it may not read the damaged field, or it took the damage for the end of the data):
		// then the Conn must be exactly where a fresh one is.
		b := newEnv(tb, p)
		defer b.cl.Close()
		cb := b.dial(tb)
		defer cb.Close()
		cb.SetDeadline(time.Now().Add(1500 * time.Millisecond))
		if _, errF := first.Run(b, cb); errF != nil {
			return false, "bad-length-unnoticed"
		}
		resB, errB := next.Run(b, cb)
		if classify(errA) != classify(errB) || (errA == nil && resA != resB) {
			ev.Fail(tb, "tuple", fmt.Sprintf("c11/misaligned-after-bad-length/%s", t.Op), t,
				"%s (%s) returned no error for a response whose inner length #%d points beyond the frame; then %s on the same Conn returned (%q, %v) but after the same (undamaged) operation on a fresh Conn (%q, %v)",
				t.Op, apiVersionTag(first, p), t.CutAt, t.Next, resA, errA, resB, errB)
		}
		return false, "bad-length-unnoticed"
	}
	if err1 == nil {
		if t.Fault == "cut" {
			return false, "cut-beyond-what-the-operation-reads"
		}
		ev.Fail(tb, "tuple", fmt.Sprintf("c11/transport-fault-unnoticed/%s/%s", t.Op, t.Fault), t, "%s (%s) returned no error although its response was damaged (%s)", t.Op, apiVersionTag(first, p), t.Fault)
		return false, firstClass
	}
	if errA == nil {
		ev.Fail(tb, "tuple", fmt.Sprintf("c11/conn-reused-after-transport-error/%s/%s", t.Op, t.Fault), t,
			"after %s (%s) failed with %v (%s), %s on the same Conn succeeded with %q", t.Op, apiVersionTag(first, p), err1, t.Fault, t.Next, resA)
		return true, firstClass
	}
	if t.Fault != "wrong-correlation" {
		for _, ex := range a.cl.Journal() {
			if ex.ConnID == connID && ex.Seq > seqBeforeNext {
				// The statement asks that every later operation fails, which it did; that the Conn still sent a request
				// first (it is left open after a correlation-id mismatch) is recorded, not judged.
				ev.Count("obs_request_written_after_framing_error", 1)
				_ = ex
				break
			}
		}
	}
	return true, firstClass
}

func apiVersionTag(o *op, p profile) string {
	switch o.API {
	case 0:
		return fmt.Sprintf("produce-v%d", p.Produce)
	case 1:
		return fmt.Sprintf("fetch-v%d", p.Fetch)
	case 3:
		return fmt.Sprintf("metadata-v%d", p.Metadata)
	case 11:
		return fmt.Sprintf("join-v%d", p.Join)
	case 19:
		return fmt.Sprintf("createtopics-v%d", p.Create)
	case 20:
		return fmt.Sprintf("deletetopics-v%d", p.Delete)
	}
	return fmt.Sprintf("api%d", o.API)
}

// allTuples enumerates the product for broker error codes.
func allTuples() []tuple {
	var out []tuple
	for _, p := range profiles {
		for _, o := range ops {
			for _, f := range o.Fields {
				if f == "top" && o.API == 1 && p.Fetch < 7 {
					continue // fetch has a top-level error code from v7 only
				}
				for _, c := range codes {
					for _, n := range ops {
						out = append(out, tuple{Profile: p.Name, Op: o.Name, Field: f, Code: c, Next: n.Name})
					}
				}
			}
		}
	}
	return out
}

// apiVersionsTuples: the implicit ApiVersions exchange as the failing step, for the operations that negotiate their
// version, followed by operations that do and a few that do not.  Small enough to be run completely in both tiers.
func apiVersionsTuples() []tuple {
	negotiating := []string{"ReadPartitions", "ReadBatch", "ReadMessage", "WriteMessages", "WriteCompressed", "Controller", "Brokers"}
	others := []string{"ReadLastOffset", "Heartbeat", "ApiVersions"}
	var out []tuple
	for _, p := range profiles {
		for _, o := range negotiating {
			for _, f := range []string{"top", "empty-list"} {
				for _, c := range []int16{35, 7, 41} {
					for _, n := range append(append([]string{}, negotiating...), others...) {
						out = append(out, tuple{Profile: p.Name, Op: o, Field: f, Code: c, Next: n, Site: "apiversions"})
					}
				}
			}
		}
	}
	return out
}

// TestApiVersionsErrors runs apiVersionsTuples completely.
func TestApiVersionsErrors(t *testing.T) {
	for i, tp := range apiVersionsTuples() {
		ok, cls := runTuple(t, tp)
		ev.Case(fmt.Sprintf("%+v", tp), ok, "op_"+tp.Op, "next_"+tp.Next, "profile_"+tp.Profile, "field_"+tp.Field, "first_"+cls, "site_apiversions")
		if i%97 == 1 {
			ev.Sample(tp)
		}
	}
}

// TestBrokerErrors runs the enumerated product (quick: a slice that contains
// every (profile, op, field) with rotating codes and next operations).
func TestBrokerErrors(t *testing.T) {
	all := allTuples()
	shards := 1
	idx := 0
	fmt.Sscan(getenv("VERIF_SHARDS", "1"), &shards)
	fmt.Sscan(getenv("VERIF_SHARD_INDEX", "0"), &idx)
	stride := 1
	if ev.Tier() != "thorough" {
		stride = 23 // coprime with |codes| x |ops|: codes and next operations rotate under every (profile, op, field)
	}
	off := int(ev.Seed() % int64(stride))
	n := 0
	delivered := map[string]int{}
	for i := off; i < len(all); i += stride {
		if (i/stride)%shards != idx {
			continue
		}
		tp := all[i]
		ok, cls := runTuple(t, tp)
		n++
		labels := []string{"op_" + tp.Op, "next_" + tp.Next, "profile_" + tp.Profile, "field_" + tp.Field, "first_" + cls}
		if tp.Site != "" {
			labels = append(labels, "site_"+tp.Site)
		}
		ev.Case(fmt.Sprintf("%+v", tp), ok, labels...)
		if ok {
			delivered[tp.Op]++
		}
		if n%97 == 1 {
			ev.Sample(tp)
		}
	}
	var missing []string
	for _, o := range ops {
		if delivered[o.Name] == 0 && o.Name != "Controller" && o.Name != "Brokers" {
			missing = append(missing, o.Name)
		}
	}
	sort.Strings(missing)
	if len(missing) > 0 && shards == 1 {
		ev.Note("ops_whose_error_never_surfaced", strings.Join(missing, ","))
	}
	if stride == 1 {
		ev.Note("exhaustive", "the full (profile x op x field x code x next op) product was run")
	}
}

func getenv(k, d string) string {
	if v := os.Getenv(k); v != "" {
		return v
	}
	return d
}

// TestTransportFaults: cut at a generated byte, dropped response, garbage size
// prefix, wrong correlation id.
func TestTransportFaults(t *testing.T) {
	rapid.Check(t, func(t *rapid.T) {
		tp := tuple{
			Profile: rapid.SampledFrom([]string{"low", "mid", "high"}).Draw(t, "profile"),
			Op:      ops[rapid.IntRange(0, len(ops)-1).Draw(t, "op")].Name,
			Next:    ops[rapid.IntRange(0, len(ops)-1).Draw(t, "next")].Name,
			Fault:   rapid.SampledFrom([]string{"cut", "cut", "drop", "no-response", "no-response", "garbage-size", "wrong-correlation", "bad-length", "bad-length"}).Draw(t, "fault"),
		}
		if tp.Fault == "cut" {
			tp.CutAt = rapid.IntRange(0, 60).Draw(t, "cutAt")
		}
		if tp.Fault == "bad-length" {
			tp.CutAt = rapid.IntRange(0, 12).Draw(t, "nthLength")
			if rapid.Bool().Draw(t, "fetchOp") {
				// fetch responses have the longest header the Conn parses by hand
				tp.Op = rapid.SampledFrom([]string{"ReadBatch", "ReadMessage"}).Draw(t, "fetchOpName")
			}
		}
		ok, cls := runTuple(t, tp)
		ev.Case(fmt.Sprintf("%+v", tp), ok, "fault_"+tp.Fault, "op_"+tp.Op, "first_"+cls)
		ev.Sample(tp)
	})
}

// ---------------------------------------------------------------------------
// Concurrent use: one goroutine reads single messages (Conn.ReadMessage closes its batch before the fetch response was
// read to its end, the rest has to be skipped), others run request/response operations on the same Conn.  The broker
// injects nothing: no operation may fail with io.ErrNoProgress (a response header that belongs to no call in flight, i.e.
// bytes of one response read as the start of another), and every answer must be the one a fresh Conn gives.

type concCase struct {
	Profile string `json:"profile"`
	Readers int    `json:"readers"`
	Others  int    `json:"others"`
	Rounds  int    `json:"rounds"`
	Other   string `json:"other"` // the operation the other goroutines repeat
}

func init() { ev.Register("conc", func(tb ev.TB, c concCase) { runConc(tb, c) }) }

func runConc(tb ev.TB, c concCase) {
	p := findProfile(c.Profile)
	a := newEnv(tb, p)
	defer a.cl.Close()
	conn := a.dial(tb)
	defer conn.Close()
	conn.SetDeadline(time.Now().Add(8 * time.Second))
	other := findOp(c.Other)
	want, werr := other.Run(a, conn)
	if werr != nil {
		return // the operation needs state this unit does not set up
	}
	var wg sync.WaitGroup
	var mu sync.Mutex
	var bad string
	var progress atomic.Int64
	report := func(s string) {
		mu.Lock()
		if bad == "" {
			bad = s
		}
		mu.Unlock()
	}
	for i := 0; i < c.Readers; i++ {
		wg.Add(1)
		go func() {
			defer wg.Done()
			for r := 0; r < c.Rounds; r++ {
				conn.Seek(0, kafka.SeekStart)
				m, err := conn.ReadMessage(1 << 20)
				progress.Add(1)
				if errors.Is(err, io.ErrNoProgress) {
					report(fmt.Sprintf("ReadMessage failed with %v", err))
					return
				}
				// With several readers the Conn's position is moved under each other's feet (documented as hard to predict): a
				// reader may be made to skip to the end of its batch, and Conn.ReadMessage then returns no error and a Message
				// that still holds the value of the last record it skipped.  That is not a misaligned stream; the content is
				// judged with a single reader only.
				if c.Readers == 1 && err == nil && !(string(m.Value) == fmt.Sprintf("v%d", m.Offset) && m.Offset >= 0 && m.Offset <= 2) {
					report(fmt.Sprintf("ReadMessage returned offset %d value %q, the log holds v0,v1,v2 at offsets 0..2", m.Offset, m.Value))
					return
				}
			}
		}()
	}
	for i := 0; i < c.Others; i++ {
		wg.Add(1)
		go func() {
			defer wg.Done()
			for r := 0; r < c.Rounds; r++ {
				got, err := other.Run(a, conn)
				progress.Add(1)
				if errors.Is(err, io.ErrNoProgress) {
					report(fmt.Sprintf("%s failed with %v", c.Other, err))
					return
				}
				if err == nil && got != want {
					report(fmt.Sprintf("%s returned %q, alone on the Conn it returned %q", c.Other, got, want))
					return
				}
			}
		}()
	}
	done := make(chan struct{})
	go func() { wg.Wait(); close(done) }()
	// calls that wait for a response whose header never matches spin without touching the network: the deadline of the
	// Conn cannot end them, closing it does.  Decided by progress (no call returning during 15 s, more than 30 s after the
	// start), not by the clock alone: the machine may be saturated.
	started := time.Now()
	last, still := int64(-1), 0
watch:
	for {
		select {
		case <-done:
			break watch
		case <-time.After(5 * time.Second):
		}
		cur := progress.Load()
		if cur == last {
			still++
		} else {
			still = 0
		}
		last = cur
		stuck := time.Since(started) > 30*time.Second && still >= 3
		if !stuck && time.Since(started) < 15*time.Minute {
			continue
		}
		conn.Close()
		select {
		case <-done:
		case <-time.After(10 * time.Second):
		}
		if !stuck {
			ev.Inconclusive("concurrent_slow_machine")
			return
		}
		report(fmt.Sprintf("some calls had not returned %v after the start and none returned during the last 15 s, although the Conn has a deadline of 8 s", time.Since(started).Round(time.Second)))
		break
	}
	if bad != "" {
		ev.Fail(tb, "conc", "c11/concurrent-misaligned/"+c.Other, c, "%d goroutines reading single messages and %d repeating %s on one Conn, nothing injected by the broker: %s", c.Readers, c.Others, c.Other, bad)
	}
}

func TestConcurrentEarlyClose(t *testing.T) {
	rapid.Check(t, func(t *rapid.T) {
		c := concCase{
			Profile: rapid.SampledFrom([]string{"low", "mid", "high"}).Draw(t, "profile"),
			Readers: rapid.IntRange(1, 3).Draw(t, "readers"),
			Others:  rapid.IntRange(1, 4).Draw(t, "others"),
			Rounds:  rapid.SampledFrom([]int{20, 100, 300}).Draw(t, "rounds"),
			Other:   rapid.SampledFrom([]string{"ReadLastOffset", "ReadFirstOffset", "ReadOffsets", "ReadPartitions", "Controller", "Brokers", "ApiVersions", "ListGroups", "FindCoordinator"}).Draw(t, "other"),
		}
		runConc(t, c)
		ev.Case(fmt.Sprintf("conc %+v", c), true, "concurrent_early_close", "op_"+c.Other)
		ev.Sample(c)
	})
}
