package c11

import (
	"errors"
	"fmt"
	"io"
	"testing"
	"time"

	kafka "github.com/segmentio/kafka-go"
	"pgregory.net/rapid"

	"verif/internal/ev"
	"verif/refcodec"
)

// ---------------------------------------------------------------------------
// Fetch responses left before their end: the log holds a mix of plain and compressed batches, a Batch is opened
// somewhere in it, some of its messages are read and the Batch is closed (what Conn.ReadMessage and Conn.Read do after
// one message).  The rest of the response has to be skipped exactly: the next operation on the Conn must behave as on a
// fresh Conn ("in no case are bytes of one response interpreted as part of another"), unless Close reported a
// non-Kafka error, after which every operation must fail.

type logBatch struct {
	Codec int8 `json:"codec"` // 0 none, 1 gzip, 2 snappy, 3 lz4, 4 zstd
	N     int  `json:"n"`
}

type partialCase struct {
	Profile  string     `json:"profile"`
	Log      []logBatch `json:"log"` // appended after the three records every C11 log starts with
	Start    int64      `json:"start"`
	MaxBytes int        `json:"max_bytes"`
	Read     int        `json:"read"` // messages read before Close
	Next     string     `json:"next"`
	// ShortRead n > 0: read number n (counting from 1) is Batch.Read with a 1-byte buffer (io.ErrShortBuffer: the message is
	// skipped, the Conn stays usable); nothing is read after it.
	ShortRead int `json:"short_read,omitempty"`
}

func init() { ev.Register("partial", func(tb ev.TB, c partialCase) { runPartial(tb, c) }) }

func (c partialCase) env(tb ev.TB) (*env, int64) {
	p := findProfile(c.Profile)
	e := newEnv(tb, p)
	off := int64(3)
	for _, lb := range c.Log {
		var recs []refcodec.Record
		for i := 0; i < lb.N; i++ {
			recs = append(recs, refcodec.Record{Offset: off, Timestamp: 1000 * (off + 1), Key: []byte(fmt.Sprintf("k%d", off)), Value: []byte(fmt.Sprintf("v%d", off))})
			off++
		}
		if p.Fetch < 4 {
			e.cl.AppendBatches(topic, 0, refcodec.Batch{Magic: 1, Codec: lb.Codec, RelativeInner: true, Records: recs})
		} else {
			e.cl.AppendBatches(topic, 0, refcodec.MakeBatchV2(recs, lb.Codec))
		}
	}
	return e, off
}

func runPartial(tb ev.TB, c partialCase) (readN int, closeClass string) {
	next := findOp(c.Next)
	if next == nil {
		tb.Fatalf("harness: unknown op in %+v", c)
	}
	a, end := c.env(tb)
	defer a.cl.Close()
	ca := a.dial(tb)
	defer ca.Close()
	ca.SetDeadline(time.Now().Add(3 * time.Second))
	fail := func(sig, format string, args ...any) { ev.Fail(tb, "partial", sig, c, format, args...) }
	if _, err := ca.Seek(c.Start, kafka.SeekAbsolute|kafka.SeekDontCheck); err != nil {
		tb.Fatalf("harness: seek: %v", err)
	}
	b := ca.ReadBatchWith(kafka.ReadBatchConfig{MinBytes: 1, MaxBytes: c.MaxBytes, MaxWait: 20 * time.Millisecond})
	expect := c.Start
	for readN < c.Read {
		if c.ShortRead == readN+1 {
			if _, err := b.Read(make([]byte, 1)); err != nil && !errors.Is(err, io.ErrShortBuffer) && !errors.Is(err, io.EOF) && !isKafka(err) {
				closeClass = "short-read-" + classify(err)
			}
			break
		}
		m, err := b.ReadMessage()
		if err != nil {
			break
		}
		if m.Offset != expect || m.Offset >= end || string(m.Value) != fmt.Sprintf("v%d", m.Offset) {
			fail("c11/partial/wrong-message", "Batch opened at offset %d: message #%d has offset %d value %q, the log holds v<offset> at offsets 0..%d and the next one is %d", c.Start, readN, m.Offset, m.Value, end-1, expect)
			return
		}
		expect++
		readN++
	}
	cerr := b.Close()
	if closeClass == "" {
		closeClass = classify(cerr)
	}
	ca.SetDeadline(time.Now().Add(1500 * time.Millisecond))
	resA, errA := next.Run(a, ca)
	if cerr != nil && !isKafka(cerr) && !errors.Is(cerr, io.ErrShortBuffer) {
		if errA == nil {
			fail("c11/partial/conn-reused-after-close-error", "Batch.Close reported %v, yet %s on the same Conn succeeded with %q", cerr, c.Next, resA)
		}
		return
	}
	fresh, _ := c.env(tb)
	defer fresh.cl.Close()
	cb := fresh.dial(tb)
	defer cb.Close()
	cb.SetDeadline(time.Now().Add(1500 * time.Millisecond))
	resB, errB := next.Run(fresh, cb)
	if classify(errA) != classify(errB) || (errA == nil && resA != resB) {
		fail("c11/partial/next-op-differs", "Batch opened at offset %d (MaxBytes %d) and closed after %d messages (Close: %v); then %s on the same Conn returned (%q, %v) but on a fresh Conn (%q, %v)",
			c.Start, c.MaxBytes, readN, cerr, c.Next, resA, errA, resB, errB)
	}
	return
}

func TestPartialReads(t *testing.T) {
	rapid.Check(t, func(t *rapid.T) {
		c := partialCase{Profile: rapid.SampledFrom([]string{"low", "mid", "high"}).Draw(t, "profile")}
		total := int64(3)
		compressed := false
		for i, n := 0, rapid.IntRange(1, 4).Draw(t, "batches"); i < n; i++ {
			lb := logBatch{Codec: rapid.SampledFrom([]int8{0, 1, 1, 2, 3, 4}).Draw(t, "codec"), N: rapid.IntRange(1, 6).Draw(t, "n")}
			if c.Profile == "low" && lb.Codec == 4 {
				lb.Codec = 1 // zstd needs message format 2
			}
			compressed = compressed || lb.Codec != 0
			c.Log = append(c.Log, lb)
			total += int64(lb.N)
		}
		c.Start = int64(rapid.IntRange(0, int(total)-1).Draw(t, "start"))
		c.MaxBytes = rapid.SampledFrom([]int{1 << 20, 1 << 20, 1 << 20, 400, 250, 150, 90}).Draw(t, "maxBytes")
		c.Read = rapid.IntRange(0, int(total-c.Start)).Draw(t, "read")
		if rapid.IntRange(0, 4).Draw(t, "short") == 0 {
			c.ShortRead = 1 + rapid.IntRange(0, c.Read).Draw(t, "shortAt")
		}
		c.Next = rapid.SampledFrom([]string{"ReadLastOffset", "ReadOffsets", "ReadPartitions", "Brokers", "ApiVersions", "ReadBatch", "ReadMessage", "WriteMessages", "OffsetFetch", "Heartbeat"}).Draw(t, "next")
		readN, cc := runPartial(t, c)
		labels := []string{"partial_read", "close_" + cc}
		if compressed {
			labels = append(labels, "compressed_log")
		}
		switch {
		case readN == 0:
			labels = append(labels, "closed_unread")
		case int64(readN) == total-c.Start:
			labels = append(labels, "read_to_end")
		default:
			labels = append(labels, "closed_midway")
		}
		if c.MaxBytes < 1<<20 {
			labels = append(labels, "small_max_bytes")
		}
		if c.ShortRead > 0 {
			labels = append(labels, "short_buffer_read")
		}
		ev.Case(fmt.Sprintf("partial %s log%v start%d read%d max%d next=%s close=%s", c.Profile, c.Log, c.Start, readN, c.MaxBytes, c.Next, cc), readN > 0 && compressed, labels...)
		ev.Sample(c)
	})
}
