//go:build !race

package c10

const raceEnabled = false

func raceErrors() int { return 0 }
