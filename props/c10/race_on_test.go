//go:build race

package c10

import "runtime"

const raceEnabled = true

// raceErrors is the number of reports the race detector has printed so far.
func raceErrors() int { return runtime.RaceErrors() }
