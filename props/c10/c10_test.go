// Package c10 decides property C10: the types documented as goroutine-safe
// are free of data races.
//
// Generated concurrent client programs (2-4 goroutines, each a short list of
// exported-method calls on ONE shared value) run against the fake cluster in
// a binary built with the race detector.  The detector's reports are read
// back in-process (GORACE log_path + runtime.RaceErrors) after every program,
// so that a report is attributed to the program that produced it, gets a
// signature (the innermost library frames of the two conflicting accesses),
// is matched against the known findings and becomes a replayable case.
package c10

import (
	"bytes"
	"context"
	"crypto/tls"
	"fmt"
	"hash"
	"hash/fnv"
	"io"
	"net"
	"os"
	"path/filepath"
	"reflect"
	"regexp"
	"runtime"
	"sort"
	"strings"
	"sync"
	"syscall"
	"testing"
	"time"

	kafka "github.com/segmentio/kafka-go"
	"github.com/segmentio/kafka-go/compress"
	cgzip "github.com/segmentio/kafka-go/compress/gzip"
	clz4 "github.com/segmentio/kafka-go/compress/lz4"
	csnappy "github.com/segmentio/kafka-go/compress/snappy"
	czstd "github.com/segmentio/kafka-go/compress/zstd"
	"pgregory.net/rapid"

	"verif/fakecluster"
	"verif/internal/ev"
	"verif/memnet"
	"verif/refcodec"
)

var (
	raceLogPrefix string
	raceLogOff    int64
	harnessFailed bool
	unknownRaces  int
)

func TestMain(m *testing.M) {
	if raceEnabled {
		// The detector must write its reports where this process can read them back.
		gr := os.Getenv("GORACE")
		if !strings.Contains(gr, "log_path=") {
			dir := os.Getenv("VERIF_REPLAY_DIR")
			if dir == "" {
				dir = os.TempDir()
			}
			os.MkdirAll(dir, 0o755)
			shard := os.Getenv("VERIF_SHARD")
			if shard == "" {
				shard = "manual"
			}
			prefix := filepath.Join(dir, "racelog-"+shard)
			os.Setenv("GORACE", strings.TrimSpace(gr+" log_path="+prefix+" atexit_sleep_ms=0"))
			os.Setenv("VERIF_RACELOG", prefix)
			exe, err := os.Executable()
			if err == nil {
				err = syscall.Exec(exe, os.Args, os.Environ())
			}
			fmt.Fprintf(os.Stderr, "c10: cannot re-exec with GORACE log_path: %v\n", err)
			os.Exit(2)
		}
		raceLogPrefix = os.Getenv("VERIF_RACELOG")
		if raceLogPrefix == "" {
			for _, f := range strings.Fields(gr) {
				if strings.HasPrefix(f, "log_path=") {
					raceLogPrefix = strings.TrimPrefix(f, "log_path=")
				}
			}
		}
		os.Remove(raceLogFile())
	}
	ev.MainFunc(m, "C10", func(code int) int {
		// `testing` fails a test as soon as the detector has reported anything, also for reports that are
		// listed as known findings: the exit code is decided by what this package recorded.
		if code != 0 && !harnessFailed && unknownRaces == 0 && ev.ViolationCount() == 0 && raceErrors() > 0 {
			return 0
		}
		return code
	})
}

func raceLogFile() string { return fmt.Sprintf("%s.%d", raceLogPrefix, os.Getpid()) }

func TestReplay(t *testing.T) { ev.RunReplay(t) }

// ---------------------------------------------------------------------------
// race reports

type raceReport struct {
	Accesses [][]string // frames (function names) of the two conflicting accesses, innermost first
	Raw      string
}

var accessHeader = regexp.MustCompile(`^(Read|Write|Previous read|Previous write|Atomic read|Atomic write|Previous atomic read|Previous atomic write) at `)

func parseRaceReports(text string) []raceReport {
	var out []raceReport
	for _, block := range strings.Split(text, "==================") {
		if !strings.Contains(block, "WARNING: DATA RACE") {
			continue
		}
		r := raceReport{Raw: strings.TrimSpace(block)}
		var cur []string
		in := false
		flush := func() {
			if in {
				r.Accesses = append(r.Accesses, cur)
			}
			cur, in = nil, false
		}
		for _, l := range strings.Split(block, "\n") {
			switch {
			case accessHeader.MatchString(l):
				flush()
				in = true
			case strings.HasPrefix(l, "Goroutine ") || strings.HasPrefix(l, "[failed to restore the stack]"):
				flush()
			case in && strings.HasPrefix(l, "  ") && !strings.HasPrefix(l, "      ") && strings.TrimSpace(l) != "":
				fn := strings.TrimSpace(l)
				if i := strings.LastIndex(fn, "("); i > 0 {
					fn = fn[:i]
				}
				cur = append(cur, fn)
			}
		}
		flush()
		out = append(out, r)
	}
	return out
}

const libPrefix = "github.com/segmentio/kafka-go"

// owner returns the innermost frame of an access that belongs either to the
// library or to the harness: the code that performed the access (frames of the
// standard library called from it are skipped).
func owner(frames []string) (frame string, library bool) {
	for _, f := range frames {
		if strings.HasPrefix(f, libPrefix) {
			return strings.TrimPrefix(strings.TrimPrefix(f, libPrefix), "/"), true
		}
		if strings.HasPrefix(f, "verif/") {
			return "harness:" + f, false
		}
	}
	if len(frames) > 0 {
		return "other:" + frames[0], false
	}
	return "other:?", false
}

// signature of a report: the two owners, sorted.  library = at least one of
// the conflicting accesses was performed by library code.
func (r raceReport) signature() (sig string, library bool) {
	var parts []string
	for _, a := range r.Accesses {
		f, lib := owner(a)
		parts = append(parts, f)
		library = library || lib
	}
	sort.Strings(parts)
	return "c10/race/" + strings.Join(parts, "|"), library
}

// newRaceReports returns the reports the detector has written since the last call.
func newRaceReports() []raceReport {
	if !raceEnabled {
		return nil
	}
	b, err := os.ReadFile(raceLogFile())
	if err != nil || int64(len(b)) <= raceLogOff {
		return nil
	}
	text := string(b[raceLogOff:])
	raceLogOff = int64(len(b))
	return parseRaceReports(text)
}

// ---------------------------------------------------------------------------
// programs

type Op struct {
	Name string `json:"name"`
	Arg  int    `json:"arg,omitempty"`
}

type Program struct {
	Subject string `json:"subject"` // writer | reader | groupreader | conn | batch | client | balancer | codec
	Variant string `json:"variant,omitempty"`
	Records int    `json:"records"`
	Threads [][]Op `json:"threads"`
	Reps    int    `json:"reps"` // every thread runs its list this many times
	// Pause: schedule point -> microseconds to sleep there (a plain sleep: unlike parking it adds no synchronisation that
	// could hide a race from the detector); e.g. Close pausing after it marked a Reader closed widens that window.
	Pause map[string]int `json:"pause,omitempty"`
	// Logger: the Writer / Reader gets a Logger and an ErrorLogger (no-ops that are safe for concurrent use): the logging
	// closures of the library run and read whatever they print.
	Logger bool `json:"logger,omitempty"`
}

var nopLogger = kafka.LoggerFunc(func(string, ...interface{}) {})

func init() {
	ev.Register("program", func(tb ev.TB, p Program) { runProgram(tb, p) })
}

var menus = map[string][]string{
	"writer":      {"write1", "write3", "writeCancel", "stats", "stats", "envAddBroker", "envDropBroker", "envMoveLeader", "close"},
	"reader":      {"fetch", "fetch", "read", "setOffset", "setOffsetAt", "offset", "lag", "readLag", "stats", "config", "close"},
	"groupreader": {"fetch", "fetch", "commit", "commit", "read", "offset", "lag", "stats", "config", "envRebalance", "envRebalance", "close", "close"},
	"conn": {"setDeadline", "setReadDeadline", "setWriteDeadline", "offset", "seekStart", "seekEnd", "seekAbs", "seekCur", "seekCurNoCheck", "seekAbsNoCheck", "firstOffset", "lastOffset", "readOffsets",
		"write", "writeCompressed", "readBatch", "readMessage", "read", "partitions", "brokers", "controller", "apiVersions", "broker", "addrs", "createTopics", "deleteTopics", "setRequiredAcks", "close"},
	"batch":    {"read", "read", "readShort", "readMessage", "readMessage", "offset", "hwm", "throttle", "partition", "err", "close"},
	"client":   {"metadata", "listOffsets", "produce", "fetch", "createTopics", "offsetFetch", "offsetCommit", "listGroups", "describeGroups", "apiVersions", "consumerOffsets", "closeIdle", "envAddBroker", "envDropBroker", "envMoveLeader"},
	"balancer": {"balance", "balance", "balanceNilKey", "balanceOtherPartitions"},
	"codec":    {"roundtrip", "roundtrip", "compress", "decompress", "name", "doubleClose"},
}

var variants = map[string][]string{
	"writer":      {"sync", "async", "sync-hash", "async-leastbytes", "sync-multitopic"},
	"reader":      {"plain"},
	"groupreader": {"sync-commit", "interval-commit"},
	"conn":        {"leader", "leader", "leader-old-produce"},
	"batch":       {"v2", "v1-gzip", "v2-snappy"},
	"client":      {"ttl-short", "ttl-long", "tls-two-addresses", "multi-bootstrap", "resolver"},
	"balancer":    {"roundrobin", "roundrobin-chunk3", "leastbytes", "hash", "hash-custom-hasher", "refhash", "crc32", "crc32-consistent", "murmur2", "murmur2-consistent"},
	"codec":       {"gzip", "snappy", "snappy-unframed", "lz4", "zstd"},
}

var subjects = []string{"writer", "reader", "groupreader", "conn", "batch", "client", "balancer", "codec"}

type opTrace struct {
	thread     int
	start, end time.Time
}

// env is what the ops of one program share.
type env struct {
	p    Program
	nw   *memnet.Network
	cl   *fakecluster.Cluster
	tr   *kafka.Transport
	w    *kafka.Writer
	r    *kafka.Reader
	conn *kafka.Conn
	b    *kafka.Batch
	c    *kafka.Client
	c2   *kafka.Client // second cluster address on the same Transport (variant tls-two-addresses)
	bal  kafka.Balancer
	cod  compress.Codec
	blob []byte // codec: a stream compressed beforehand
	// per thread: the last message fetched (for commit)
	last []kafka.Message
}

const addr = "b1.fake:9092"

func records(n int) []refcodec.Record {
	var recs []refcodec.Record
	for i := 0; i < n; i++ {
		recs = append(recs, refcodec.Record{Offset: int64(i), Timestamp: int64(1000 + i), Key: []byte(fmt.Sprintf("k%d", i)), Value: []byte(fmt.Sprintf("value-%d", i))})
	}
	return recs
}

func (e *env) dialer() *kafka.Dialer {
	return &kafka.Dialer{Timeout: 2 * time.Second, ClientID: "c10", DialFunc: e.nw.Dial}
}

func setup(tb ev.TB, p Program) *env {
	e := &env{p: p, last: make([]kafka.Message, len(p.Threads))}
	switch p.Subject {
	case "balancer":
		switch p.Variant {
		case "roundrobin":
			e.bal = &kafka.RoundRobin{}
		case "roundrobin-chunk3":
			e.bal = &kafka.RoundRobin{ChunkSize: 3}
		case "leastbytes":
			e.bal = &kafka.LeastBytes{}
		case "hash":
			e.bal = &kafka.Hash{}
		case "hash-custom-hasher":
			// a Hasher given by the user is shared by every Balance call
			e.bal = &kafka.Hash{Hasher: fnvHasher()}
		case "refhash":
			e.bal = &kafka.ReferenceHash{}
		case "crc32":
			e.bal = kafka.CRC32Balancer{}
		case "crc32-consistent":
			e.bal = kafka.CRC32Balancer{Consistent: true}
		case "murmur2":
			e.bal = kafka.Murmur2Balancer{}
		default:
			e.bal = kafka.Murmur2Balancer{Consistent: true}
		}
		return e
	case "codec":
		switch p.Variant {
		case "gzip":
			e.cod = &cgzip.Codec{}
		case "snappy":
			e.cod = &csnappy.Codec{}
		case "snappy-unframed":
			e.cod = &csnappy.Codec{Framing: csnappy.Unframed}
		case "lz4":
			e.cod = &clz4.Codec{}
		default:
			e.cod = &czstd.Codec{}
		}
		// the blob is made with a codec value of its own: the one the threads share has not been used before they start
		mk := reflect.New(reflect.TypeOf(e.cod).Elem())
		mk.Elem().Set(reflect.ValueOf(e.cod).Elem())
		var buf bytes.Buffer
		w := mk.Interface().(compress.Codec).NewWriter(&buf)
		w.Write(payload(3000))
		w.Close()
		e.blob = buf.Bytes()
		return e
	}
	e.nw = memnet.New()
	e.cl = fakecluster.New(e.nw, 1)
	e.cl.CreateTopic("t", 2)
	e.cl.CreateTopic("t2", 1)
	for part := int32(0); part < 2; part++ {
		if p.Records > 0 {
			switch {
			case p.Subject == "batch" && p.Variant == "v1-gzip":
				e.cl.AppendBatches("t", part, refcodec.Batch{Magic: 1, Codec: 1, RelativeInner: true, Records: records(p.Records)})
			case p.Subject == "batch" && p.Variant == "v2-snappy":
				e.cl.AppendBatches("t", part, refcodec.MakeBatchV2(records(p.Records), 2))
			default:
				e.cl.AppendBatches("t", part, refcodec.MakeBatchV2(records(p.Records), 0))
			}
		}
	}
	switch p.Subject {
	case "writer":
		e.tr = &kafka.Transport{Dial: e.nw.Dial, MetadataTTL: 30 * time.Millisecond, DialTimeout: 2 * time.Second, IdleTimeout: 5 * time.Second, ClientID: "c10"}
		e.w = &kafka.Writer{Addr: kafka.TCP(addr), Topic: "t", Transport: e.tr, BatchSize: 2, BatchTimeout: 2 * time.Millisecond, MaxAttempts: 2,
			WriteTimeout: 2 * time.Second, ReadTimeout: 2 * time.Second, RequiredAcks: kafka.RequireAll,
			Completion: func(messages []kafka.Message, err error) {}}
		switch p.Variant {
		case "async":
			e.w.Async = true
		case "sync-hash":
			e.w.Balancer = &kafka.Hash{}
		case "async-leastbytes":
			e.w.Async = true
			e.w.Balancer = &kafka.LeastBytes{}
		case "sync-multitopic":
			e.w.Topic = "" // the topic travels with each message
		}
		if p.Logger {
			e.w.Logger, e.w.ErrorLogger = nopLogger, nopLogger
		}
	case "reader":
		cfg := kafka.ReaderConfig{Brokers: []string{addr}, Topic: "t", Partition: 0, Dialer: e.dialer(), MinBytes: 1, MaxBytes: 1 << 20, MaxWait: 50 * time.Millisecond,
			ReadLagInterval: 5 * time.Millisecond, ReadBackoffMin: time.Millisecond, ReadBackoffMax: 5 * time.Millisecond, MaxAttempts: 2, QueueCapacity: 3}
		if p.Logger {
			cfg.Logger, cfg.ErrorLogger = nopLogger, nopLogger
		}
		e.r = kafka.NewReader(cfg)
	case "groupreader":
		cfg := kafka.ReaderConfig{Brokers: []string{addr}, Topic: "t", GroupID: "g", Dialer: e.dialer(), MinBytes: 1, MaxBytes: 1 << 20, MaxWait: 50 * time.Millisecond,
			ReadBackoffMin: time.Millisecond, ReadBackoffMax: 5 * time.Millisecond, MaxAttempts: 2, QueueCapacity: 3,
			HeartbeatInterval: 10 * time.Millisecond, SessionTimeout: 2 * time.Second, RebalanceTimeout: 150 * time.Millisecond, JoinGroupBackoff: 10 * time.Millisecond,
			PartitionWatchInterval: 20 * time.Millisecond, WatchPartitionChanges: true}
		if p.Variant == "interval-commit" {
			cfg.CommitInterval = 5 * time.Millisecond
		}
		if p.Logger {
			cfg.Logger, cfg.ErrorLogger = nopLogger, nopLogger
		}
		e.r = kafka.NewReader(cfg)
	case "conn", "batch":
		if p.Variant == "leader-old-produce" {
			e.cl.SetVersions(0, 0, 0, 2) // the Conn's oldest produce path (message sets)
		}
		ctx, cancel := context.WithTimeout(context.Background(), 3*time.Second)
		conn, err := e.dialer().DialLeader(ctx, "tcp", addr, "t", 0)
		cancel()
		if err != nil {
			harnessFailed = true
			tb.Fatalf("harness: DialLeader: %v", err)
		}
		e.conn = conn
		conn.SetDeadline(time.Now().Add(2 * time.Second))
		if p.Subject == "batch" {
			e.b = conn.ReadBatch(1, 1<<20)
		}
	case "client":
		ttl := 5 * time.Millisecond
		if p.Variant == "ttl-long" {
			ttl = 10 * time.Second
		}
		e.tr = &kafka.Transport{Dial: e.nw.Dial, MetadataTTL: ttl, DialTimeout: 2 * time.Second, IdleTimeout: 5 * time.Second, ClientID: "c10"}
		e.c = &kafka.Client{Addr: kafka.TCP(addr), Transport: e.tr, Timeout: 2 * time.Second}
		if p.Variant == "multi-bootstrap" {
			// the address the Client is given lists two brokers: the Transport may try them in any order, the list is the caller's
			e.cl.AddBroker(2, "")
			e.c.Addr = kafka.TCP(addr, "b2.fake:9092")
		}
		if p.Variant == "resolver" {
			// Transport.Resolver: the pool asks it for the addresses of a broker before every connection it grabs
			e.tr.Resolver = fakeResolver{}
			e.tr.MetadataTTL = 10 * time.Second // requests of the program and the pool's own share the bootstrap group
			e.tr.Dial = func(ctx context.Context, network, address string) (net.Conn, error) {
				host, port, _ := net.SplitHostPort(address)
				if ip := net.ParseIP(host).To4(); ip != nil && ip[0] == 10 {
					address = fmt.Sprintf("b%d.fake:%s", ip[3], port)
				}
				return e.nw.Dial(ctx, network, address)
			}
		}
		if p.Variant == "tls-two-addresses" {
			// One Transport with a TLS configuration that names no server, used for two cluster addresses.  The fake brokers do
			// not speak TLS: every connection attempt fails in the handshake, which is all the shared configuration needs.
			e.cl.AddBroker(2, "")
			e.tr.TLS = &tls.Config{InsecureSkipVerify: true}
			e.tr.DialTimeout = 150 * time.Millisecond
			e.c.Timeout = 300 * time.Millisecond
			e.c2 = &kafka.Client{Addr: kafka.TCP("b2.fake:9092"), Transport: e.tr, Timeout: 300 * time.Millisecond}
		}
	}
	return e
}

func fnvHasher() hash.Hash32 { return fnv.New32a() }

func payload(n int) []byte {
	b := make([]byte, n)
	for i := range b {
		b[i] = byte('a' + (i*i)%17)
	}
	return b
}

func (e *env) teardown() {
	if e.b != nil {
		e.b.Close()
	}
	if e.conn != nil {
		e.conn.Close()
	}
	if e.w != nil {
		done := make(chan struct{})
		go func() { e.w.Close(); close(done) }()
		select {
		case <-done:
		case <-time.After(15 * time.Second):
		}
	}
	if e.r != nil {
		done := make(chan struct{})
		go func() { e.r.Close(); close(done) }()
		select {
		case <-done:
		case <-time.After(15 * time.Second):
		}
	}
	if e.tr != nil {
		e.tr.CloseIdleConnections()
	}
	if e.cl != nil {
		e.cl.Close()
	}
}

var keys = [][]byte{nil, {}, []byte("a"), []byte("key-1"), []byte("another key"), {0xff, 0xfe, 0x80}}

// exec runs one operation; the results are irrelevant, only the memory accesses matter.
func (e *env) exec(thread int, op Op) {
	short := func(ms int) (context.Context, context.CancelFunc) {
		return context.WithTimeout(context.Background(), time.Duration(ms)*time.Millisecond)
	}
	msg := func(i int) kafka.Message {
		m := kafka.Message{Key: []byte(fmt.Sprintf("t%d-%d", thread, i)), Value: []byte(fmt.Sprintf("written by thread %d (%d)", thread, op.Arg))}
		if e.p.Subject == "writer" && e.p.Variant == "sync-multitopic" {
			m.Topic = []string{"t", "t2"}[(op.Arg+i)%2]
		}
		return m
	}
	// environment events (not library calls): the cluster changes while the program runs
	switch op.Name {
	case "envAddBroker":
		e.cl.AddBroker(int32(2+op.Arg%2), "")
		return
	case "envDropBroker":
		id := int32(2 + op.Arg%2)
		e.cl.Lock()
		for _, t := range []string{"t"} {
			for part := int32(0); part < 2; part++ {
				if pp := e.cl.PartitionUnlocked(t, part); pp != nil && pp.Leader == id {
					pp.Leader, pp.Replicas, pp.ISR = 1, []int32{1}, []int32{1}
				}
			}
		}
		if b := e.cl.BrokerUnlocked(id); b != nil {
			b.Alive = false
		}
		e.cl.Unlock()
		return
	case "envRebalance":
		e.cl.ForceRebalance("g")
		return
	case "envMoveLeader":
		ids := e.cl.BrokerIDs()
		e.cl.MoveLeader("t", int32(op.Arg%2), ids[(op.Arg/2)%len(ids)])
		return
	}
	switch e.p.Subject {
	case "writer":
		switch op.Name {
		case "write1":
			ctx, cancel := short(2000)
			e.w.WriteMessages(ctx, msg(0))
			cancel()
		case "write3":
			ctx, cancel := short(2000)
			e.w.WriteMessages(ctx, msg(0), msg(1), msg(2))
			cancel()
		case "writeCancel":
			ctx, cancel := context.WithTimeout(context.Background(), time.Duration(op.Arg%3000)*time.Microsecond)
			e.w.WriteMessages(ctx, msg(0), msg(1))
			cancel()
		case "stats":
			e.w.Stats()
		case "close":
			e.w.Close()
		}
	case "reader", "groupreader":
		switch op.Name {
		case "fetch":
			ctx, cancel := short(60)
			if m, err := e.r.FetchMessage(ctx); err == nil {
				e.last[thread] = m
			}
			cancel()
		case "read":
			ctx, cancel := short(60)
			if m, err := e.r.ReadMessage(ctx); err == nil {
				e.last[thread] = m
			}
			cancel()
		case "commit":
			if e.last[thread].Topic != "" {
				ctx, cancel := short(300)
				e.r.CommitMessages(ctx, e.last[thread])
				cancel()
			}
		case "setOffset":
			n := int64(0)
			if e.p.Records > 0 {
				n = int64(op.Arg % e.p.Records)
			}
			e.r.SetOffset(n)
		case "setOffsetAt":
			ctx, cancel := short(300)
			e.r.SetOffsetAt(ctx, time.UnixMilli(int64(1000+op.Arg%(e.p.Records+1))))
			cancel()
		case "offset":
			e.r.Offset()
		case "lag":
			e.r.Lag()
		case "readLag":
			ctx, cancel := short(300)
			e.r.ReadLag(ctx)
			cancel()
		case "stats":
			e.r.Stats()
		case "config":
			e.r.Config()
		case "close":
			e.r.Close()
		}
	case "conn":
		c := e.conn
		dl := time.Now().Add(time.Duration(50+op.Arg%150) * time.Millisecond)
		switch op.Name {
		case "setDeadline":
			c.SetDeadline(dl)
		case "setReadDeadline":
			c.SetReadDeadline(dl)
		case "setWriteDeadline":
			c.SetWriteDeadline(dl)
		case "offset":
			c.Offset()
		case "seekStart":
			c.Seek(0, kafka.SeekStart)
		case "seekEnd":
			c.Seek(int64(op.Arg%2), kafka.SeekEnd)
		case "seekAbs":
			c.Seek(int64(op.Arg%(e.p.Records+1)), kafka.SeekAbsolute)
		case "seekCur":
			c.Seek(int64(op.Arg%2), kafka.SeekCurrent)
		case "seekCurNoCheck":
			c.Seek(int64(op.Arg%2), kafka.SeekCurrent|kafka.SeekDontCheck)
		case "seekAbsNoCheck":
			c.Seek(int64(op.Arg%(e.p.Records+1)), kafka.SeekAbsolute|kafka.SeekDontCheck)
		case "firstOffset":
			c.ReadFirstOffset()
		case "lastOffset":
			c.ReadLastOffset()
		case "readOffsets":
			c.ReadOffsets()
		case "write":
			c.WriteMessages(msg(0))
		case "writeCompressed":
			c.WriteCompressedMessages(&compress.GzipCodec, msg(0), msg(1))
		case "readBatch":
			b := c.ReadBatch(1, 1<<20)
			for i := 0; i < 1+op.Arg%3; i++ {
				if _, err := b.ReadMessage(); err != nil {
					break
				}
			}
			b.Close()
		case "readMessage":
			c.ReadMessage(1 << 20)
		case "read":
			c.Read(make([]byte, 64))
		case "partitions":
			c.ReadPartitions("t")
		case "brokers":
			c.Brokers()
		case "controller":
			c.Controller()
		case "apiVersions":
			c.ApiVersions()
		case "broker":
			c.Broker()
		case "addrs":
			c.LocalAddr()
			c.RemoteAddr()
		case "createTopics":
			c.CreateTopics(kafka.TopicConfig{Topic: fmt.Sprintf("made-%d", op.Arg%3), NumPartitions: 1, ReplicationFactor: 1})
		case "deleteTopics":
			c.DeleteTopics(fmt.Sprintf("made-%d", op.Arg%3))
		case "setRequiredAcks":
			c.SetRequiredAcks([]int{-1, 1}[op.Arg%2])
		case "close":
			c.Close()
		}
	case "batch":
		b := e.b
		switch op.Name {
		case "read":
			b.Read(make([]byte, 64))
		case "readShort":
			b.Read(make([]byte, 1+op.Arg%3)) // shorter than the value: io.ErrShortBuffer, the message is skipped
		case "readMessage":
			b.ReadMessage()
		case "offset":
			b.Offset()
		case "hwm":
			b.HighWaterMark()
		case "throttle":
			b.Throttle()
		case "partition":
			b.Partition()
		case "err":
			b.Err()
		case "close":
			b.Close()
		}
	case "client":
		ctx, cancel := short(2000)
		defer cancel()
		if e.c2 != nil {
			// every call needs a connection and fails in the TLS handshake; alternate between the two addresses
			ctx2, cancel2 := short(300)
			defer cancel2()
			cli := e.c
			if (op.Arg+thread)%2 == 1 {
				cli = e.c2
			}
			cli.Metadata(ctx2, &kafka.MetadataRequest{Topics: []string{"t"}})
			return
		}
		switch op.Name {
		case "metadata":
			e.c.Metadata(ctx, &kafka.MetadataRequest{Topics: []string{"t"}})
		case "listOffsets":
			e.c.ListOffsets(ctx, &kafka.ListOffsetsRequest{Topics: map[string][]kafka.OffsetRequest{"t": {kafka.FirstOffsetOf(0), kafka.LastOffsetOf(1)}}})
		case "produce":
			e.c.Produce(ctx, &kafka.ProduceRequest{Topic: "t", Partition: op.Arg % 2, RequiredAcks: kafka.RequireAll,
				Records: kafka.NewRecordReader(kafka.Record{Key: kafka.NewBytes([]byte("k")), Value: kafka.NewBytes([]byte("v"))})})
		case "fetch":
			res, err := e.c.Fetch(ctx, &kafka.FetchRequest{Topic: "t", Partition: op.Arg % 2, Offset: 0, MinBytes: 1, MaxBytes: 1 << 20, MaxWait: 20 * time.Millisecond})
			if err == nil && res.Records != nil {
				for {
					rec, err := res.Records.ReadRecord()
					if err != nil {
						break
					}
					if rec.Key != nil {
						io.Copy(io.Discard, rec.Key)
						rec.Key.Close()
					}
					if rec.Value != nil {
						io.Copy(io.Discard, rec.Value)
						rec.Value.Close()
					}
				}
			}
		case "createTopics":
			e.c.CreateTopics(ctx, &kafka.CreateTopicsRequest{Topics: []kafka.TopicConfig{{Topic: fmt.Sprintf("new-%d", op.Arg%3), NumPartitions: 1, ReplicationFactor: 1}}})
		case "offsetFetch":
			e.c.OffsetFetch(ctx, &kafka.OffsetFetchRequest{GroupID: "g", Topics: map[string][]int{"t": {0, 1}}})
		case "offsetCommit":
			e.c.OffsetCommit(ctx, &kafka.OffsetCommitRequest{GroupID: "g", GenerationID: -1, Topics: map[string][]kafka.OffsetCommit{"t": {{Partition: 0, Offset: int64(op.Arg % 5)}}}})
		case "listGroups":
			e.c.ListGroups(ctx, &kafka.ListGroupsRequest{})
		case "describeGroups":
			e.c.DescribeGroups(ctx, &kafka.DescribeGroupsRequest{GroupIDs: []string{"g"}})
		case "apiVersions":
			e.c.ApiVersions(ctx, &kafka.ApiVersionsRequest{})
		case "consumerOffsets":
			e.c.ConsumerOffsets(ctx, kafka.TopicAndGroup{Topic: "t", GroupId: "g"})
		case "closeIdle":
			e.tr.CloseIdleConnections()
		}
	case "balancer":
		parts := []int{0, 1, 2, 3, 4}
		m := kafka.Message{Key: keys[op.Arg%len(keys)], Value: payload(op.Arg % 40)}
		switch op.Name {
		case "balance":
			e.bal.Balance(m, parts...)
		case "balanceNilKey":
			m.Key = nil
			e.bal.Balance(m, parts...)
		case "balanceOtherPartitions":
			e.bal.Balance(m, parts[:1+op.Arg%5]...)
		}
	case "codec":
		switch op.Name {
		case "roundtrip":
			var buf bytes.Buffer
			w := e.cod.NewWriter(&buf)
			w.Write(payload(1 + op.Arg%70000))
			w.Close()
			r := e.cod.NewReader(&buf)
			io.Copy(io.Discard, r)
			r.Close()
		case "compress":
			w := e.cod.NewWriter(io.Discard)
			w.Write(payload(1 + op.Arg%5000))
			w.Close()
		case "decompress":
			r := e.cod.NewReader(bytes.NewReader(e.blob))
			io.Copy(io.Discard, r)
			r.Close()
		case "name":
			e.cod.Name()
			e.cod.Code()
		case "doubleClose":
			// Close twice (an explicit Close plus a deferred one is common, the library's own v1 record-set writer does it)
			var buf bytes.Buffer
			w := e.cod.NewWriter(&buf)
			w.Write(payload(1 + op.Arg%3000))
			w.Close()
			w.Close()
			r := e.cod.NewReader(&buf)
			io.Copy(io.Discard, r)
			r.Close()
			r.Close()
		}
	}
}

// libraryGoroutines counts goroutines that are inside the library.
func libraryGoroutines() int {
	buf := make([]byte, 4<<20)
	n := runtime.Stack(buf, true)
	k := 0
	for _, g := range strings.Split(string(buf[:n]), "\n\n") {
		if strings.Contains(g, libPrefix) && !strings.Contains(g, "verif/props") {
			k++
		}
	}
	return k
}

func runProgram(tb ev.TB, p Program) (labels []string, nontrivial bool) {
	before := raceErrors()
	newRaceReports() // drop anything that belongs to an earlier program
	base := libraryGoroutines()
	if len(p.Pause) > 0 {
		pause := p.Pause
		kafka.SetVerifHook(func(point string) {
			if us := pause[point]; us > 0 {
				time.Sleep(time.Duration(us) * time.Microsecond)
			}
		})
		defer kafka.SetVerifHook(nil)
	}
	e := setup(tb, p)
	var wg sync.WaitGroup
	start := make(chan struct{})
	var mu sync.Mutex
	var traces []opTrace
	panics := map[string]bool{}
	for ti, ops := range p.Threads {
		wg.Add(1)
		go func(ti int, ops []Op) {
			defer wg.Done()
			<-start
			for rep := 0; rep < p.Reps; rep++ {
				for _, op := range ops {
					t0 := time.Now()
					func() {
						defer func() {
							if r := recover(); r != nil {
								mu.Lock()
								panics[fmt.Sprintf("%s.%s: %v", p.Subject, op.Name, r)] = true
								mu.Unlock()
							}
						}()
						e.exec(ti, op)
					}()
					mu.Lock()
					traces = append(traces, opTrace{ti, t0, time.Now()})
					mu.Unlock()
				}
			}
		}(ti, ops)
	}
	close(start)
	done := make(chan struct{})
	go func() { wg.Wait(); close(done) }()
	timedOut := false
	select {
	case <-done:
	case <-time.After(40 * time.Second):
		timedOut = true
	}
	e.teardown()
	if timedOut {
		// not a question this property asks (C09 does); the goroutines are left behind
		ev.Inconclusive("program_did_not_finish_in_40s")
		select {
		case <-done:
		case <-time.After(20 * time.Second):
		}
	}
	// let the goroutines the library started for this program end, so that their accesses are attributed to it
	deadline := time.Now().Add(3 * time.Second)
	for libraryGoroutines() > base && time.Now().Before(deadline) {
		time.Sleep(2 * time.Millisecond)
	}
	lab := map[string]bool{"subject_" + p.Subject: true, p.Subject + "_" + p.Variant: true}
	for msg := range panics {
		// a recovered panic in a caller's goroutine is not a memory race: recorded, not judged here
		lab["obs_panic_in_call"] = true
		ev.Note("panic:"+msg, fmt.Sprint(p))
	}
	// overlap: two calls of different threads were in progress at the same time
	overlap := false
	mu.Lock()
	for i := range traces {
		for j := i + 1; j < len(traces) && !overlap; j++ {
			a, b := traces[i], traces[j]
			if a.thread != b.thread && a.start.Before(b.end) && b.start.Before(a.end) {
				overlap = true
			}
		}
	}
	mu.Unlock()
	if overlap {
		lab["calls_overlapped"] = true
	}
	if after := raceErrors(); after > before {
		reports := newRaceReports()
		if len(reports) == 0 {
			// the detector counted a report it could not print (should not happen)
			time.Sleep(50 * time.Millisecond)
			reports = newRaceReports()
		}
		for _, r := range reports {
			sig, library := r.signature()
			if !library {
				harnessFailed = true
				tb.Fatalf("harness: the race detector reports a race between harness goroutines only (%s):\n%s", sig, strings.ReplaceAll(r.Raw, "DATA RACE", "DATA-RACE"))
			}
			lab["race_reported"] = true
			if _, known := ev.IsKnown(sig); !known {
				unknownRaces++
			}
			if ev.Fail(tb, "program", sig, p, "the race detector reports conflicting unsynchronised accesses while this program ran:\n%s", strings.ReplaceAll(r.Raw, "WARNING: DATA RACE", "RACE REPORT")) {
				return
			}
		}
	}
	for k := range lab {
		labels = append(labels, k)
	}
	sort.Strings(labels)
	return labels, overlap
}

func genProgram(t *rapid.T, subject string) Program {
	if subject == "" {
		subject = rapid.SampledFrom(subjects).Draw(t, "subject")
	}
	p := Program{Subject: subject}
	p.Variant = rapid.SampledFrom(variants[subject]).Draw(t, "variant")
	p.Records = rapid.SampledFrom([]int{0, 3, 12, 40}).Draw(t, "records")
	if subject == "batch" && p.Records == 0 {
		p.Records = 5
	}
	nThreads := rapid.IntRange(2, 4).Draw(t, "threads")
	menu := menus[subject]
	if subject == "conn" && p.Variant == "leader-old-produce" {
		// the write path and what is documented as safe to change while writing
		menu = []string{"write", "write", "writeCompressed", "setRequiredAcks", "setRequiredAcks", "setWriteDeadline", "setDeadline", "offset", "close"}
	}
	for i := 0; i < nThreads; i++ {
		n := rapid.IntRange(1, 5).Draw(t, "ops")
		var ops []Op
		for k := 0; k < n; k++ {
			name := rapid.SampledFrom(menu).Draw(t, "op")
			if name == "close" && rapid.IntRange(0, 2).Draw(t, "keepClose") != 0 {
				name = menu[0] // Close is interesting but ends most activity: keep it rarer
			}
			ops = append(ops, Op{Name: name, Arg: rapid.IntRange(0, 100000).Draw(t, "arg")})
		}
		p.Threads = append(p.Threads, ops)
	}
	p.Reps = rapid.SampledFrom([]int{1, 2, 5}).Draw(t, "reps")
	if subject == "writer" || subject == "reader" || subject == "groupreader" {
		p.Logger = rapid.IntRange(0, 2).Draw(t, "logger") == 0
	}
	if subject == "balancer" || subject == "codec" {
		p.Reps *= 20 // pure in-memory calls: repeat so that they actually overlap
	}
	if (subject == "groupreader" || subject == "reader" || subject == "writer") && rapid.IntRange(0, 2).Draw(t, "pause") == 0 {
		point := map[string]string{"groupreader": "reader.closeMarked", "reader": "reader.closeMarked", "writer": "writer.closeMarked"}[subject]
		p.Pause = map[string]int{point: rapid.SampledFrom([]int{500, 5000, 30000}).Draw(t, "pauseUs")}
	}
	return p
}

func checkSubject(t *testing.T, subject string) {
	if !raceEnabled {
		t.Skip("built without the race detector")
	}
	rapid.Check(t, func(t *rapid.T) {
		p := genProgram(t, subject)
		ev.InFlight("program", p)
		labels, nt := runProgram(t, p)
		var names []string
		for _, th := range p.Threads {
			var ns []string
			for _, o := range th {
				ns = append(ns, o.Name)
			}
			names = append(names, strings.Join(ns, ","))
		}
		ev.Case(fmt.Sprintf("%s/%s recs%d reps%d %s", p.Subject, p.Variant, p.Records, p.Reps, strings.Join(names, " || ")), nt, labels...)
		ev.Sample(p)
	})
}

func TestWriterPrograms(t *testing.T)      { checkSubject(t, "writer") }
func TestReaderPrograms(t *testing.T)      { checkSubject(t, "reader") }
func TestGroupReaderPrograms(t *testing.T) { checkSubject(t, "groupreader") }
func TestConnPrograms(t *testing.T)        { checkSubject(t, "conn") }
func TestBatchPrograms(t *testing.T)       { checkSubject(t, "batch") }
func TestClientPrograms(t *testing.T)      { checkSubject(t, "client") }
func TestBalancerPrograms(t *testing.T)    { checkSubject(t, "balancer") }
func TestCodecPrograms(t *testing.T)       { checkSubject(t, "codec") }


// fakeResolver maps the fake brokers' host names b<N>.fake to 10.0.0.<N> (stateless: it cannot race with itself).
type fakeResolver struct{}

func (fakeResolver) LookupBrokerIPAddr(ctx context.Context, b kafka.Broker) ([]net.IPAddr, error) {
	var n int
	if _, err := fmt.Sscanf(b.Host, "b%d.fake", &n); err != nil {
		return nil, fmt.Errorf("fakeResolver: unknown host %q", b.Host)
	}
	return []net.IPAddr{{IP: net.IPv4(10, 0, 0, byte(n))}}, nil
}
