package c12

// TestCadence — the time clause of the statement taken literally: "after leadership moves, requests follow the new leader
// within one metadata TTL plus a round trip".  The routing histories of TestRouting use TTLs of 20-100 ms, where a refresh that
// is half a TTL late cannot be told from a goroutine that was not scheduled, so lateness below 10 x TTL + 2 s is only
// inconclusive there.  Here the TTL is 2-3 s and the adversary picks the worst moment: the leader moves right after the
// brokers answered a metadata request of the transport (whose cache is therefore as fresh as it gets and as wrong as it
// gets).  TTL + 500 ms later a ListOffsets request for the partition is started; the first broker it reaches has to be
// the new leader.  The slack of 500 ms is two orders of magnitude above a round trip in the in-memory network, and a failure
// counts only if the process' own lateness probe stayed below 200 ms (ev.Timed).

import (
	"context"
	"fmt"
	"testing"
	"time"

	kafka "github.com/segmentio/kafka-go"
	"pgregory.net/rapid"

	"verif/fakecluster"
	"verif/internal/ev"
	"verif/memnet"
)

type cadenceCase struct {
	TTLms   int `json:"ttl_ms"`
	Brokers int `json:"brokers"`
	Parts   int `json:"partitions"`
	Trials  int `json:"trials"`
	// Traffic: a request for another partition every so many ms while waiting (0 = the transport is idle)
	TrafficMs int `json:"traffic_ms,omitempty"`
}

func init() {
	ev.Register("cadence", func(tb ev.TB, c cadenceCase) { runCadence(tb, c) })
	ev.Timed("c12/stale-leader-after-ttl")
}

func runCadence(tb ev.TB, c cadenceCase) (moves int) {
	nw := memnet.New()
	defer nw.Shutdown()
	cl := fakecluster.New(nw, c.Brokers)
	cl.CreateTopic("t", c.Parts)
	ttl := time.Duration(c.TTLms) * time.Millisecond
	tr := &kafka.Transport{Dial: nw.Dial, MetadataTTL: ttl, ClientID: "c12-cadence"}
	defer tr.CloseIdleConnections()
	client := &kafka.Client{Addr: kafka.TCP("b1.fake:9092"), Transport: tr}
	ask := func(p int) error {
		ctx, cancel := context.WithTimeout(context.Background(), 3*time.Second)
		defer cancel()
		_, err := client.ListOffsets(ctx, &kafka.ListOffsetsRequest{Topics: map[string][]kafka.OffsetRequest{"t": {kafka.LastOffsetOf(p)}}})
		return err
	}
	lastMeta := func() (seq int64) {
		for _, e := range cl.Journal() {
			if e.ApiKey == 3 && e.ClientID == "c12-cadence" && e.Outcome == "answered" && !e.AnsweredAt.IsZero() {
				seq = e.Seq
			}
		}
		return
	}
	leader := map[int]int32{}
	for p := 0; p < c.Parts; p++ {
		leader[p] = int32(p%c.Brokers) + 1
		cl.MoveLeader("t", int32(p), leader[p])
	}
	if err := ask(0); err != nil {
		tb.Fatalf("harness: warm-up request failed: %v", err)
	}
	for trial := 0; trial < c.Trials; trial++ {
		p := trial % c.Parts
		// wait for the next metadata exchange of the transport to be answered
		seen := lastMeta()
		deadline := time.Now().Add(ttl + 5*time.Second)
		for lastMeta() == seen {
			if time.Now().After(deadline) {
				ev.Inconclusive("cadence_no_refresh_seen") // TestRouting judges a transport that never refreshes
				return
			}
			time.Sleep(200 * time.Microsecond)
		}
		to := leader[p]%int32(c.Brokers) + 1
		cl.MoveLeader("t", int32(p), to)
		leader[p] = to
		movedSeq := cl.Seq()
		moves++
		wait := ttl + 500*time.Millisecond
		end := time.Now().Add(wait)
		for time.Now().Before(end) {
			if c.TrafficMs > 0 && c.Parts > 1 {
				ask((p + 1) % c.Parts) // errors are the routing unit's business
				time.Sleep(time.Duration(c.TrafficMs) * time.Millisecond)
			} else {
				time.Sleep(5 * time.Millisecond)
			}
		}
		startSeq := cl.Seq()
		ask(p)
		// the first ListOffsets request for partition p that arrived after the call began
		for _, e := range cl.Journal() {
			if e.Seq <= startSeq || e.ApiKey != 2 || e.ClientID != "c12-cadence" {
				continue
			}
			if !mentionsPartition(e.Body, int64(p)) {
				continue
			}
			if e.BrokerID != to {
				refreshes := 0
				for _, m := range cl.Journal() {
					if m.ApiKey == 3 && m.Seq > movedSeq && m.Seq <= startSeq && m.ClientID == "c12-cadence" {
						refreshes++
					}
				}
				ev.Fail(tb, "cadence", "c12/stale-leader-after-ttl", c,
					"trial %d: the leader of t/%d moved to broker %d right after a metadata answer; a ListOffsets request started %v later (MetadataTTL %v) was sent to broker %d; metadata requests of the transport in between: %d",
					trial, p, to, wait, ttl, e.BrokerID, refreshes)
				return
			}
			break
		}
	}
	return
}

func mentionsPartition(body map[string]any, p int64) bool {
	topics, _ := body["Topics"].([]any)
	for _, t := range topics {
		tm, _ := t.(map[string]any)
		parts, _ := tm["Partitions"].([]any)
		for _, q := range parts {
			qm, _ := q.(map[string]any)
			for _, k := range []string{"Partition", "PartitionIndex"} {
				if v, ok := qm[k]; ok && anyInt(v) == p {
					return true
				}
			}
		}
	}
	return false
}

func TestCadence(t *testing.T) {
	rapid.Check(t, func(t *rapid.T) {
		c := cadenceCase{
			TTLms:   rapid.SampledFrom([]int{2000, 2500, 3000}).Draw(t, "ttlMs"),
			Brokers: rapid.IntRange(2, 3).Draw(t, "brokers"),
			Parts:   rapid.IntRange(1, 3).Draw(t, "partitions"),
			Trials:  3,
		}
		if rapid.Bool().Draw(t, "traffic") {
			c.TrafficMs = rapid.SampledFrom([]int{20, 150, 700}).Draw(t, "trafficMs")
		}
		moves := runCadence(t, c)
		ev.Case(fmt.Sprintf("cadence ttl%d b%d p%d traffic%d", c.TTLms, c.Brokers, c.Parts, c.TrafficMs), moves > 0, "cadence", fmt.Sprintf("cadence_moves_%d", moves))
		ev.Sample(c)
	})
}
