package c12

import (
	"encoding/json"
	"fmt"
	"os"
	"sort"
	"strings"
	"testing"
	"time"

	"github.com/segmentio/kafka-go/protocol"
	"pgregory.net/rapid"

	"verif/internal/ev"
)

// APIs whose advertised ranges the generator varies (everything the steps can send).
var exercised = []int16{0, 1, 2, 3, 8, 9, 10, 11, 12, 13, 14, 15, 19, 20, 22, 24, 25, 26, 28, 42, 47}

var groupApis = []string{"offsetcommit", "offsetfetch", "joingroup", "heartbeat", "leavegroup", "syncgroup", "describegroups", "deletegroups", "offsetdelete", "txnoffsetcommit"}
var txnApis = []string{"initproducerid", "addpartitionstotxn", "addoffsetstotxn", "endtxn"}

// genRange draws an advertised range that overlaps the library's [lmin,lmax].
// Metadata and FindCoordinator keep max >= 1: v0 metadata names no controller
// and v0 FindCoordinator has no key type, so the statement's routing clauses
// for controller / transaction coordinator presuppose v1+ (as do real brokers
// that have those features).
func genRange(t *rapid.T, api int16, label string) (verRange, bool) {
	k := protocol.ApiKey(api)
	lmin, lmax := k.MinVersion(), k.MaxVersion()
	floor := lmin
	if (api == 3 || api == 10) && floor < 1 {
		floor = 1
	}
	kind := rapid.SampledFrom([]string{"default", "default", "below", "below", "above", "shifted", "single"}).Draw(t, label+"kind")
	i16 := func(lo, hi int16, l string) int16 {
		if hi < lo {
			hi = lo
		}
		return int16(rapid.IntRange(int(lo), int(hi)).Draw(t, label+l))
	}
	switch kind {
	case "below":
		if lmax <= floor {
			return verRange{}, false
		}
		max := i16(floor, lmax-1, "max")
		return verRange{api, i16(0, max, "min"), max}, true
	case "above":
		return verRange{api, i16(0, lmax, "min"), i16(lmax+1, lmax+3, "max")}, true
	case "shifted":
		if lmax <= lmin {
			return verRange{}, false
		}
		min := i16(lmin+1, lmax, "min")
		lo := min
		if lo < floor {
			lo = floor
		}
		return verRange{api, min, i16(lo, lmax+2, "max")}, true
	case "single":
		v := i16(floor, lmax, "v")
		return verRange{api, v, v}, true
	}
	return verRange{}, false
}

func genVersions(t *rapid.T, label string, heavy bool) []verRange {
	var out []verRange
	for _, api := range exercised {
		if !heavy && !rapid.Bool().Draw(t, fmt.Sprintf("%sv%d?", label, api)) {
			continue
		}
		if r, ok := genRange(t, api, fmt.Sprintf("%sv%d", label, api)); ok {
			out = append(out, r)
		}
	}
	return out
}

// model is the generator's picture of the cluster, so that steps make sense.
type model struct {
	live       []int32
	nextID     int32
	bootstrap  map[int32]bool
	controller int32
	topics     map[string][]int32 // leaders
	order      []string           // topic names in creation order
	coords     map[string]int32
	groups     []string
	txns       []string
	dirty      bool // cluster changed since the last await
	topicSeq   int
	auto       int
	internal   bool // the cluster has an internal topic, which metadata steps may name
}

func (m *model) otherThan(t *rapid.T, id int32, label string) (int32, bool) {
	var c []int32
	for _, x := range m.live {
		if x != id {
			c = append(c, x)
		}
	}
	if len(c) == 0 {
		return 0, false
	}
	return rapid.SampledFrom(c).Draw(t, label), true
}

func (m *model) pickTopic(t *rapid.T, label string) (string, bool) {
	if len(m.order) == 0 {
		return "", false
	}
	return rapid.SampledFrom(m.order).Draw(t, label), true
}

func (m *model) newTopic(n int) string {
	m.topicSeq++
	name := fmt.Sprintf("n%d", m.topicSeq)
	return name
}

func (m *model) addTopic(name string, n int) {
	ls := make([]int32, n)
	for i := range ls {
		ls[i] = m.live[i%len(m.live)]
	}
	m.topics[name] = ls
	m.order = append(m.order, name)
}

func (m *model) dropTopic(name string) {
	delete(m.topics, name)
	for i, n := range m.order {
		if n == name {
			m.order = append(m.order[:i:i], m.order[i+1:]...)
			break
		}
	}
}

func genParts(t *rapid.T, m *model, topic, label string) []int32 {
	ls := m.topics[topic]
	p := int32(rapid.IntRange(0, len(ls)-1).Draw(t, label+"p"))
	out := []int32{p}
	if rapid.IntRange(0, 3).Draw(t, label+"two") == 0 {
		// a second partition with the same leader, if there is one
		for q := range ls {
			if int32(q) != p && ls[q] == ls[p] {
				out = append(out, int32(q))
				break
			}
		}
	}
	return out
}

func genRequestStep(t *rapid.T, m *model, label string) (step, bool) {
	ops := []string{"produce", "produce", "fetch", "fetch", "listoffsets", "listoffsets", "metadata", "metadata", "group", "group", "txn", "findcoord", "metadata_wire"}
	op := rapid.SampledFrom(ops).Draw(t, label+"op")
	return genRequestOf(t, m, op, label)
}

func genRequestOf(t *rapid.T, m *model, op, label string) (step, bool) {
	switch op {
	case "produce", "fetch":
		topic, ok := m.pickTopic(t, label+"topic")
		if !ok {
			return step{}, false
		}
		s := step{Op: op, Topic: topic, Parts: genParts(t, m, topic, label), Par: rapid.SampledFrom([]int{1, 1, 2, 3}).Draw(t, label+"par")}
		if op == "produce" {
			s.Acks = rapid.SampledFrom([]int16{1, -1}).Draw(t, label+"acks")
		}
		return s, true
	case "listoffsets":
		var all []tp
		for _, n := range m.order {
			for p := range m.topics[n] {
				all = append(all, tp{n, int32(p)})
			}
		}
		if len(all) == 0 {
			return step{}, false
		}
		k := rapid.IntRange(1, min(5, len(all))).Draw(t, label+"ntp")
		// a rotation of the list: distinct pairs, usually several leaders
		off := rapid.IntRange(0, len(all)-1).Draw(t, label+"off")
		stride := 1
		if len(all) > 2 && rapid.Bool().Draw(t, label+"stride") {
			stride = 2
		}
		seen := map[tp]bool{}
		var tps []tp
		for i := 0; len(tps) < k && i < len(all); i++ {
			x := all[(off+i*stride)%len(all)]
			if !seen[x] {
				seen[x] = true
				tps = append(tps, x)
			}
		}
		return step{Op: op, TPs: tps, Par: rapid.SampledFrom([]int{1, 1, 2}).Draw(t, label+"par")}, true
	case "metadata":
		if rapid.IntRange(0, 5).Draw(t, label+"nil") == 0 {
			return step{Op: op, NilAll: true}, true
		}
		pool := append([]string{}, m.order...)
		pool = append(pool, "zzz-unknown", "aaa-unknown", "n0", "t", "t00", "t9")
		if m.internal {
			pool = append(pool, "__consumer_offsets", "__consumer_offsets")
		}
		n := rapid.IntRange(0, 4).Draw(t, label+"nn")
		names := []string{}
		for i := 0; i < n; i++ {
			names = append(names, rapid.SampledFrom(pool).Draw(t, fmt.Sprintf("%sname%d", label, i)))
		}
		return step{Op: op, Names: names}, true
	case "metadata_wire":
		name := m.newTopic(0)
		if m.auto > 0 {
			m.addTopic(name, m.auto)
		}
		return step{Op: op, Names: []string{name}}, true
	case "findcoord":
		keys := append(append([]string{}, m.groups...), m.txns...)
		return step{Op: op, Key: rapid.SampledFrom(keys).Draw(t, label+"key")}, true
	case "group":
		api := rapid.SampledFrom(groupApis).Draw(t, label+"api")
		s := step{Op: op, Api: api, Key: rapid.SampledFrom(m.groups).Draw(t, label+"key"), Par: rapid.SampledFrom([]int{1, 1, 2}).Draw(t, label+"par")}
		if api == "describegroups" {
			n := rapid.IntRange(1, len(m.groups)).Draw(t, label+"ng")
			s.Names = append([]string{}, m.groups[:n]...)
			s.Key = s.Names[0]
		}
		if api == "heartbeat" {
			s.Client = rapid.Bool().Draw(t, label+"client")
		}
		return s, true
	case "txn":
		return step{Op: op, Api: rapid.SampledFrom(txnApis).Draw(t, label+"api"), Key: rapid.SampledFrom(m.txns).Draw(t, label+"key"), Par: 1}, true
	}
	return step{}, false
}

func genChangeStep(t *rapid.T, m *model, label string) ([]step, bool) {
	ops := []string{"move", "move", "move", "move_coord", "move_controller", "create", "create", "delete", "add_broker", "remove_broker", "move_port", "outage"}
	op := rapid.SampledFrom(ops).Draw(t, label+"op")
	return genChangeOf(t, m, op, label)
}

func genChangeOf(t *rapid.T, m *model, op, label string) ([]step, bool) {
	switch op {
	case "move":
		topic, ok := m.pickTopic(t, label+"topic")
		if !ok {
			return nil, false
		}
		ls := m.topics[topic]
		p := rapid.IntRange(0, len(ls)-1).Draw(t, label+"p")
		to, ok := m.otherThan(t, ls[p], label+"to")
		if !ok {
			return nil, false
		}
		ls[p] = to
		m.dirty = true
		return []step{{Op: "move", Topic: topic, Parts: []int32{int32(p)}, To: to}}, true
	case "move_coord":
		keys := append(append([]string{}, m.groups...), m.txns...)
		key := rapid.SampledFrom(keys).Draw(t, label+"key")
		to, ok := m.otherThan(t, m.coords[key], label+"to")
		if !ok {
			return nil, false
		}
		m.coords[key] = to
		return []step{{Op: "move_coord", Key: key, To: to}}, true
	case "move_controller":
		to, ok := m.otherThan(t, m.controller, label+"to")
		if !ok {
			return nil, false
		}
		m.controller = to
		m.dirty = true
		return []step{{Op: "move_controller", To: to}}, true
	case "create":
		var out []step
		if m.dirty && rapid.IntRange(0, 3).Draw(t, label+"sync") != 0 {
			// usually let the cache learn the controller first, otherwise NOT_CONTROLLER is the (legitimate) answer
			out = append(out, step{Op: "await"})
			m.dirty = false
		}
		n := rapid.IntRange(1, 4).Draw(t, label+"n")
		name := m.newTopic(n)
		validate := rapid.IntRange(0, 3).Draw(t, label+"validateOnly") == 0
		if !m.dirty && !validate {
			m.addTopic(name, n) // with a stale controller the creation may be refused; later steps then simply fail in the library
		}
		out = append(out, step{Op: "create", Names: []string{name}, N: n, Validate: validate})
		return out, true
	case "delete":
		if len(m.order) < 2 {
			return nil, false
		}
		name := rapid.SampledFrom(m.order).Draw(t, label+"topic")
		m.dropTopic(name)
		m.dirty = true
		return []step{{Op: "delete", Names: []string{name}}}, true
	case "add_broker":
		if m.nextID > 6 {
			return nil, false
		}
		id := m.nextID
		m.nextID++
		b := &brokerSpec{ID: id, Rack: rapid.SampledFrom([]string{"", "r1", "r2"}).Draw(t, label+"rack"), Versions: genVersions(t, label+"nb", false)}
		m.live = append(m.live, id)
		sort.Slice(m.live, func(i, j int) bool { return m.live[i] < m.live[j] })
		m.dirty = true
		out := []step{{Op: "add_broker", Broker: b}}
		// give the newcomer something to lead
		if topic, ok := m.pickTopic(t, label+"topic"); ok && rapid.IntRange(0, 3).Draw(t, label+"lead") != 0 {
			ls := m.topics[topic]
			p := rapid.IntRange(0, len(ls)-1).Draw(t, label+"p")
			ls[p] = id
			out = append(out, step{Op: "move", Topic: topic, Parts: []int32{int32(p)}, To: id})
		}
		return out, true
	case "outage":
		m.dirty = true
		out := []step{{Op: "outage", N: rapid.IntRange(1, 4).Draw(t, label+"ttls") * 120}}
		// something to catch up with afterwards
		if ch, ok := genChangeOf(t, m, "move", label+"after"); ok {
			out = append(out, ch...)
		}
		return out, true
	case "move_port":
		// a broker keeps its id and host and comes back on another port
		var c []int32
		for _, id := range m.live {
			if !m.bootstrap[id] {
				c = append(c, id)
			}
		}
		if len(c) == 0 {
			return nil, false
		}
		id := rapid.SampledFrom(c).Draw(t, label+"id")
		m.dirty = true
		return []step{{Op: "move_port", Broker: &brokerSpec{ID: id}, N: rapid.IntRange(9093, 9099).Draw(t, label+"port")}}, true
	case "remove_broker":
		var c []int32
		for _, id := range m.live {
			if !m.bootstrap[id] {
				c = append(c, id)
			}
		}
		if len(c) == 0 || len(m.live) < 2 {
			return nil, false
		}
		id := rapid.SampledFrom(c).Draw(t, label+"id")
		to, _ := m.otherThan(t, id, label+"to")
		var live []int32
		for _, x := range m.live {
			if x != id {
				live = append(live, x)
			}
		}
		m.live = live
		for _, ls := range m.topics {
			for p := range ls {
				if ls[p] == id {
					ls[p] = to
				}
			}
		}
		for k, v := range m.coords {
			if v == id {
				m.coords[k] = to
			}
		}
		if m.controller == id {
			m.controller = to
		}
		m.dirty = true
		return []step{{Op: "remove_broker", Broker: &brokerSpec{ID: id}, To: to}}, true
	}
	return nil, false
}

// genCase builds a case; stratum >= 0 forces one of the essential shapes.
func genCase(t *rapid.T, stratum int) routeCase {
	var c routeCase
	c.TTLms = rapid.SampledFrom([]int{20, 20, 30, 50, 80, 100}).Draw(t, "ttl")
	nb := rapid.SampledFrom([]int{1, 2, 2, 3, 3, 3, 4, 5}).Draw(t, "brokers")
	if stratum >= 0 && nb < 2 {
		nb = 2 + stratum%3
	}
	heavy := stratum == 1 || rapid.IntRange(0, 3).Draw(t, "heavyversions") == 0
	c.SASL = rapid.IntRange(0, 4).Draw(t, "sasl") == 0
	m := &model{bootstrap: map[int32]bool{}, topics: map[string][]int32{}, coords: map[string]int32{}, nextID: int32(nb + 1)}
	c.InternalTopic = rapid.IntRange(0, 3).Draw(t, "internalTopic") == 0
	m.internal = c.InternalTopic
	for i := 1; i <= nb; i++ {
		b := brokerSpec{ID: int32(i), Rack: rapid.SampledFrom([]string{"", "", "r1", "r2"}).Draw(t, fmt.Sprintf("rack%d", i))}
		if rapid.IntRange(0, 4).Draw(t, fmt.Sprintf("b%dplain", i)) != 0 || heavy {
			b.Versions = genVersions(t, fmt.Sprintf("b%d", i), heavy)
		}
		if c.SASL {
			// which handshake the broker speaks: v0 only (raw tokens follow) or v0-v1 (framed SaslAuthenticate)
			b.Versions = append(b.Versions, verRange{17, 0, int16(rapid.IntRange(0, 1).Draw(t, fmt.Sprintf("b%dhandshake", i)))})
		}
		c.Brokers = append(c.Brokers, b)
		m.live = append(m.live, int32(i))
	}
	nboot := 1
	if nb > 1 && rapid.IntRange(0, 2).Draw(t, "multiboot") == 0 {
		nboot = 2
	}
	first := int32(rapid.IntRange(1, nb).Draw(t, "boot"))
	c.Bootstrap = []int32{first}
	if nboot == 2 {
		c.Bootstrap = append(c.Bootstrap, first%int32(nb)+1)
	}
	for _, id := range c.Bootstrap {
		m.bootstrap[id] = true
	}
	c.Controller = int32(rapid.IntRange(1, nb).Draw(t, "controller"))
	if stratum == 4 && nb > 1 && m.bootstrap[c.Controller] {
		for _, id := range m.live {
			if !m.bootstrap[id] {
				c.Controller = id
				break
			}
		}
	}
	m.controller = c.Controller
	if rapid.IntRange(0, 2).Draw(t, "auto") == 0 {
		c.AutoCreate = rapid.IntRange(1, 3).Draw(t, "autoparts")
		m.auto = c.AutoCreate
	}
	nt := rapid.IntRange(1, 3).Draw(t, "topics")
	for i := 0; i < nt; i++ {
		np := rapid.IntRange(1, 5).Draw(t, fmt.Sprintf("t%dparts", i))
		if (stratum == 3 || stratum == 0) && i == 0 && np < 3 {
			np = 3
		}
		ts := topicSpec{Name: fmt.Sprintf("t%d", i)}
		rot := rapid.IntRange(0, nb-1).Draw(t, fmt.Sprintf("t%drot", i))
		for p := 0; p < np; p++ {
			var l int32
			if rapid.IntRange(0, 3).Draw(t, fmt.Sprintf("t%dp%dspread", i, p)) != 0 {
				l = int32((p+rot)%nb + 1) // spread over the brokers
			} else {
				l = int32(rapid.IntRange(1, nb).Draw(t, fmt.Sprintf("t%dp%dleader", i, p)))
			}
			ts.Leaders = append(ts.Leaders, l)
		}
		c.Topics = append(c.Topics, ts)
		m.topics[ts.Name] = append([]int32{}, ts.Leaders...)
		m.order = append(m.order, ts.Name)
	}
	ng := rapid.IntRange(1, 3).Draw(t, "groups")
	for i := 0; i < ng; i++ {
		m.groups = append(m.groups, fmt.Sprintf("g%d", i))
	}
	m.txns = []string{"tx0", "tx1"}
	for _, k := range append(append([]string{}, m.groups...), m.txns...) {
		id := int32(rapid.IntRange(1, nb).Draw(t, "coord-"+k))
		if stratum == 2 && m.bootstrap[id] && nb > len(c.Bootstrap) {
			for _, x := range m.live {
				if !m.bootstrap[x] {
					id = x
					break
				}
			}
		}
		c.Coords = append(c.Coords, coordSpec{k, id})
		m.coords[k] = id
	}

	add := func(s ...step) { c.Steps = append(c.Steps, s...) }
	if rapid.IntRange(0, 11).Draw(t, "bootstrapDown") == 0 {
		// the cluster is unreachable when the transport is first used: its first refresh fails, later ones succeed
		c.BootstrapDown = true
		add(step{Op: "sleep", N: rapid.IntRange(1, 150).Draw(t, "downMs")}, step{Op: "bootstrap_up"}, step{Op: "await"})
	}
	req := func(op, label string) {
		if s, ok := genRequestOf(t, m, op, label); ok {
			add(s)
		}
	}
	// forced prologue of the stratum
	switch stratum {
	case 0: // leader move, immediate request (may be stale), await, request must follow
		if ch, ok := genChangeOf(t, m, "move", "s0mv"); ok {
			mvd := ch[0]
			add(step{Op: rapid.SampledFrom([]string{"produce", "fetch"}).Draw(t, "s0op0"), Topic: mvd.Topic, Parts: mvd.Parts, Par: 1, Acks: 1})
			add(ch...)
			if rapid.Bool().Draw(t, "s0stale") {
				add(step{Op: "fetch", Topic: mvd.Topic, Parts: mvd.Parts, Par: 1})
			}
			add(step{Op: "await"})
			m.dirty = false
			add(step{Op: rapid.SampledFrom([]string{"produce", "fetch", "listoffsets"}).Draw(t, "s0op1"), Topic: mvd.Topic, Parts: mvd.Parts, TPs: []tp{{mvd.Topic, mvd.Parts[0]}}, Par: 1, Acks: 1})
		}
	case 1: // heterogeneous version tables: the same apis on several brokers
		for i, n := range m.order {
			for p := range m.topics[n] {
				if p < 3 {
					add(step{Op: []string{"produce", "fetch"}[(i+p)%2], Topic: n, Parts: []int32{int32(p)}, Par: 1, Acks: 1})
				}
			}
		}
		req("listoffsets", "s1lo")
	case 2: // coordinators away from the bootstrap broker, then moved
		req("group", "s2g0")
		req("txn", "s2t0")
		if ch, ok := genChangeOf(t, m, "move_coord", "s2mc"); ok {
			k := ch[0].Key
			// the same key is used before the move as well: whatever the transport remembers about its coordinator is stale afterwards
			if strings.HasPrefix(k, "tx") {
				add(step{Op: "txn", Api: rapid.SampledFrom(txnApis).Draw(t, "s2preapi"), Key: k, Par: 1})
			} else {
				add(step{Op: "group", Api: rapid.SampledFrom([]string{"offsetcommit", "offsetfetch", "heartbeat"}).Draw(t, "s2preapi"), Key: k, Par: 1})
			}
			add(ch...)
			if strings.HasPrefix(k, "tx") {
				add(step{Op: "txn", Api: rapid.SampledFrom(txnApis).Draw(t, "s2api"), Key: k, Par: 1})
			} else {
				add(step{Op: "group", Api: rapid.SampledFrom([]string{"offsetcommit", "offsetfetch", "joingroup", "leavegroup", "syncgroup"}).Draw(t, "s2api"), Key: k, Par: 1})
			}
		}
		add(step{Op: "group", Api: "describegroups", Key: m.groups[0], Names: append([]string{}, m.groups...), Par: 1})
	case 3: // list-offsets over all partitions of the first topic
		var tps []tp
		for p := range m.topics["t0"] {
			tps = append(tps, tp{"t0", int32(p)})
		}
		add(step{Op: "listoffsets", TPs: tps, Par: 1})
	case 4: // topic creation through the controller, then use the new topic
		if ch, ok := genChangeOf(t, m, "create", "s4c"); ok {
			add(ch...)
			name := ch[len(ch)-1].Names[0]
			add(step{Op: "produce", Topic: name, Parts: []int32{0}, Par: 1, Acks: 1})
			add(step{Op: "metadata", Names: []string{name, "zzz-unknown", "t0"}})
		}
	case 5: // a broker joins and takes over a partition
		if ch, ok := genChangeOf(t, m, "add_broker", "s5a"); ok {
			add(ch...)
			if rapid.Bool().Draw(t, "s5coord") && len(m.groups) > 0 {
				// ... and becomes a group's coordinator before the transport has heard of it: the group request can only
				// fail or wait, it has no business at any other broker
				k := m.groups[rapid.IntRange(0, len(m.groups)-1).Draw(t, "s5key")]
				m.coords[k] = ch[0].Broker.ID
				add(step{Op: "move_coord", Key: k, To: ch[0].Broker.ID})
				add(step{Op: "group", Api: rapid.SampledFrom([]string{"heartbeat", "offsetcommit", "offsetfetch"}).Draw(t, "s5api"), Key: k, Par: 1})
			}
			add(step{Op: "await"})
			m.dirty = false
			if len(ch) > 1 {
				add(step{Op: "produce", Topic: ch[1].Topic, Parts: ch[1].Parts, Par: 2, Acks: -1})
			}
		}
	}
	n := rapid.IntRange(3, 12).Draw(t, "nsteps")
	awaits := 0
	for i := 0; i < n; i++ {
		label := fmt.Sprintf("s%d", i)
		switch k := rapid.IntRange(0, 9).Draw(t, label+"kind"); {
		case k <= 5:
			if s, ok := genRequestStep(t, m, label); ok {
				add(s)
			}
		case k <= 7:
			if ch, ok := genChangeStep(t, m, label); ok {
				add(ch...)
			}
		case k == 8:
			if awaits < 3 {
				awaits++
				add(step{Op: "await"})
				m.dirty = false
			}
		default:
			add(step{Op: "sleep", N: rapid.IntRange(1, c.TTLms).Draw(t, label+"ms")})
		}
	}
	if nb >= 2 && rapid.IntRange(0, 3).Draw(t, "idZero") == 0 {
		// node ids start at 0 in most real clusters: relabel the highest initial broker id as 0 everywhere
		from := int32(nb)
		re := func(id int32) int32 {
			if id == from {
				return 0
			}
			return id
		}
		for i := range c.Brokers {
			c.Brokers[i].ID = re(c.Brokers[i].ID)
		}
		for i := range c.Bootstrap {
			c.Bootstrap[i] = re(c.Bootstrap[i])
		}
		c.Controller = re(c.Controller)
		for i := range c.Topics {
			for p := range c.Topics[i].Leaders {
				c.Topics[i].Leaders[p] = re(c.Topics[i].Leaders[p])
			}
		}
		for i := range c.Coords {
			c.Coords[i].Broker = re(c.Coords[i].Broker)
		}
		for i := range c.Steps {
			st := &c.Steps[i]
			switch st.Op {
			case "move", "move_coord", "move_controller", "remove_broker":
				st.To = re(st.To)
			}
			if st.Broker != nil && (st.Op == "remove_broker" || st.Op == "move_port") {
				b := *st.Broker
				b.ID = re(b.ID)
				st.Broker = &b
			}
		}
	}
	return c
}

func fingerprint(c routeCase, labels []string) string {
	var ops []string
	for _, s := range c.Steps {
		o := s.Op
		if s.Api != "" {
			o += ":" + s.Api
		}
		ops = append(ops, o)
	}
	nv := 0
	for _, b := range c.Brokers {
		nv += len(b.Versions)
	}
	var shape []string
	for _, t := range c.Topics {
		shape = append(shape, fmt.Sprint(t.Leaders))
	}
	return fmt.Sprintf("b%d boot%v ctl%d ttl%d v%d %v %v %v", len(c.Brokers), c.Bootstrap, c.Controller, c.TTLms, nv, shape, ops, labels)
}

var caseNo int

func TestRouting(t *testing.T) {
	rapid.Check(t, func(t *rapid.T) {
		caseNo++
		stratum := -1
		if caseNo%2 == 0 {
			stratum = (caseNo / 2) % 6
		}
		c := genCase(t, stratum)
		t0 := time.Now()
		out := run(t, c)
		if d := time.Since(t0); d > 5*time.Second && os.Getenv("C12_SLOW") != "" {
			b, _ := json.Marshal(c.Steps)
			fmt.Fprintf(os.Stderr, "SLOW %v %s\n", d, b)
		}
		if out == nil {
			return
		}
		var labels []string
		for l := range out.labels {
			labels = append(labels, l)
		}
		sort.Strings(labels)
		nontrivial := len(c.Brokers) >= 2 && out.routed >= 1
		if len(out.brokersHit) >= 2 {
			labels = append(labels, "routed_to_2plus_brokers")
		}
		if stratum >= 0 {
			labels = append(labels, fmt.Sprintf("stratum_%d", stratum))
		}
		ev.Case(fingerprint(c, labels), nontrivial, labels...)
		ev.Count("routed_requests_checked", int64(out.routed))
		ev.Sample(c)
	})
}
