// Package c12 decides property C12: the Transport routes every request to the
// broker designated by the most recently fetched cluster metadata, at the
// highest version supported by both sides; requests follow leader moves within
// a metadata TTL and cached, topic-filtered metadata equals what the brokers
// answered at the last refresh.
//
// A case is a cluster layout, per-broker advertised version tables and a
// history of steps (requests interleaved with cluster changes).  One
// kafka.Transport executes the history against the fake cluster; the oracle is
// evaluated afterwards over the fake's journal.
//
// How the oracle knows which metadata the transport may have used (soundness):
// the transport's cached state only changes in the `discover` goroutine, one
// metadata exchange after the other, so the state moves monotonically along the
// list D of journalled "all topics" metadata exchanges.  Before every step the
// harness probes the cache (a metadata request with a nil topic list is served
// from the cache without touching the wire).  The probe's content must equal
// the response of some D[i] with i >= the index matched by the previous probe
// and D[i] arrived before the probe returned; the smallest such i is a lower
// bound L of the state used by the step.  A request of the step that arrives
// at journal sequence R may have been routed with D[L..] up to the last D that
// arrived before R (an in-flight refresh is tolerated).  Only requests routed
// to a broker that none of these candidates designates are failures.
package c12

import (
	"bytes"
	"context"
	"errors"
	"fmt"
	"sort"
	"strings"
	"sync"
	"syscall"
	"testing"
	"time"

	kafka "github.com/segmentio/kafka-go"
	"github.com/segmentio/kafka-go/protocol"
	"github.com/segmentio/kafka-go/protocol/addoffsetstotxn"
	"github.com/segmentio/kafka-go/protocol/addpartitionstotxn"
	"github.com/segmentio/kafka-go/protocol/deletegroups"
	"github.com/segmentio/kafka-go/protocol/describegroups"
	"github.com/segmentio/kafka-go/protocol/endtxn"
	"github.com/segmentio/kafka-go/protocol/fetch"
	"github.com/segmentio/kafka-go/protocol/findcoordinator"
	"github.com/segmentio/kafka-go/protocol/heartbeat"
	"github.com/segmentio/kafka-go/protocol/initproducerid"
	"github.com/segmentio/kafka-go/protocol/joingroup"
	"github.com/segmentio/kafka-go/protocol/leavegroup"
	"github.com/segmentio/kafka-go/protocol/listoffsets"
	meta "github.com/segmentio/kafka-go/protocol/metadata"
	"github.com/segmentio/kafka-go/protocol/offsetcommit"
	"github.com/segmentio/kafka-go/protocol/offsetdelete"
	"github.com/segmentio/kafka-go/protocol/offsetfetch"
	"github.com/segmentio/kafka-go/protocol/produce"
	"github.com/segmentio/kafka-go/protocol/rawproduce"
	"github.com/segmentio/kafka-go/protocol/syncgroup"
	"github.com/segmentio/kafka-go/protocol/txnoffsetcommit"
	"github.com/segmentio/kafka-go/sasl/plain"

	"verif/fakecluster"
	"verif/internal/ev"
	"verif/memnet"
	"verif/refcodec"
)

func TestMain(m *testing.M) { ev.Main(m, "C12") }

func init() { ev.Register("route", func(tb ev.TB, c routeCase) { run(tb, c) }) }

func TestReplay(t *testing.T) { ev.RunReplay(t) }

// ---------------------------------------------------------------------------
// case

type verRange struct {
	Api int16 `json:"api"`
	Min int16 `json:"min"`
	Max int16 `json:"max"`
}

type brokerSpec struct {
	ID       int32      `json:"id"`
	Rack     string     `json:"rack,omitempty"`
	Versions []verRange `json:"versions,omitempty"` // overrides of the fake's default table
}

type topicSpec struct {
	Name    string  `json:"name"`
	Leaders []int32 `json:"leaders"` // per partition
}

type coordSpec struct {
	Key    string `json:"key"`
	Broker int32  `json:"broker"`
}

type tp struct {
	Topic     string `json:"topic"`
	Partition int32  `json:"partition"`
}

// step is one element of the history.
//
//	requests: produce fetch listoffsets metadata metadata_wire findcoord group txn create delete
//	changes : move move_coord move_controller add_broker remove_broker
//	other   : await (until the cache shows the cluster's current layout) sleep
type step struct {
	Op     string   `json:"op"`
	Topic  string   `json:"topic,omitempty"`
	Parts  []int32  `json:"parts,omitempty"`
	TPs    []tp     `json:"tps,omitempty"`
	Names  []string `json:"names,omitempty"`
	NilAll bool     `json:"nil_names,omitempty"` // metadata: nil topic list (all topics)
	Api    string   `json:"api,omitempty"`
	Key    string   `json:"key,omitempty"`
	To     int32    `json:"to,omitempty"`
	N      int      `json:"n,omitempty"`
	Par    int      `json:"par,omitempty"`
	Acks   int16    `json:"acks,omitempty"`
	Client bool     `json:"client,omitempty"` // go through a kafka.Client method instead of RoundTrip
	// Raw (produce): the request is a rawproduce.Request (what Client.RawProduce sends: pre-encoded records, a routing
	// method of its own)
	Raw bool `json:"raw,omitempty"`
	// Validate (create): ValidateOnly is set, the controller checks the request and creates nothing
	Validate bool        `json:"validate,omitempty"`
	Broker   *brokerSpec `json:"broker,omitempty"`
}

type routeCase struct {
	TTLms      int          `json:"ttl_ms"`
	Brokers    []brokerSpec `json:"brokers"`
	Bootstrap  []int32      `json:"bootstrap"`
	Controller int32        `json:"controller"`
	AutoCreate int          `json:"auto_create,omitempty"`
	Topics     []topicSpec  `json:"topics"`
	Coords     []coordSpec  `json:"coords"`
	Steps      []step       `json:"steps"`
	// SASL: the cluster demands SASL/PLAIN and the Transport is configured for it: SaslHandshake and SaslAuthenticate are
	// requests like the others as far as versions go.
	SASL bool `json:"sasl,omitempty"`
	// BootstrapDown: no broker is reachable when the Transport is first used; the step "bootstrap_up" ends the outage.
	BootstrapDown bool `json:"bootstrap_down,omitempty"`
	// InternalTopic: the cluster also has the topic "__consumer_offsets" (two partitions on the first broker), which the
	// brokers flag as internal.  Only metadata steps name it: cached metadata has to show it like any other topic.
	InternalTopic bool `json:"internal_topic,omitempty"`
}

// ---------------------------------------------------------------------------
// snapshots of metadata content (what the statement lists: brokers, controller,
// topics, partitions with leader / replicas / isr and error codes)

type snapBroker struct {
	Host string
	Port int32
	Rack string
}

type snapPart struct {
	Err      int16
	Leader   int32
	Replicas []int32
	Isr      []int32
}

type snapTopic struct {
	Err   int16
	Parts map[int32]snapPart
}

type snapshot struct {
	Brokers    map[int32]snapBroker
	Controller int32
	Topics     map[string]snapTopic
	canon      string
}

func (s *snapshot) seal() *snapshot {
	var b strings.Builder
	ids := make([]int, 0, len(s.Brokers))
	for id := range s.Brokers {
		ids = append(ids, int(id))
	}
	sort.Ints(ids)
	for _, id := range ids {
		br := s.Brokers[int32(id)]
		fmt.Fprintf(&b, "b%d=%s:%d/%s;", id, br.Host, br.Port, br.Rack)
	}
	fmt.Fprintf(&b, "ctl=%d;", s.Controller)
	names := make([]string, 0, len(s.Topics))
	for n := range s.Topics {
		names = append(names, n)
	}
	sort.Strings(names)
	for _, n := range names {
		b.WriteString(topicCanon(n, s.Topics[n]))
	}
	s.canon = b.String()
	return s
}

func topicCanon(name string, t snapTopic) string {
	var b strings.Builder
	fmt.Fprintf(&b, "t(%s e%d", name, t.Err)
	ps := make([]int, 0, len(t.Parts))
	for p := range t.Parts {
		ps = append(ps, int(p))
	}
	sort.Ints(ps)
	for _, p := range ps {
		sp := t.Parts[int32(p)]
		fmt.Fprintf(&b, " p%d e%d l%d r%v i%v", p, sp.Err, sp.Leader, sp.Replicas, sp.Isr)
	}
	b.WriteString(");")
	return b.String()
}

func anyInt(v any) int64 {
	switch x := v.(type) {
	case int64:
		return x
	case int:
		return int64(x)
	case int32:
		return int64(x)
	case int16:
		return int64(x)
	}
	return 0
}

func anyStr(v any) string {
	switch x := v.(type) {
	case string:
		return x
	case *string:
		if x != nil {
			return *x
		}
	}
	return ""
}

func anyI32s(v any) []int32 {
	a, _ := v.([]any)
	out := make([]int32, 0, len(a))
	for _, x := range a {
		out = append(out, int32(anyInt(x)))
	}
	return out
}

// snapFromBody reads a metadata response body of the fake's journal.
func snapFromBody(body map[string]any) *snapshot {
	s := &snapshot{Brokers: map[int32]snapBroker{}, Topics: map[string]snapTopic{}}
	bs, _ := body["Brokers"].([]any)
	for _, bv := range bs {
		bm, _ := bv.(map[string]any)
		s.Brokers[int32(anyInt(bm["NodeID"]))] = snapBroker{Host: anyStr(bm["Host"]), Port: int32(anyInt(bm["Port"])), Rack: anyStr(bm["Rack"])}
	}
	s.Controller = int32(anyInt(body["ControllerID"]))
	ts, _ := body["Topics"].([]any)
	for _, tv := range ts {
		tm, _ := tv.(map[string]any)
		st := snapTopic{Err: int16(anyInt(tm["ErrorCode"])), Parts: map[int32]snapPart{}}
		ps, _ := tm["Partitions"].([]any)
		for _, pv := range ps {
			pm, _ := pv.(map[string]any)
			st.Parts[int32(anyInt(pm["PartitionIndex"]))] = snapPart{Err: int16(anyInt(pm["ErrorCode"])), Leader: int32(anyInt(pm["LeaderID"])),
				Replicas: anyI32s(pm["ReplicaNodes"]), Isr: anyI32s(pm["IsrNodes"])}
		}
		s.Topics[anyStr(tm["Name"])] = st
	}
	return s.seal()
}

// snapFromLib reads the library's metadata response (the cache probe).
func snapFromLib(r *meta.Response) *snapshot {
	s := &snapshot{Brokers: map[int32]snapBroker{}, Topics: map[string]snapTopic{}, Controller: r.ControllerID}
	for _, b := range r.Brokers {
		s.Brokers[b.NodeID] = snapBroker{Host: b.Host, Port: b.Port, Rack: b.Rack}
	}
	for _, t := range r.Topics {
		st := snapTopic{Err: t.ErrorCode, Parts: map[int32]snapPart{}}
		for _, p := range t.Partitions {
			st.Parts[p.PartitionIndex] = snapPart{Err: p.ErrorCode, Leader: p.LeaderID, Replicas: append([]int32{}, p.ReplicaNodes...), Isr: append([]int32{}, p.IsrNodes...)}
		}
		s.Topics[t.Name] = st
	}
	return s.seal()
}

// filteredCanon renders what Client.Metadata must return for a topic filter
// when it is served from a cache holding s: brokers, controller and, in the
// order of the filter, each topic's content or an UNKNOWN_TOPIC_OR_PARTITION mark.
func filteredCanon(s *snapshot, names []string, all bool) string {
	var b strings.Builder
	ids := make([]int, 0, len(s.Brokers))
	for id := range s.Brokers {
		ids = append(ids, int(id))
	}
	sort.Ints(ids)
	for _, id := range ids {
		br := s.Brokers[int32(id)]
		fmt.Fprintf(&b, "b%d=%s:%d/%s;", id, br.Host, br.Port, br.Rack)
	}
	if cb, ok := s.Brokers[s.Controller]; ok {
		fmt.Fprintf(&b, "ctl=%d@%s:%d/%s;", s.Controller, cb.Host, cb.Port, cb.Rack)
	} else {
		b.WriteString("ctl=none;")
	}
	brokerOf := func(id int32) string {
		if br, ok := s.Brokers[id]; ok {
			return fmt.Sprintf("%d@%s:%d/%s", id, br.Host, br.Port, br.Rack)
		}
		return "0@:0/"
	}
	one := func(name string, t snapTopic, known bool) {
		if !known {
			fmt.Fprintf(&b, "t(%s e%d);", name, int(kafka.UnknownTopicOrPartition))
			return
		}
		fmt.Fprintf(&b, "t(%s e%d", name, t.Err)
		ps := make([]int, 0, len(t.Parts))
		for p := range t.Parts {
			ps = append(ps, int(p))
		}
		sort.Ints(ps)
		for _, p := range ps {
			sp := t.Parts[int32(p)]
			fmt.Fprintf(&b, " p%d e%d l%s r[", p, sp.Err, brokerOf(sp.Leader))
			for _, id := range sp.Replicas {
				b.WriteString(brokerOf(id) + ",")
			}
			b.WriteString("] i[")
			for _, id := range sp.Isr {
				b.WriteString(brokerOf(id) + ",")
			}
			b.WriteString("]")
		}
		b.WriteString(");")
	}
	if all {
		ns := make([]string, 0, len(s.Topics))
		for n := range s.Topics {
			ns = append(ns, n)
		}
		sort.Strings(ns)
		for _, n := range ns {
			one(n, s.Topics[n], true)
		}
	} else {
		for _, n := range names {
			t, ok := s.Topics[n]
			one(n, t, ok)
		}
	}
	return b.String()
}

func errCode(err error) int {
	if err == nil {
		return 0
	}
	var ke kafka.Error
	if errors.As(err, &ke) {
		return int(ke)
	}
	return -9999
}

// clientMetaCanon renders a kafka.MetadataResponse in the format of filteredCanon.
func clientMetaCanon(r *kafka.MetadataResponse, all bool) string {
	var b strings.Builder
	bs := append([]kafka.Broker{}, r.Brokers...)
	sort.Slice(bs, func(i, j int) bool { return bs[i].ID < bs[j].ID })
	for _, br := range bs {
		fmt.Fprintf(&b, "b%d=%s:%d/%s;", br.ID, br.Host, br.Port, br.Rack)
	}
	if r.Controller != (kafka.Broker{}) {
		fmt.Fprintf(&b, "ctl=%d@%s:%d/%s;", r.Controller.ID, r.Controller.Host, r.Controller.Port, r.Controller.Rack)
	} else {
		b.WriteString("ctl=none;")
	}
	bo := func(br kafka.Broker) string { return fmt.Sprintf("%d@%s:%d/%s", br.ID, br.Host, br.Port, br.Rack) }
	ts := append([]kafka.Topic{}, r.Topics...)
	if all {
		sort.SliceStable(ts, func(i, j int) bool { return ts[i].Name < ts[j].Name })
	}
	for _, t := range ts {
		fmt.Fprintf(&b, "t(%s e%d", t.Name, errCode(t.Error))
		ps := append([]kafka.Partition{}, t.Partitions...)
		sort.SliceStable(ps, func(i, j int) bool { return ps[i].ID < ps[j].ID })
		for _, p := range ps {
			fmt.Fprintf(&b, " p%d e%d l%s r[", p.ID, errCode(p.Error), bo(p.Leader))
			for _, x := range p.Replicas {
				b.WriteString(bo(x) + ",")
			}
			b.WriteString("] i[")
			for _, x := range p.Isr {
				b.WriteString(bo(x) + ",")
			}
			b.WriteString("]")
		}
		b.WriteString(");")
	}
	return b.String()
}

// ---------------------------------------------------------------------------
// running a case

type stepObs struct {
	Probe         *snapshot // cache content seen right before the step (nil: probe failed)
	ProbeSeqAfter int64     // journal sequence when the probe had returned
	S0, S1        int64     // journal sequence before the call / after it returned
	Err           error
	TimedOut      bool
	ProbeAt       time.Time // when the probe before the step was started
	Meta          string    // metadata step: canonical form of the result
	MetaOK        bool
	CoordTruth    map[string]int32 // coordinator of the keys used by the step, at step start
	Truth         *snapshot        // the cluster's layout at step start (request steps)
	// await
	Awaited      bool
	AwaitSynced  bool
	AwaitElapsed time.Duration // from the last cluster change to the moment the cache was seen in sync
	AwaitFirst   bool          // in sync at the first look
	ChangeSeq    int64         // journal sequence at the last cluster change before the await
	L            int           // filled by the oracle: lower bound index into D
}

const callTimeout = 4 * time.Second

type world struct {
	c          routeCase
	nw         *memnet.Network
	cl         *fakecluster.Cluster
	tr         *kafka.Transport
	client     *kafka.Client
	addr       kafkaAddr
	controller int32
	names      []string // every topic name the case may have brought to life
	lastChange time.Time
	changeSeq  int64
	pinned     map[string]int32
}

type kafkaAddr interface {
	Network() string
	String() string
}

func applyVersions(cl *fakecluster.Cluster, b brokerSpec) {
	for _, v := range b.Versions {
		cl.SetBrokerVersions(b.ID, v.Api, v.Min, v.Max)
	}
}

func setRack(cl *fakecluster.Cluster, id int32, rack string) {
	b := cl.Broker(id)
	cl.Lock()
	b.Rack = rack
	cl.Unlock()
}

// truth renders the cluster's present layout the way a metadata response would.
func (w *world) truth() *snapshot {
	s := &snapshot{Brokers: map[int32]snapBroker{}, Topics: map[string]snapTopic{}, Controller: w.controller}
	live := map[int32]bool{}
	for _, id := range w.cl.BrokerIDs() {
		b := w.cl.Broker(id)
		w.cl.Lock()
		s.Brokers[id] = snapBroker{Host: b.Host, Port: b.Port, Rack: b.Rack}
		w.cl.Unlock()
		live[id] = true
	}
	for _, n := range w.names {
		t := w.cl.Topic(n)
		if t == nil {
			continue
		}
		st := snapTopic{Parts: map[int32]snapPart{}}
		w.cl.Lock()
		for _, p := range t.Partitions {
			sp := snapPart{Leader: p.Leader, Replicas: append([]int32{}, p.Replicas...), Isr: append([]int32{}, p.ISR...)}
			if !live[p.Leader] {
				sp.Err = fakecluster.ErrLeaderNotAvailable
			}
			st.Parts[p.ID] = sp
		}
		w.cl.Unlock()
		s.Topics[n] = st
	}
	return s.seal()
}

func (w *world) probe() *snapshot {
	ctx, cancel := context.WithTimeout(context.Background(), callTimeout)
	defer cancel()
	r, err := w.tr.RoundTrip(ctx, w.addr, &meta.Request{})
	if err != nil {
		return nil
	}
	m, ok := r.(*meta.Response)
	if !ok || m == nil {
		return nil
	}
	return snapFromLib(m)
}

func (w *world) changed() {
	w.lastChange = time.Now()
	w.changeSeq = w.cl.Seq()
}

var recTime = time.UnixMilli(1_600_000_000_000)

func groupRequest(api, key string, names []string) kafka.Request {
	switch api {
	case "offsetcommit":
		return &offsetcommit.Request{GroupID: key, GenerationID: -1, Topics: []offsetcommit.RequestTopic{{Name: "t0", Partitions: []offsetcommit.RequestPartition{{PartitionIndex: 0, CommittedOffset: 1}}}}}
	case "offsetfetch":
		return &offsetfetch.Request{GroupID: key, Topics: []offsetfetch.RequestTopic{{Name: "t0", PartitionIndexes: []int32{0}}}}
	case "joingroup":
		// an unknown member id is answered at once with UNKNOWN_MEMBER_ID: routing and version are what matters here
		return &joingroup.Request{GroupID: key, SessionTimeoutMS: 6000, RebalanceTimeoutMS: 6000, MemberID: "no-such-member", ProtocolType: "consumer",
			Protocols: []joingroup.RequestProtocol{{Name: "range", Metadata: []byte{0, 0, 0, 0, 0, 0, 0, 0, 0, 0}}}}
	case "heartbeat":
		return &heartbeat.Request{GroupID: key, GenerationID: 1, MemberID: "no-such-member"}
	case "leavegroup":
		return &leavegroup.Request{GroupID: key, MemberID: "no-such-member", Members: []leavegroup.RequestMember{{MemberID: "no-such-member"}}}
	case "syncgroup":
		return &syncgroup.Request{GroupID: key, GenerationID: 1, MemberID: "no-such-member"}
	case "describegroups":
		return &describegroups.Request{Groups: append([]string{}, names...)}
	case "deletegroups":
		return &deletegroups.Request{GroupIDs: []string{key}}
	case "offsetdelete":
		return &offsetdelete.Request{GroupID: key, Topics: []offsetdelete.RequestTopic{{Name: "t0", Partitions: []offsetdelete.RequestPartition{{PartitionIndex: 0}}}}}
	case "txnoffsetcommit":
		return &txnoffsetcommit.Request{TransactionalID: "tx0", GroupID: key, ProducerID: 1, Topics: []txnoffsetcommit.RequestTopic{{Name: "t0", Partitions: []txnoffsetcommit.RequestPartition{{Partition: 0, CommittedOffset: 1}}}}}
	}
	panic("unknown group api " + api)
}

func txnRequest(api, key string) kafka.Request {
	switch api {
	case "initproducerid":
		return &initproducerid.Request{TransactionalID: key, TransactionTimeoutMs: 1000, ProducerID: -1, ProducerEpoch: -1}
	case "addpartitionstotxn":
		return &addpartitionstotxn.Request{TransactionalID: key, ProducerID: 1, Topics: []addpartitionstotxn.RequestTopic{{Name: "t0", Partitions: []int32{0}}}}
	case "addoffsetstotxn":
		return &addoffsetstotxn.Request{TransactionalID: key, ProducerID: 1, GroupID: "g0"}
	case "endtxn":
		return &endtxn.Request{TransactionalID: key, ProducerID: 1, Committed: true}
	}
	panic("unknown txn api " + api)
}

// groupApiKeys / txnApiKeys: how the oracle finds the coordinator key in a journalled body.
var groupKeyField = map[int16]string{8: "GroupID", 9: "GroupID", 11: "GroupID", 12: "GroupID", 13: "GroupID", 14: "GroupID", 15: "Groups", 42: "GroupIDs", 47: "GroupID", 28: "GroupID"}
var txnKeyField = map[int16]string{22: "TransactionalID", 24: "TransactionalID", 25: "TransactionalID", 26: "TransactionalID"}

func (w *world) call(s step) (err error, metaCanon string, metaOK bool) {
	ctx, cancel := context.WithTimeout(context.Background(), callTimeout)
	defer cancel()
	rt := func(req kafka.Request) error {
		_, err := w.tr.RoundTrip(ctx, w.addr, req)
		return err
	}
	par := func(mk func() kafka.Request) error {
		n := s.Par
		if n < 1 {
			n = 1
		}
		errs := make([]error, n)
		var wg sync.WaitGroup
		for i := 0; i < n; i++ {
			wg.Add(1)
			go func(i int) {
				defer wg.Done()
				errs[i] = rt(mk())
			}(i)
		}
		wg.Wait()
		for _, e := range errs {
			if e != nil && (errors.Is(e, context.DeadlineExceeded)) {
				return e
			}
		}
		for _, e := range errs {
			if e != nil {
				return e
			}
		}
		return nil
	}
	switch s.Op {
	case "produce":
		if s.Raw {
			return par(func() kafka.Request {
				var ps []rawproduce.RequestPartition
				for _, p := range s.Parts {
					ps = append(ps, rawproduce.RequestPartition{Partition: p, RecordSet: protocol.RawRecordSet{Reader: bytes.NewReader(rawRecords)}})
				}
				return &rawproduce.Request{Acks: s.Acks, Timeout: 1000, Topics: []rawproduce.RequestTopic{{Topic: s.Topic, Partitions: ps}}}
			}), "", false
		}
		return par(func() kafka.Request {
			var ps []produce.RequestPartition
			for _, p := range s.Parts {
				ps = append(ps, produce.RequestPartition{Partition: p, RecordSet: protocol.RecordSet{
					Records: protocol.NewRecordReader(protocol.Record{Time: recTime, Key: protocol.NewBytes([]byte("k")), Value: protocol.NewBytes([]byte("v"))})}})
			}
			return &produce.Request{Acks: s.Acks, Timeout: 1000, Topics: []produce.RequestTopic{{Topic: s.Topic, Partitions: ps}}}
		}), "", false
	case "fetch":
		return par(func() kafka.Request {
			var ps []fetch.RequestPartition
			for _, p := range s.Parts {
				ps = append(ps, fetch.RequestPartition{Partition: p, CurrentLeaderEpoch: -1, FetchOffset: 0, PartitionMaxBytes: 1 << 16})
			}
			return &fetch.Request{ReplicaID: -1, MaxWaitTime: 2, MinBytes: 0, MaxBytes: 1 << 20, Topics: []fetch.RequestTopic{{Topic: s.Topic, Partitions: ps}}}
		}), "", false
	case "listoffsets":
		return par(func() kafka.Request {
			r := &listoffsets.Request{ReplicaID: -1}
			for _, x := range s.TPs {
				k := -1
				for i := range r.Topics {
					if r.Topics[i].Topic == x.Topic {
						k = i
					}
				}
				if k < 0 {
					r.Topics = append(r.Topics, listoffsets.RequestTopic{Topic: x.Topic})
					k = len(r.Topics) - 1
				}
				r.Topics[k].Partitions = append(r.Topics[k].Partitions, listoffsets.RequestPartition{Partition: x.Partition, CurrentLeaderEpoch: -1, Timestamp: -1})
			}
			return r
		}), "", false
	case "metadata":
		var names []string
		if !s.NilAll {
			names = append([]string{}, s.Names...)
		}
		r, err := w.client.Metadata(ctx, &kafka.MetadataRequest{Topics: names})
		if err != nil {
			return err, "", false
		}
		return nil, clientMetaCanon(r, s.NilAll), true
	case "metadata_wire":
		return rt(&meta.Request{TopicNames: append([]string{}, s.Names...), AllowAutoTopicCreation: true}), "", false
	case "findcoord":
		kt := int8(0)
		if strings.HasPrefix(s.Key, "tx") {
			kt = 1
		}
		return rt(&findcoordinator.Request{Key: s.Key, KeyType: kt}), "", false
	case "group":
		if s.Client && s.Api == "heartbeat" {
			_, err := w.client.Heartbeat(ctx, &kafka.HeartbeatRequest{GroupID: s.Key, GenerationID: 1, MemberID: "no-such-member"})
			return err, "", false
		}
		return par(func() kafka.Request { return groupRequest(s.Api, s.Key, s.Names) }), "", false
	case "txn":
		return par(func() kafka.Request { return txnRequest(s.Api, s.Key) }), "", false
	case "create":
		var tc []kafka.TopicConfig
		for _, n := range s.Names {
			tc = append(tc, kafka.TopicConfig{Topic: n, NumPartitions: s.N, ReplicationFactor: 1})
		}
		if s.Validate {
			// The transport waits after every successful CreateTopics response until the topics show up in its metadata, which
			// they never do after a validation: the call returns only when its context ends (observation, DESIGN 7.5).
			var vcancel context.CancelFunc
			ctx, vcancel = context.WithTimeout(ctx, 250*time.Millisecond)
			defer vcancel()
		}
		_, err := w.client.CreateTopics(ctx, &kafka.CreateTopicsRequest{Topics: tc, ValidateOnly: s.Validate})
		return err, "", false
	case "delete":
		_, err := w.client.DeleteTopics(ctx, &kafka.DeleteTopicsRequest{Topics: append([]string{}, s.Names...)})
		return err, "", false
	}
	panic("unknown op " + s.Op)
}

// keyTypeOf: names starting with "tx" are transactional ids, everything else is a group id.
func keyTypeOf(key string) int64 {
	if strings.HasPrefix(key, "tx") {
		return 1
	}
	return 0
}

func (w *world) keysOf(s step) []string {
	switch s.Op {
	case "group":
		if s.Api == "describegroups" {
			return s.Names
		}
		return []string{s.Key}
	case "txn":
		return []string{s.Key}
	}
	return nil
}

func isChange(op string) bool {
	switch op {
	case "move", "move_coord", "move_controller", "add_broker", "remove_broker", "move_port", "bootstrap_up", "outage":
		return true
	}
	return false
}

func (w *world) change(s step) {
	cl := w.cl
	switch s.Op {
	case "move":
		cl.MoveLeader(s.Topic, s.Parts[0], s.To)
	case "move_coord":
		cl.SetCoordinator(s.Key, s.To)
		w.pinned[s.Key] = s.To
	case "move_controller":
		cl.SetController(s.To)
		w.controller = s.To
	case "outage":
		// nothing is reachable for a while (longer than the metadata TTL: at least one periodic refresh fails while dialling)
		ids := cl.BrokerIDs()
		for _, id := range ids {
			cl.Net.Refuse(cl.Broker(id).Addr(), syscall.ECONNREFUSED)
		}
		for _, cs := range cl.Net.Conns() {
			cl.Net.AbortConn(cs.ID, true) // established connections die too: the transport has to dial, and cannot
		}
		time.Sleep(time.Duration(s.N) * time.Millisecond)
		for _, id := range ids {
			cl.Net.Refuse(cl.Broker(id).Addr(), nil)
		}
	case "bootstrap_up":
		for _, id := range cl.BrokerIDs() {
			cl.Net.Refuse(fmt.Sprintf("b%d.fake:9092", id), nil)
		}
	case "move_port":
		cl.MoveBrokerPort(s.Broker.ID, s.N)
	case "add_broker":
		cl.Net.Refuse(fmt.Sprintf("b%d.fake:9092", s.Broker.ID), nil)
		cl.AddBroker(s.Broker.ID, s.Broker.Rack)
		applyVersions(cl, *s.Broker)
	case "remove_broker":
		// everything the broker led moves to s.To first, as a controlled shutdown does
		id := s.To
		for _, n := range w.names {
			t := cl.Topic(n)
			if t == nil {
				continue
			}
			var mv []int32
			cl.Lock()
			for _, p := range t.Partitions {
				if p.Leader == s.Broker.ID {
					mv = append(mv, p.ID)
				}
			}
			cl.Unlock()
			for _, p := range mv {
				cl.MoveLeader(n, p, id)
			}
		}
		keys := make([]string, 0, len(w.pinned))
		for k := range w.pinned {
			keys = append(keys, k)
		}
		sort.Strings(keys)
		for _, k := range keys {
			if w.pinned[k] == s.Broker.ID {
				cl.SetCoordinator(k, id)
				w.pinned[k] = id
			}
		}
		if w.controller == s.Broker.ID {
			cl.SetController(id)
			w.controller = id
		}
		b := cl.Broker(s.Broker.ID)
		cl.Lock()
		b.Alive = false
		cl.Unlock()
		cl.Net.Refuse(b.Addr(), syscall.ECONNREFUSED)
	}
	w.changed()
}

type result struct {
	obs      []stepObs
	journal  []*fakecluster.Exchange
	viol     []string
	ttl      time.Duration
	setupErr string
	// tables: the version table every broker would advertise (brokers keep the table they were created with)
	tables map[int32]map[int16][2]int16
	// connAddr: the address every connection was dialled to
	connAddr map[int]string
}

func execute(c routeCase) *result {
	nw := memnet.New()
	maxInitial := 0
	for _, b := range c.Brokers {
		if int(b.ID) > maxInitial {
			maxInitial = int(b.ID)
		}
	}
	cl := fakecluster.New(nw, maxInitial)
	defer cl.Close()
	for _, b := range c.Brokers {
		if b.ID == 0 {
			cl.AddBroker(0, "") // node ids start at 0 in most real clusters
		}
	}
	for _, b := range c.Brokers {
		setRack(cl, b.ID, b.Rack)
		applyVersions(cl, b)
	}
	cl.SetController(c.Controller)
	cl.AutoCreate = c.AutoCreate
	// Group ids and transactional ids live in different key spaces: asked for the
	// coordinator of a name in the other key space (FindCoordinator's KeyType), a
	// broker answers with that key space's coordinator -- a different broker in general.
	cl.SetHook(func(cc *fakecluster.Cluster, r *fakecluster.Request) *fakecluster.Action {
		if r.ApiKey != 10 || r.Body == nil || r.Err != nil {
			return nil
		}
		key := anyStr(r.Body["Key"])
		if anyInt(r.Body["KeyType"]) == keyTypeOf(key) {
			return nil
		}
		return &fakecluster.Action{Tag: "other-key-space", Mutate: func(body map[string]any) {
			ids := cc.BrokerIDs()
			own := cc.CoordinatorOf(key)
			other := ids[0]
			for i, id := range ids {
				if id == own {
					other = ids[(i+1)%len(ids)]
				}
			}
			b := cc.Broker(other)
			body["NodeID"], body["Host"], body["Port"] = int64(b.ID), b.Host, int64(b.Port)
		}}
	})
	w := &world{c: c, nw: nw, cl: cl, controller: c.Controller, pinned: map[string]int32{}}
	for _, t := range c.Topics {
		cl.CreateTopic(t.Name, len(t.Leaders))
		for p, l := range t.Leaders {
			cl.MoveLeader(t.Name, int32(p), l)
		}
		w.names = append(w.names, t.Name)
	}
	if c.InternalTopic {
		it := cl.CreateTopic("__consumer_offsets", 2)
		cl.Lock()
		it.Internal = true
		cl.Unlock()
		w.names = append(w.names, "__consumer_offsets")
	}
	for _, s := range c.Steps {
		if s.Op == "create" || s.Op == "metadata_wire" { // validate-only creations too: below v1 the flag does not exist and the topic is created
			w.names = append(w.names, s.Names...)
		}
	}
	for _, k := range c.Coords {
		cl.SetCoordinator(k.Key, k.Broker)
		w.pinned[k.Key] = k.Broker
	}
	var addrs []string
	for _, id := range c.Bootstrap {
		addrs = append(addrs, fmt.Sprintf("b%d.fake:9092", id))
	}
	w.addr = kafka.TCP(addrs...)
	ttl := time.Duration(c.TTLms) * time.Millisecond
	w.tr = &kafka.Transport{Dial: nw.Dial, MetadataTTL: ttl, ClientID: "c12"}
	if c.SASL {
		cl.EnableSASL(&fakecluster.SASLConfig{Mechanisms: []string{"PLAIN"}, Users: map[string]string{"u": "p"}})
		w.tr.SASL = plain.Mechanism{Username: "u", Password: "p"}
	}
	w.client = &kafka.Client{Addr: w.addr, Transport: w.tr}
	if c.BootstrapDown {
		for _, id := range cl.BrokerIDs() {
			cl.Net.Refuse(fmt.Sprintf("b%d.fake:9092", id), syscall.ECONNREFUSED)
		}
	}
	res := &result{ttl: ttl}
	w.changed()
	neverAfter := 10*ttl + 2*time.Second
	for _, s := range c.Steps {
		var o stepObs
		o.ProbeAt = time.Now()
		o.Probe = w.probe()
		o.ProbeSeqAfter = cl.Seq()
		switch {
		case isChange(s.Op):
			o.S0 = cl.Seq()
			w.change(s)
			o.S1 = cl.Seq()
		case s.Op == "sleep":
			o.S0 = cl.Seq()
			time.Sleep(time.Duration(s.N) * time.Millisecond)
			o.S1 = cl.Seq()
		case s.Op == "await":
			o.S0 = cl.Seq()
			o.Awaited = true
			o.ChangeSeq = w.changeSeq
			want := w.truth()
			first := true
			for {
				p := w.probe()
				now := time.Now()
				if p != nil {
					// the await's last probe is the one the next steps build on
					o.Probe, o.ProbeSeqAfter = p, cl.Seq()
				}
				if p != nil && p.canon == want.canon {
					o.AwaitSynced, o.AwaitFirst = true, first
					o.AwaitElapsed = now.Sub(w.lastChange)
					break
				}
				first = false
				if now.Sub(w.lastChange) > neverAfter {
					o.AwaitElapsed = now.Sub(w.lastChange)
					break
				}
				time.Sleep(500 * time.Microsecond)
			}
			o.S1 = cl.Seq()
		default:
			o.Truth = w.truth()
			o.CoordTruth = map[string]int32{}
			for _, k := range w.keysOf(s) {
				o.CoordTruth[k] = cl.CoordinatorOf(k)
			}
			o.S0 = cl.Seq()
			o.Err, o.Meta, o.MetaOK = w.call(s)
			o.S1 = cl.Seq()
			if s.Op == "create" || s.Op == "delete" || s.Op == "metadata_wire" {
				w.changed() // these requests change the cluster too
			}
			if o.Err != nil && (errors.Is(o.Err, context.DeadlineExceeded) || strings.Contains(o.Err.Error(), "deadline exceeded")) {
				o.TimedOut = true
			}
		}
		res.obs = append(res.obs, o)
	}
	w.tr.CloseIdleConnections()
	cl.Close() // waits for the broker goroutines: the journal is complete and no longer written
	res.journal = cl.Journal()
	res.viol = cl.Violations()
	res.connAddr = map[int]string{}
	for _, cs := range nw.Conns() {
		res.connAddr[cs.ID] = cs.Addr
	}
	res.tables = map[int32]map[int16][2]int16{}
	cl.Lock()
	for _, e := range res.journal {
		if _, ok := res.tables[e.BrokerID]; !ok {
			if b := cl.BrokerUnlocked(e.BrokerID); b != nil {
				m := map[int16][2]int16{}
				for k, v := range b.Versions {
					m[k] = v
				}
				res.tables[e.BrokerID] = m
			}
		}
	}
	cl.Unlock()
	return res
}

// ---------------------------------------------------------------------------
// oracle

type outcome struct {
	labels     map[string]bool
	routed     int // routed (non-metadata) requests whose destination was checked
	brokersHit map[int32]bool
}

func (o *outcome) label(l string) { o.labels[l] = true }

func describeWindow(d []*fakecluster.Exchange, snaps []*snapshot, lo, hi int) string {
	var b strings.Builder
	for i := lo; i <= hi && i < len(d); i++ {
		if i < 0 {
			continue
		}
		fmt.Fprintf(&b, "\n    metadata seq %d (broker %d, v%d): %s", d[i].Seq, d[i].BrokerID, d[i].Version, snaps[i].canon)
	}
	return b.String()
}

func journalText(j []*fakecluster.Exchange) string {
	var b strings.Builder
	for _, e := range j {
		fmt.Fprintf(&b, "  seq %d conn %d broker %d %s v%d %s", e.Seq, e.ConnID, e.BrokerID, e.ApiName, e.Version, e.Outcome)
		if e.DecodeErr != "" {
			fmt.Fprintf(&b, " decode-error=%q", e.DecodeErr)
		}
		b.WriteString("\n")
	}
	s := b.String()
	if len(s) > 5000 {
		s = s[:5000] + "…"
	}
	return s
}

// run executes the case and evaluates the oracle; it returns nil when the
// case could not be evaluated (recorded as inconclusive).
func run(tb ev.TB, c routeCase) *outcome {
	ev.InFlight("route", c)
	res := execute(c)
	out := &outcome{labels: map[string]bool{}, brokersHit: map[int32]bool{}}
	fail := func(sig, format string, args ...any) {
		ev.Fail(tb, "route", sig, c, format+"\njournal:\n%s", append(args, journalText(res.journal))...)
	}
	j := res.journal

	// ---- advertised tables per connection, from the ApiVersions answers the fake gave
	adv := map[int]map[int16][2]int16{}
	for _, e := range j {
		if e.ApiKey != 18 || e.RespBody == nil {
			continue
		}
		m := map[int16][2]int16{}
		ks, _ := e.RespBody["ApiKeys"].([]any)
		for _, kv := range ks {
			km, _ := kv.(map[string]any)
			m[int16(anyInt(km["ApiKey"]))] = [2]int16{int16(anyInt(km["MinVersion"])), int16(anyInt(km["MaxVersion"]))}
		}
		adv[e.ConnID] = m
	}

	// ---- version rule: every request is encoded at min(library max, broker max), inside the advertised range
	perApiBroker := map[int16]map[int16]bool{} // api -> set of versions used (heterogeneity evidence)
	for _, e := range j {
		if e.ApiKey == 18 || e.ApiKey < 0 || ((e.ApiKey == 17 || e.ApiKey == 36) && !c.SASL) {
			continue
		}
		tbl, ok := adv[e.ConnID]
		if !ok {
			// no ApiVersions exchange on this connection: the range "the broker advertised" is the one it would have
			// answered with, i.e. its table (a client that reuses another broker's answer is judged against this broker's)
			out.label("request_on_connection_without_apiversions")
			tbl, ok = res.tables[e.BrokerID]
			if !ok {
				ev.Inconclusive("request_on_connection_without_apiversions")
				continue
			}
		}
		r, ok := tbl[e.ApiKey]
		if !ok {
			continue // the broker did not list the api: no claim
		}
		k := protocol.ApiKey(e.ApiKey)
		lmin, lmax := k.MinVersion(), k.MaxVersion()
		if r[1] < lmin || r[0] > lmax {
			out.label("ranges_do_not_overlap")
			continue // the statement makes no claim
		}
		want := lmax
		if r[1] < want {
			want = r[1]
		}
		if e.Version < r[0] || e.Version > r[1] {
			fail("c12/version-outside-advertised", "%s request seq %d on connection %d to broker %d was encoded at v%d; that broker advertised v%d-v%d on this connection (library supports v%d-v%d)",
				e.ApiName, e.Seq, e.ConnID, e.BrokerID, e.Version, r[0], r[1], lmin, lmax)
			return nil
		}
		if e.Version != want {
			fail("c12/version-selection", "%s request seq %d on connection %d to broker %d was encoded at v%d; highest version supported by both sides is v%d (broker v%d-v%d, library v%d-v%d)",
				e.ApiName, e.Seq, e.ConnID, e.BrokerID, e.Version, want, r[0], r[1], lmin, lmax)
			return nil
		}
		if perApiBroker[e.ApiKey] == nil {
			perApiBroker[e.ApiKey] = map[int16]bool{}
		}
		perApiBroker[e.ApiKey][e.Version] = true
		switch {
		case r[1] < lmax:
			out.label("broker_max_below_library_max")
		case r[1] > lmax:
			out.label("broker_max_above_library_max")
		}
		if r[0] > lmin {
			out.label("broker_min_above_library_min")
		}
	}
	for _, vs := range perApiBroker {
		if len(vs) >= 2 {
			out.label("heterogeneous_versions")
		}
	}
	// malformed requests other than a version outside the range belong to the codec properties (C04); they are only counted here
	for _, v := range res.viol {
		if !strings.Contains(v, "outside the range") {
			ev.Count("malformed_request_seen", 1)
			out.label("malformed_request_seen")
		}
	}

	// ---- the chain of metadata exchanges that feed the cache
	var d []*fakecluster.Exchange
	var snaps []*snapshot
	for _, e := range j {
		if e.ApiKey == 3 && e.DecodeErr == "" && e.Body != nil && e.Body["TopicNames"] == nil && e.RespBody != nil {
			d = append(d, e)
			snaps = append(snaps, snapFromBody(e.RespBody))
		}
	}
	for _, e := range j {
		if e.ApiKey == 3 && e.Version == 0 {
			// v0 metadata names no controller and cannot ask for "all topics" with a null list; the
			// generator never negotiates it (hand-written replay cases might)
			ev.Inconclusive("metadata_v0_not_modelled")
			return nil
		}
	}
	lastBefore := func(seq int64, inclusive bool) int { // index of the last D that arrived before seq
		k := -1
		for i, e := range d {
			if e.Seq < seq || (inclusive && e.Seq == seq) {
				k = i
			}
		}
		return k
	}
	outageBefore := func(i int) bool {
		for k := 0; k < i && k < len(c.Steps); k++ {
			if c.Steps[k].Op == "outage" {
				return true
			}
		}
		return false
	}
	timedOut := false
	for _, o := range res.obs {
		timedOut = timedOut || o.TimedOut
	}

	// ---- probes: the cache always holds the content of one refresh, and moves forward only
	// (judged before a timed-out call makes the case inconclusive: a transport that never takes in the brokers' answers
	// makes every call time out)
	L := 0
	usable := true
	for i := range res.obs {
		o := &res.obs[i]
		o.L = L
		if o.Probe == nil {
			// The cache legitimately answers with an error only while no metadata response has ever been applied.  Refreshes
			// after a failure are at least 100 ms apart, so by the time three answered ones are in the journal the first is.
			answered := 0
			for _, e := range d {
				if e.Seq <= o.ProbeSeqAfter && e.Outcome == "answered" {
					answered++
				}
			}
			// ... or when one was answered completely more than a second before the probe (which itself waits for seconds) began
			longAgo := false
			for _, e := range d {
				if e.Outcome == "answered" && !e.AnsweredAt.IsZero() && e.AnsweredAt.Before(o.ProbeAt.Add(-time.Second)) {
					longAgo = true
				}
			}
			if longAgo && answered < 3 && ev.MachineLate(30*time.Second) < 200*time.Millisecond && !outageBefore(i) {
				fail("c12/cache-error-after-refresh", "before step %d (%s) a metadata request served from the transport's cache failed although a metadata refresh had been answered completely by a broker more than a second earlier%s",
					i, c.Steps[i].Op, describeWindow(d, snaps, 0, len(snaps)-1))
				return nil
			}
			if answered >= 3 {
				fail("c12/cache-error-after-refresh", "before step %d (%s) a metadata request served from the transport's cache still failed although %d metadata refreshes had been answered by the brokers%s",
					i, c.Steps[i].Op, answered, describeWindow(d, snaps, 0, len(snaps)-1))
				return nil
			}
			if answered == 0 && c.BootstrapDown {
				out.label("cache_error_before_first_refresh")
				continue
			}
			usable = false
			break
		}
		hi := lastBefore(o.ProbeSeqAfter, true)
		found := -1
		for k := L; k <= hi; k++ {
			if snaps[k].canon == o.Probe.canon {
				found = k
				break
			}
		}
		if found < 0 {
			fail("c12/cached-metadata-mismatch", "before step %d (%s) the transport's cached metadata (nil topic list) was\n    %s\nwhich equals none of the metadata responses the brokers gave it in the window [D%d..D%d]:%s",
				i, c.Steps[i].Op, o.Probe.canon, L, hi, describeWindow(d, snaps, L, hi))
			return nil
		}
		L = found
		o.L = found
	}
	if timedOut {
		ev.Inconclusive("call_timed_out")
		return nil
	}
	if !usable {
		ev.Inconclusive("cache_probe_failed")
		return nil
	}

	// ---- leader-move rule, liveness half: the cache catches up with the cluster within TTL + slack
	late := res.ttl + 300*time.Millisecond
	for i := range res.obs {
		o := &res.obs[i]
		if !o.Awaited {
			continue
		}
		if o.AwaitSynced {
			if !o.AwaitFirst && o.AwaitElapsed > late {
				ev.Inconclusive("refresh_late")
			} else {
				out.label("refresh_within_ttl")
			}
			continue
		}
		// never in sync within 10xTTL+2s: decide from the journal whether refreshes happened at all
		asked, answered := 0, 0
		for _, e := range d {
			if e.Seq > o.ChangeSeq {
				asked++
				if e.Outcome == "answered" {
					answered++
				}
			}
		}
		switch {
		case asked == 0:
			fail("c12/no-metadata-refresh", "step %d: %v after the last cluster change (journal seq %d) the transport had not sent a single metadata request (MetadataTTL %v); its cache still shows\n    %s\ncluster:\n    %s",
				i, o.AwaitElapsed, o.ChangeSeq, res.ttl, o.Probe.canon, "see case")
			return nil
		case answered >= 3:
			fail("c12/cache-not-updated", "step %d: %v after the last cluster change (journal seq %d) and %d answered metadata refreshes the transport's cache still shows\n    %s\nlast response:\n    %s",
				i, o.AwaitElapsed, o.ChangeSeq, answered, o.Probe.canon, snaps[len(snaps)-1].canon)
			return nil
		default:
			ev.Inconclusive("refresh_never_but_undecidable")
			return nil
		}
	}

	// ---- topic-filtered metadata served from the cache
	for i := range res.obs {
		o := &res.obs[i]
		s := c.Steps[i]
		if s.Op != "metadata" || !o.MetaOK {
			continue
		}
		hi := lastBefore(o.S1, true)
		ok := false
		for k := o.L; k <= hi; k++ {
			if filteredCanon(snaps[k], s.Names, s.NilAll) == o.Meta {
				ok = true
				break
			}
		}
		if !ok {
			fail("c12/filtered-metadata-mismatch", "step %d: Client.Metadata(topics=%q nil=%v) returned\n    %s\nexpected the filtered content of one of the responses in [D%d..D%d], e.g.\n    %s",
				i, s.Names, s.NilAll, o.Meta, o.L, hi, filteredCanon(snaps[o.L], s.Names, s.NilAll))
			return nil
		}
		unknown := false
		for _, n := range s.Names {
			if _, in := snaps[o.L].Topics[n]; !in {
				unknown = true
			}
		}
		if unknown {
			out.label("metadata_filter_unknown_topic")
		}
		out.label("metadata_filter_checked")
	}

	// ---- routing
	stepOf := func(seq int64) int {
		for i := range res.obs {
			if seq > res.obs[i].S0 && seq <= res.obs[i].S1 {
				return i
			}
		}
		return -1
	}
	// history of leaders per partition, by step index, for the leader-move labels
	type mv struct {
		step     int
		from, to int32
	}
	moves := map[tp][]mv{}
	{
		cur := map[tp]int32{}
		for _, t := range c.Topics {
			for p, l := range t.Leaders {
				cur[tp{t.Name, int32(p)}] = l
			}
		}
		for i, s := range c.Steps {
			if s.Op == "move" {
				k := tp{s.Topic, s.Parts[0]}
				moves[k] = append(moves[k], mv{i, cur[k], s.To})
				cur[k] = s.To
			}
		}
	}
	findCoord := func(key string, keyType int64, s0, r int64) (ids []int32) {
		last := int32(-1)
		hasLast := false
		for _, e := range j {
			if e.ApiKey != 10 || e.Body == nil || e.RespBody == nil || anyStr(e.Body["Key"]) != key || anyInt(e.Body["KeyType"]) != keyType || anyInt(e.RespBody["ErrorCode"]) != 0 {
				continue
			}
			id := int32(anyInt(e.RespBody["NodeID"]))
			switch {
			case e.Seq <= s0:
				last, hasLast = id, true
			case e.Seq < r:
				ids = append(ids, id)
			}
		}
		if hasLast {
			ids = append(ids, last)
		}
		return ids
	}
	splitBrokers := map[int]map[int32]bool{} // listoffsets step -> brokers that received a part
	for _, e := range j {
		if e.Body == nil || e.DecodeErr != "" {
			continue
		}
		si := stepOf(e.Seq)
		if si < 0 {
			continue
		}
		o := &res.obs[si]
		hi := lastBefore(e.Seq, false)
		switch {
		case e.ApiKey == 0 || e.ApiKey == 1 || e.ApiKey == 2:
			var tps []tp
			ts, _ := e.Body["Topics"].([]any)
			for _, tv := range ts {
				tm, _ := tv.(map[string]any)
				ps, _ := tm["Partitions"].([]any)
				for _, pv := range ps {
					pm, _ := pv.(map[string]any)
					tps = append(tps, tp{anyStr(tm["Topic"]), int32(anyInt(pm["Partition"]))})
				}
			}
			if len(tps) == 0 {
				continue
			}
			ok, undesignated := false, false
			var want []string
			for k := o.L; k <= hi && !ok; k++ {
				s := snaps[k]
				leader, same, defined := int32(-1), true, true
				for _, x := range tps {
					p, in := s.Topics[x.Topic].Parts[x.Partition]
					if !in {
						defined = false
						break
					}
					if _, known := s.Brokers[p.Leader]; !known {
						defined = false
						break
					}
					if leader >= 0 && leader != p.Leader {
						same = false
					}
					leader = p.Leader
				}
				switch {
				case !defined:
					undesignated = true
				case !same:
					// with this state the library refuses the request: it cannot be the one it used
				case leader == e.BrokerID:
					ok = true
				default:
					want = append(want, fmt.Sprintf("D%d(seq %d)->broker %d", k, d[k].Seq, leader))
				}
			}
			if !ok && undesignated {
				out.label("leader_not_designated_by_metadata")
				continue
			}
			if !ok {
				fail("c12/leader-routing", "step %d (%s): %s request seq %d for %v arrived at broker %d; the metadata the transport could have used designates: %v%s",
					si, c.Steps[si].Op, e.ApiName, e.Seq, tps, e.BrokerID, want, describeWindow(d, snaps, o.L, hi))
				return nil
			}
			// the address: the one some metadata response of the window advertised for that broker id
			if addr := res.connAddr[e.ConnID]; addr != "" {
				okAddr := false
				var wantAddr []string
				for k := o.L; k <= hi; k++ {
					if b, in := snaps[k].Brokers[e.BrokerID]; in {
						a := fmt.Sprintf("%s:%d", b.Host, b.Port)
						if a == addr {
							okAddr = true
						}
						wantAddr = append(wantAddr, fmt.Sprintf("D%d->%s", k, a))
					}
				}
				if !okAddr && len(wantAddr) > 0 {
					fail("c12/broker-address", "step %d (%s): %s request seq %d for broker %d was sent over a connection to %s; the metadata the transport could have used advertises that broker at: %v",
						si, c.Steps[si].Op, e.ApiName, e.Seq, e.BrokerID, addr, wantAddr)
					return nil
				}
				if strings.HasSuffix(addr, ":9092") == false {
					out.label("routed_to_moved_port")
				}
			}
			out.routed++
			out.brokersHit[e.BrokerID] = true
			out.label("leader_routed")
			if e.ApiKey == 2 {
				if splitBrokers[si] == nil {
					splitBrokers[si] = map[int32]bool{}
				}
				splitBrokers[si][e.BrokerID] = true
			}
			for _, x := range tps {
				var lastMove *mv
				for k := range moves[x] {
					if moves[x][k].step < si {
						lastMove = &moves[x][k]
					}
				}
				if lastMove == nil {
					continue
				}
				switch e.BrokerID {
				case lastMove.to:
					out.label("leader_move_followed")
				case lastMove.from:
					out.label("stale_leader_used_before_refresh")
				}
			}
		case e.ApiKey == 19 || e.ApiKey == 20:
			ok, undesignated := false, false
			var want []string
			for k := o.L; k <= hi && !ok; k++ {
				s := snaps[k]
				if _, known := s.Brokers[s.Controller]; !known {
					undesignated = true
					continue
				}
				if s.Controller == e.BrokerID {
					ok = true
				} else {
					want = append(want, fmt.Sprintf("D%d(seq %d)->broker %d", k, d[k].Seq, s.Controller))
				}
			}
			if !ok && undesignated {
				out.label("controller_not_designated_by_metadata")
				continue
			}
			if !ok {
				fail("c12/controller-routing", "step %d: %s request seq %d arrived at broker %d; the metadata the transport could have used names the controller: %v%s",
					si, e.ApiName, e.Seq, e.BrokerID, want, describeWindow(d, snaps, o.L, hi))
				return nil
			}
			out.routed++
			out.brokersHit[e.BrokerID] = true
			out.label("controller_routed")
			if e.BrokerID != c.Bootstrap[0] || len(c.Bootstrap) > 1 {
				out.label("controller_not_bootstrap")
			}
		default:
			field, isGroup := groupKeyField[e.ApiKey]
			if !isGroup {
				var isTxn bool
				field, isTxn = txnKeyField[e.ApiKey]
				if !isTxn {
					continue
				}
			}
			key := ""
			switch v := e.Body[field].(type) {
			case []any:
				if len(v) > 0 {
					key = anyStr(v[0])
				}
			default:
				key = anyStr(v)
			}
			if key == "" {
				continue
			}
			keyType := int64(0)
			if !isGroup {
				keyType = 1
			}
			cands := findCoord(key, keyType, o.S0, e.Seq)
			if t, ok := o.CoordTruth[key]; ok {
				cands = append(cands, t)
			}
			ok := false
			for _, id := range cands {
				if id == e.BrokerID {
					ok = true
				}
			}
			if !ok {
				kind := "group"
				if !isGroup {
					kind = "transaction"
				}
				fail("c12/coordinator-routing/"+e.ApiName, "step %d: %s request seq %d for %s %q arrived at broker %d; the %s coordinator is broker %d and the FindCoordinator answers given to the transport for that key (in that key space) named %v",
					si, e.ApiName, e.Seq, kind, key, e.BrokerID, kind, o.CoordTruth[key], findCoord(key, keyType, o.S0, e.Seq))
				// a known finding: go on with the other requests
				continue
			}
			out.routed++
			out.brokersHit[e.BrokerID] = true
			out.label("coordinator_routed")
			if isGroup {
				out.label("group_coordinator_routed")
			} else {
				out.label("txn_coordinator_routed")
			}
			single := len(c.Bootstrap) == 1 && c.Bootstrap[0] == e.BrokerID
			if !single {
				out.label("coordinator_not_bootstrap")
			}
		}
	}
	// ---- a request that the cached metadata designates a live broker for is actually sent there.
	// Decided only for steps that start with the cache equal to the cluster's present layout: nothing
	// changes during such a step (the harness is the only source of changes), so every refresh that
	// completes meanwhile carries the same layout and there is no legitimate reason not to send.
	for i := range res.obs {
		o := &res.obs[i]
		s := c.Steps[i]
		if o.Truth == nil || o.Probe == nil || o.Truth.canon != o.Probe.canon {
			continue
		}
		type want struct {
			api    int16
			tp     *tp
			broker int32
		}
		var wants []want
		switch s.Op {
		case "produce", "fetch":
			api := int16(0)
			if s.Op == "fetch" {
				api = 1
			}
			leader, ok := int32(-1), true
			for _, p := range s.Parts {
				sp, in := o.Truth.Topics[s.Topic].Parts[p]
				if !in || sp.Err != 0 || (leader >= 0 && sp.Leader != leader) {
					ok = false
					break
				}
				leader = sp.Leader
			}
			if ok && leader >= 0 {
				wants = append(wants, want{api, &tp{s.Topic, s.Parts[0]}, leader})
			}
		case "listoffsets":
			for k := range s.TPs {
				if sp, in := o.Truth.Topics[s.TPs[k].Topic].Parts[s.TPs[k].Partition]; in && sp.Err == 0 {
					wants = append(wants, want{2, &s.TPs[k], sp.Leader})
				}
			}
		case "create", "delete":
			api := int16(19)
			if s.Op == "delete" {
				api = 20
			}
			if _, in := o.Truth.Brokers[o.Truth.Controller]; in {
				wants = append(wants, want{api, nil, o.Truth.Controller})
			}
		}
		for _, wnt := range wants {
			got := false
			for _, e := range j {
				if e.Seq <= o.S0 || e.Seq > o.S1 || e.ApiKey != wnt.api || e.BrokerID != wnt.broker || e.Body == nil {
					continue
				}
				if wnt.tp == nil {
					got = true
					break
				}
				ts, _ := e.Body["Topics"].([]any)
				for _, tv := range ts {
					tm, _ := tv.(map[string]any)
					if anyStr(tm["Topic"]) != wnt.tp.Topic {
						continue
					}
					ps, _ := tm["Partitions"].([]any)
					for _, pv := range ps {
						pm, _ := pv.(map[string]any)
						if int32(anyInt(pm["Partition"])) == wnt.tp.Partition {
							got = true
						}
					}
				}
			}
			if !got && (o.Err != nil || s.Op == "listoffsets") && outageBefore(i) {
				// (a split ListOffsets reports such a failure on the partition concerned and returns no error)
				// connections pooled before a network outage fail on their next use: the call ended with a transport error
				out.label("call_failed_on_connection_from_before_outage")
				continue
			}
			if !got {
				what := fmt.Sprintf("api %d", wnt.api)
				if wnt.tp != nil {
					what += fmt.Sprintf(" for %s/%d", wnt.tp.Topic, wnt.tp.Partition)
				}
				fail("c12/not-sent-to-designated-broker", "step %d (%s): the transport's cache equalled the cluster layout\n    %s\nbut no %s request reached the designated broker %d during the call (call error: %v)",
					i, s.Op, o.Probe.canon, what, wnt.broker, o.Err)
				return nil
			}
			out.label("settled_request_arrived")
		}
	}
	for _, bs := range splitBrokers {
		if len(bs) >= 2 {
			out.label("split_listoffsets")
		}
	}
	for i, s := range c.Steps {
		if res.obs[i].Err != nil {
			out.label("call_error_" + s.Op)
		}
	}
	return out
}

// rawRecords: one well-formed v2 batch with one record, encoded by the reference codec (for rawproduce requests).
var rawRecords = func() []byte {
	rs := &refcodec.RecordSet{Batches: []refcodec.Batch{refcodec.MakeBatchV2([]refcodec.Record{{Offset: 0, Timestamp: 1, Key: []byte("k"), Value: []byte("v")}}, 0)}}
	b, err := rs.Encode()
	if err != nil {
		panic(err)
	}
	return b
}()
