// Package c03 decides property C03: consumer group — commits never pass
// undelivered records; every assignment resumes at the commit.
package c03

import (
	"fmt"
	"os"
	"sort"
	"strings"
	"testing"

	"pgregory.net/rapid"

	"verif/fakecluster"
	"verif/internal/ev"
	"verif/internal/gsim"
)

func TestMain(m *testing.M) { ev.Main(m, "C03") }

func init() { ev.Register("group", func(tb ev.TB, c gsim.Case) { check(tb, c) }) }

func TestReplay(t *testing.T) { ev.RunReplay(t) }

type tp struct {
	t string
	p int
}

func describe(res *gsim.Result) string {
	var b strings.Builder
	for _, e := range res.Events {
		switch e.Kind {
		case "delivered", "read", "read-uncommitted", "commit-call", "commit-return":
			fmt.Fprintf(&b, "  app seq<=%d m%d %-13s %s/%d@%d err=%v\n", e.Seq, e.Member, e.Kind, e.Topic, e.Partition, e.Offset, e.Err)
		default:
			fmt.Fprintf(&b, "  app seq<=%d m%d %-13s err=%v\n", e.Seq, e.Member, e.Kind, e.Err)
		}
	}
	for _, ex := range res.Journal {
		switch ex.ApiKey {
		case 8, 9, 11, 13, 14:
			fmt.Fprintf(&b, "  seq%d %s client=%s tag=%q outcome=%s req=%v resp=%v\n", ex.Seq, ex.ApiName, ex.ClientID, ex.Tag, ex.Outcome, brief(ex.Body), brief(ex.RespBody))
		}
	}
	s := b.String()
	if len(s) > 70000 {
		s = s[:3500] + "\n  …\n" + s[len(s)-3500:]
	}
	return s
}

func brief(m map[string]any) string {
	s := fmt.Sprint(m)
	if len(s) > 160 {
		s = s[:160] + "…"
	}
	return s
}

func memberIndex(res *gsim.Result, clientID string) int {
	var i int
	if _, err := fmt.Sscanf(clientID, "m%d", &i); err != nil {
		return -1
	}
	return i
}

func check(tb ev.TB, c gsim.Case) (labels []string, nontrivial bool) {
	res := gsim.Run(c)
	defer res.Cluster.Close()
	for k, d := range res.StepTime {
		ev.Count("ms_in_"+k, d.Milliseconds())
	}
	if os.Getenv("VERIF_DEBUG") != "" && res.StepTime["quiesce"].Seconds() > 3 {
		fmt.Printf("SLOW quiesce %v\n%s\n", res.StepTime["quiesce"], describe(res))
	}
	fail := func(sig, format string, args ...any) {
		ev.Fail(tb, "group", sig, c, format+"\n%s", append(args, describe(res))...)
	}
	for _, v := range res.Cluster.Violations() {
		fail("c03/malformed-request", "the fake broker rejected a request: %s", v)
		return
	}
	if len(res.CloseHung) > 0 {
		ev.Inconclusive("close_hung") // C09's business
		return nil, false
	}
	if sig, msg := checkAssignments(res, c); sig != "" {
		fail(sig, "%s", msg)
		return
	}
	lab := map[string]bool{}
	// application side, per member and partition
	delivered := map[int]map[tp][]delivery{}
	passed := map[int]map[tp][]gsim.AppEvent{} // commit-call and read events
	deliveredAny := map[tp]map[int64]int64{}   // offset -> earliest seq any member had it
	for _, e := range res.Events {
		k := tp{e.Topic, e.Partition}
		switch e.Kind {
		case "delivered", "read", "read-uncommitted":
			if delivered[e.Member] == nil {
				delivered[e.Member] = map[tp][]delivery{}
			}
			d := delivery{off: e.Offset, seq: e.Seq, seqAfter: e.Seq, read: e.Kind == "read"}
			if d.read || e.Kind == "read-uncommitted" {
				d.seq = e.SeqBefore
			}
			if e.Kind == "read-uncommitted" {
				lab["readmessage_returned_message_with_commit_error"] = true
			}
			delivered[e.Member][k] = append(delivered[e.Member][k], d)
			if deliveredAny[k] == nil {
				deliveredAny[k] = map[int64]int64{}
			}
			if old, ok := deliveredAny[k][e.Offset]; !ok || d.seq < old {
				deliveredAny[k][e.Offset] = d.seq
			}
			// content
			want := fmt.Sprintf("%s/%d/%d", e.Topic, e.Partition, e.Offset)
			if e.Value != want {
				fail("c03/content", "member %d was handed %q at %s/%d@%d, the stored record is %q", e.Member, e.Value, e.Topic, e.Partition, e.Offset, want)
				return
			}
		}
		if e.Kind == "commit-call" || e.Kind == "read" || e.Kind == "read-uncommitted" {
			if passed[e.Member] == nil {
				passed[e.Member] = map[tp][]gsim.AppEvent{}
			}
			passed[e.Member][k] = append(passed[e.Member][k], e)
		}
	}
	// coordinator side
	type ack struct {
		ex     *fakecluster.Exchange
		member int
		k      tp
		off    int64
	}
	var acks []ack
	type ofetch struct {
		seq    int64
		member int
		k      tp
		off    int64
	}
	var ofetches []ofetch
	rebalancesAfterDelivery := 0
	firstDeliverySeq := int64(-1)
	for _, e := range res.Events {
		if (e.Kind == "delivered" || e.Kind == "read" || e.Kind == "read-uncommitted") && (firstDeliverySeq < 0 || e.Seq < firstDeliverySeq) {
			firstDeliverySeq = e.Seq
		}
	}
	for _, ex := range res.Journal {
		mi := memberIndex(res, ex.ClientID)
		switch ex.ApiKey {
		case 8:
			if ex.Outcome != "answered" && ex.Outcome != "dropped-after" {
				continue
			}
			for _, tv := range ex.RespBody["Topics"].([]any) {
				tm := tv.(map[string]any)
				for _, pv := range tm["Partitions"].([]any) {
					pm := pv.(map[string]any)
					if pm["ErrorCode"].(int64) != 0 {
						lab["commit_rejected"] = true
						continue
					}
					// find the offset in the request
					for _, rt := range ex.Body["Topics"].([]any) {
						rtm := rt.(map[string]any)
						if rtm["Name"] != tm["Name"] {
							continue
						}
						for _, rp := range rtm["Partitions"].([]any) {
							rpm := rp.(map[string]any)
							if rpm["PartitionIndex"] == pm["PartitionIndex"] {
								acks = append(acks, ack{ex, mi, tp{tm["Name"].(string), int(pm["PartitionIndex"].(int64))}, rpm["CommittedOffset"].(int64)})
							}
						}
					}
				}
			}
		case 9:
			if ex.Outcome != "answered" || ex.RespBody == nil {
				continue
			}
			for _, tv := range ex.RespBody["Topics"].([]any) {
				tm := tv.(map[string]any)
				for _, pv := range tm["Partitions"].([]any) {
					pm := pv.(map[string]any)
					if pm["ErrorCode"].(int64) == 0 {
						ofetches = append(ofetches, ofetch{ex.Seq, mi, tp{tm["Name"].(string), int(pm["PartitionIndex"].(int64))}, pm["CommittedOffset"].(int64)})
					}
				}
			}
		case 14:
			if firstDeliverySeq >= 0 && ex.Seq > firstDeliverySeq && ex.Outcome == "answered" {
				rebalancesAfterDelivery++
			}
		}
	}
	// I1: an acknowledged commit never exceeds 1 + the highest offset the member's application passed before the request
	for _, a := range acks {
		max := int64(-1)
		for _, e := range passed[a.member][a.k] {
			if e.SeqBefore < a.ex.Seq && e.Offset > max {
				max = e.Offset
			}
		}
		if a.off > max+1 {
			fail("c03/commit-beyond-passed", "OffsetCommit seq %d by member %d recorded %s/%d -> %d, but the highest offset its application had passed to CommitMessages/ReadMessage before is %d", a.ex.Seq, a.member, a.k.t, a.k.p, a.off, max)
			return
		}
	}
	// I2: a synchronous CommitMessages that returned nil is preceded by an acknowledged commit >= offset+1
	for _, e := range res.Events {
		if e.Kind != "commit-return" || e.Err != nil || c.CommitIntervalMs[e.Member] != 0 {
			continue
		}
		ok := false
		for _, a := range acks {
			if a.k == (tp{e.Topic, e.Partition}) && a.off >= e.Offset+1 && a.ex.Seq > e.SeqBefore && a.ex.Seq <= e.Seq && a.ex.Outcome == "answered" {
				ok = true
			}
		}
		if !ok {
			fail("c03/sync-commit-not-recorded", "member %d: synchronous CommitMessages(%s/%d@%d) returned nil but no acknowledged OffsetCommit >= %d was recorded during the call", e.Member, e.Topic, e.Partition, e.Offset, e.Offset+1)
			return
		}
		lab["sync_commit_acked"] = true
	}
	// I4: per member and partition, deliveries are runs of consecutive offsets, each starting where an
	// OffsetFetch answered to that member since its previous delivery said (or at the start position)
	for mi, parts := range delivered {
		for k, ds := range parts {
			usedFetch := int64(-1) // each OffsetFetch answer justifies at most one run start, in order
			for i, d := range ds {
				if i > 0 && d.off == ds[i-1].off+1 {
					continue
				}
				// start of a run: a fresh assignment must say so (messages still queued from the previous
				// generation may be handed out shortly after the new generation's OffsetFetch, therefore the
				// window is "an OffsetFetch not yet used", not "an OffsetFetch after the previous delivery")
				justified := false
				for _, f := range ofetches {
					if f.member != mi || f.k != k || f.seq > d.seqAfter || f.seq <= usedFetch {
						continue
					}
					ok := false
					switch {
					case f.off == d.off:
						ok = true
					case f.off < 0 && !c.StartLast && d.off == 0:
						ok = true
					case f.off < 0 && c.StartLast:
						// the end of the log at the time it was resolved: not reconstructible exactly, but never below the
						// records the partition held before the first member joined (a log only grows)
						ok = true
						for ti, tn := range res.Topics {
							if tn == k.t && ti < len(c.Initial) && k.p < len(c.Initial[ti]) && d.off < int64(c.Initial[ti][k.p]) {
								ok = false
							}
						}
					}
					if ok {
						justified = true
						usedFetch = f.seq
						break
					}
				}
				if !justified {
					kind := "gap-or-wrong-start"
					if i > 0 && d.off <= ds[i-1].off {
						kind = "redelivery-without-new-assignment"
					}
					fail("c03/"+kind, "member %d partition %s/%d: delivery of offset %d (after %v) does not continue the previous run and no unused OffsetFetch answer to this member returned %d", mi, k.t, k.p, d.off, offsOf(ds[:i]), d.off)
					return
				}
				if i > 0 {
					lab["new_run_after_rebalance"] = true
				}
			}
		}
	}
	// I3 (start = first offset): every stored offset below an acknowledged commit was delivered to some member before it
	if !c.StartLast {
		for _, a := range acks {
			for off := int64(0); off < a.off; off++ {
				seq, ok := deliveredAny[a.k][off]
				if !ok || seq >= a.ex.Seq {
					fail("c03/commit-covers-undelivered", "acknowledged OffsetCommit seq %d (%s/%d -> %d) covers offset %d, which no member's application had been handed before", a.ex.Seq, a.k.t, a.k.p, a.off, off)
					return
				}
			}
		}
	}
	// I5: quiescence
	if res.Quiesced && !c.StartLast {
		missing := 0
		for _, ti := range res.DueTopics { // topics a surviving member subscribes to
			t := res.Topics[ti]
			for p, recs := range res.Stored[t] {
				for _, r := range recs {
					if _, ok := deliveredAny[tp{t, p}][r.Offset]; !ok {
						missing++
					}
				}
			}
		}
		if missing > 0 {
			ev.Inconclusive("not_all_delivered_at_quiescence")
		} else {
			lab["quiescent_all_delivered"] = true
		}
	}
	if rebalancesAfterDelivery > 0 {
		lab["rebalance_after_delivery"] = true
		nontrivial = true
	}
	uncommitted := false
	for mi, parts := range delivered {
		for k, ds := range parts {
			max := int64(-1)
			for _, e := range passed[mi][k] {
				if e.Offset > max {
					max = e.Offset
				}
			}
			if len(ds) > 0 && ds[len(ds)-1].off > max {
				uncommitted = true
			}
		}
	}
	if uncommitted && rebalancesAfterDelivery > 0 {
		lab["rebalance_with_uncommitted"] = true
	}
	for i := range res.Crashed {
		_ = i
		lab["crash"] = true
	}
	if len(res.Crashed) > 0 && res.Quiesced {
		lab["crash_then_takeover"] = true
	}
	for i, ms := range c.CommitIntervalMs {
		if ms > 0 && i < c.Members {
			lab["interval_commit"] = true
		}
	}
	if c.MultiTopic && c.Topics > 1 {
		lab["multi_topic"] = true
	}
	for _, ex := range res.Journal {
		if strings.HasPrefix(ex.Tag, "fault-") {
			lab["coordinator_fault_"+ex.ApiName] = true
		}
	}
	for k := range lab {
		labels = append(labels, k)
	}
	sort.Strings(labels)
	ev.Count("deliveries", int64(len(deliveredAny)))
	ev.Count("acked_commits", int64(len(acks)))
	return labels, nontrivial
}

type delivery struct {
	off      int64
	seq      int64 // sequence number at which the app had the message (for ReadMessage: when the call started)
	seqAfter int64
	read     bool
}

func offsOf(ds []delivery) []int64 {
	var out []int64
	for _, d := range ds {
		out = append(out, d.off)
	}
	if len(out) > 8 {
		out = out[len(out)-8:]
	}
	return out
}

func genCase(t *rapid.T) gsim.Case {
	c := gsim.Case{
		Brokers:       rapid.IntRange(1, 2).Draw(t, "brokers"),
		Topics:        rapid.IntRange(1, 2).Draw(t, "topics"),
		Members:       rapid.IntRange(1, 4).Draw(t, "members"),
		StartLast:     rapid.IntRange(0, 5).Draw(t, "startLast") == 0,
		Balancer:      rapid.SampledFrom([]string{"range", "roundrobin"}).Draw(t, "balancer"),
		QueueCapacity: rapid.SampledFrom([]int{1, 3, 100}).Draw(t, "queue"),
		Quiesce:       true,
	}
	c.MultiTopic = c.Topics > 1 && rapid.Bool().Draw(t, "multiTopic")
	c.MaxBytes = rapid.SampledFrom([]int{0, 0, 0, 200, 400, 900}).Draw(t, "maxBytes")
	c.ReverseOffsetFetch = rapid.IntRange(0, 2).Draw(t, "reverseOffsetFetch") == 0
	mixStratum := rapid.IntRange(0, 5).Draw(t, "mixStratum") == 0
	if mixStratum {
		// one CommitMessages call carrying messages of two topics in alternating order
		c.Topics, c.MultiTopic = 2, true
	}
	for i := 0; i < c.Topics; i++ {
		n := rapid.IntRange(1, 4).Draw(t, "partitions")
		c.Partitions = append(c.Partitions, n)
		var init []int
		for p := 0; p < n; p++ {
			init = append(init, rapid.IntRange(0, 25).Draw(t, "initial"))
		}
		c.Initial = append(c.Initial, init)
	}
	for i := 0; i < c.Members; i++ {
		c.CommitIntervalMs = append(c.CommitIntervalMs, rapid.SampledFrom([]int{0, 0, 5, 20}).Draw(t, "commitInterval"))
	}
	c.Steps = append(c.Steps, gsim.Step{Op: "join", Member: 0})
	if mixStratum {
		c.Steps = append(c.Steps, gsim.Step{Op: "append", Topic: 0, Part: 0, N: 6}, gsim.Step{Op: "append", Topic: 1, Part: 0, N: 6},
			gsim.Step{Op: "fetch", Member: 0, N: 8}, gsim.Step{Op: "commit", Member: 0, Pick: 7, UpTo: true, Mix: true},
			gsim.Step{Op: "fetch", Member: 0, N: 4}, gsim.Step{Op: "commit", Member: 0, Pick: 3, UpTo: true, Mix: true})
	}
	if c.MultiTopic && c.Members >= 2 && rapid.IntRange(0, 3).Draw(t, "narrow") == 0 {
		// members with different subscriptions: the first member (usually the group leader) only reads the first topic
		c.NarrowMembers = []int{0}
	}
	abandonStratum := !mixStratum && rapid.IntRange(0, 7).Draw(t, "abandonStratum") == 0
	if abandonStratum {
		// A synchronous CommitMessages gives up (its context ends) while its commit is still in flight at a slow coordinator;
		// the commit completes later.  The next CommitMessages is refused by the coordinator on every attempt: it must not
		// return nil.
		c.CommitIntervalMs[0] = 0
		slow := int16(rapid.SampledFrom([]int{120, 250}).Draw(t, "slowMs"))
		c.Faults = append(c.Faults, gsim.Fault{API: "commit", Nth: 0, Kind: "slow", Code: slow})
		for nth := 1; nth <= 4; nth++ {
			c.Faults = append(c.Faults, gsim.Fault{API: "commit", Nth: nth, Kind: "code", Code: rapid.SampledFrom([]int16{27, 22, 25}).Draw(t, "refuse")})
		}
		c.Steps = append(c.Steps, gsim.Step{Op: "append", Topic: 0, Part: 0, N: 8},
			gsim.Step{Op: "fetch", Member: 0, N: 3}, gsim.Step{Op: "commit", Member: 0, Pick: 2, UpTo: true, TimeoutMs: rapid.SampledFrom([]int{10, 40}).Draw(t, "giveUpMs")},
			gsim.Step{Op: "sleep", N: int(slow) + 100},
			gsim.Step{Op: "fetch", Member: 0, N: 2}, gsim.Step{Op: "commit", Member: 0, Pick: 1, UpTo: true})
	}
	if !mixStratum && !abandonStratum && rapid.IntRange(0, 7).Draw(t, "partialRefusal") == 0 {
		// the coordinator refuses some partitions of a commit (not the first entry) on every attempt: a synchronous
		// CommitMessages covering several partitions must not return nil
		c.CommitIntervalMs[0] = 0
		if c.Partitions[0] < 3 {
			c.Partitions[0] = 3
			for len(c.Initial[0]) < 3 {
				c.Initial[0] = append(c.Initial[0], 0)
			}
		}
		for nth := 0; nth <= 4; nth++ {
			c.Faults = append(c.Faults, gsim.Fault{API: "commit", Nth: nth, Kind: "code-not-first", Code: rapid.SampledFrom([]int16{3, 12, 28}).Draw(t, "partialCode")})
		}
		c.Steps = append(c.Steps, gsim.Step{Op: "append", Topic: 0, Part: 0, N: 4}, gsim.Step{Op: "append", Topic: 0, Part: 1, N: 4}, gsim.Step{Op: "append", Topic: 0, Part: 2, N: 4},
			gsim.Step{Op: "fetch", Member: 0, N: 9}, gsim.Step{Op: "commit", Member: 0, Pick: 8, UpTo: true})
	}
	joined := map[int]bool{0: true}
	n := rapid.IntRange(3, 28).Draw(t, "steps")
	for i := 0; i < n; i++ {
		m := rapid.IntRange(0, c.Members-1).Draw(t, "member")
		switch rapid.IntRange(0, 15).Draw(t, "op") {
		case 0, 1:
			if !joined[m] {
				c.Steps = append(c.Steps, gsim.Step{Op: "join", Member: m})
				joined[m] = true
				continue
			}
			fallthrough
		case 2, 3, 4, 5:
			c.Steps = append(c.Steps, gsim.Step{Op: "fetch", Member: m, N: rapid.IntRange(1, 8).Draw(t, "n")})
		case 6, 7, 8:
			st := gsim.Step{Op: "commit", Member: m, Pick: rapid.IntRange(0, 20).Draw(t, "pick"), UpTo: rapid.Bool().Draw(t, "upTo")}
			if c.MultiTopic && rapid.Bool().Draw(t, "mix") {
				st.UpTo, st.Mix = true, true
			}
			c.Steps = append(c.Steps, st)
		case 9:
			c.Steps = append(c.Steps, gsim.Step{Op: "read", Member: m})
		case 10:
			c.Steps = append(c.Steps, gsim.Step{Op: "append", Topic: rapid.IntRange(0, 1).Draw(t, "topic"), Part: rapid.IntRange(0, 3).Draw(t, "part"), N: rapid.IntRange(1, 6).Draw(t, "n")})
		case 11:
			c.Steps = append(c.Steps, gsim.Step{Op: "rebalance"})
		case 12:
			if rapid.IntRange(0, 2).Draw(t, "closeKind") == 0 {
				c.Steps = append(c.Steps, gsim.Step{Op: "commitclose", Member: m, Pick: rapid.IntRange(0, 20).Draw(t, "pick"), UpTo: rapid.Bool().Draw(t, "upTo"), N: rapid.SampledFrom([]int{0, 5, 30, 120, 250}).Draw(t, "closeAfterMs")})
			} else {
				c.Steps = append(c.Steps, gsim.Step{Op: "close", Member: m})
			}
		case 13:
			c.Steps = append(c.Steps, gsim.Step{Op: "crash", Member: m}, gsim.Step{Op: "sleep", N: 5}, gsim.Step{Op: "evict", Member: m})
		case 14:
			c.Steps = append(c.Steps, gsim.Step{Op: "evict", Member: m})
		case 15:
			c.Steps = append(c.Steps, gsim.Step{Op: "sleep", N: rapid.IntRange(1, 30).Draw(t, "ms")})
		}
	}
	nf := rapid.IntRange(0, 5).Draw(t, "faults")
	for i := 0; i < nf; i++ {
		f := gsim.Fault{API: rapid.SampledFrom([]string{"join", "sync", "heartbeat", "commit", "commit", "offsetfetch", "findcoordinator", "fetch"}).Draw(t, "api"), Nth: rapid.IntRange(0, 6).Draw(t, "nth"), Kind: rapid.SampledFrom([]string{"code", "code", "drop", "lost-ack"}).Draw(t, "kind")}
		switch f.API {
		case "join":
			f.Code = rapid.SampledFrom([]int16{14, 15, 16, 25}).Draw(t, "code")
		case "sync":
			f.Code = rapid.SampledFrom([]int16{27, 22, 25, 16}).Draw(t, "code")
		case "heartbeat":
			f.Code = rapid.SampledFrom([]int16{27, 22, 25, 16}).Draw(t, "code")
		case "commit":
			f.Code = rapid.SampledFrom([]int16{27, 22, 25, 16, 14}).Draw(t, "code")
		case "offsetfetch":
			f.Code = rapid.SampledFrom([]int16{14, 16}).Draw(t, "code")
		case "findcoordinator":
			f.Code = 15
		case "fetch":
			f.Code = rapid.SampledFrom([]int16{6, 7}).Draw(t, "code")
			if f.Kind == "lost-ack" {
				f.Kind = "drop"
			}
		}
		c.Faults = append(c.Faults, f)
	}
	return c
}

func TestGroupHistories(t *testing.T) {
	rapid.Check(t, func(t *rapid.T) {
		c := genCase(t)
		ev.InFlight("group", c)
		labels, nt := check(t, c)
		ops := map[string]int{}
		for _, s := range c.Steps {
			ops[s.Op]++
		}
		ev.Case(fmt.Sprintf("m%d t%d p%v last%v %s mt%v ops%v faults%d %v", c.Members, c.Topics, c.Partitions, c.StartLast, c.Balancer, c.MultiTopic, ops, len(c.Faults), labels), nt, labels...)
		ev.Sample(c)
	})
}
