package c03

import (
	"encoding/binary"
	"fmt"
	"sort"

	"verif/internal/gsim"
)

// Assignment coverage, read off the wire: "every stored record is delivered to some member" needs every partition of
// every topic some member of a generation subscribes to to be given to exactly one member that subscribes to it.  The
// leader's JoinGroup response lists the members' subscriptions, its SyncGroup request carries the assignments.

type cpReader struct {
	b   []byte
	err bool
}

func (r *cpReader) i16() int {
	if len(r.b) < 2 {
		r.err = true
		return 0
	}
	v := int(int16(binary.BigEndian.Uint16(r.b)))
	r.b = r.b[2:]
	return v
}

func (r *cpReader) i32() int {
	if len(r.b) < 4 {
		r.err = true
		return 0
	}
	v := int(int32(binary.BigEndian.Uint32(r.b)))
	r.b = r.b[4:]
	return v
}

func (r *cpReader) str() string {
	n := r.i16()
	if n < 0 || n > len(r.b) {
		r.err = true
		return ""
	}
	s := string(r.b[:n])
	r.b = r.b[n:]
	return s
}

// subscriptionTopics decodes the topic list of a consumer-protocol subscription.
func subscriptionTopics(b []byte) ([]string, bool) {
	r := &cpReader{b: b}
	r.i16() // version
	n := r.i32()
	var out []string
	for i := 0; i < n && !r.err; i++ {
		out = append(out, r.str())
	}
	return out, !r.err
}

// assignmentOf decodes a consumer-protocol assignment: topic -> partitions.
func assignmentOf(b []byte) (map[string][]int, bool) {
	out := map[string][]int{}
	if len(b) == 0 {
		return out, true
	}
	r := &cpReader{b: b}
	r.i16()
	n := r.i32()
	for i := 0; i < n && !r.err; i++ {
		t := r.str()
		np := r.i32()
		for k := 0; k < np && !r.err; k++ {
			out[t] = append(out[t], r.i32())
		}
	}
	return out, !r.err
}

func anyBytes(v any) []byte { b, _ := v.([]byte); return b }
func anyString(v any) string {
	s, _ := v.(string)
	return s
}

// checkAssignments returns a failure description or "".
func checkAssignments(res *gsim.Result, c gsim.Case) (sig, msg string) {
	type key struct {
		member string
		gen    int64
	}
	subs := map[key]map[string][]string{} // leader's view: member id -> topics
	for _, ex := range res.Journal {
		if ex.ApiKey == 11 && ex.RespBody != nil && ex.Outcome == "answered" {
			if code, _ := ex.RespBody["ErrorCode"].(int64); code != 0 {
				continue
			}
			members, _ := ex.RespBody["Members"].([]any)
			if len(members) == 0 {
				continue
			}
			gen, _ := ex.RespBody["GenerationID"].(int64)
			view := map[string][]string{}
			ok := true
			for _, mv := range members {
				m, _ := mv.(map[string]any)
				ts, good := subscriptionTopics(anyBytes(m["Metadata"]))
				ok = ok && good
				view[anyString(m["MemberID"])] = ts
			}
			if ok {
				subs[key{anyString(ex.RespBody["MemberID"]), gen}] = view
			}
		}
		if ex.ApiKey != 14 || ex.Body == nil {
			continue
		}
		as, _ := ex.Body["Assignments"].([]any)
		if len(as) == 0 {
			continue
		}
		gen, _ := ex.Body["GenerationID"].(int64)
		view := subs[key{anyString(ex.Body["MemberID"]), gen}]
		if view == nil {
			continue
		}
		given := map[string]map[int][]string{} // topic -> partition -> members it was given to
		for _, av := range as {
			a, _ := av.(map[string]any)
			parts, good := assignmentOf(anyBytes(a["Assignment"]))
			if !good {
				return "c03/assignment-malformed", fmt.Sprintf("SyncGroup seq %d carries an assignment for %q that does not decode", ex.Seq, anyString(a["MemberID"]))
			}
			for t, ps := range parts {
				if given[t] == nil {
					given[t] = map[int][]string{}
				}
				for _, p := range ps {
					given[t][p] = append(given[t][p], anyString(a["MemberID"]))
				}
			}
		}
		wanted := map[string]bool{}
		for _, ts := range view {
			for _, t := range ts {
				wanted[t] = true
			}
		}
		var topics []string
		for t := range wanted {
			topics = append(topics, t)
		}
		sort.Strings(topics)
		for _, t := range topics {
			n := -1
			for ti, name := range res.Topics {
				if name == t {
					n = c.Partitions[ti]
				}
			}
			if n < 0 {
				continue // a topic that does not exist: no assignment, not a failure
			}
			for p := 0; p < n; p++ {
				owners := given[t][p]
				if len(owners) != 1 {
					return "c03/partition-not-assigned-once", fmt.Sprintf("generation %d (SyncGroup seq %d of the leader): partition %s/%d, to which members %v subscribe, was assigned to %d members %v", gen, ex.Seq, t, p, subscribersOf(view, t), len(owners), owners)
				}
				sub := false
				for _, x := range view[owners[0]] {
					sub = sub || x == t
				}
				if !sub {
					return "c03/partition-assigned-to-non-subscriber", fmt.Sprintf("generation %d: partition %s/%d was assigned to %q, which does not subscribe to %s", gen, t, p, owners[0], t)
				}
			}
		}
	}
	return "", ""
}

func subscribersOf(view map[string][]string, topic string) []string {
	var out []string
	for m, ts := range view {
		for _, t := range ts {
			if t == topic {
				out = append(out, m)
			}
		}
	}
	sort.Strings(out)
	return out
}
