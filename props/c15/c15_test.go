// Package c15 decides property C15: a consumer group has one live generation
// at a time and ends it promptly.
package c15

import (
	"context"
	"errors"
	"fmt"
	"os"
	"sort"
	"strings"
	"sync"
	"sync/atomic"
	"testing"
	"time"

	kafka "github.com/segmentio/kafka-go"
	"pgregory.net/rapid"

	"verif/fakecluster"
	"verif/internal/ev"
	"verif/memnet"
	"verif/sched"
)

func init() {
	ev.Timed("c15/context-cancelled-late", "c15/late-start-not-cancelled", "c15/next-never-returned", "c15/context-not-cancelled", "c15/generation-not-ended")
}

func TestMain(m *testing.M) { ev.Main(m, "C15") }

type fnSpec struct {
	Kind      string `json:"kind"` // wait | early | linger
	Ms        int    `json:"ms"`   // early: returns after Ms; linger: stays Ms after its context ended
	LateMs    int    `json:"late_ms,omitempty"`
	LateStart bool   `json:"late_start,omitempty"` // started only after the generation has ended
}

type round struct {
	Fns    []fnSpec `json:"fns"`
	End    string   `json:"end"` // fn-return | heartbeat-error | rebalance | partition-change | close | conn-drop
	Code   int16    `json:"code,omitempty"`
	WaitMs int      `json:"wait_ms"` // how long the generation lives before the ending event is triggered
	// NextDelayMs: the application calls Next this long after the previous round ended: the group has joined and synced by
	// then, the generation lives (and heartbeats are due) before anybody asks for it
	NextDelayMs int `json:"next_delay_ms,omitempty"`
	// NoFns: the application starts no function at all in this generation (it only calls Next again): the generation
	// still has to end when its heartbeat fails or the coordinator rebalances
	NoFns bool `json:"no_fns,omitempty"`
	// CloseWhileErrorPending: after the generation ended, do not call Next; wait until the
	// background rejoin has failed (an error waits to be handed to Next), then Close.
	CloseWhileErrorPending bool      `json:"close_while_error_pending,omitempty"`
	PendingFault           *apiFault `json:"pending_fault,omitempty"`
}

type apiFault struct {
	API  string `json:"api"`  // findcoordinator join sync offsetfetch leave
	Kind string `json:"kind"` // code | drop
	Code int16  `json:"code,omitempty"`
	// DelayMs (kind code): the coordinator takes this long before it answers with the error (a failed attempt that itself
	// lasts about as long as the back-off)
	DelayMs int `json:"delay_ms,omitempty"`
}

type groupCase struct {
	Brokers     int            `json:"brokers"`
	Partitions  int            `json:"partitions"`
	HeartbeatMs int            `json:"heartbeat_ms"`
	// SessionMs: ConsumerGroupConfig.SessionTimeout (0 = 10 s)
	SessionMs int `json:"session_ms,omitempty"`
	BackoffMs   int            `json:"backoff_ms"`
	WatchMs     int            `json:"watch_ms"`
	Rounds      []round        `json:"rounds"`
	SetupFaults []apiFault     `json:"setup_faults"` // consumed in order by matching requests
	CloseAtEnd  bool           `json:"close_at_end"`
	Sched       map[string]int `json:"sched"`
	// MissingTopic: the group also subscribes to a topic that does not exist when it is joined (the ending event
	// "topic-created" creates it: its partition count changes from none to two).
	MissingTopic bool `json:"missing_topic,omitempty"`
	// TimeoutMs: ConsumerGroupConfig.Timeout (0 = 2 s): how long the group waits for the coordinator's answer to a
	// request; a heartbeat that is never answered (ending event "heartbeat-silent") ends the generation after that long.
	TimeoutMs int `json:"timeout_ms,omitempty"`
}

func timeoutOf(c groupCase) time.Duration {
	if c.TimeoutMs > 0 {
		return time.Duration(c.TimeoutMs) * time.Millisecond
	}
	return 2 * time.Second
}

func init() { ev.Register("group", func(tb ev.TB, c groupCase) { run(tb, c) }) }

func TestReplay(t *testing.T) { ev.RunReplay(t) }

const (
	topic = "t"
	group = "grp"
)

type event struct {
	at   time.Time
	kind string // next-returned next-error fn-start fn-ctx-done fn-exit ending close-called close-returned
	gen  int32
	fn   int
	info string
}

var apiKeys = map[string]int16{"findcoordinator": 10, "join": 11, "sync": 14, "offsetfetch": 9, "leave": 13, "heartbeat": 12}

func run(tb ev.TB, c groupCase) (labels []string, nontrivial bool) {
	nw := memnet.New()
	cl := fakecluster.New(nw, c.Brokers)
	defer cl.Close()
	cl.CreateTopic(topic, c.Partitions)
	var mu sync.Mutex
	var events []event
	rec := func(e event) { e.at = time.Now(); mu.Lock(); events = append(events, e); mu.Unlock() }
	faults := append([]apiFault{}, c.SetupFaults...)
	var hbFault *apiFault // armed by the program
	type joinFail struct {
		sent time.Time
		seq  int64
	}
	var joinFails []joinFail
	var dropConnOf int // connection id to kill at next heartbeat (conn-drop)
	cl.SetHook(func(cl *fakecluster.Cluster, r *fakecluster.Request) *fakecluster.Action {
		mu.Lock()
		defer mu.Unlock()
		if r.ApiKey == 12 {
			if hbFault != nil {
				f := hbFault
				hbFault = nil
				if f.Kind == "drop" {
					return &fakecluster.Action{DropBeforeApply: true, Tag: "hb-drop"}
				}
				if f.Kind == "silent" {
					return &fakecluster.Action{NoResponse: true, Tag: "hb-silent"}
				}
				return &fakecluster.Action{ErrorCode: f.Code, Tag: "hb-error"}
			}
			_ = dropConnOf
			return nil
		}
		for i, f := range faults {
			if apiKeys[f.API] == r.ApiKey {
				faults = append(faults[:i], faults[i+1:]...)
				if r.ApiKey == 11 {
					joinFails = append(joinFails, joinFail{time.Now(), r.Seq})
				}
				if f.Kind == "drop" {
					return &fakecluster.Action{DropBeforeApply: true, Tag: "setup-drop"}
				}
				return &fakecluster.Action{ErrorCode: f.Code, Tag: "setup-error", Delay: time.Duration(f.DelayMs) * time.Millisecond}
			}
		}
		return nil
	})
	table := sched.Table{}
	for p, n := range c.Sched {
		table[p] = []sched.Action{{Kind: "yield", N: n}, {Kind: "pass"}}
	}
	ctl := sched.Install(table)
	defer ctl.Uninstall()

	hb := time.Duration(c.HeartbeatMs) * time.Millisecond
	backoff := time.Duration(c.BackoffMs) * time.Millisecond
	cfg := kafka.ConsumerGroupConfig{ID: group, Brokers: []string{"b1.fake:9092"}, Dialer: &kafka.Dialer{DialFunc: nw.Dial, Timeout: 2 * time.Second, ClientID: "c15"},
		Topics: []string{topic}, HeartbeatInterval: hb, SessionTimeout: sessionOf(c), RebalanceTimeout: 300 * time.Millisecond, JoinGroupBackoff: backoff,
		WatchPartitionChanges: c.WatchMs > 0, PartitionWatchInterval: time.Duration(c.WatchMs) * time.Millisecond, Timeout: timeoutOf(c), StartOffset: kafka.FirstOffset}
	if c.MissingTopic {
		cfg.Topics = append(cfg.Topics, "later")
	}
	if os.Getenv("C15_LOG") != "" {
		defer func() {
			for _, ex := range cl.Journal() {
				if ex.ApiKey == 3 {
					fmt.Fprintln(os.Stderr, "META", ex.Seq, ex.ConnID, ex.Version, ex.Body["TopicNames"], ex.Outcome, ex.At.Format("05.000"))
				}
			}
		}()
		lg := kafka.LoggerFunc(func(f string, a ...interface{}) { fmt.Fprintf(os.Stderr, "LOG "+f+"\n", a...) })
		cfg.Logger, cfg.ErrorLogger = lg, lg
	}
	// a reference ticker at the interval the "too few heartbeats" rules count with, in this process, for the length of the
	// case: what it manages to deliver is what a heartbeat loop could have delivered on this machine at this moment
	var refMu sync.Mutex
	var refTicks []time.Time
	refStop := make(chan struct{})
	go func() {
		tk := time.NewTicker(beatFloor(hb))
		defer tk.Stop()
		for {
			select {
			case at := <-tk.C:
				refMu.Lock()
				refTicks = append(refTicks, at)
				refMu.Unlock()
			case <-refStop:
				return
			}
		}
	}()
	defer close(refStop)
	refBetween := func(from, to time.Time) int {
		refMu.Lock()
		defer refMu.Unlock()
		n := 0
		for _, at := range refTicks {
			if at.After(from) && at.Before(to) {
				n++
			}
		}
		return n
	}
	cg, err := kafka.NewConsumerGroup(cfg)
	if err != nil {
		tb.Fatalf("harness: %v", err)
	}
	closed := false
	closeGroup := func() {
		if closed {
			return
		}
		closed = true
		rec(event{kind: "close-called"})
		done := make(chan struct{})
		go func() { cg.Close(); close(done) }()
		select {
		case <-done:
			rec(event{kind: "close-returned"})
		case <-time.After(20 * time.Second):
			rec(event{kind: "close-hung"})
		}
	}
	defer closeGroup()

	fail := func(sig, format string, args ...any) {
		var b strings.Builder
		mu.Lock()
		t0 := time.Time{}
		for i, e := range events {
			if i == 0 {
				t0 = e.at
			}
			fmt.Fprintf(&b, "  +%6.1fms %-14s gen=%d fn=%d %s\n", float64(e.at.Sub(t0).Microseconds())/1000, e.kind, e.gen, e.fn, e.info)
		}
		mu.Unlock()
		for _, ex := range cl.Journal() {
			if ex.ApiKey >= 9 && ex.ApiKey <= 14 {
				code := int64(0)
				if ex.RespBody != nil {
					code, _ = ex.RespBody["ErrorCode"].(int64)
				}
				fmt.Fprintf(&b, "  seq%d %s conn%d member=%v gen=%v tag=%q outcome=%s code=%d\n", ex.Seq, ex.ApiName, ex.ConnID, ex.Body["MemberID"], ex.Body["GenerationID"], ex.Tag, ex.Outcome, code)
			}
		}
		s := b.String()
		if len(s) > 5000 {
			s = s[:5000] + "…"
		}
		ev.Fail(tb, "group", sig, c, format+"\n%s", append(args, s)...)
	}

	lab := map[string]bool{}
	type liveFn struct {
		spec   fnSpec
		exited chan struct{}
		ctxAt  time.Time
		exitAt time.Time
		// set by the function when it found its context ended on entry
		startedAfterEnd atomic.Bool
	}
	var prevFns []*liveFn
	var prevGen *kafka.Generation
	var prevEndAt time.Time
	var prevEndKind string
	generations := 0
	nextErrors := 0
	type nextResult struct {
		gen *kafka.Generation
		err error
		at  time.Time
	}
	var pendingNext chan nextResult

	startFn := func(gen *kafka.Generation, idx int, spec fnSpec) *liveFn {
		lf := &liveFn{spec: spec, exited: make(chan struct{})}
		rec(event{kind: "fn-start", gen: gen.ID, fn: idx, info: spec.Kind})
		gen.Start(func(ctx context.Context) {
			// A function handed to Start after the generation has ended is run, but it is not part of the generation any more
			// (documented in Generation.Start): it finds its context already ended, and Next does not wait for it.
			lf.startedAfterEnd.Store(ctx.Err() != nil)
			defer func() {
				lf.exitAt = time.Now()
				rec(event{kind: "fn-exit", gen: gen.ID, fn: idx})
				close(lf.exited)
			}()
			switch spec.Kind {
			case "early":
				select {
				case <-ctx.Done():
					lf.ctxAt = time.Now()
				case <-time.After(time.Duration(spec.Ms) * time.Millisecond):
				}
			default:
				<-ctx.Done()
				lf.ctxAt = time.Now()
				rec(event{kind: "fn-ctx-done", gen: gen.ID, fn: idx})
				if spec.Kind == "linger" {
					time.Sleep(time.Duration(spec.Ms) * time.Millisecond)
				}
			}
		})
		return lf
	}

	checkPrevEnded := func(when string) bool {
		// (a) every function started in the previous generation has returned
		for i, lf := range prevFns {
			if lf.startedAfterEnd.Load() {
				continue
			}
			select {
			case <-lf.exited:
			default:
				fail("c15/next-before-functions-returned", "%s although function %d (%s) of generation %d had not returned", when, i, lf.spec.Kind, prevGen.ID)
				return false
			}
		}
		return true
	}

	for ri, rd := range c.Rounds {
		if closed {
			break
		}
		var gen *kafka.Generation
		var err error
		var nextAt time.Time
		if pendingNext != nil {
			r := <-pendingNext
			pendingNext = nil
			gen, err, nextAt = r.gen, r.err, r.at
		} else {
			if rd.NextDelayMs > 0 {
				time.Sleep(time.Duration(rd.NextDelayMs) * time.Millisecond)
			}
			ctx, cancel := context.WithTimeout(context.Background(), 6*time.Second)
			gen, err = cg.Next(ctx)
			nextAt = time.Now()
			cancel()
		}
		if err == nil && prevGen != nil {
			// (a) Next must not hand out a generation while a function of the previous one is still running
			for i, lf := range prevFns {
				<-lf.exited // the harness waited for them at the end of the previous round
				if lf.startedAfterEnd.Load() {
					lab["function_started_after_generation_end"] = true
					continue
				}
				if lf.exitAt.After(nextAt) {
					fail("c15/next-before-functions-returned", "Next returned generation %d at a time when function %d (%s) of generation %d was still running (it returned %v later)", gen.ID, i, lf.spec.Kind, prevGen.ID, lf.exitAt.Sub(nextAt))
					return
				}
			}
		}
		if err != nil {
			rec(event{kind: "next-error", info: err.Error()})
			nextErrors++
			if errors.Is(err, context.DeadlineExceeded) {
				fail("c15/next-never-returned", "Next did not return within 6 s in round %d although the coordinator was answering", ri)
				return
			}
			if prevGen != nil && !checkPrevEnded("Next returned an error") {
				return
			}
			lab["next_returned_error"] = true
			// the same round is retried (bounded)
			if nextErrors > 12 {
				break
			}
			c.Rounds = append(c.Rounds[:ri+1], append([]round{rd}, c.Rounds[ri+1:]...)...)
			if len(c.Rounds) > 40 {
				break
			}
			continue
		}
		rec(event{kind: "next-returned", gen: gen.ID, info: gen.MemberID})
		generations++
		if prevGen != nil {
			if !checkPrevEnded(fmt.Sprintf("Next returned generation %d", gen.ID)) {
				return
			}
		}
		var fns []*liveFn
		// a sentinel that only waits for the end of the generation (so that the harness always knows when it ended)
		if !rd.NoFns {
			fns = append(fns, startFn(gen, 99, fnSpec{Kind: "wait"}))
			for i, spec := range rd.Fns {
				if spec.LateStart {
					continue
				}
				fns = append(fns, startFn(gen, i, spec))
			}
		}
		time.Sleep(time.Duration(rd.WaitMs) * time.Millisecond)
		// trigger the ending event
		endAt := time.Now()
		endKind := rd.End
		var changedAt time.Time
		switch rd.End {
		case "fn-return":
			// an "early" function ends the generation by itself; make sure there is one
			early := false
			for _, f := range rd.Fns {
				if f.Kind == "early" && !f.LateStart {
					early = true
				}
			}
			if !early {
				fns = append(fns, startFn(gen, len(rd.Fns), fnSpec{Kind: "early", Ms: 1}))
			}
			// the ending event is the first exit
			first := time.Time{}
			deadline := time.Now().Add(3 * time.Second)
			for first.IsZero() && time.Now().Before(deadline) {
				for _, lf := range fns {
					select {
					case <-lf.exited:
						if first.IsZero() || lf.exitAt.Before(first) {
							first = lf.exitAt
						}
					default:
					}
				}
				time.Sleep(200 * time.Microsecond)
			}
			if first.IsZero() {
				fail("c15/harness-no-early-exit", "no function returned")
				return
			}
			endAt = first
			lab["ended_by_fn_return"] = true
		case "heartbeat-error":
			mu.Lock()
			hbFault = &apiFault{Kind: "code", Code: rd.Code}
			mu.Unlock()
			endAt = time.Time{} // set when the faulty heartbeat is answered
			lab["ended_by_heartbeat_error"] = true
		case "conn-drop":
			mu.Lock()
			hbFault = &apiFault{Kind: "drop"}
			mu.Unlock()
			endAt = time.Time{}
			lab["ended_by_dropped_heartbeat"] = true
		case "heartbeat-silent":
			// the coordinator takes the next heartbeat and never answers it: the wait ends with the group's Timeout
			mu.Lock()
			hbFault = &apiFault{Kind: "silent"}
			mu.Unlock()
			endAt = time.Time{}
			lab["ended_by_unanswered_heartbeat"] = true
		case "rebalance":
			cl.ForceRebalance(group)
			endAt = time.Time{} // set when a heartbeat is answered with REBALANCE_IN_PROGRESS
			lab["ended_by_rebalance"] = true
		case "topic-created":
			// not before the watcher of that topic has taken its baseline (a topic created earlier is no change for it)
			deadline := time.Now().Add(time.Second)
			for seen := false; !seen && time.Now().Before(deadline); {
				after := int64(0)
				for _, ex := range cl.Journal() {
					if ex.ApiKey == 14 && ex.Body != nil && int32(ex.Body["GenerationID"].(int64)) == gen.ID && ex.Body["MemberID"] == gen.MemberID {
						after = ex.Seq
					}
					if after != 0 && ex.ApiKey == 3 && ex.Seq > after && ex.Outcome == "answered" && ex.Body != nil {
						if names, _ := ex.Body["TopicNames"].([]any); len(names) == 1 && names[0] == "later" {
							seen = true
						}
					}
				}
				time.Sleep(500 * time.Microsecond)
			}
			changedAt = time.Now()
			cl.CreateTopic("later", 2)
			endAt = time.Time{}
			lab["ended_by_topic_creation"] = true
		case "partition-change", "topic-deleted":
			baseline := false
			if c.WatchMs > 0 {
				// the watcher takes its baseline when it starts: change the topic only after that
				// (a metadata request on the generation's coordinator connection, after its OffsetFetch)
				deadline := time.Now().Add(time.Second)
				for !baseline && time.Now().Before(deadline) {
					conn, after := 0, int64(0)
					for _, ex := range cl.Journal() {
						if ex.ApiKey == 14 && ex.Body != nil && int32(ex.Body["GenerationID"].(int64)) == gen.ID && ex.Body["MemberID"] == gen.MemberID {
							conn, after = ex.ConnID, ex.Seq
						}
						if conn != 0 && ex.ConnID == conn && ex.ApiKey == 3 && ex.Seq > after && ex.Outcome == "answered" {
							baseline = true
						}
					}
					time.Sleep(500 * time.Microsecond)
				}
			}
			if baseline && rd.End == "topic-deleted" {
				// the partition count of the watched topic drops to none: the metadata answer becomes UNKNOWN_TOPIC_OR_PARTITION
				changedAt = time.Now()
				cl.DeleteTopic(topic)
				endAt = time.Time{}
				lab["ended_by_topic_deletion"] = true
			} else if baseline {
				changedAt = time.Now()
				cl.AddPartitions(topic, 1)
				c.Partitions++
				endAt = time.Time{} // the watcher must notice within its interval
				lab["ended_by_partition_change"] = true
			} else {
				endKind = "close"
				closeGroup()
				lab["ended_by_close"] = true
			}
		case "close":
			endAt = time.Now()
			closeGroup()
			lab["ended_by_close"] = true
		}
		// ask for the next generation right away, concurrently with the functions winding down
		if !closed && ri+1 < len(c.Rounds) && !rd.CloseWhileErrorPending {
			ch := make(chan nextResult, 1)
			pendingNext = ch
			go func() {
				ctx, cancel := context.WithTimeout(context.Background(), 8*time.Second)
				g, e := cg.Next(ctx)
				cancel()
				ch <- nextResult{g, e, time.Now()}
			}()
		}
		// (b) every function's context ends within 1 s (+ slack) of the ending event
		resolveEnd := func() time.Time {
			if !endAt.IsZero() {
				return endAt
			}
			// the ending event is the broker's answer: find it in the journal
			for _, ex := range cl.Journal() {
				if ex.At.Before(endAt) {
					continue
				}
				switch rd.End {
				case "heartbeat-error":
					if ex.Tag == "hb-error" {
						return ex.AnsweredAt
					}
				case "conn-drop":
					if ex.Tag == "hb-drop" {
						return ex.At
					}
				case "heartbeat-silent":
					if ex.Tag == "hb-silent" {
						return ex.At.Add(timeoutOf(c))
					}
				case "rebalance":
					if ex.ApiKey == 12 && ex.RespBody != nil && ex.RespBody["ErrorCode"] == int64(27) {
						return ex.AnsweredAt
					}
				case "topic-created":
					if ex.ApiKey == 3 && ex.RespBody != nil && ex.At.After(changedAt) {
						for _, tv := range ex.RespBody["Topics"].([]any) {
							tm := tv.(map[string]any)
							if tm["Name"] == "later" && len(tm["Partitions"].([]any)) > 0 {
								return ex.AnsweredAt
							}
						}
					}
				case "topic-deleted":
					if ex.ApiKey == 3 && ex.RespBody != nil && ex.At.After(changedAt) {
						for _, tv := range ex.RespBody["Topics"].([]any) {
							tm := tv.(map[string]any)
							if tm["Name"] == topic && tm["ErrorCode"] == int64(3) {
								return ex.AnsweredAt
							}
						}
					}
				case "partition-change":
					if ex.ApiKey == 3 && ex.RespBody != nil {
						for _, tv := range ex.RespBody["Topics"].([]any) {
							tm := tv.(map[string]any)
							if tm["Name"] == topic && len(tm["Partitions"].([]any)) >= c.Partitions && ex.At.After(changedAt) {
								return ex.AnsweredAt
							}
						}
					}
				}
			}
			return time.Time{}
		}
		// wait for the functions to see the end
		limit := 4*time.Second + 2*hb + 2*time.Duration(c.WatchMs)*time.Millisecond
		waitUntil := time.Now().Add(limit)
		for _, lf := range fns {
			select {
			case <-lf.exited:
			case <-time.After(time.Until(waitUntil)):
				end := resolveEnd()
				if end.IsZero() {
					ev.Inconclusive("ending_event_not_observed_" + rd.End)
					fail("c15/generation-not-ended", "round %d: the ending event %q was triggered but %v later a started function is still running and the broker never answered the event", ri, rd.End, limit)
				} else {
					fail("c15/context-not-cancelled", "round %d: function (%s) still running %v after the generation's ending event %q", ri, lf.spec.Kind, time.Since(end), rd.End)
				}
				return
			}
		}
		end := resolveEnd()
		if end.IsZero() {
			// ended for another legitimate reason before our event was delivered (e.g. an early function)
			lab["ended_before_planned_event"] = true
		} else {
			for _, lf := range fns {
				if lf.ctxAt.IsZero() {
					continue
				}
				if d := lf.ctxAt.Sub(end); d > time.Second {
					if d > 3*time.Second {
						fail("c15/context-cancelled-late", "round %d: a function's context ended %v after the ending event %q", ri, d, rd.End)
						return
					}
					ev.Inconclusive("context_cancelled_late")
				}
			}
		}
		// late starts: the function must run and observe an already cancelled context
		for i, spec := range rd.Fns {
			if !spec.LateStart {
				continue
			}
			lab["late_start"] = true
			lf := startFn(gen, 100+i, fnSpec{Kind: "wait"})
			select {
			case <-lf.exited:
			case <-time.After(3 * time.Second):
				fail("c15/late-start-not-cancelled", "round %d: a function started after generation %d had ended did not observe a cancelled context within 3 s", ri, gen.ID)
				return
			}
		}
		if rd.CloseWhileErrorPending && rd.PendingFault != nil && !closed {
			before := ctl.Count("cgroup.errPending")
			mu.Lock()
			faults = append([]apiFault{*rd.PendingFault}, faults...)
			mu.Unlock()
			if ctl.Wait("cgroup.errPending", before+1, 2*time.Second) {
				lab["close_while_error_pending"] = true
				time.Sleep(2 * time.Millisecond)
				closeGroup()
			}
		}
		prevFns, prevGen, prevEndAt, prevEndKind = fns, gen, end, endKind
		_ = prevEndAt
		_ = prevEndKind
	}
	if c.CloseAtEnd || !closed {
		closeGroup()
	}
	mu.Lock()
	evs := append([]event{}, events...)
	mu.Unlock()
	var closeCalled, closeReturned time.Time
	for _, e := range evs {
		switch e.kind {
		case "close-called":
			closeCalled = e.at
		case "close-returned":
			closeReturned = e.at
		case "close-hung":
			fail("c15/close-hung", "ConsumerGroup.Close did not return within 20 s")
			return
		}
	}
	journal := cl.Journal()
	// (c) heartbeats carry the generation's member id / generation id and stop with the generation
	type genInfo struct {
		member string
		start  time.Time
		end    time.Time
		beats  int
		silent time.Time // arrival of the first heartbeat the coordinator never answered, refused or dropped: none is due after it
		first  time.Time // arrival of the first and of the last heartbeat
		last   time.Time
		times  []time.Time
	}
	gens := map[int32]*genInfo{}
	var order []int32
	for _, e := range evs {
		if e.kind == "next-returned" {
			gens[e.gen] = &genInfo{member: e.info, start: e.at}
			order = append(order, e.gen)
		}
	}
	for i, id := range order {
		if i+1 < len(order) {
			gens[id].end = gens[order[i+1]].start
		} else {
			gens[id].end = closeReturned
		}
	}
	for _, ex := range journal {
		if ex.ApiKey != 12 || ex.Body == nil {
			continue
		}
		gid := int32(ex.Body["GenerationID"].(int64))
		gi := gens[gid]
		if gi == nil {
			// a generation that ended before Next could hand it out
			continue
		}
		if ex.Body["MemberID"] != gi.member || ex.Body["GroupID"] != group {
			fail("c15/heartbeat-identity", "heartbeat seq %d of generation %d carries member %v, the generation's member id is %q", ex.Seq, gid, ex.Body["MemberID"], gi.member)
			return
		}
		gi.beats++
		if ex.Tag == "hb-silent" && gi.silent.IsZero() {
			gi.silent = ex.At
		}
		// a heartbeat that the coordinator refused (error code, rebalance in progress) or dropped ends the generation too,
		// whether or not a function is there to see it: no heartbeat is due after it
		if code, _ := ex.RespBody["ErrorCode"].(int64); (code != 0 || ex.Tag == "hb-drop" || ex.Tag == "hb-error") && gi.silent.IsZero() {
			gi.silent = ex.At
		}
		if gi.first.IsZero() {
			gi.first = ex.At
		}
		gi.last = ex.At
		gi.times = append(gi.times, ex.At)
		if !gi.end.IsZero() && ex.At.After(gi.end.Add(50*time.Millisecond)) {
			fail("c15/heartbeat-after-generation-ended", "heartbeat seq %d for generation %d arrived %v after that generation had been replaced or the group closed", ex.Seq, gid, ex.At.Sub(gi.end))
			return
		}
	}
	for id, gi := range gens {
		if gi.end.IsZero() {
			continue
		}
		// the generation lives until its functions are told to stop
		live := gi.end
		for _, e := range evs {
			if e.gen == id && (e.kind == "fn-ctx-done" || e.kind == "fn-exit") && e.at.Before(live) {
				live = e.at
			}
		}
		if !gi.silent.IsZero() && gi.silent.Before(live) {
			live = gi.silent
		}
		life := live.Sub(gi.start)
		// "at the configured interval": not more often either (a ticker never runs ahead, whatever the load)
		if span := gi.last.Sub(gi.first); gi.beats >= 4 {
			if most := int(span/hb) + int(span/hb)/4 + 3; gi.beats-1 > most {
				fail("c15/heartbeats-too-frequent", "generation %d: %d heartbeats arrived within %v; HeartbeatInterval is %v (SessionTimeout %v), at that interval at most %d fit", id, gi.beats, span, hb, sessionOf(c), most+1)
				return
			}
		}
		// the generation lives from the moment the coordinator answered its SyncGroup, whether or not Next was called yet
		var syncedAt time.Time
		for _, ex := range journal {
			if ex.ApiKey == 14 && ex.Body != nil && ex.Outcome == "answered" && ex.RespBody != nil && int32(ex.Body["GenerationID"].(int64)) == id && ex.Body["MemberID"] == gi.member {
				if code, _ := ex.RespBody["ErrorCode"].(int64); code == 0 {
					syncedAt = ex.AnsweredAt
				}
			}
		}
		// ... up to the first heartbeat the coordinator refused or dropped: that ends the generation, handed out or not
		waitEnd := gi.start
		if !gi.silent.IsZero() && gi.silent.Before(waitEnd) {
			waitEnd = gi.silent
		}
		if gap := waitEnd.Sub(syncedAt); !syncedAt.IsZero() && gap >= 10*hb+300*time.Millisecond {
			n := 0
			for _, at := range gi.times {
				if at.After(syncedAt) && at.Before(waitEnd) {
					n++
				}
			}
			want := int(gap/beatFloor(hb)) / 4
			if r := refBetween(syncedAt, waitEnd) / 4; r < want {
				want = r
			}
			if n < want {
				fail("c15/heartbeats-missing-before-next", "generation %d was joined and synced %v before Next was called for it; with HeartbeatInterval %v only %d heartbeats were sent in between (a quarter of the expected number is %d)", id, gap, hb, n, want)
				return
			}
			lab["generation_waited_for_next"] = true
		}
		if life >= 10*hb+time.Second {
			want := int(life/beatFloor(hb)) / 4
			if r := refBetween(gi.start, live) / 4; r < want {
				want = r
			}
			if gi.beats < want {
				fail("c15/heartbeats-missing", "generation %d lived %v with HeartbeatInterval %v but sent only %d heartbeats (a quarter of the expected number is %d)", id, life, hb, gi.beats, want)
				return
			}
			lab["long_lived_generation"] = true
		}
	}
	// (d) Close => LeaveGroup with the current member id before Close returns, whenever the coordinator still lists the member
	if !closeCalled.IsZero() {
		// "the current member id": the id returned by the group's last JoinGroup exchange before Close,
		// provided that exchange succeeded (after a failed join the library holds no member id any more)
		// and the coordinator still lists that member.
		membersAtClose := map[string]bool{}
		listed := map[string]bool{}
		cl.Lock()
		if g := cl.GroupUnlocked(group); g != nil {
			for _, h := range g.History {
				if h.At.After(closeCalled) {
					break
				}
				listed = map[string]bool{}
				for _, m := range h.Members {
					listed[m] = true
				}
			}
		}
		cl.Unlock()
		var lastJoin *fakecluster.Exchange
		for _, ex := range journal {
			if ex.ApiKey == 11 && ex.At.Before(closeCalled) {
				lastJoin = ex
			}
		}
		if lastJoin != nil && lastJoin.RespBody != nil && lastJoin.Outcome == "answered" {
			if code, _ := lastJoin.RespBody["ErrorCode"].(int64); code == 0 {
				if m, _ := lastJoin.RespBody["MemberID"].(string); m != "" && listed[m] {
					membersAtClose[m] = true
				}
			}
		}
		left := map[string]bool{}
		for _, ex := range journal {
			// a LeaveGroup sent for that member id (also one sent before Close when an earlier error made the
			// group give the member id up, and also one the coordinator answered with an error): the statement
			// asks for the request to be sent
			if ex.ApiKey == 13 && ex.Body != nil && (closeReturned.IsZero() || ex.At.Before(closeReturned.Add(time.Millisecond))) {
				left[ex.Body["MemberID"].(string)] = true
			}
		}
		for m := range membersAtClose {
			if !left[m] {
				sig := "c15/no-leave-on-close"
				pending := false
				for _, e := range evs {
					if e.kind == "next-error" {
						pending = true
					}
				}
				_ = pending
				fail(sig, "Close returned but no LeaveGroup was sent for member %q, which the coordinator still lists as a member", m)
				return
			}
		}
		if len(membersAtClose) > 0 {
			lab["close_with_current_member"] = true
		}
	}
	// (e) failed joins are retried no sooner than JoinGroupBackoff
	mu.Lock()
	jf := append([]joinFail{}, joinFails...)
	mu.Unlock()
	for _, f := range jf {
		var failedEx *fakecluster.Exchange
		for _, ex := range journal {
			if ex.Seq == f.seq {
				failedEx = ex
			}
		}
		if failedEx == nil || failedEx.RespBody == nil {
			continue
		}
		code, _ := failedEx.RespBody["ErrorCode"].(int64)
		if code == 27 {
			continue // RebalanceInProgress is retried without back-off by design
		}
		for _, ex := range journal {
			if ex.ApiKey == 11 && ex.Seq > f.seq {
				sent := failedEx.AnsweredAt
				if sent.IsZero() {
					sent = failedEx.At
				}
				if gap := ex.At.Sub(sent); gap < backoff-2*time.Millisecond {
					fail("c15/join-retry-before-backoff", "JoinGroup seq %d failed (code %d) and was retried after %v, JoinGroupBackoff is %v", f.seq, code, gap, backoff)
					return
				} else if gap > backoff+2*time.Second {
					ev.Inconclusive("join_retry_late")
				}
				lab["join_retry_after_backoff"] = true
				break
			}
		}
	}
	for _, v := range cl.Violations() {
		fail("c15/malformed-request", "the fake broker rejected a request: %s", v)
		return
	}
	if generations >= 2 {
		lab["two_or_more_generations"] = true
	}
	for k := range lab {
		labels = append(labels, k)
	}
	sort.Strings(labels)
	nontrivial = generations >= 2 || lab["ended_by_fn_return"] || lab["ended_by_heartbeat_error"] || lab["ended_by_rebalance"] || lab["ended_by_partition_change"] || lab["ended_by_dropped_heartbeat"]
	return labels, nontrivial
}

func sessionOf(c groupCase) time.Duration {
	if c.SessionMs > 0 {
		return time.Duration(c.SessionMs) * time.Millisecond
	}
	return 10 * time.Second
}

func genCase(t *rapid.T) groupCase {
	c := groupCase{
		Brokers:     rapid.IntRange(1, 2).Draw(t, "brokers"),
		Partitions:  rapid.IntRange(1, 3).Draw(t, "partitions"),
		HeartbeatMs: rapid.IntRange(5, 30).Draw(t, "heartbeatMs"),
		BackoffMs:   rapid.IntRange(5, 50).Draw(t, "backoffMs"),
		Sched:       map[string]int{},
	}
	if rapid.Bool().Draw(t, "watch") {
		c.WatchMs = rapid.IntRange(5, 30).Draw(t, "watchMs")
	}
	if c.WatchMs > 0 && rapid.IntRange(0, 9).Draw(t, "missingTopic") == 0 {
		// one generation of a group that also subscribes to a topic created only later
		c.MissingTopic = true
		rd := round{WaitMs: rapid.SampledFrom([]int{0, 5, 30}).Draw(t, "mtWaitMs"), End: "topic-created"}
		for k, n := 0, rapid.IntRange(1, 3).Draw(t, "mtFns"); k < n; k++ {
			rd.Fns = append(rd.Fns, fnSpec{Kind: "wait"})
		}
		c.Rounds = []round{rd}
		c.CloseAtEnd = true
		return c
	}
	if rapid.IntRange(0, 29).Draw(t, "slowHeartbeat") == 0 {
		// an interval that is long compared with the session timeout (more than a third of it): it is still the configured one
		c.HeartbeatMs = rapid.IntRange(250, 400).Draw(t, "slowHeartbeatMs")
		c.SessionMs = c.HeartbeatMs * rapid.SampledFrom([]int{3, 4, 5}).Draw(t, "sessionHalves") / 2
		rd := round{WaitMs: 5*c.HeartbeatMs + 100, End: rapid.SampledFrom([]string{"close", "rebalance", "fn-return"}).Draw(t, "slowEnd")}
		rd.Fns = append(rd.Fns, fnSpec{Kind: "wait"})
		if rd.End == "fn-return" {
			rd.Fns = append(rd.Fns, fnSpec{Kind: "early", Ms: rd.WaitMs})
		}
		c.Rounds = []round{rd}
		c.CloseAtEnd = true
		return c
	}
	nr := rapid.IntRange(1, 4).Draw(t, "rounds")
	for i := 0; i < nr; i++ {
		rd := round{WaitMs: rapid.SampledFrom([]int{0, 1, 5, 20, 60}).Draw(t, "waitMs")}
		if rapid.IntRange(0, 9).Draw(t, "lateNext") == 0 {
			rd.NextDelayMs = 400 + 12*c.HeartbeatMs
		}
		if i == 0 && rapid.IntRange(0, 11).Draw(t, "longLived") == 0 {
			rd.WaitMs = 1000 + 10*c.HeartbeatMs + 50 // long enough for the heartbeat-rate rule
		}
		ends := []string{"fn-return", "heartbeat-error", "rebalance", "conn-drop", "close"}
		if c.WatchMs > 0 {
			ends = append(ends, "partition-change", "partition-change")
		}
		if c.WatchMs > 0 && i == nr-1 {
			ends = append(ends, "topic-deleted") // only as the last round: nothing can be joined for afterwards
		}
		rd.End = rapid.SampledFrom(ends).Draw(t, "end")
		if c.WatchMs == 0 && rapid.IntRange(0, 14).Draw(t, "silentHeartbeat") == 0 {
			rd.End = "heartbeat-silent"
			c.TimeoutMs = 700
		}
		if c.WatchMs == 0 && i < nr-1 && rapid.IntRange(0, 7).Draw(t, "noFns") == 0 {
			rd.NoFns = true
			rd.End = rapid.SampledFrom([]string{"heartbeat-error", "rebalance"}).Draw(t, "noFnsEnd")
			rd.WaitMs = 5
		}
		if rd.End == "heartbeat-error" {
			rd.Code = rapid.SampledFrom([]int16{22, 25, 27, 16, 15}).Draw(t, "hbCode")
		}
		nf := rapid.IntRange(0, 3).Draw(t, "fns")
		for k := 0; k < nf; k++ {
			f := fnSpec{Kind: rapid.SampledFrom([]string{"wait", "wait", "linger", "early"}).Draw(t, "fnKind"), Ms: rapid.IntRange(1, 40).Draw(t, "fnMs")}
			if f.Kind == "early" && rd.End != "fn-return" {
				f.Ms = rapid.IntRange(1, 100).Draw(t, "earlyMs")
			}
			if f.Kind == "linger" && rapid.IntRange(0, 4).Draw(t, "longLinger") == 0 {
				// a function that takes longer to wind down than the group's RebalanceTimeout (300 ms): the hand-over still waits
				f.Ms = rapid.IntRange(350, 650).Draw(t, "longLingerMs")
			}
			f.LateStart = rapid.IntRange(0, 9).Draw(t, "late") == 0
			rd.Fns = append(rd.Fns, f)
		}
		if rd.End != "close" && rapid.IntRange(0, 5).Draw(t, "closeWhilePending") == 0 {
			rd.CloseWhileErrorPending = true
			f := apiFault{API: rapid.SampledFrom([]string{"join", "sync", "sync", "offsetfetch"}).Draw(t, "pendingApi"), Kind: "code"}
			switch f.API {
			case "join":
				f.Code = rapid.SampledFrom([]int16{15, 16, 25}).Draw(t, "pcode")
			case "sync":
				f.Code = rapid.SampledFrom([]int16{27, 27, 22, 25, 16}).Draw(t, "pcode")
			default:
				f.Code = rapid.SampledFrom([]int16{14, 16}).Draw(t, "pcode")
			}
			rd.PendingFault = &f
		}
		c.Rounds = append(c.Rounds, rd)
		if rd.End == "close" || rd.CloseWhileErrorPending {
			break
		}
	}
	nsf := rapid.IntRange(0, 3).Draw(t, "setupFaults")
	for i := 0; i < nsf; i++ {
		f := apiFault{API: rapid.SampledFrom([]string{"findcoordinator", "join", "join", "sync", "offsetfetch", "leave"}).Draw(t, "api"), Kind: rapid.SampledFrom([]string{"code", "code", "drop"}).Draw(t, "faultKind")}
		switch f.API {
		case "findcoordinator":
			f.Code = rapid.SampledFrom([]int16{15, 14}).Draw(t, "code")
		case "join":
			f.Code = rapid.SampledFrom([]int16{14, 15, 16, 25, 23, 30}).Draw(t, "code")
		case "sync":
			f.Code = rapid.SampledFrom([]int16{15, 16, 22, 25, 27}).Draw(t, "code")
		case "offsetfetch":
			f.Code = rapid.SampledFrom([]int16{14, 15, 16}).Draw(t, "code")
		case "leave":
			f.Code = rapid.SampledFrom([]int16{15, 16, 25}).Draw(t, "code")
		}
		if f.Kind == "code" && (f.API == "join" || f.API == "sync") && rapid.IntRange(0, 2).Draw(t, "slowFailure") == 0 {
			f.DelayMs = c.BackoffMs + rapid.IntRange(0, c.BackoffMs).Draw(t, "failureDelayMs")
		}
		c.SetupFaults = append(c.SetupFaults, f)
	}
	c.CloseAtEnd = true
	for _, p := range []string{"gen.start", "gen.fnExit", "cgroup.beforeNext", "cgroup.errPending"} {
		if rapid.IntRange(0, 2).Draw(t, "sched:"+p) == 0 {
			c.Sched[p] = rapid.IntRange(1, 30).Draw(t, "yields")
		}
	}
	return c
}

func TestGenerations(t *testing.T) {
	rapid.Check(t, func(t *rapid.T) {
		c := genCase(t)
		ev.InFlight("group", c)
		labels, nt := run(t, c)
		var ends []string
		for _, r := range c.Rounds {
			ends = append(ends, r.End)
		}
		var sf []string
		for _, f := range c.SetupFaults {
			sf = append(sf, f.API+"/"+f.Kind)
		}
		ev.Case(fmt.Sprintf("b%d p%d w%v ends%v faults%v %v", c.Brokers, c.Partitions, c.WatchMs > 0, ends, sf, labels), nt, labels...)
		ev.Sample(c)
	})
}


// beatFloor is the interval the "too few heartbeats" rules count with: the configured one, but not below 25 ms.  With an
// interval of 5 ms a test process that shares sixteen cores with forty others was seen to send a heartbeat every 22 ms
// (a ticker drops the ticks nobody was there to take); a generation that sends no heartbeats, or one per second, is
// still far below a quarter of life/25 ms.
func beatFloor(hb time.Duration) time.Duration {
	if hb < 25*time.Millisecond {
		return 25 * time.Millisecond
	}
	return hb
}
