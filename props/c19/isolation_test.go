package c19

// Client.ListOffsets with an isolation level: for read_committed consumers the last offset of a partition with an open
// transaction is its last stable offset, for read_uncommitted ones the high watermark; first offsets are unaffected.

import (
	"context"
	"fmt"
	"testing"
	"time"

	kafka "github.com/segmentio/kafka-go"
	"pgregory.net/rapid"

	"verif/fakecluster"
	"verif/internal/ev"
	"verif/memnet"
	"verif/refcodec"
)

type isoPart struct {
	Records int   `json:"records"`
	OpenAt  int64 `json:"open_at"` // 0 = no open transaction, else the last stable offset
	Leader  int32 `json:"leader"`
}

type isoCase struct {
	Parts     []isoPart `json:"parts"`
	Committed bool      `json:"committed"`
	Ask       []int     `json:"ask"`  // partitions asked for (with repetitions)
	Kinds     []string  `json:"kind"` // first | last per entry
	Max       int16     `json:"list_offsets_max"`
}

func init() { ev.Register("isolation", func(tb ev.TB, c isoCase) { runIsolation(tb, c) }) }

func runIsolation(tb ev.TB, c isoCase) {
	nw := memnet.New()
	cl := fakecluster.New(nw, 2)
	defer cl.Close()
	cl.CreateTopic("t", len(c.Parts))
	for i, p := range c.Parts {
		cl.MoveLeader("t", int32(i), p.Leader)
		if p.Records > 0 {
			var recs []refcodec.Record
			for k := 0; k < p.Records; k++ {
				recs = append(recs, refcodec.Record{Offset: int64(k), Timestamp: int64(1000 + k), Value: []byte("v")})
			}
			cl.AppendBatches("t", int32(i), refcodec.MakeBatchV2(recs, 0))
		}
		cl.Lock()
		cl.PartitionUnlocked("t", int32(i)).OpenTxnFrom = p.OpenAt
		cl.Unlock()
	}
	cl.SetVersions(0, 2, 1, c.Max)
	tr := &kafka.Transport{Dial: nw.Dial, DialTimeout: 3 * time.Second, ClientID: "c19-iso"}
	defer tr.CloseIdleConnections()
	client := &kafka.Client{Addr: kafka.TCP("b1.fake:9092"), Transport: tr, Timeout: 5 * time.Second}
	req := &kafka.ListOffsetsRequest{Topics: map[string][]kafka.OffsetRequest{}}
	if c.Committed {
		req.IsolationLevel = kafka.ReadCommitted
	}
	for i, p := range c.Ask {
		if c.Kinds[i] == "first" {
			req.Topics["t"] = append(req.Topics["t"], kafka.FirstOffsetOf(p))
		} else {
			req.Topics["t"] = append(req.Topics["t"], kafka.LastOffsetOf(p))
		}
	}
	ctx, cancel := context.WithTimeout(context.Background(), 6*time.Second)
	defer cancel()
	res, err := client.ListOffsets(ctx, req)
	if err != nil {
		ev.Fail(tb, "isolation", "c19/isolation/error", c, "Client.ListOffsets failed without any fault: %v", err)
		return
	}
	for _, po := range res.Topics["t"] {
		if po.Error != nil {
			ev.Fail(tb, "isolation", "c19/isolation/error", c, "partition %d reported %v without any fault", po.Partition, po.Error)
			return
		}
		p := c.Parts[po.Partition]
		askedFirst, askedLast := false, false
		for i, a := range c.Ask {
			if a == po.Partition {
				askedFirst = askedFirst || c.Kinds[i] == "first"
				askedLast = askedLast || c.Kinds[i] == "last"
			}
		}
		wantLast := int64(p.Records)
		if c.Committed && c.Max >= 2 && p.OpenAt > 0 && p.OpenAt < int64(p.Records) {
			wantLast = p.OpenAt
		}
		if askedLast && po.LastOffset != wantLast {
			ev.Fail(tb, "isolation", "c19/isolation/last-offset", c, "partition %d (high watermark %d, last stable offset %d): ListOffsets with read_committed=%v (v<=%d) reports last offset %d, the brokers' answer for that isolation level is %d",
				po.Partition, p.Records, p.OpenAt, c.Committed, c.Max, po.LastOffset, wantLast)
			return
		}
		if askedFirst && po.FirstOffset != 0 {
			ev.Fail(tb, "isolation", "c19/isolation/first-offset", c, "partition %d: first offset %d, the log starts at 0", po.Partition, po.FirstOffset)
			return
		}
	}
}

func TestListOffsetsIsolation(t *testing.T) {
	rapid.Check(t, func(t *rapid.T) {
		c := isoCase{Committed: rapid.Bool().Draw(t, "committed"), Max: int16(rapid.SampledFrom([]int{1, 2, 4, 5}).Draw(t, "max"))}
		for i, n := 0, rapid.IntRange(1, 4).Draw(t, "parts"); i < n; i++ {
			p := isoPart{Records: rapid.IntRange(0, 12).Draw(t, "records"), Leader: int32(rapid.IntRange(1, 2).Draw(t, "leader"))}
			if p.Records > 1 && rapid.Bool().Draw(t, "openTxn") {
				p.OpenAt = int64(rapid.IntRange(1, p.Records-1).Draw(t, "lso"))
			}
			c.Parts = append(c.Parts, p)
		}
		for i, n := 0, rapid.IntRange(1, 6).Draw(t, "asks"); i < n; i++ {
			c.Ask = append(c.Ask, rapid.IntRange(0, len(c.Parts)-1).Draw(t, "ask"))
			c.Kinds = append(c.Kinds, rapid.SampledFrom([]string{"last", "last", "first"}).Draw(t, "kind"))
		}
		runIsolation(t, c)
		open := false
		for _, p := range c.Parts {
			open = open || p.OpenAt > 0
		}
		labels := []string{"isolation"}
		if open && c.Committed && c.Max >= 2 {
			labels = append(labels, "isolation_lso_differs")
		}
		ev.Case(fmt.Sprintf("iso %+v", c), open, labels...)
		ev.Sample(c)
	})
}
