package c19

import (
	"context"
	"errors"
	"fmt"
	"sort"
	"strings"
	"sync"
	"time"

	kafka "github.com/segmentio/kafka-go"

	"verif/fakecluster"
	"verif/internal/ev"
	"verif/memnet"
)

// armedFault is the fault the hook applies while one query runs.
type armedFault struct {
	api      int16
	conn     bool   // match by client id and request index (Conn ops)
	clientID string // conn ops
	f        fault
	matchTS  *int64 // listoffsets: only sub-requests with this timestamp
	count    int    // ListOffsets requests of clientID seen so far
	fired    int
	firedTS  []int64
}

type runner struct {
	tb     ev.TB
	c      queryCase
	nw     *memnet.Network
	cl     *fakecluster.Cluster
	m      *model
	labels map[string]bool

	mu    sync.Mutex
	armed *armedFault

	shared     map[int32]*kafka.Transport
	transports []*kafka.Transport
	nontrivial bool
}

func (r *runner) label(l ...string) {
	for _, x := range l {
		r.labels[x] = true
	}
}

// fail reports an oracle failure; it returns when the signature is a known finding.
func (r *runner) fail(sig, format string, args ...any) {
	r.tb.Helper()
	ev.Fail(r.tb, "queries", sig, r.c, format, args...)
}

func (r *runner) arm(a *armedFault) {
	r.mu.Lock()
	r.armed = a
	r.mu.Unlock()
}

func (r *runner) disarm() (fired int) {
	r.mu.Lock()
	if r.armed != nil {
		fired = r.armed.fired
	}
	r.armed = nil
	r.mu.Unlock()
	return
}

func asMap(v any) map[string]any { m, _ := v.(map[string]any); return m }
func asArr(v any) []any          { a, _ := v.([]any); return a }
func asInt(v any) int64 {
	switch x := v.(type) {
	case int64:
		return x
	case int:
		return int64(x)
	}
	return 0
}

// hook injects the armed fault into exactly the matching request.
func (r *runner) hook(cl *fakecluster.Cluster, req *fakecluster.Request) *fakecluster.Action {
	r.mu.Lock()
	defer r.mu.Unlock()
	a := r.armed
	if a == nil || req.ApiKey != a.api {
		return nil
	}
	switch a.api {
	case 2: // ListOffsets: the request holds one partition (Conn) or was split to one partition (Client)
		ts := asArr(req.Body["Topics"])
		if len(ts) != 1 {
			return nil
		}
		tm := asMap(ts[0])
		ps := asArr(tm["Partitions"])
		if len(ps) != 1 {
			return nil
		}
		pm := asMap(ps[0])
		topic, _ := tm["Topic"].(string)
		part, stamp := int(asInt(pm["Partition"])), asInt(pm["Timestamp"])
		if a.conn {
			if req.ClientID != a.clientID {
				return nil
			}
			idx := a.count
			a.count++
			if idx != a.f.Req {
				return nil
			}
		} else {
			if topic != a.f.Topic || part != a.f.Partition {
				return nil
			}
			if a.matchTS != nil && stamp != *a.matchTS {
				return nil
			}
		}
		a.fired++
		a.firedTS = append(a.firedTS, stamp)
		if a.f.Kind == "drop" {
			return &fakecluster.Action{DropBeforeApply: true, Tag: "c19-drop"}
		}
		return &fakecluster.Action{ErrorCode: a.f.Code, Tag: "c19-code"}
	case 9: // OffsetFetch: error on exactly one partition of the response
		if a.f.Kind == "group-code" {
			// the coordinator refuses the whole request: from v2 on the code travels in the top-level field
			return &fakecluster.Action{Tag: "c19-group-code", Mutate: func(body map[string]any) {
				body["ErrorCode"] = int64(a.f.Code)
				r.mu.Lock()
				a.fired++
				r.mu.Unlock()
			}}
		}
		return &fakecluster.Action{Tag: "c19-code", Mutate: func(body map[string]any) {
			for _, tv := range asArr(body["Topics"]) {
				tm := asMap(tv)
				if tm["Name"] != a.f.Topic {
					continue
				}
				for _, pv := range asArr(tm["Partitions"]) {
					pm := asMap(pv)
					if int(asInt(pm["PartitionIndex"])) == a.f.Partition {
						pm["ErrorCode"] = int64(a.f.Code)
						pm["CommittedOffset"] = int64(-1)
						pm["Metadata"] = ""
						r.mu.Lock()
						a.fired++
						r.mu.Unlock()
					}
				}
			}
		}}
	case 8: // OffsetCommit: the broker rejects exactly one partition (it is not applied) and accepts the others
		pos := -1
		for _, tv := range asArr(req.Body["Topics"]) {
			tm := asMap(tv)
			if tm["Name"] != a.f.Topic {
				continue
			}
			ps := asArr(tm["Partitions"])
			for i, pv := range ps {
				if int(asInt(asMap(pv)["PartitionIndex"])) == a.f.Partition {
					pos = i
					rest := append([]any{}, ps[:i]...)
					tm["Partitions"] = append(rest, ps[i+1:]...)
					break
				}
			}
		}
		if pos < 0 {
			return nil
		}
		a.fired++
		return &fakecluster.Action{Tag: "c19-code", Mutate: func(body map[string]any) {
			for _, tv := range asArr(body["Topics"]) {
				tm := asMap(tv)
				if tm["Name"] != a.f.Topic {
					continue
				}
				ps := asArr(tm["Partitions"])
				entry := map[string]any{"PartitionIndex": int64(a.f.Partition), "ErrorCode": int64(a.f.Code)}
				out := append([]any{}, ps[:pos]...)
				out = append(out, entry)
				tm["Partitions"] = append(out, ps[pos:]...)
			}
		}}
	}
	return nil
}

// run evaluates one case.
func run(tb ev.TB, c queryCase) (labels []string, nontrivial bool) {
	ev.InFlight("queries", c)
	nw := memnet.New()
	cl, m := buildCluster(tb, nw, &c.Cluster)
	defer cl.Close()
	r := &runner{tb: tb, c: c, nw: nw, cl: cl, m: m, labels: map[string]bool{}, shared: map[int32]*kafka.Transport{}}
	defer func() {
		for _, tr := range r.transports {
			tr.CloseIdleConnections()
		}
	}()
	cl.SetHook(r.hook)
	r.label(fmt.Sprintf("brokers_%d", c.Cluster.Brokers))
	for i := range c.Ops {
		o := &c.Ops[i]
		if o.Fault.Kind != "" {
			r.nontrivial = true
		}
		switch o.Kind {
		case "conn", "dial":
			r.opConn(i, o)
		case "listoffsets":
			r.opListOffsets(i, o)
		case "offsetfetch":
			r.opOffsetFetch(i, o)
		case "offsetcommit":
			r.opOffsetCommit(i, o)
		case "consumeroffsets":
			r.opConsumerOffsets(i, o)
		case "metadata":
			r.opMetadata(i, o)
		default:
			tb.Fatalf("harness: unknown op kind %q", o.Kind)
		}
	}
	if v := cl.Violations(); len(v) > 0 {
		r.fail("c19/malformed-request", "the fake brokers saw malformed requests: %s", strings.Join(v, "; "))
	}
	seen := map[string]bool{}
	for _, ex := range cl.Journal() {
		switch ex.ApiKey {
		case 2, 3, 8, 9:
			seen[fmt.Sprintf("%s_v%d", strings.ToLower(ex.ApiName), ex.Version)] = true
		}
	}
	for k := range seen {
		r.labels[k] = true
	}
	for l := range r.labels {
		labels = append(labels, l)
	}
	sort.Strings(labels)
	return labels, r.nontrivial
}

// ---------------------------------------------------------------------------
// low-level Conn

const (
	sentFirst = int64(-2) // kafka.FirstOffset
	sentLast  = int64(-1) // kafka.LastOffset
)

func whenceName(w int) string {
	s := [...]string{"SeekStart", "SeekAbsolute", "SeekEnd", "SeekCurrent"}[w&3]
	if w&kafka.SeekDontCheck != 0 {
		s += "|SeekDontCheck"
	}
	return s
}

func (r *runner) opConn(i int, o *op) {
	clientID := fmt.Sprintf("c19-op%d", i)
	d := &kafka.Dialer{DialFunc: r.nw.Dial, Timeout: 5 * time.Second, ClientID: clientID}
	ctx, cancel := context.WithTimeout(context.Background(), 10*time.Second)
	defer cancel()
	var conn *kafka.Conn
	var err error
	var mp *mpart
	what := fmt.Sprintf("op %d: ", i)
	if o.Kind == "conn" {
		mp = r.m.part(o.Topic, o.Partition)
		if mp == nil || !r.m.alive(mp.spec.Leader) {
			r.tb.Fatalf("harness: conn op on %s/%d which has no live leader", o.Topic, o.Partition)
		}
		conn, err = d.DialLeader(ctx, "tcp", brokerAddr(o.Bootstrap), o.Topic, o.Partition)
		what += fmt.Sprintf("Conn(%s/%d) ", o.Topic, o.Partition)
	} else {
		conn, err = d.DialContext(ctx, "tcp", brokerAddr(o.Bootstrap))
		what += "Conn() "
	}
	if err != nil {
		r.fail("c19/unexpected-error", "%sdial through b%d failed: %v", what, o.Bootstrap, err)
		return
	}
	defer conn.Close()
	conn.SetDeadline(time.Now().Add(10 * time.Second))
	if o.Kind == "conn" {
		// DialLeader must have connected to the partition's leader
		if b := conn.Broker(); b.ID != int(mp.spec.Leader) {
			r.fail("c19/dial-leader", "%sDialLeader connected to broker %d, the leader is %d", what, b.ID, mp.spec.Leader)
			return
		}
	}
	var af *armedFault
	if o.Fault.Kind != "" && o.Kind == "conn" {
		af = &armedFault{api: 2, conn: true, clientID: clientID, f: o.Fault}
		r.arm(af)
		defer r.disarm()
		r.label("partial_failure", "conn_fault_"+o.Fault.Kind)
	}
	firedBefore := 0
	// hit reports whether the fault fired during the step just executed
	hit := func() bool {
		if af == nil {
			return false
		}
		r.mu.Lock()
		defer r.mu.Unlock()
		h := af.fired > firedBefore
		firedBefore = af.fired
		return h
	}
	afterFault := false
	dead := false
	cur := sentFirst // the connection's position as the model tracks it (raw, with the documented sentinels)

	// expectFault checks the error of a step during which the fault fired.
	expectFault := func(step string, err error) {
		afterFault = true
		if o.Fault.Kind == "drop" {
			dead = true
			if err == nil {
				r.fail("c19/conn-fault-not-reported", "%s%s: the broker dropped the connection instead of answering, yet the call returned no error", what, step)
			}
			return
		}
		if !errors.Is(err, kafka.Error(o.Fault.Code)) {
			r.fail("c19/conn-fault-not-reported", "%s%s: the broker answered with error code %d, the call returned err=%v", what, step, o.Fault.Code, err)
		}
	}
	// unexpected handles an error nobody injected.
	unexpected := func(step string, err error) {
		if afterFault {
			ev.Inconclusive("conn-error-after-injected-fault")
			dead = true
			return
		}
		r.fail("c19/unexpected-error", "%s%s failed without any fault: %v", what, step, err)
		dead = true
	}

	for si, st := range o.Steps {
		if dead {
			break
		}
		step := fmt.Sprintf("step %d ", si)
		switch st.Kind {
		case "first", "last":
			var got, want int64
			var err error
			if st.Kind == "first" {
				got, err = conn.ReadFirstOffset()
				want = mp.first
				step += "ReadFirstOffset"
			} else {
				got, err = conn.ReadLastOffset()
				want = mp.end
				step += "ReadLastOffset"
			}
			if hit() {
				expectFault(step, err)
				continue
			}
			if err != nil {
				unexpected(step, err)
				continue
			}
			if got != want {
				r.fail("c19/conn-offset", "%s%s returned %d, the partition has [%d,%d)", what, step, got, mp.first, mp.end)
			}
		case "offsets":
			step += "ReadOffsets"
			f, l, err := conn.ReadOffsets()
			if hit() {
				expectFault(step, err)
				continue
			}
			if err != nil {
				unexpected(step, err)
				continue
			}
			if f != mp.first || l != mp.end {
				r.fail("c19/conn-offset", "%s%s returned (%d,%d), the partition has [%d,%d)", what, step, f, l, mp.first, mp.end)
			}
		case "time":
			step += fmt.Sprintf("ReadOffset(%d ms)", st.T)
			got, err := conn.ReadOffset(time.UnixMilli(st.T))
			if hit() {
				expectFault(step, err)
				continue
			}
			if err != nil {
				unexpected(step, err)
				continue
			}
			want := mp.offsetFor(st.T)
			r.crossCheckTime(o.Topic, o.Partition, st.T, want)
			if want < 0 {
				r.label("time_not_found")
			} else {
				r.label("time_found")
			}
			if got != want {
				r.fail("c19/conn-time-offset", "%s%s returned %d, the first stored record with timestamp >= %d is at %d (records %v, log start %d)", what, step, got, st.T, want, mp.recs, mp.first)
			}
		case "seek":
			cur = r.stepSeek(what, step, conn, mp, st, cur, hit, expectFault, unexpected)
		case "partitions":
			r.stepPartitions(what, step, clientID, conn, o, st, unexpected)
		default:
			r.tb.Fatalf("harness: unknown step kind %q", st.Kind)
		}
	}
}

// crossCheckTime compares the model's answer with the fake's own lookup: a
// difference is a harness defect, never a finding.
func (r *runner) crossCheckTime(topic string, p int, ts, want int64) {
	fp := r.cl.Partition(topic, int32(p))
	r.cl.Lock()
	o, _ := fakecluster.OffsetForTime(fp, ts)
	r.cl.Unlock()
	if o != want {
		r.tb.Fatalf("harness: model says offset %d for ts %d on %s/%d, the fake cluster says %d", want, ts, topic, p, o)
	}
}

func offsetPair(raw int64) (int64, int) {
	switch raw {
	case sentFirst:
		return 0, kafka.SeekStart
	case sentLast:
		return 0, kafka.SeekEnd
	}
	return raw, kafka.SeekAbsolute
}

// stepSeek runs one Seek followed by Offset() and returns the model's new position.
func (r *runner) stepSeek(what, step string, conn *kafka.Conn, mp *mpart, st connStep, cur int64,
	hit func() bool, expectFault func(string, error), unexpected func(string, error)) int64 {
	w := st.Whence &^ kafka.SeekDontCheck
	dc := st.Whence&kafka.SeekDontCheck != 0
	step += fmt.Sprintf("Seek(%d, %s) from position %d", st.Off, whenceName(st.Whence), cur)
	r.nontrivial = r.nontrivial || w != kafka.SeekAbsolute
	switch w {
	case kafka.SeekStart:
		r.label("seek_start_relative")
	case kafka.SeekEnd:
		r.label("seek_end_relative")
	case kafka.SeekCurrent:
		r.label("seek_current")
	default:
		r.label("seek_absolute")
	}
	if dc {
		r.label("seek_dontcheck")
	}
	got, err := conn.Seek(st.Off, st.Whence)
	gotOff, gotWh := conn.Offset()
	sync := func() int64 { // adopt the library's position so that the program can go on
		if gotWh == kafka.SeekStart {
			return sentFirst
		}
		if gotWh == kafka.SeekEnd {
			return sentLast
		}
		return gotOff
	}
	checkOffset := func(raw int64) {
		wo, ww := offsetPair(raw)
		if gotOff != wo || gotWh != ww {
			r.fail("c19/seek-offset-after", "%s%s: Offset() afterwards is (%d,%s), expected (%d,%s)", what, step, gotOff, whenceName(gotWh), wo, whenceName(ww))
		}
	}
	if hit() {
		expectFault(step, err)
		checkOffset(cur) // a failed Seek does not move the connection
		return cur
	}
	symbolic := cur == sentFirst || cur == sentLast
	if dc && (w == kafka.SeekAbsolute || w == kafka.SeekCurrent) {
		if w == kafka.SeekCurrent && symbolic {
			// no bound check means no request: the first/last offset cannot be known, nothing is specified
			r.label("obs_current_dontcheck_from_symbolic")
			return sync()
		}
		want := st.Off
		if w == kafka.SeekCurrent {
			want = cur + st.Off
		}
		if err != nil {
			unexpected(step, err)
			return sync()
		}
		if got != want {
			r.fail("c19/seek-arith", "%s%s returned %d, expected %d", what, step, got, want)
			return sync()
		}
		checkOffset(want)
		return want
	}
	var target int64
	sig := "c19/seek-arith"
	switch w {
	case kafka.SeekAbsolute:
		target = st.Off
	case kafka.SeekStart:
		target = mp.first + st.Off
	case kafka.SeekEnd:
		target = mp.end - st.Off // "When seeking relative to the end, the offset is subtracted"
	case kafka.SeekCurrent:
		base := cur
		if cur == sentFirst {
			base = mp.first
		} else if cur == sentLast {
			base = mp.end
		}
		if symbolic {
			sig = "c19/seek-current-from-symbolic-position"
			r.label("seek_current_from_symbolic")
		}
		target = base + st.Off
	}
	inRange := target >= mp.first && target <= mp.end
	if !inRange {
		r.label("seek_out_of_range")
	}
	if w == kafka.SeekAbsolute && st.Off == cur && !inRange && err == nil && got == st.Off {
		// seeking to the very value the connection already holds (placed there unchecked, or a sentinel) is
		// answered without a bound check; the documentation promises nothing for it: observation only
		r.label("obs_absolute_unchanged_skips_check")
		return cur
	}
	if inRange {
		if err != nil {
			if errors.Is(err, kafka.OffsetOutOfRange) {
				r.fail(sig, "%s%s returned OffsetOutOfRange; the target %d lies inside [%d,%d]", what, step, target, mp.first, mp.end)
			} else {
				unexpected(step, err)
			}
			return sync()
		}
		if got != target {
			r.fail(sig, "%s%s returned %d, expected %d (partition [%d,%d])", what, step, got, target, mp.first, mp.end)
			return sync()
		}
		checkOffset(target)
		return target
	}
	if err == nil {
		r.fail(sig+"-range", "%s%s returned %d without error; the target %d lies outside [%d,%d]", what, step, got, target, mp.first, mp.end)
		return sync()
	}
	if !errors.Is(err, kafka.OffsetOutOfRange) {
		unexpected(step, err)
		return sync()
	}
	checkOffset(cur)
	return cur
}
