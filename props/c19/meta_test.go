package c19

import (
	"context"
	"errors"
	"fmt"
	"sort"
	"time"

	kafka "github.com/segmentio/kafka-go"
)

// expBroker is what the API must report for broker id.
func (r *runner) expBroker(id int32) kafka.Broker {
	if !r.m.alive(id) {
		// "The logical broker ID is always set to the value known to the kafka cluster, even if the
		// broker is not currently backed by a physical host" (kafka.Partition)
		return kafka.Broker{ID: int(id)}
	}
	return kafka.Broker{Host: fmt.Sprintf("b%d.fake", id), Port: 9092, ID: int(id), Rack: r.m.rack(id)}
}

func (r *runner) diffBrokers(ctx, what string, got []kafka.Broker, ids []int32) (string, string) {
	if len(got) != len(ids) {
		return fmt.Sprintf("%s has %d brokers %v, the cluster has %v", what, len(got), got, ids), "c19/metadata-partition"
	}
	for i, id := range ids {
		want := r.expBroker(id)
		if !r.m.alive(id) {
			r.label("dead_replica_seen")
		}
		if got[i] == want {
			continue
		}
		if !r.m.alive(id) {
			if got[i].Host == "" && got[i].Port == 0 && got[i].Rack == "" {
				// one root cause of its own (the id of a broker without a known host is lost); when it is a
				// listed finding the comparison goes on with the remaining fields
				r.fail("c19/metadata-unknown-broker-id", "%s: %s[%d] is %+v; the cluster lists broker id %d there (not registered: no host known)", ctx, what, i, got[i], id)
				continue
			}
			return fmt.Sprintf("%s[%d] is %+v; the cluster lists broker id %d there (not registered: no host known)", what, i, got[i], id), "c19/metadata-partition"
		}
		return fmt.Sprintf("%s[%d] is %+v, the cluster has %+v", what, i, got[i], want), "c19/metadata-partition"
	}
	return "", ""
}

// diffPartition compares one reported partition with the model.  offline says
// whether OfflineReplicas is filled by this API at this version; client says
// whether Partition.Error is filled.
func (r *runner) diffPartition(ctx string, got kafka.Partition, topic string, id int, offline, client bool) (string, string) {
	mp := r.m.part(topic, id)
	if mp == nil {
		return fmt.Sprintf("partition %s/%d does not exist in the cluster", got.Topic, got.ID), "c19/metadata-partition"
	}
	ps := mp.spec
	if got.Topic != topic || got.ID != id {
		return fmt.Sprintf("reported as %s/%d", got.Topic, got.ID), "c19/metadata-partition"
	}
	if r.m.alive(ps.Leader) {
		if want := r.expBroker(ps.Leader); got.Leader != want {
			return fmt.Sprintf("leader %+v, the cluster has %+v", got.Leader, want), "c19/metadata-leader"
		}
	} else {
		r.label("leaderless_seen")
		if got.Leader.Host != "" || got.Leader.Port != 0 {
			return fmt.Sprintf("leader %+v, the partition has no leader", got.Leader), "c19/metadata-leader"
		}
	}
	if d, s := r.diffBrokers(ctx, "Replicas", got.Replicas, ps.Replicas); d != "" {
		return d, s
	}
	if d, s := r.diffBrokers(ctx, "Isr", got.Isr, ps.ISR); d != "" {
		return d, s
	}
	if offline {
		if d, s := r.diffBrokers(ctx, "OfflineReplicas", got.OfflineReplicas, ps.Offline); d != "" {
			return d, s
		}
	}
	if client {
		if r.m.alive(ps.Leader) {
			if got.Error != nil {
				return fmt.Sprintf("Error %v, the broker reported none", got.Error), "c19/metadata-partition"
			}
		} else if !errors.Is(got.Error, kafka.LeaderNotAvailable) {
			return fmt.Sprintf("Error %v, the broker reported LEADER_NOT_AVAILABLE", got.Error), "c19/metadata-partition"
		}
	}
	return "", ""
}

// comparePartitions checks a partition list against the listed topics of the model.
func (r *runner) comparePartitions(what string, got []kafka.Partition, topics []string, offline, client bool) {
	type key struct {
		t string
		p int
	}
	seen := map[key]bool{}
	for _, p := range got {
		k := key{p.Topic, p.ID}
		if seen[k] {
			r.fail("c19/metadata-partition-list", "%s lists %s/%d twice", what, p.Topic, p.ID)
			return
		}
		seen[k] = true
		listed := false
		for _, t := range topics {
			listed = listed || t == p.Topic
		}
		if !listed {
			r.fail("c19/metadata-partition-list", "%s lists %s/%d, a topic that was not asked for (%v)", what, p.Topic, p.ID, topics)
			return
		}
		if d, sig := r.diffPartition(fmt.Sprintf("%s partition %s/%d", what, p.Topic, p.ID), p, p.Topic, p.ID, offline, client); d != "" {
			r.fail(sig, "%s partition %s/%d: %s", what, p.Topic, p.ID, d)
			return
		}
	}
	for _, t := range topics {
		for i := range r.m.parts[t] {
			if !seen[key{t, i}] {
				r.fail("c19/metadata-partition-list", "%s does not list %s/%d (got %d partitions)", what, t, i, len(got))
				return
			}
		}
	}
}

func (r *runner) stepPartitions(what, step, clientID string, conn *kafka.Conn, o *op, st connStep, unexpected func(string, error)) {
	step += fmt.Sprintf("ReadPartitions(%v)", st.Topics)
	got, err := conn.ReadPartitions(st.Topics...)
	asked := st.Topics
	all := false
	if len(asked) == 0 {
		if o.Kind == "conn" {
			asked = []string{o.Topic}
		} else {
			asked, all = r.m.topics, true
		}
	}
	var known []string
	dup := map[string]bool{}
	unknown := false
	for _, t := range asked {
		if dup[t] {
			continue
		}
		dup[t] = true
		if r.m.parts[t] != nil {
			known = append(known, t)
		} else {
			unknown = true
		}
	}
	if all {
		r.label("readpartitions_all")
	}
	if len(known) > 1 {
		r.label("readpartitions_multi_topic")
	}
	if err != nil {
		if unknown && errors.Is(err, kafka.UnknownTopicOrPartition) {
			r.label("readpartitions_unknown_topic_error")
			return
		}
		unexpected(step, err)
		return
	}
	// which metadata version did the connection use?  (OfflineReplicas exist from v5; Conn speaks v1 or v6)
	ver := int16(-1)
	for _, ex := range r.cl.Journal() {
		if ex.ApiKey == 3 && ex.ClientID == clientID {
			ver = ex.Version
		}
	}
	r.label(fmt.Sprintf("readpartitions_v%d", ver))
	r.comparePartitions(what+step, got, known, ver >= 5, false)
}

// ---------------------------------------------------------------------------
// Client.Metadata

func (r *runner) transport(o *op, fresh bool) *kafka.Transport {
	if !fresh && !o.Fresh {
		if tr := r.shared[o.Bootstrap]; tr != nil {
			return tr
		}
	}
	tr := &kafka.Transport{Dial: r.nw.Dial, DialTimeout: 3 * time.Second, MetadataTTL: 3 * time.Second, ClientID: "c19-client"}
	r.transports = append(r.transports, tr)
	if !fresh && !o.Fresh {
		r.shared[o.Bootstrap] = tr
	}
	return tr
}

func (r *runner) client(o *op, fresh bool, bootstrap int32) *kafka.Client {
	return &kafka.Client{Addr: kafka.TCP(brokerAddr(bootstrap)), Timeout: 8 * time.Second, Transport: r.transport(o, fresh)}
}

func (r *runner) opMetadata(i int, o *op) {
	what := fmt.Sprintf("op %d: Client.Metadata(%v) ", i, o.Topics)
	ctx, cancel := context.WithTimeout(context.Background(), 10*time.Second)
	defer cancel()
	var names []string
	if !o.AllTopics {
		names = append([]string{}, o.Topics...)
	}
	res, err := r.client(o, false, o.Bootstrap).Metadata(ctx, &kafka.MetadataRequest{Topics: names})
	if err != nil {
		r.fail("c19/unexpected-error", "%sfailed without any fault: %v", what, err)
		return
	}
	ver := r.c.Cluster.MetadataMax
	if ver > 8 {
		ver = 8
	}
	// brokers
	ids := r.m.c.ids()
	gotB := append([]kafka.Broker{}, res.Brokers...)
	sort.Slice(gotB, func(a, b int) bool { return gotB[a].ID < gotB[b].ID })
	if d, _ := r.diffBrokers(what, "Brokers", gotB, ids); d != "" {
		r.fail("c19/metadata-brokers", "%s%s", what, d)
		return
	}
	if want := r.expBroker(r.m.c.Controller); res.Controller != want {
		r.fail("c19/metadata-brokers", "%sController %+v, the cluster's controller is %+v", what, res.Controller, want)
		return
	}
	if ver >= 2 && res.ClusterID != "fake-cluster" {
		r.fail("c19/metadata-brokers", "%sClusterID %q, the cluster's id is %q", what, res.ClusterID, "fake-cluster")
		return
	}
	// topics
	asked := names
	if o.AllTopics {
		asked = r.m.topics
		r.label("metadata_all")
	}
	want := map[string]bool{}
	for _, t := range asked {
		want[t] = true
	}
	seen := map[string]bool{}
	for _, t := range res.Topics {
		if seen[t.Name] && !o.AllTopics {
			continue // a name asked twice is answered twice
		}
		if !want[t.Name] || seen[t.Name] {
			r.fail("c19/metadata-topic-list", "%slists topic %q which was not asked for or twice (asked %v)", what, t.Name, asked)
			return
		}
		seen[t.Name] = true
		ts := r.m.topicSpec(t.Name)
		if ts == nil {
			r.label("metadata_unknown_topic")
			if !errors.Is(t.Error, kafka.UnknownTopicOrPartition) || len(t.Partitions) != 0 {
				r.fail("c19/metadata-topic", "%stopic %q does not exist; reported Error=%v with %d partitions", what, t.Name, t.Error, len(t.Partitions))
				return
			}
			continue
		}
		if t.Error != nil {
			r.fail("c19/metadata-topic", "%stopic %q reported with Error=%v, the broker reported none", what, t.Name, t.Error)
			return
		}
		if t.Internal != ts.Internal {
			r.fail("c19/metadata-topic", "%stopic %q reported Internal=%v, the cluster has %v", what, t.Name, t.Internal, ts.Internal)
			return
		}
		r.comparePartitions(what, t.Partitions, []string{t.Name}, false, true)
	}
	for _, t := range asked {
		if !seen[t] {
			r.fail("c19/metadata-topic-list", "%sdoes not list topic %q (asked %v, got %d topics)", what, t, asked, len(res.Topics))
			return
		}
	}
	if len(seen) > 1 {
		r.label("metadata_multi_topic")
	}
}
