package c19

import (
	"context"
	"errors"
	"fmt"
	"sort"
	"syscall"
	"time"

	kafka "github.com/segmentio/kafka-go"

	"verif/fakecluster"
)

type tp struct {
	t string
	p int
}

func (k tp) String() string { return fmt.Sprintf("%s/%d", k.t, k.p) }

// expPO is the expected PartitionOffsets of one requested partition.
type expPO struct {
	first, last int64
	offsets     map[int64][]time.Time // offset -> the requested times that resolve to it
	err         error                 // this very error is expected
	anyErr      bool                  // some error is expected (the request could not be delivered)
}

func libTime(ms int64) time.Time { // how the library presents a millisecond timestamp
	if ms <= 0 {
		return time.Time{}
	}
	return time.Unix(ms/1000, (ms%1000)*int64(time.Millisecond)).UTC()
}

func stampOf(q offReq) int64 {
	switch q.Kind {
	case "first":
		return kafka.FirstOffset
	case "last":
		return kafka.LastOffset
	}
	return q.T
}

func (r *runner) expectListOffsets(reqs []offReq) map[tp]*expPO {
	exp := map[tp]*expPO{}
	for _, q := range reqs {
		k := tp{q.Topic, q.Partition}
		e := exp[k]
		if e == nil {
			e = &expPO{first: -1, last: -1, offsets: map[int64][]time.Time{}}
			exp[k] = e
		}
		mp := r.m.part(q.Topic, q.Partition)
		if mp == nil {
			e.err = kafka.UnknownTopicOrPartition
			r.label("listoffsets_unknown_partition")
			continue
		}
		if !r.m.alive(mp.spec.Leader) {
			e.anyErr = true
			r.label("listoffsets_leaderless")
			continue
		}
		switch q.Kind {
		case "first":
			e.first = mp.first
		case "last":
			e.last = mp.end
		default:
			o := mp.offsetFor(q.T)
			r.crossCheckTime(q.Topic, q.Partition, q.T, o)
			if o < 0 {
				r.label("time_not_found")
			} else {
				r.label("time_found")
			}
			e.offsets[o] = append(e.offsets[o], libTime(q.T))
		}
	}
	return exp
}

func diffPO(got kafka.PartitionOffsets, e *expPO) string {
	switch {
	case e.err != nil:
		if !errors.Is(got.Error, e.err) {
			return fmt.Sprintf("Error=%v, expected %v", got.Error, e.err)
		}
		return ""
	case e.anyErr:
		if got.Error == nil {
			return "Error=nil although the request for this partition could not be served"
		}
		return ""
	}
	if got.Error != nil {
		return fmt.Sprintf("Error=%v although the leader answered without error", got.Error)
	}
	if got.FirstOffset != e.first {
		return fmt.Sprintf("FirstOffset=%d, expected %d", got.FirstOffset, e.first)
	}
	if got.LastOffset != e.last {
		return fmt.Sprintf("LastOffset=%d, expected %d", got.LastOffset, e.last)
	}
	if len(got.Offsets) != len(e.offsets) {
		return fmt.Sprintf("Offsets=%v, expected offsets %v", got.Offsets, e.offsets)
	}
	for o, t := range got.Offsets {
		ok := false
		for _, w := range e.offsets[o] {
			ok = ok || w.Equal(t)
		}
		if !ok {
			return fmt.Sprintf("Offsets[%d]=%v, expected offsets %v", o, t, e.offsets)
		}
	}
	return ""
}

func samePO(a, b kafka.PartitionOffsets) bool {
	if a.Partition != b.Partition || a.FirstOffset != b.FirstOffset || a.LastOffset != b.LastOffset || len(a.Offsets) != len(b.Offsets) || (a.Error == nil) != (b.Error == nil) {
		return false
	}
	if a.Error != nil && a.Error.Error() != b.Error.Error() {
		return false
	}
	// the times were checked against the model; when two requested times resolve to one offset the map
	// keeps either of them, so only the offsets are compared between the two runs
	for o := range a.Offsets {
		if _, ok := b.Offsets[o]; !ok {
			return false
		}
	}
	return true
}

// indexListOffsets turns a response into a map and checks its shape.
func (r *runner) indexListOffsets(what string, res *kafka.ListOffsetsResponse, exp map[tp]*expPO) (map[tp]kafka.PartitionOffsets, bool) {
	got := map[tp]kafka.PartitionOffsets{}
	var names []string
	for t := range res.Topics {
		names = append(names, t)
	}
	sort.Strings(names)
	for _, t := range names {
		for _, po := range res.Topics[t] {
			k := tp{t, po.Partition}
			if _, dup := got[k]; dup {
				r.fail("c19/listoffsets-merge", "%sreports %v twice", what, k)
				return nil, false
			}
			if exp[k] == nil {
				r.fail("c19/listoffsets-merge", "%sreports %v which was not requested", what, k)
				return nil, false
			}
			got[k] = po
		}
	}
	var keys []tp
	for k := range exp {
		keys = append(keys, k)
	}
	sort.Slice(keys, func(a, b int) bool { return keys[a].String() < keys[b].String() })
	for _, k := range keys {
		if _, ok := got[k]; !ok {
			r.fail("c19/listoffsets-merge", "%sdoes not report the requested partition %v (got %d of %d)", what, k, len(got), len(exp))
			return nil, false
		}
	}
	return got, true
}

func sortedKeys(exp map[tp]*expPO) []tp {
	var keys []tp
	for k := range exp {
		keys = append(keys, k)
	}
	sort.Slice(keys, func(a, b int) bool { return keys[a].String() < keys[b].String() })
	return keys
}

func (r *runner) opListOffsets(i int, o *op) {
	what := fmt.Sprintf("op %d: Client.ListOffsets(%d requests) ", i, len(o.Reqs))
	req := map[string][]kafka.OffsetRequest{}
	leaders := map[int32]bool{}
	parts := map[tp]bool{}
	topics := map[string]bool{}
	idxTopics := map[int]map[string]bool{}
	for _, q := range o.Reqs {
		var or kafka.OffsetRequest
		switch q.Kind {
		case "first":
			or = kafka.FirstOffsetOf(q.Partition)
		case "last":
			or = kafka.LastOffsetOf(q.Partition)
		default:
			or = kafka.TimeOffsetOf(q.Partition, time.UnixMilli(q.T))
		}
		req[q.Topic] = append(req[q.Topic], or)
		parts[tp{q.Topic, q.Partition}] = true
		topics[q.Topic] = true
		if idxTopics[q.Partition] == nil {
			idxTopics[q.Partition] = map[string]bool{}
		}
		idxTopics[q.Partition][q.Topic] = true
		if mp := r.m.part(q.Topic, q.Partition); mp != nil {
			leaders[mp.spec.Leader] = true
		}
	}
	if len(parts) > 1 || len(leaders) > 1 {
		r.label("split_merge")
		r.nontrivial = true
	}
	if len(topics) > 1 {
		r.label("listoffsets_multi_topic")
	}
	if len(leaders) > 1 {
		r.label("listoffsets_multi_leader")
	}
	for _, ts := range idxTopics {
		if len(ts) > 1 {
			r.label("listoffsets_same_index_in_two_topics")
		}
	}
	if len(o.Reqs) > len(parts) {
		r.label("listoffsets_several_requests_per_partition")
	}
	exp := r.expectListOffsets(o.Reqs)
	ctx, cancel := context.WithTimeout(context.Background(), 10*time.Second)
	defer cancel()

	total := func(e map[tp]*expPO) bool { // every sub-request undeliverable: the call as a whole may fail
		for _, x := range e {
			if !x.anyErr {
				return false
			}
		}
		return true
	}
	check := func(what string, res *kafka.ListOffsetsResponse, err error, exp map[tp]*expPO, faulted map[tp]bool) (map[tp]kafka.PartitionOffsets, bool) {
		if err != nil {
			if total(exp) {
				r.label("listoffsets_total_failure")
				return nil, false
			}
			sig := "c19/unexpected-error"
			if len(faulted) > 0 {
				sig = "c19/listoffsets-isolation"
			}
			r.fail(sig, "%sfailed as a whole: %v; only %v could not be served", what, err, keysOf(faulted))
			return nil, false
		}
		got, ok := r.indexListOffsets(what, res, exp)
		if !ok {
			return nil, false
		}
		for _, k := range sortedKeys(exp) {
			if d := diffPO(got[k], exp[k]); d != "" {
				sig := "c19/listoffsets-value"
				switch {
				case faulted[k]:
					sig = "c19/listoffsets-fault-not-reported"
				case len(faulted) > 0:
					sig = "c19/listoffsets-isolation"
				}
				r.fail(sig, "%s%v: %s (partition [%d,%d) records %v; requests %+v)", what, k, d, r.firstOf(k), r.endOf(k), r.recsOf(k), o.Reqs)
				return got, false
			}
		}
		return got, true
	}

	res0, err0 := r.client(o, false, o.Bootstrap).ListOffsets(ctx, &kafka.ListOffsetsRequest{Topics: req})
	got0, ok0 := check(what, res0, err0, exp, nil)
	f := o.Fault
	if f.Kind == "" {
		return
	}
	// the same query with a failure concerning one partition (or one leader)
	target := tp{f.Topic, f.Partition}
	tmp := r.m.part(f.Topic, f.Partition)
	if tmp == nil || exp[target] == nil || !r.m.alive(tmp.spec.Leader) {
		r.tb.Fatalf("harness: fault targets %v which is not a served partition of the request", target)
	}
	kind := f.Kind
	if kind == "refuse" && r.m.c.Brokers < 2 {
		kind = "drop"
	}
	exp1 := map[tp]*expPO{}
	for k, e := range exp {
		cp := *e
		exp1[k] = &cp
	}
	faulted := map[tp]bool{}
	bootstrap := o.Bootstrap
	switch kind {
	case "code":
		faulted[target] = true
		exp1[target].err = kafka.Error(f.Code)
	case "drop":
		faulted[target] = true
		exp1[target].anyErr = true
	case "refuse":
		for k := range exp {
			// partitions without a live leader have no designated broker: their sub-request may be sent to any broker,
			// the refused one included (the library picks node 0 for them), so nothing is claimed about them here
			if mp := r.m.part(k.t, k.p); mp != nil && (mp.spec.Leader == tmp.spec.Leader || !r.m.alive(mp.spec.Leader)) {
				faulted[k] = true
				if exp1[k].err == nil {
					exp1[k].anyErr = true
				}
			}
		}
		if bootstrap == tmp.spec.Leader {
			for _, id := range r.m.c.ids() {
				if id != tmp.spec.Leader {
					bootstrap = id
					break
				}
			}
		}
	}
	r.label("partial_failure", "listoffsets_fault_"+kind)
	what1 := fmt.Sprintf("op %d: Client.ListOffsets(%d requests) with fault %s on %v ", i, len(o.Reqs), kind, target)
	var fired int
	if kind == "refuse" {
		r.nw.Refuse(brokerAddr(tmp.spec.Leader), syscall.ECONNREFUSED)
	} else {
		af := &armedFault{api: 2, f: f}
		af.f.Kind = kind
		if f.Req >= 0 && f.Req < len(o.Reqs) && o.Reqs[f.Req].Topic == f.Topic && o.Reqs[f.Req].Partition == f.Partition {
			ts := stampOf(o.Reqs[f.Req])
			af.matchTS = &ts
			r.label("listoffsets_fault_on_one_subrequest")
		}
		r.arm(af)
	}
	// an unreachable leader needs a transport without connections to it
	res1, err1 := r.client(o, kind == "refuse", bootstrap).ListOffsets(ctx, &kafka.ListOffsetsRequest{Topics: req})
	if kind == "refuse" {
		r.nw.Refuse(brokerAddr(tmp.spec.Leader), nil)
	} else {
		fired = r.disarm()
		if fired == 0 {
			r.tb.Fatalf("harness: %sthe fault never fired", what1)
		}
	}
	got1, ok1 := check(what1, res1, err1, exp1, faulted)
	if !ok0 || !ok1 || got0 == nil || got1 == nil {
		return
	}
	// metamorphic: with and without the fault, everything else is the same
	others := 0
	for _, k := range sortedKeys(exp) {
		if faulted[k] {
			continue
		}
		others++
		if !samePO(got0[k], got1[k]) {
			r.fail("c19/listoffsets-isolation", "%s%v is reported as %+v, without the fault as %+v", what1, k, got1[k], got0[k])
			return
		}
	}
	if others > 0 {
		r.label("partial_failure_with_unaffected_partitions")
	}
}

func keysOf(m map[tp]bool) []string {
	var s []string
	for k := range m {
		s = append(s, k.String())
	}
	sort.Strings(s)
	return s
}

func (r *runner) firstOf(k tp) int64 {
	if mp := r.m.part(k.t, k.p); mp != nil {
		return mp.first
	}
	return -1
}

func (r *runner) endOf(k tp) int64 {
	if mp := r.m.part(k.t, k.p); mp != nil {
		return mp.end
	}
	return -1
}

func (r *runner) recsOf(k tp) []mrec {
	if mp := r.m.part(k.t, k.p); mp != nil {
		return mp.recs
	}
	return nil
}

// ---------------------------------------------------------------------------
// OffsetFetch / ConsumerOffsets / OffsetCommit

type expFetch struct {
	off int64
	md  string
	err error
}

func (r *runner) expectFetch(o *op) map[tp]*expFetch {
	exp := map[tp]*expFetch{}
	if o.AllTopics {
		for t, ps := range r.m.commits[o.Group] {
			for p, v := range ps {
				exp[tp{t, p}] = &expFetch{off: v.off, md: v.md}
			}
		}
		return exp
	}
	for _, ft := range o.Fetch {
		for _, p := range ft.Parts {
			e := &expFetch{off: -1}
			if r.m.part(ft.Topic, p) == nil {
				e.err = kafka.UnknownTopicOrPartition
				r.label("offsetfetch_unknown_partition")
			} else if v, ok := r.m.committed(o.Group, ft.Topic, p); ok {
				e.off, e.md = v.off, v.md
				r.label("offsetfetch_committed")
			} else {
				r.label("offsetfetch_no_commit")
			}
			exp[tp{ft.Topic, p}] = e
		}
	}
	return exp
}

func sortedFetchKeys(exp map[tp]*expFetch) []tp {
	var keys []tp
	for k := range exp {
		keys = append(keys, k)
	}
	sort.Slice(keys, func(a, b int) bool { return keys[a].String() < keys[b].String() })
	return keys
}

func (r *runner) checkFetch(what string, res *kafka.OffsetFetchResponse, err error, exp map[tp]*expFetch, faulted *tp) (map[tp]kafka.OffsetFetchPartition, bool) {
	isolation := func(k tp) string {
		switch {
		case faulted != nil && *faulted == k:
			return "c19/offsetfetch-fault-not-reported"
		case faulted != nil:
			return "c19/offsetfetch-isolation"
		}
		return "c19/offsetfetch-value"
	}
	if err != nil {
		r.fail("c19/unexpected-error", "%sfailed: %v", what, err)
		return nil, false
	}
	if res.Error != nil {
		r.fail("c19/offsetfetch-value", "%sreports the group-level Error=%v, the coordinator reported none", what, res.Error)
		return nil, false
	}
	got := map[tp]kafka.OffsetFetchPartition{}
	var names []string
	for t := range res.Topics {
		names = append(names, t)
	}
	sort.Strings(names)
	for _, t := range names {
		for _, p := range res.Topics[t] {
			k := tp{t, p.Partition}
			if _, dup := got[k]; dup || exp[k] == nil {
				r.fail("c19/offsetfetch-list", "%sreports %v twice or unasked", what, k)
				return nil, false
			}
			got[k] = p
		}
	}
	for _, k := range sortedFetchKeys(exp) {
		g, ok := got[k]
		if !ok {
			r.fail("c19/offsetfetch-list", "%sdoes not report %v", what, k)
			return nil, false
		}
		e := exp[k]
		if e.err != nil {
			if !errors.Is(g.Error, e.err) {
				r.fail(isolation(k), "%s%v: Error=%v, the coordinator answered %v", what, k, g.Error, e.err)
				return got, false
			}
			continue
		}
		if g.Error != nil || g.CommittedOffset != e.off || g.Metadata != e.md {
			r.fail(isolation(k), "%s%v: reported (offset %d, metadata %q, Error %v), the group has (offset %d, metadata %q)", what, k, g.CommittedOffset, g.Metadata, g.Error, e.off, e.md)
			return got, false
		}
	}
	return got, true
}

func (r *runner) opOffsetFetch(i int, o *op) {
	what := fmt.Sprintf("op %d: Client.OffsetFetch(group %s, %+v, all=%v) ", i, o.Group, o.Fetch, o.AllTopics)
	ctx, cancel := context.WithTimeout(context.Background(), 10*time.Second)
	defer cancel()
	var topics map[string][]int
	if !o.AllTopics {
		topics = map[string][]int{}
		for _, ft := range o.Fetch {
			topics[ft.Topic] = append(topics[ft.Topic], ft.Parts...)
		}
	} else {
		r.label("offsetfetch_all_topics")
	}
	exp := r.expectFetch(o)
	if len(exp) > 1 {
		r.nontrivial = true
		r.label("offsetfetch_multi_partition")
	}
	if len(topics) > 1 {
		r.label("offsetfetch_multi_topic")
	}
	cli := r.client(o, false, o.Bootstrap)
	res0, err0 := cli.OffsetFetch(ctx, &kafka.OffsetFetchRequest{GroupID: o.Group, Topics: topics})
	got0, ok0 := r.checkFetch(what, res0, err0, exp, nil)
	f := o.Fault
	if f.Kind == "" {
		return
	}
	if f.Kind == "group-code" {
		// a refusal of the whole request (v2+: top-level error code) is reported as the response's Error
		r.label("offsetfetch_group_error")
		r.arm(&armedFault{api: 9, f: f})
		resG, errG := cli.OffsetFetch(ctx, &kafka.OffsetFetchRequest{GroupID: o.Group, Topics: topics})
		if r.disarm() == 0 {
			r.tb.Fatalf("harness: %sthe group-level fault never fired", what)
		}
		switch {
		case errG != nil:
			if !errors.Is(errG, kafka.Error(f.Code)) {
				r.fail("c19/offsetfetch-group-error", "%swith the coordinator answering error code %d for the whole request failed with %v", what, f.Code, errG)
			}
		case resG == nil || !errors.Is(resG.Error, kafka.Error(f.Code)):
			var got error
			if resG != nil {
				got = resG.Error
			}
			r.fail("c19/offsetfetch-group-error", "%swith the coordinator answering error code %d for the whole request (top-level field, OffsetFetch v%d) reports Error=%v", what, f.Code, r.c.Cluster.OffsetFetchMax, got)
		}
		return
	}
	target := tp{f.Topic, f.Partition}
	if exp[target] == nil {
		r.tb.Fatalf("harness: fault targets %v which the fetch does not cover", target)
	}
	r.label("partial_failure", "offsetfetch_fault_code")
	exp1 := map[tp]*expFetch{}
	for k, e := range exp {
		cp := *e
		exp1[k] = &cp
	}
	exp1[target].err = kafka.Error(f.Code)
	r.arm(&armedFault{api: 9, f: f})
	res1, err1 := cli.OffsetFetch(ctx, &kafka.OffsetFetchRequest{GroupID: o.Group, Topics: topics})
	if r.disarm() == 0 {
		r.tb.Fatalf("harness: %sthe fault never fired", what)
	}
	what1 := what + fmt.Sprintf("with error code %d on %v ", f.Code, target)
	got1, ok1 := r.checkFetch(what1, res1, err1, exp1, &target)
	if !ok0 || !ok1 {
		return
	}
	others := 0
	for _, k := range sortedFetchKeys(exp) {
		if k == target {
			continue
		}
		others++
		a, b := got0[k], got1[k]
		if a.CommittedOffset != b.CommittedOffset || a.Metadata != b.Metadata || (a.Error == nil) != (b.Error == nil) {
			r.fail("c19/offsetfetch-isolation", "%s%v is reported as %+v, without the fault as %+v", what1, k, b, a)
			return
		}
	}
	if others > 0 {
		r.label("partial_failure_with_unaffected_partitions")
	}
}

func (r *runner) opConsumerOffsets(i int, o *op) {
	what := fmt.Sprintf("op %d: Client.ConsumerOffsets(group %s, topic %s) ", i, o.Group, o.Topic)
	ctx, cancel := context.WithTimeout(context.Background(), 10*time.Second)
	defer cancel()
	got, err := r.client(o, false, o.Bootstrap).ConsumerOffsets(ctx, kafka.TopicAndGroup{Topic: o.Topic, GroupId: o.Group})
	if err != nil {
		r.fail("c19/unexpected-error", "%sfailed: %v", what, err)
		return
	}
	n := len(r.m.parts[o.Topic])
	if n > 1 {
		r.nontrivial = true
	}
	if len(got) != n {
		r.fail("c19/consumeroffsets", "%sreturned %d partitions %v, the topic has %d", what, len(got), got, n)
		return
	}
	for p := 0; p < n; p++ {
		want := int64(-1)
		if v, ok := r.m.committed(o.Group, o.Topic, p); ok {
			want = v.off
		}
		g, ok := got[p]
		if !ok || g != want {
			r.fail("c19/consumeroffsets", "%sreturned %v; the group's committed offset of partition %d is %d", what, got, p, want)
			return
		}
	}
	r.label("consumeroffsets")
}

func (r *runner) committedInCluster(group, topic string, p int) (commitVal, bool) {
	g := r.cl.Group(group)
	if g == nil {
		return commitVal{}, false
	}
	r.cl.Lock()
	defer r.cl.Unlock()
	c, ok := g.Offsets[topic][int32(p)]
	return commitVal{c.Offset, c.Metadata}, ok
}

var _ = fakecluster.ErrNone

func (r *runner) opOffsetCommit(i int, o *op) {
	ctx, cancel := context.WithTimeout(context.Background(), 10*time.Second)
	defer cancel()
	cli := r.client(o, false, o.Bootstrap)
	if len(o.Commits) > 1 {
		r.nontrivial = true
		r.label("offsetcommit_multi_partition")
	}
	// one round = commit, check the answer, check what the cluster recorded
	round := func(delta int64, faulted *tp) (map[tp]error, bool) {
		what := fmt.Sprintf("op %d: Client.OffsetCommit(group %s, %+v, +%d) ", i, o.Group, o.Commits, delta)
		if faulted != nil {
			what += fmt.Sprintf("with error code %d on %v ", o.Fault.Code, *faulted)
		}
		topics := map[string][]kafka.OffsetCommit{}
		for _, cm := range o.Commits {
			topics[cm.Topic] = append(topics[cm.Topic], kafka.OffsetCommit{Partition: cm.Partition, Offset: cm.Offset + delta, Metadata: cm.Metadata})
		}
		res, err := cli.OffsetCommit(ctx, &kafka.OffsetCommitRequest{GroupID: o.Group, GenerationID: -1, Topics: topics})
		if err != nil {
			r.fail("c19/unexpected-error", "%sfailed: %v", what, err)
			return nil, false
		}
		sigFor := func(k tp) string {
			switch {
			case faulted != nil && *faulted == k:
				return "c19/offsetcommit-fault-not-reported"
			case faulted != nil:
				return "c19/offsetcommit-isolation"
			}
			return "c19/offsetcommit-value"
		}
		got := map[tp]error{}
		seen := map[tp]bool{}
		var names []string
		for t := range res.Topics {
			names = append(names, t)
		}
		sort.Strings(names)
		for _, t := range names {
			for _, p := range res.Topics[t] {
				k := tp{t, p.Partition}
				if seen[k] {
					r.fail("c19/offsetcommit-list", "%sreports %v twice", what, k)
					return nil, false
				}
				seen[k] = true
				got[k] = p.Error
			}
		}
		for _, cm := range o.Commits {
			k := tp{cm.Topic, cm.Partition}
			if !seen[k] {
				r.fail("c19/offsetcommit-list", "%sdoes not report %v", what, k)
				return nil, false
			}
			var wantErr error
			switch {
			case faulted != nil && *faulted == k:
				wantErr = kafka.Error(o.Fault.Code)
			case r.m.part(cm.Topic, cm.Partition) == nil:
				wantErr = kafka.UnknownTopicOrPartition
				r.label("offsetcommit_unknown_partition")
			}
			if (wantErr == nil) != (got[k] == nil) || (wantErr != nil && !errors.Is(got[k], wantErr)) {
				r.fail(sigFor(k), "%s%v: Error=%v, the coordinator answered %v", what, k, got[k], wantErr)
				return nil, false
			}
			if wantErr == nil {
				r.m.setCommitted(o.Group, cm.Topic, cm.Partition, commitVal{cm.Offset + delta, cm.Metadata})
			}
			// the cluster recorded exactly what the model says (rejected partitions keep their earlier value)
			want, wok := r.m.committed(o.Group, cm.Topic, cm.Partition)
			have, hok := r.committedInCluster(o.Group, cm.Topic, cm.Partition)
			if wok != hok || want != have {
				r.fail(sigFor(k), "%s%v: the coordinator recorded (offset %d, metadata %q, present %v), the request asked for (offset %d, metadata %q, present %v)", what, k, have.off, have.md, hok, want.off, want.md, wok)
				return nil, false
			}
		}
		return got, true
	}
	got0, ok0 := round(0, nil)
	f := o.Fault
	if f.Kind == "" || !ok0 {
		return
	}
	target := tp{f.Topic, f.Partition}
	r.label("partial_failure", "offsetcommit_fault_code")
	r.arm(&armedFault{api: 8, f: f})
	got1, ok1 := round(o.Delta, &target)
	if r.disarm() == 0 {
		r.tb.Fatalf("harness: op %d: the offset commit fault never fired", i)
	}
	if !ok1 {
		return
	}
	others := 0
	for _, cm := range o.Commits {
		k := tp{cm.Topic, cm.Partition}
		if k == target {
			continue
		}
		others++
		if (got0[k] == nil) != (got1[k] == nil) {
			r.fail("c19/offsetcommit-isolation", "op %d: OffsetCommit %v is answered with Error=%v, without the fault with %v", i, k, got1[k], got0[k])
			return
		}
	}
	if others > 0 {
		r.label("partial_failure_with_unaffected_partitions")
	}
}
