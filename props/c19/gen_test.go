package c19

import (
	"fmt"
	"sync/atomic"
	"testing"

	kafka "github.com/segmentio/kafka-go"
	"pgregory.net/rapid"

	"verif/internal/ev"
)

const tsBase = int64(1_600_000_000_000)

var topicNames = []string{"t0", "t1", "alpha", "beta.x"}
var groupNames = []string{"g1", "g2"}

func pick[T any](t *rapid.T, label string, xs []T) T {
	return xs[rapid.IntRange(0, len(xs)-1).Draw(t, label)]
}

func chance(t *rapid.T, label string, oneIn int) bool {
	return rapid.IntRange(0, oneIn-1).Draw(t, label) == 0
}

// genPart draws one partition: leader, replica sets, log layout, timestamps.
func genPart(t *rapid.T, brokers int, forceLive, deadBrokers bool) partSpec {
	var p partSpec
	p.Leader = int32(rapid.IntRange(1, brokers).Draw(t, "leader"))
	leaderless := !forceLive && chance(t, "leaderless", 25)
	p.Replicas = []int32{p.Leader}
	for id := int32(1); int(id) <= brokers+2; id++ {
		if id == p.Leader {
			continue
		}
		dead := int(id) > brokers
		if (!dead && chance(t, "replica", 2)) || (dead && deadBrokers && chance(t, "deadReplica", 3)) {
			p.Replicas = append(p.Replicas, id)
			if dead {
				p.Offline = append(p.Offline, id)
			}
		}
	}
	if len(p.Replicas) > 1 && rapid.Bool().Draw(t, "rotate") { // the leader is not always listed first
		p.Replicas = append(p.Replicas[1:], p.Replicas[0])
	}
	for _, id := range p.Replicas {
		if id == p.Leader || (int(id) <= brokers && chance(t, "inSync", 2)) {
			p.ISR = append(p.ISR, id)
		}
	}
	if leaderless {
		p.Leader = -1
		p.ISR = []int32{}
	}
	if p.Offline == nil {
		p.Offline = []int32{}
	}
	// log
	switch rapid.IntRange(0, 7).Draw(t, "baseKind") {
	case 0:
		p.Base = int64(rapid.IntRange(1, 40).Draw(t, "base"))
	case 1:
		p.Base = 1<<33 + int64(rapid.IntRange(0, 1000).Draw(t, "bigBase")) // beyond 32 bits
	}
	n := 0
	if !chance(t, "emptyLog", 7) {
		n = rapid.IntRange(1, 12).Draw(t, "records")
	}
	ts := tsBase + int64(rapid.IntRange(0, 1000).Draw(t, "ts0"))
	for i := 0; i < n; i++ {
		var r recSpec
		if chance(t, "hole", 6) {
			r.Gap = rapid.IntRange(1, 3).Draw(t, "gap")
		}
		switch rapid.IntRange(0, 9).Draw(t, "tsStep") {
		case 0:
			ts -= int64(rapid.IntRange(1, 20).Draw(t, "tsBack")) // timestamps are not monotonic
		case 1, 2:
			// same millisecond as the record before
		default:
			ts += int64(rapid.IntRange(1, 50).Draw(t, "tsFwd"))
		}
		r.TS = ts
		p.Recs = append(p.Recs, r)
	}
	p.BatchLen = rapid.IntRange(1, 5).Draw(t, "batchLen")
	if chance(t, "endExtra", 6) {
		p.EndExtra = int64(rapid.IntRange(1, 3).Draw(t, "extra"))
	}
	recs, end := p.layout()
	switch rapid.IntRange(0, 5).Draw(t, "startKind") {
	case 0:
		if p.Base <= end {
			p.LogStart = p.Base
		}
	case 1:
		if len(recs) > 0 {
			p.LogStart = recs[rapid.IntRange(0, len(recs)-1).Draw(t, "startRec")].off
		}
	case 2:
		if len(recs) > 0 { // inside a hole or just past a record
			if s := recs[rapid.IntRange(0, len(recs)-1).Draw(t, "startRec")].off + 1; s <= end {
				p.LogStart = s
			}
		}
	case 3:
		if chance(t, "startAtEnd", 3) {
			p.LogStart = end
		}
	}
	return p
}

// zeroID rewrites a generated case so that the broker with the highest id is node 0.
func zeroID(c *queryCase) {
	n := int32(c.Cluster.Brokers)
	re := func(id int32) int32 {
		if id == n {
			return 0
		}
		return id
	}
	c.Cluster.ZeroID = true
	c.Cluster.Controller = re(c.Cluster.Controller)
	for ti := range c.Cluster.Topics {
		for pi := range c.Cluster.Topics[ti].Parts {
			p := &c.Cluster.Topics[ti].Parts[pi]
			p.Leader = re(p.Leader)
			for _, l := range [][]int32{p.Replicas, p.ISR, p.Offline} {
				for i := range l {
					l[i] = re(l[i])
				}
			}
		}
	}
	for i := range c.Cluster.Coords {
		c.Cluster.Coords[i].Broker = re(c.Cluster.Coords[i].Broker)
	}
	for i := range c.Ops {
		c.Ops[i].Bootstrap = re(c.Ops[i].Bootstrap)
	}
}

func genCluster(t *rapid.T, minBrokers int, sameIndexes bool) clusterSpec {
	var c clusterSpec
	c.Brokers = rapid.IntRange(minBrokers, 4).Draw(t, "brokers")
	for i := 0; i < c.Brokers; i++ {
		c.Racks = append(c.Racks, pick(t, "rack", []string{"", "", "r1", "r2"}))
	}
	c.Controller = int32(rapid.IntRange(1, c.Brokers).Draw(t, "controller"))
	deadBrokers := chance(t, "deadBrokers", 6) // replica lists name broker ids that are not registered
	nt := rapid.IntRange(1, 3).Draw(t, "topics")
	if sameIndexes && nt < 2 {
		nt = 2
	}
	off := rapid.IntRange(0, len(topicNames)-1).Draw(t, "nameOffset")
	for i := 0; i < nt; i++ {
		ts := topicSpec{Name: topicNames[(off+i)%len(topicNames)]}
		np := rapid.IntRange(1, 4).Draw(t, "partitions")
		if sameIndexes && np < 2 {
			np = 2
		}
		for j := 0; j < np; j++ {
			ts.Parts = append(ts.Parts, genPart(t, c.Brokers, i == 0 && j == 0, deadBrokers))
		}
		c.Topics = append(c.Topics, ts)
	}
	if chance(t, "internalTopic", 8) {
		c.Topics = append(c.Topics, topicSpec{Name: "__consumer_offsets", Internal: true, Parts: []partSpec{genPart(t, c.Brokers, true, deadBrokers)}})
	}
	for _, g := range groupNames {
		c.Coords = append(c.Coords, coordSpec{g, int32(rapid.IntRange(1, c.Brokers).Draw(t, "coordinator"))})
		for ti := range c.Topics {
			for pi := range c.Topics[ti].Parts {
				if !chance(t, "committed", 2) {
					continue
				}
				_, end := c.Topics[ti].Parts[pi].layout()
				cm := commitSpec{Group: g, Topic: c.Topics[ti].Name, Partition: pi, Offset: end - int64(rapid.IntRange(0, 5).Draw(t, "lag"))}
				if cm.Offset < 0 {
					cm.Offset = 0
				}
				if chance(t, "commitMeta", 2) {
					cm.Metadata = fmt.Sprintf("m-%s-%d-%d", g, ti, pi)
				}
				c.Commits = append(c.Commits, cm)
			}
		}
	}
	c.Coords = append(c.Coords, coordSpec{"g-none", int32(rapid.IntRange(1, c.Brokers).Draw(t, "coordinator"))})
	if chance(t, "defaultVersions", 3) {
		c.ListOffsetsMax, c.MetadataMax, c.OffsetFetchMax, c.OffsetCommitMax, c.FindCoordMax = 5, 8, 5, 7, 2
	} else {
		c.ListOffsetsMax = int16(rapid.IntRange(1, 5).Draw(t, "listOffsetsMax"))
		c.MetadataMax = int16(rapid.IntRange(1, 8).Draw(t, "metadataMax")) // v0 cannot ask for "all topics" with a null array: C12's business
		c.OffsetFetchMax = int16(rapid.IntRange(0, 5).Draw(t, "offsetFetchMax"))
		c.OffsetCommitMax = int16(rapid.IntRange(0, 7).Draw(t, "offsetCommitMax"))
		c.FindCoordMax = int16(rapid.IntRange(0, 2).Draw(t, "findCoordMax"))
	}
	return c
}

// livePartitions lists the partitions that have a live leader.
func livePartitions(c *clusterSpec, internal bool) []tp {
	var out []tp
	for ti := range c.Topics {
		if c.Topics[ti].Internal && !internal {
			continue
		}
		for pi := range c.Topics[ti].Parts {
			if l := c.Topics[ti].Parts[pi].Leader; l >= 1 {
				out = append(out, tp{c.Topics[ti].Name, pi})
			}
		}
	}
	return out
}

func specOf(c *clusterSpec, k tp) *partSpec {
	for ti := range c.Topics {
		if c.Topics[ti].Name == k.t && k.p >= 0 && k.p < len(c.Topics[ti].Parts) {
			return &c.Topics[ti].Parts[k.p]
		}
	}
	return nil
}

// genTime draws a query time around the partition's record timestamps.
func genTime(t *rapid.T, p *partSpec) int64 {
	if len(p.Recs) == 0 || chance(t, "timeFree", 8) {
		return pick(t, "timeFixed", []int64{0, 1, tsBase - 5, tsBase + 500, tsBase + 5000})
	}
	ts := p.Recs[rapid.IntRange(0, len(p.Recs)-1).Draw(t, "timeRec")].TS
	return ts + int64(rapid.IntRange(-1, 1).Draw(t, "timeDelta"))
}

var listOffsetsCodes = []int16{3, 5, 6, 7, 9, 29, 43, -1}

func genConnOp(t *rapid.T, c *clusterSpec, seekHeavy, withFault bool) op {
	live := livePartitions(c, true)
	k := pick(t, "connPartition", live)
	p := specOf(c, k)
	recs, end := p.layout()
	_ = recs
	first := p.LogStart
	span := int(end - first)
	if span > 20 {
		span = 20
	}
	o := op{Kind: "conn", Bootstrap: int32(rapid.IntRange(1, c.Brokers).Draw(t, "bootstrap")), Topic: k.t, Partition: k.p}
	n := rapid.IntRange(3, 10).Draw(t, "steps")
	for i := 0; i < n; i++ {
		kind := rapid.IntRange(0, 19).Draw(t, "stepKind")
		if seekHeavy && i%2 == 0 {
			kind = 10
		}
		var st connStep
		if i == 0 && !seekHeavy && span >= 0 && rapid.Bool().Draw(t, "startNumeric") {
			// leave the symbolic start position first, so that relative seeks have a numeric base
			o.Steps = append(o.Steps, connStep{Kind: "seek", Whence: kafka.SeekAbsolute, Off: first + int64(rapid.IntRange(0, span).Draw(t, "seekIn"))})
			continue
		}
		switch {
		case kind < 2:
			st.Kind = "first"
		case kind < 4:
			st.Kind = "last"
		case kind < 6:
			st.Kind = "offsets"
		case kind < 9:
			st.Kind, st.T = "time", genTime(t, p)
		case kind < 19:
			st.Kind = "seek"
			w := rapid.IntRange(0, 5).Draw(t, "whence")
			if seekHeavy && i == 0 {
				w = kafka.SeekEnd
			}
			rel := int64(rapid.IntRange(-2, span+2).Draw(t, "seekRel"))
			switch w {
			case kafka.SeekStart, kafka.SeekEnd:
				st.Whence, st.Off = w, rel
			case kafka.SeekAbsolute:
				st.Whence, st.Off = w, first+rel
			case kafka.SeekCurrent:
				st.Whence, st.Off = w, int64(rapid.IntRange(-4, 4).Draw(t, "seekDelta"))
			case 4:
				st.Whence, st.Off = kafka.SeekAbsolute|kafka.SeekDontCheck, first+int64(rapid.IntRange(-3, span+5).Draw(t, "seekFree"))
			default:
				st.Whence, st.Off = kafka.SeekCurrent|kafka.SeekDontCheck, int64(rapid.IntRange(-4, 4).Draw(t, "seekDelta"))
			}
		default:
			st.Kind = "partitions"
			st.Topics = genTopicList(t, c)
		}
		o.Steps = append(o.Steps, st)
	}
	if withFault {
		o.Fault = fault{Kind: "code", Code: pick(t, "faultCode", listOffsetsCodes), Req: rapid.IntRange(0, 4).Draw(t, "faultReq")}
		if chance(t, "faultDrop", 5) {
			o.Fault.Kind = "drop"
		}
	}
	return o
}

func genTopicList(t *rapid.T, c *clusterSpec) []string {
	var out []string
	if chance(t, "noTopics", 3) {
		return nil
	}
	for _, ts := range c.Topics {
		if rapid.Bool().Draw(t, "listTopic") {
			out = append(out, ts.Name)
		}
	}
	if chance(t, "unknownTopic", 6) {
		out = append(out, "no-such-topic")
	}
	if len(out) == 0 {
		out = append(out, c.Topics[0].Name)
	}
	return out
}

func genDialOp(t *rapid.T, c *clusterSpec) op {
	o := op{Kind: "dial", Bootstrap: int32(rapid.IntRange(1, c.Brokers).Draw(t, "bootstrap"))}
	n := rapid.IntRange(1, 3).Draw(t, "steps")
	for i := 0; i < n; i++ {
		o.Steps = append(o.Steps, connStep{Kind: "partitions", Topics: genTopicList(t, c)})
	}
	return o
}

func genListOffsets(t *rapid.T, c *clusterSpec, everything, withFault bool) op {
	o := op{Kind: "listoffsets", Bootstrap: int32(rapid.IntRange(1, c.Brokers).Draw(t, "bootstrap")), Fresh: chance(t, "fresh", 4)}
	o.Fault.Req = -1
	add := func(k tp, kind string) {
		q := offReq{Topic: k.t, Partition: k.p, Kind: kind}
		if kind == "time" {
			if p := specOf(c, k); p != nil {
				q.T = genTime(t, p)
			} else {
				q.T = tsBase
			}
		}
		o.Reqs = append(o.Reqs, q)
	}
	kinds := []string{"first", "last", "time"}
	var all []tp
	for ti := range c.Topics {
		if c.Topics[ti].Internal {
			continue // not part of the transport's routing table
		}
		for pi := range c.Topics[ti].Parts {
			all = append(all, tp{c.Topics[ti].Name, pi})
		}
	}
	if everything {
		// every partition of every topic, each with its own mix of questions
		for _, k := range all {
			mask := rapid.IntRange(1, 7).Draw(t, "kindMask")
			for b, kind := range kinds {
				if mask&(1<<b) != 0 {
					add(k, kind)
				}
			}
			if chance(t, "secondTime", 3) {
				add(k, "time")
			}
		}
	} else {
		n := rapid.IntRange(1, 8).Draw(t, "requests")
		for i := 0; i < n; i++ {
			add(pick(t, "reqPartition", all), pick(t, "reqKind", kinds))
		}
		if chance(t, "unknownPartition", 8) {
			if rapid.Bool().Draw(t, "unknownTopic") {
				add(tp{"no-such-topic", 0}, pick(t, "reqKind", kinds))
			} else {
				ts := c.Topics[0]
				add(tp{ts.Name, len(ts.Parts) + rapid.IntRange(0, 2).Draw(t, "beyond")}, pick(t, "reqKind", kinds))
			}
		}
	}
	if withFault {
		var cands []int
		for i, q := range o.Reqs {
			if p := specOf(c, tp{q.Topic, q.Partition}); p != nil && p.Leader >= 1 {
				cands = append(cands, i)
			}
		}
		if len(cands) > 0 {
			i := pick(t, "faultTarget", cands)
			o.Fault = fault{Kind: pick(t, "faultKind", []string{"code", "code", "drop", "refuse"}), Code: pick(t, "faultCode", listOffsetsCodes),
				Topic: o.Reqs[i].Topic, Partition: o.Reqs[i].Partition, Req: -1}
			if o.Fault.Kind != "refuse" && rapid.Bool().Draw(t, "faultOneSubrequest") {
				o.Fault.Req = i
			}
		}
	}
	return o
}

func genGroupTargets(t *rapid.T, c *clusterSpec, allowUnknown bool) []tp {
	var out []tp
	for ti := range c.Topics {
		if !rapid.Bool().Draw(t, "useTopic") && ti > 0 {
			continue
		}
		for pi := range c.Topics[ti].Parts {
			if rapid.IntRange(0, 3).Draw(t, "usePartition") > 0 {
				out = append(out, tp{c.Topics[ti].Name, pi})
			}
		}
	}
	if len(out) == 0 {
		out = append(out, tp{c.Topics[0].Name, 0})
	}
	if allowUnknown && chance(t, "unknownPartition", 7) {
		ts := c.Topics[len(c.Topics)-1]
		out = append(out, tp{ts.Name, len(ts.Parts) + 1})
	}
	// a permutation, so that the order on the wire is not the partition order
	for i := len(out) - 1; i > 0; i-- {
		j := rapid.IntRange(0, i).Draw(t, "shuffle")
		out[i], out[j] = out[j], out[i]
	}
	return out
}

var groupCodes = []int16{3, 29, -1, 12, 28}

func genGroupOp(t *rapid.T, c *clusterSpec, kind string, withFault bool) op {
	o := op{Kind: kind, Bootstrap: int32(rapid.IntRange(1, c.Brokers).Draw(t, "bootstrap")), Fresh: chance(t, "fresh", 5)}
	o.Fault.Req = -1
	o.Group = pick(t, "group", []string{"g1", "g1", "g2", "g2", "g-none"})
	switch kind {
	case "offsetfetch":
		if c.OffsetFetchMax >= 2 && chance(t, "allTopics", 5) {
			o.AllTopics = true
			return o
		}
		ks := genGroupTargets(t, c, true)
		for _, k := range ks {
			found := false
			for i := range o.Fetch {
				if o.Fetch[i].Topic == k.t {
					o.Fetch[i].Parts = append(o.Fetch[i].Parts, k.p)
					found = true
				}
			}
			if !found {
				o.Fetch = append(o.Fetch, fetchTopic{k.t, []int{k.p}})
			}
		}
		if withFault {
			k := pick(t, "faultTarget", ks)
			o.Fault = fault{Kind: "code", Code: pick(t, "faultCode", groupCodes[:3]), Topic: k.t, Partition: k.p, Req: -1}
			if c.OffsetFetchMax >= 2 && chance(t, "groupLevel", 3) {
				o.Fault = fault{Kind: "group-code", Code: pick(t, "groupCode", []int16{16, 15, 14, 30}), Req: -1}
			}
		}
	case "offsetcommit":
		if o.Group == "g-none" {
			o.Group = "g1"
		}
		ks := genGroupTargets(t, c, true)
		var known []tp
		for _, k := range ks {
			cm := commitSpec{Topic: k.t, Partition: k.p, Offset: int64(rapid.IntRange(0, 500).Draw(t, "commitOffset"))}
			if chance(t, "bigOffset", 6) {
				cm.Offset += 1 << 33
			}
			if rapid.Bool().Draw(t, "commitMeta") {
				cm.Metadata = fmt.Sprintf("c-%d-%d", k.p, rapid.IntRange(0, 99).Draw(t, "metaTag"))
			}
			o.Commits = append(o.Commits, cm)
			if specOf(c, k) != nil {
				known = append(known, k)
			}
		}
		if withFault && len(known) > 0 {
			k := pick(t, "faultTarget", known)
			o.Fault = fault{Kind: "code", Code: pick(t, "faultCode", groupCodes), Topic: k.t, Partition: k.p, Req: -1}
			o.Delta = int64(rapid.IntRange(1, 1000).Draw(t, "delta"))
		}
	case "consumeroffsets":
		o.Topic = pick(t, "topic", c.Topics).Name
	}
	return o
}

func genMetadataOp(t *rapid.T, c *clusterSpec) op {
	o := op{Kind: "metadata", Bootstrap: int32(rapid.IntRange(1, c.Brokers).Draw(t, "bootstrap")), Fresh: chance(t, "fresh", 4)}
	o.Fault.Req = -1
	o.Topics = genTopicList(t, c)
	if o.Topics == nil {
		o.AllTopics = true
	}
	return o
}

var caseIndex atomic.Int64

func record(t *rapid.T, c queryCase) {
	labels, nontrivial := run(t, c)
	ev.Case(caseJSON(c), nontrivial, labels...)
	var kinds []string
	for _, o := range c.Ops {
		k := o.Kind
		if o.Fault.Kind != "" {
			k += "+" + o.Fault.Kind
		}
		kinds = append(kinds, k)
	}
	ev.Sample(map[string]any{"brokers": c.Cluster.Brokers, "topics": len(c.Cluster.Topics), "ops": kinds, "first_op": c.Ops[0]})
}

// TestConn: the low-level Conn (ReadFirstOffset, ReadLastOffset, ReadOffset,
// ReadOffsets, Seek with every whence, Offset, ReadPartitions).
func TestConn(t *testing.T) {
	rapid.Check(t, func(t *rapid.T) {
		caseIndex.Add(1)
		idx := rapid.IntRange(0, 3).Draw(t, "stratum") // a draw, not a counter: rapid must be able to replay the case
		c := queryCase{Cluster: genCluster(t, 1, false)}
		n := rapid.IntRange(1, 3).Draw(t, "ops")
		for i := 0; i < n; i++ {
			switch {
			case i == 0 && idx%4 == 0:
				c.Ops = append(c.Ops, genConnOp(t, &c.Cluster, true, false))
			case i == 0 && idx%4 == 1:
				c.Ops = append(c.Ops, genConnOp(t, &c.Cluster, false, true))
			case chance(t, "dialOp", 5):
				c.Ops = append(c.Ops, genDialOp(t, &c.Cluster))
			default:
				c.Ops = append(c.Ops, genConnOp(t, &c.Cluster, false, chance(t, "withFault", 4)))
			}
		}
		if chance(t, "zeroID", 3) {
			zeroID(&c)
		}
		record(t, c)
	})
}

// TestClient: kafka.Client over kafka.Transport (ListOffsets split per partition
// and merged, OffsetFetch, OffsetCommit, ConsumerOffsets, Metadata).
func TestClient(t *testing.T) {
	rapid.Check(t, func(t *rapid.T) {
		caseIndex.Add(1)
		stratum := rapid.IntRange(0, 2).Draw(t, "stratum")
		minBrokers := 1
		if stratum == 0 {
			minBrokers = 2
		}
		c := queryCase{Cluster: genCluster(t, minBrokers, stratum == 0)}
		n := rapid.IntRange(2, 6).Draw(t, "ops")
		for i := 0; i < n; i++ {
			switch {
			case i == 0 && stratum == 0:
				c.Ops = append(c.Ops, genListOffsets(t, &c.Cluster, true, true))
			case i == 0 && stratum == 1:
				c.Ops = append(c.Ops, genGroupOp(t, &c.Cluster, pick(t, "groupOp", []string{"offsetfetch", "offsetcommit"}), true))
			default:
				switch rapid.IntRange(0, 9).Draw(t, "opKind") {
				case 0, 1, 2:
					c.Ops = append(c.Ops, genListOffsets(t, &c.Cluster, chance(t, "everything", 4), chance(t, "withFault", 3)))
				case 3, 4:
					c.Ops = append(c.Ops, genGroupOp(t, &c.Cluster, "offsetfetch", chance(t, "withFault", 3)))
				case 5, 6:
					c.Ops = append(c.Ops, genGroupOp(t, &c.Cluster, "offsetcommit", chance(t, "withFault", 3)))
				case 7:
					c.Ops = append(c.Ops, genGroupOp(t, &c.Cluster, "consumeroffsets", false))
				default:
					c.Ops = append(c.Ops, genMetadataOp(t, &c.Cluster))
				}
			}
		}
		if chance(t, "zeroID", 3) {
			zeroID(&c)
		}
		record(t, c)
	})
}
