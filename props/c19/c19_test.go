// Package c19 decides property C19: offset and metadata queries report
// exactly the brokers' state, and a failure concerning one partition is
// reported on that partition without altering what is reported for the others.
package c19

import (
	"encoding/json"
	"fmt"
	"sort"
	"testing"

	"verif/fakecluster"
	"verif/internal/ev"
	"verif/memnet"
	"verif/refcodec"
)

func TestMain(m *testing.M) { ev.Main(m, "C19") }

func TestReplay(t *testing.T) { ev.RunReplay(t) }

func init() { ev.Register("queries", func(tb ev.TB, c queryCase) { run(tb, c) }) }

// ---------------------------------------------------------------------------
// case

type recSpec struct {
	Gap int   `json:"gap,omitempty"` // offsets skipped before this record (compaction hole)
	TS  int64 `json:"ts"`            // record timestamp, ms
}

type partSpec struct {
	Leader   int32     `json:"leader"` // -1 = no leader
	Replicas []int32   `json:"replicas"`
	ISR      []int32   `json:"isr"`
	Offline  []int32   `json:"offline,omitempty"`
	Base     int64     `json:"base"` // offset before the first record's gap
	Recs     []recSpec `json:"recs"`
	BatchLen int       `json:"batch_len"`
	LogStart int64     `json:"log_start"`
	EndExtra int64     `json:"end_extra,omitempty"` // end offset lies this far past the last record
}

type topicSpec struct {
	Name     string     `json:"name"`
	Internal bool       `json:"internal,omitempty"`
	Parts    []partSpec `json:"parts"`
}

type commitSpec struct {
	Group     string `json:"group,omitempty"`
	Topic     string `json:"topic"`
	Partition int    `json:"partition"`
	Offset    int64  `json:"offset"`
	Metadata  string `json:"metadata,omitempty"`
}

type coordSpec struct {
	Group  string `json:"group"`
	Broker int32  `json:"broker"`
}

type clusterSpec struct {
	Brokers         int          `json:"brokers"`
	Racks           []string     `json:"racks,omitempty"`
	Controller      int32        `json:"controller"`
	Topics          []topicSpec  `json:"topics"`
	Commits         []commitSpec `json:"commits,omitempty"`
	Coords          []coordSpec  `json:"coords,omitempty"`
	ListOffsetsMax  int16        `json:"listoffsets_max"`
	MetadataMax     int16        `json:"metadata_max"`
	OffsetFetchMax  int16        `json:"offsetfetch_max"`
	OffsetCommitMax int16        `json:"offsetcommit_max"`
	FindCoordMax    int16        `json:"findcoordinator_max"`
	// ZeroID: the broker with the highest id is registered as node 0 instead (node ids start at 0 in most real clusters);
	// every id in the case is already written that way.
	ZeroID bool `json:"zero_id,omitempty"`
}

// ids lists the registered broker ids in ascending order.
func (c *clusterSpec) ids() []int32 {
	var out []int32
	if c.ZeroID {
		out = append(out, 0)
	}
	for i := 1; i <= c.Brokers; i++ {
		if c.ZeroID && i == c.Brokers {
			continue
		}
		out = append(out, int32(i))
	}
	return out
}

// rackIndex is the index into Racks of a registered broker id.
func (c *clusterSpec) rackIndex(id int32) int {
	if c.ZeroID && id == 0 {
		return c.Brokers - 1
	}
	return int(id) - 1
}

type connStep struct {
	Kind   string   `json:"kind"` // first last offsets time seek partitions
	T      int64    `json:"t,omitempty"`
	Off    int64    `json:"off,omitempty"`
	Whence int      `json:"whence,omitempty"`
	Topics []string `json:"topics,omitempty"`
}

type offReq struct {
	Topic     string `json:"topic"`
	Partition int    `json:"partition"`
	Kind      string `json:"kind"` // first last time
	T         int64  `json:"t,omitempty"`
}

type fetchTopic struct {
	Topic string `json:"topic"`
	Parts []int  `json:"parts"`
}

type fault struct {
	Kind      string `json:"kind,omitempty"` // "" | code | drop | refuse
	Code      int16  `json:"code,omitempty"`
	Topic     string `json:"topic,omitempty"`
	Partition int    `json:"partition,omitempty"`
	// conn ops: index of the ListOffsets request on that connection which is hit;
	// listoffsets ops: index into Reqs of the only sub-request hit (-1 = every sub-request of the partition)
	Req int `json:"req"`
}

type op struct {
	Kind      string       `json:"kind"` // conn dial listoffsets offsetfetch offsetcommit consumeroffsets metadata
	Bootstrap int32        `json:"bootstrap"`
	Topic     string       `json:"topic,omitempty"`
	Partition int          `json:"partition,omitempty"`
	Steps     []connStep   `json:"steps,omitempty"`
	Reqs      []offReq     `json:"reqs,omitempty"`
	Group     string       `json:"group,omitempty"`
	Fetch     []fetchTopic `json:"fetch,omitempty"`
	AllTopics bool         `json:"all_topics,omitempty"`
	Commits   []commitSpec `json:"commits,omitempty"`
	Delta     int64        `json:"delta,omitempty"` // offsetcommit with fault: the faulted run commits offset+Delta
	Topics    []string     `json:"topics,omitempty"`
	Fresh     bool         `json:"fresh,omitempty"` // use a transport of its own
	Fault     fault        `json:"fault"`
}

type queryCase struct {
	Cluster clusterSpec `json:"cluster"`
	Ops     []op        `json:"ops"`
}

// ---------------------------------------------------------------------------
// model

type mrec struct{ off, ts int64 }

type mpart struct {
	spec       *partSpec
	first, end int64
	recs       []mrec
}

// layout of a partition spec: record offsets and the end offset.
func (p *partSpec) layout() (recs []mrec, end int64) {
	off := p.Base
	for _, r := range p.Recs {
		off += int64(r.Gap)
		recs = append(recs, mrec{off, r.TS})
		off++
	}
	return recs, off + p.EndExtra
}

// offsetFor is the statement's rule for timestamp queries: the first stored
// record (offset >= log start) whose timestamp is >= ts, or -1.
func (p *mpart) offsetFor(ts int64) int64 {
	for _, r := range p.recs {
		if r.off >= p.first && r.ts >= ts {
			return r.off
		}
	}
	return -1
}

type commitVal struct {
	off int64
	md  string
}

type model struct {
	c       *clusterSpec
	parts   map[string][]*mpart
	topics  []string // sorted
	commits map[string]map[string]map[int]commitVal
}

func (m *model) part(topic string, p int) *mpart {
	ps := m.parts[topic]
	if p < 0 || p >= len(ps) {
		return nil
	}
	return ps[p]
}

func (m *model) topicSpec(name string) *topicSpec {
	for i := range m.c.Topics {
		if m.c.Topics[i].Name == name {
			return &m.c.Topics[i]
		}
	}
	return nil
}

func (m *model) alive(id int32) bool {
	for _, x := range m.c.ids() {
		if x == id {
			return true
		}
	}
	return false
}

func (m *model) rack(id int32) string {
	if !m.alive(id) {
		return ""
	}
	if i := m.c.rackIndex(id); i >= 0 && i < len(m.c.Racks) {
		return m.c.Racks[i]
	}
	return ""
}

func (m *model) committed(group, topic string, p int) (commitVal, bool) {
	v, ok := m.commits[group][topic][p]
	return v, ok
}

func (m *model) setCommitted(group, topic string, p int, v commitVal) {
	if m.commits[group] == nil {
		m.commits[group] = map[string]map[int]commitVal{}
	}
	if m.commits[group][topic] == nil {
		m.commits[group][topic] = map[int]commitVal{}
	}
	m.commits[group][topic][p] = v
}

func brokerAddr(id int32) string { return fmt.Sprintf("b%d.fake:9092", id) }

// buildCluster materialises the spec on a fake cluster and returns the model.
func buildCluster(tb ev.TB, nw *memnet.Network, c *clusterSpec) (*fakecluster.Cluster, *model) {
	cl := fakecluster.New(nw, 0)
	m := &model{c: c, parts: map[string][]*mpart{}, commits: map[string]map[string]map[int]commitVal{}}
	for _, id := range c.ids() {
		rack := ""
		if ri := c.rackIndex(id); ri < len(c.Racks) {
			rack = c.Racks[ri]
		}
		cl.AddBroker(id, rack)
	}
	cl.SetController(c.Controller)
	for ti := range c.Topics {
		t := &c.Topics[ti]
		ft := cl.CreateTopic(t.Name, len(t.Parts))
		if t.Internal {
			cl.Lock()
			ft.Internal = true
			cl.Unlock()
		}
		m.topics = append(m.topics, t.Name)
		for pi := range t.Parts {
			ps := &t.Parts[pi]
			recs, end := ps.layout()
			if ps.LogStart > end {
				tb.Fatalf("harness: case has log start %d beyond the end %d of %s/%d", ps.LogStart, end, t.Name, pi)
			}
			fp := cl.Partition(t.Name, int32(pi))
			cl.Lock()
			fp.Leader = ps.Leader
			fp.Replicas = append([]int32{}, ps.Replicas...)
			fp.ISR = append([]int32{}, ps.ISR...)
			fp.Offline = append([]int32{}, ps.Offline...)
			cl.Unlock()
			bl := ps.BatchLen
			if bl < 1 {
				bl = 1
			}
			var batches []refcodec.Batch
			for i := 0; i < len(recs); i += bl {
				j := i + bl
				if j > len(recs) {
					j = len(recs)
				}
				var rr []refcodec.Record
				for _, r := range recs[i:j] {
					rr = append(rr, refcodec.Record{Offset: r.off, Timestamp: r.ts, Value: []byte("v")})
				}
				batches = append(batches, refcodec.MakeBatchV2(rr, 0))
			}
			if len(batches) > 0 {
				cl.AppendBatches(t.Name, int32(pi), batches...)
			}
			cl.SetLogRange(t.Name, int32(pi), ps.LogStart, end)
			mp := &mpart{spec: ps, first: ps.LogStart, end: end, recs: recs}
			m.parts[t.Name] = append(m.parts[t.Name], mp)
			// the fake's state must be the model's state, or the oracle is meaningless
			cl.Lock()
			fs, fe := fp.LogStart, fp.End
			cl.Unlock()
			if fs != mp.first || fe != mp.end {
				tb.Fatalf("harness: fake cluster has %s/%d at [%d,%d), model says [%d,%d)", t.Name, pi, fs, fe, mp.first, mp.end)
			}
		}
	}
	sort.Strings(m.topics)
	cl.SetVersions(0, 2, 1, c.ListOffsetsMax)
	cl.SetVersions(0, 3, 0, c.MetadataMax)
	cl.SetVersions(0, 9, 0, c.OffsetFetchMax)
	cl.SetVersions(0, 8, 0, c.OffsetCommitMax)
	cl.SetVersions(0, 10, 0, c.FindCoordMax)
	for _, co := range c.Coords {
		cl.SetCoordinator(co.Group, co.Broker)
	}
	for _, cm := range c.Commits {
		cl.SetCommitted(cm.Group, cm.Topic, int32(cm.Partition), cm.Offset)
		g := cl.Group(cm.Group)
		cl.Lock()
		g.Offsets[cm.Topic][int32(cm.Partition)] = fakecluster.Committed{Offset: cm.Offset, Metadata: cm.Metadata}
		cl.Unlock()
		m.setCommitted(cm.Group, cm.Topic, cm.Partition, commitVal{cm.Offset, cm.Metadata})
	}
	return cl, m
}

func caseJSON(c queryCase) string {
	b, _ := json.Marshal(c)
	return string(b)
}
