package c19

// Metamorphic relation over API versions: the same metadata query on the same
// cluster state gives the same answer whichever Metadata version the Conn
// negotiates (the statement quantifies over every API version).  The two code
// paths of Conn.ReadPartitions (v1 and v6) are run side by side.

import (
	"context"
	"errors"
	"fmt"
	"sort"
	"strings"
	"testing"
	"time"

	kafka "github.com/segmentio/kafka-go"
	"pgregory.net/rapid"

	"verif/fakecluster"
	"verif/internal/ev"
	"verif/memnet"
)

type versionsCase struct {
	Topics   []int    `json:"topics"`    // partitions per topic t0, t1, ...
	Bound    int      `json:"bound"`     // -1 = Conn without topic, else index of the topic the Conn is dialled for
	Ask      []string `json:"ask"`       // topics passed to ReadPartitions (may name topics that do not exist)
	LowMax   int      `json:"low_max"`   // Metadata max version of the "old" broker (1..5 -> Conn uses v1)
	HighMax  int      `json:"high_max"`  // of the "new" broker (6..9 -> Conn uses v6)
	Leaders  []int    `json:"leaders"`   // leader per (topic, partition) flattened, 1..2
	NoLeader int      `json:"no_leader"` // index in the flattened list without leader (-1 none)
}

func init() {
	ev.Register("versions", func(tb ev.TB, c versionsCase) { runVersions(tb, c) })
}

type rpOutcome struct {
	err   error
	parts []string
	ver   int16
}

func readPartitionsAt(tb ev.TB, c versionsCase, max int) rpOutcome {
	nw := memnet.New()
	cl := fakecluster.New(nw, 2)
	defer cl.Close()
	k := 0
	for i, n := range c.Topics {
		name := fmt.Sprintf("t%d", i)
		cl.CreateTopic(name, n)
		for p := 0; p < n; p++ {
			leader := int32(1)
			if k < len(c.Leaders) {
				leader = int32(c.Leaders[k])
			}
			cl.MoveLeader(name, int32(p), leader)
			if k == c.NoLeader {
				cl.Lock()
				cl.PartitionUnlocked(name, int32(p)).Leader = -1
				cl.Unlock()
			}
			k++
		}
	}
	cl.SetVersions(0, 3, 0, int16(max))
	d := &kafka.Dialer{Timeout: 3 * time.Second, ClientID: "c19-versions", DialFunc: nw.Dial}
	ctx, cancel := context.WithTimeout(context.Background(), 5*time.Second)
	defer cancel()
	var conn *kafka.Conn
	var err error
	if c.Bound >= 0 {
		// a Conn bound to a topic (as DialLeader returns it), without requiring that partition to have a leader
		conn, err = d.DialPartition(ctx, "tcp", "b1.fake:9092", kafka.Partition{Topic: fmt.Sprintf("t%d", c.Bound), ID: 0, Leader: kafka.Broker{Host: "b1.fake", Port: 9092, ID: 1}})
	} else {
		conn, err = d.DialContext(ctx, "tcp", "b1.fake:9092")
	}
	if err != nil {
		tb.Fatalf("harness: dial: %v", err)
	}
	defer conn.Close()
	conn.SetDeadline(time.Now().Add(3 * time.Second))
	ps, err := conn.ReadPartitions(c.Ask...)
	out := rpOutcome{err: err, ver: -1}
	for _, p := range ps {
		var reps, isr []string
		for _, b := range p.Replicas {
			reps = append(reps, fmt.Sprint(b.ID))
		}
		for _, b := range p.Isr {
			isr = append(isr, fmt.Sprint(b.ID))
		}
		out.parts = append(out.parts, fmt.Sprintf("%s/%d leader=%d replicas=%s isr=%s", p.Topic, p.ID, p.Leader.ID, strings.Join(reps, ","), strings.Join(isr, ",")))
	}
	sort.Strings(out.parts)
	for _, ex := range cl.Journal() {
		if ex.ApiKey == 3 {
			out.ver = ex.Version
		}
	}
	return out
}

func errClass(err error) string {
	var ke kafka.Error
	switch {
	case err == nil:
		return "ok"
	case errors.As(err, &ke):
		return fmt.Sprintf("kafka error %d", int(ke))
	}
	return "other: " + err.Error()
}

func runVersions(tb ev.TB, c versionsCase) (labels []string) {
	lo := readPartitionsAt(tb, c, c.LowMax)
	hi := readPartitionsAt(tb, c, c.HighMax)
	if lo.ver == hi.ver {
		ev.Inconclusive("versions_same_metadata_version")
		return nil
	}
	what := fmt.Sprintf("ReadPartitions(%v) on a Conn %s", c.Ask, map[bool]string{true: "without topic", false: fmt.Sprintf("bound to t%d", c.Bound)}[c.Bound < 0])
	if errClass(lo.err) != errClass(hi.err) {
		ev.Fail(tb, "versions", "c19/readpartitions-version-dependent/error", c, "%s: with Metadata v%d the call returns %v, with v%d it returns %v (same cluster state)", what, lo.ver, lo.err, hi.ver, hi.err)
		return nil
	}
	if lo.err == nil && strings.Join(lo.parts, ";") != strings.Join(hi.parts, ";") {
		ev.Fail(tb, "versions", "c19/readpartitions-version-dependent/partitions", c, "%s: Metadata v%d gives\n  %s\nMetadata v%d gives\n  %s", what, lo.ver, strings.Join(lo.parts, "\n  "), hi.ver, strings.Join(hi.parts, "\n  "))
		return nil
	}
	labels = []string{"versions_" + errClass(lo.err)}
	if c.Bound >= 0 {
		labels = append(labels, "versions_bound_conn")
	}
	unknown := false
	for _, a := range c.Ask {
		var i int
		if _, err := fmt.Sscanf(a, "t%d", &i); err != nil || i >= len(c.Topics) {
			unknown = true
		}
	}
	if unknown {
		labels = append(labels, "versions_asks_unknown_topic")
	}
	if len(c.Ask) > 1 {
		labels = append(labels, "versions_multi_topic")
	}
	return labels
}

func TestReadPartitionsVersions(t *testing.T) {
	rapid.Check(t, func(t *rapid.T) {
		c := versionsCase{LowMax: rapid.IntRange(1, 5).Draw(t, "lowMax"), HighMax: rapid.IntRange(6, 9).Draw(t, "highMax"), NoLeader: -1}
		nt := rapid.IntRange(1, 3).Draw(t, "topics")
		total := 0
		for i := 0; i < nt; i++ {
			n := rapid.IntRange(1, 4).Draw(t, "parts")
			c.Topics = append(c.Topics, n)
			total += n
		}
		for i := 0; i < total; i++ {
			c.Leaders = append(c.Leaders, rapid.IntRange(1, 2).Draw(t, "leader"))
		}
		if rapid.IntRange(0, 4).Draw(t, "leaderless") == 0 {
			c.NoLeader = rapid.IntRange(0, total-1).Draw(t, "noLeader")
		}
		c.Bound = rapid.IntRange(-1, nt-1).Draw(t, "bound")
		names := []string{"missing"}
		for i := 0; i < nt; i++ {
			names = append(names, fmt.Sprintf("t%d", i))
		}
		for i, n := 0, rapid.IntRange(0, 3).Draw(t, "asked"); i < n; i++ {
			c.Ask = append(c.Ask, rapid.SampledFrom(names).Draw(t, "ask"))
		}
		labels := runVersions(t, c)
		ev.Case(fmt.Sprintf("versions %+v", c), len(c.Ask) > 0 || c.Bound >= 0, labels...)
		ev.Sample(c)
	})
}
