// Package c16 decides property C16: compression codecs are lossless,
// interoperable with the reference implementation of their format and
// independent of what a pooled reader or writer processed before.
//
// One case = (codec value, history of earlier uses of the pooled objects,
// 1..3 simultaneously open streams each with a payload recipe, a plan of Write
// calls and a plan of Read calls).  The same engine evaluates all units; the
// units differ in what the generators emphasise.
package c16

import (
	"bytes"
	stdgzip "compress/gzip"
	"encoding/binary"
	"errors"
	"fmt"
	"io"
	"runtime"
	"runtime/debug"
	"sync"
	"sync/atomic"
	"testing"
	"time"

	gsnappy "github.com/golang/snappy"
	zstdlib "github.com/klauspost/compress/zstd"
	lz4lib "github.com/pierrec/lz4/v4"
	"github.com/segmentio/kafka-go/compress"
	cgzip "github.com/segmentio/kafka-go/compress/gzip"
	clz4 "github.com/segmentio/kafka-go/compress/lz4"
	csnappy "github.com/segmentio/kafka-go/compress/snappy"
	xerial "github.com/segmentio/kafka-go/compress/snappy/go-xerial-snappy"
	czstd "github.com/segmentio/kafka-go/compress/zstd"
	"pgregory.net/rapid"

	"verif/internal/ev"
)

func TestMain(m *testing.M) {
	// soft limit: up to 16 of these processes run side by side, and zstd/lz4
	// objects are megabytes each
	debug.SetMemoryLimit(1 << 30)
	ev.Timed("hang/")
	ev.Main(m, "C16")
}

func TestReplay(t *testing.T) { ev.RunReplay(t) }

// ---------------------------------------------------------------------------
// Case description (plain JSON; payloads are recipes, never raw bytes).

type Payload struct {
	Kind string `json:"kind"` // rand | rep | text | mixed
	Len  int    `json:"len"`
	Seed uint64 `json:"seed"`
}

type CodecSpec struct {
	Name     string `json:"name"`     // gzip | snappy | lz4 | zstd
	Level    int    `json:"level"`    // gzip level, zstd level, snappy Compression (0..3)
	Unframed bool   `json:"unframed"` // snappy only
	Shared   bool   `json:"shared"`   // use the value installed in compress.Codecs
}

type WritePlan struct {
	Mode     string `json:"mode"`           // write | readfrom
	Chunks   []int  `json:"chunks"`         // Write sizes, used cyclically; 0 = the rest
	Pre      int    `json:"pre"`            // snappy only: bytes given to Write before ReadFrom
	Post     int    `json:"post,omitempty"` // snappy only: bytes given to Write after ReadFrom has returned (more data arrives before Close)
	SrcChunk int    `json:"src_chunk"`      // readfrom: the source yields at most this many bytes per Read (0 = all)
	SrcEOF   bool   `json:"src_eof"`        // readfrom: the source returns its last bytes together with io.EOF
	// Split > 0: the bytes that go through ReadFrom arrive from two sources, one after the other (two io.Copy calls into the
	// same writer): the first ReadFrom gets this many bytes, a second one the rest
	Split int `json:"rf_split,omitempty"`
}

type ReadPlan struct {
	Mode     string `json:"mode"`      // read | writeto
	Bufs     []int  `json:"bufs"`      // Read buffer sizes, used cyclically; -1 = larger than the payload
	Pre      int    `json:"pre"`       // bytes consumed with Read before WriteTo
	Src      string `json:"src"`       // reader (*bytes.Reader) | buffer (*bytes.Buffer) | chunk | eofdata
	SrcChunk int    `json:"src_chunk"` // chunk/eofdata: bytes per Read of the compressed source (0 = all)
	// PostEOF: after the Read that reported the end of the stream the consumer reads once more (what a reader following
	// io.Reader's "the next Read should return 0, EOF" permits, and what testing/iotest.TestReader does)
	PostEOF bool `json:"post_eof,omitempty"`
}

type Stream struct {
	Payload Payload   `json:"payload"`
	W       WritePlan `json:"w"`
	R       ReadPlan  `json:"r"`
}

// HistStep is one earlier use of the pooled objects.
type HistStep struct {
	Op         string  `json:"op"` // ok | abandon_read | trunc_read | corrupt_read | garbage_read | write_err | empty_writer | empty_read
	Payload    Payload `json:"payload"`
	Pos        int     `json:"pos"`         // per-mille position (how far to read / where to cut / where to flip / when the sink fails)
	N          int     `json:"n"`           // objects open at the same time (1..3)
	Buf        int     `json:"buf"`         // buffer size of the reads / writes of this step (-1 = whole)
	CloseTwice bool    `json:"close_twice"` // Close is called twice
	Sibling    bool    `json:"sibling"`     // run on another codec value that shares the package-level pools
	ViaWriteTo bool    `json:"via_writeto"` // error streams are drained with WriteTo when available
}

// RefEnc selects the reference encoder of an interop case.
type RefEnc struct {
	Variant string `json:"variant"` // gzip: std | snappy: raw, xerial, xerial-lib | lz4: frame | zstd: stream, all
	Level   int    `json:"level"`
	Flags   int    `json:"flags"`
	Blocks  []int  `json:"blocks"`  // xerial block sizes / encoder Write sizes, cyclic; 0 = the rest
	Members int    `json:"members"` // gzip members / zstd frames concatenated (1..3)
}

type Case struct {
	Codec      CodecSpec  `json:"codec"`
	History    []HistStep `json:"history"`
	Streams    []Stream   `json:"streams"`
	UseRef     bool       `json:"use_ref"`
	Ref        RefEnc     `json:"ref"`
	Goroutines int        `json:"goroutines"`
	PerG       int        `json:"per_g"`
}

// ---------------------------------------------------------------------------
// Deterministic payloads.

const maxPayload = 1 << 20

func sm(s *uint64) uint64 {
	*s += 0x9E3779B97F4A7C15
	z := *s
	z = (z ^ (z >> 30)) * 0xBF58476D1CE4E5B9
	z = (z ^ (z >> 27)) * 0x94D049BB133111EB
	return z ^ (z >> 31)
}

func fillRand(b []byte, s *uint64) {
	i := 0
	for ; i+8 <= len(b); i += 8 {
		binary.LittleEndian.PutUint64(b[i:], sm(s))
	}
	if i < len(b) {
		var t [8]byte
		binary.LittleEndian.PutUint64(t[:], sm(s))
		copy(b[i:], t[:])
	}
}

var words = []string{"kafka", "offset", "partition", "the", "a", "of", "broker", "0123456789", "message", "\x00\x00\x00\x00", "zz", "compression", "e", "\xff\xfe", "snappy", "topic-name"}

func (p Payload) Bytes() []byte {
	n := p.Len
	if n < 1 {
		n = 1
	}
	if n > maxPayload {
		n = maxPayload
	}
	b := make([]byte, n)
	s := p.Seed ^ 0xC16C16
	switch p.Kind {
	case "rep":
		period := 1 + int(sm(&s)%48)
		var pat [48]byte
		fillRand(pat[:period], &s)
		for i := range b {
			b[i] = pat[i%period]
		}
	case "text":
		for i := 0; i < n; {
			i += copy(b[i:], words[sm(&s)%uint64(len(words))])
			if i < n {
				b[i] = ' '
				i++
			}
		}
	case "mixed":
		for i := 0; i < n; {
			seg := 1 + int(sm(&s)%3000)
			if seg > n-i {
				seg = n - i
			}
			switch k := sm(&s) % 3; {
			case k == 0 || i == 0:
				fillRand(b[i:i+seg], &s)
			case k == 1:
				c := byte(sm(&s))
				for j := 0; j < seg; j++ {
					b[i+j] = c
				}
			default:
				src := int(sm(&s) % uint64(i))
				for j := 0; j < seg; j++ {
					b[i+j] = b[src+j]
				}
			}
			i += seg
		}
	default:
		fillRand(b, &s)
	}
	return b
}

func (p Payload) shifted(k uint64) Payload {
	p.Seed += k * 0x51ED27
	return p
}

// ---------------------------------------------------------------------------
// Codec values.

func normCodec(cs CodecSpec) CodecSpec {
	switch cs.Name {
	case "gzip", "snappy", "lz4", "zstd":
	default:
		cs.Name = "snappy"
	}
	if cs.Shared {
		cs.Level, cs.Unframed = 0, false
	}
	switch cs.Name {
	case "gzip":
		if cs.Level < -3 || cs.Level > 9 {
			cs.Level = 0
		}
		cs.Unframed = false
	case "snappy":
		if cs.Level < 0 || cs.Level > 3 {
			cs.Level = 0
		}
	case "lz4":
		cs.Level, cs.Unframed = 0, false
	case "zstd":
		if cs.Level < 0 || cs.Level > 22 {
			cs.Level = 0
		}
		cs.Unframed = false
	}
	return cs
}

// tag names the codec in failure signatures.
func (cs CodecSpec) tag() string {
	if cs.Name == "snappy" {
		if cs.Unframed {
			return "snappy-unframed"
		}
		return "snappy-framed"
	}
	return cs.Name
}

// fresh builds a new codec value from the exported struct of the sub-package
// (for Shared: a zero value, which is what compress.Codecs holds).
func (cs CodecSpec) fresh() compress.Codec {
	switch cs.Name {
	case "gzip":
		return &cgzip.Codec{Level: cs.Level}
	case "lz4":
		return &clz4.Codec{}
	case "zstd":
		return &czstd.Codec{Level: cs.Level}
	default:
		f := csnappy.Framed
		if cs.Unframed {
			f = csnappy.Unframed
		}
		return &csnappy.Codec{Framing: f, Compression: csnappy.Compression(cs.Level)}
	}
}

var (
	codecMu    sync.Mutex
	codecCache = map[CodecSpec]compress.Codec{}
	cleanCache = map[CodecSpec]compress.Codec{}
)

// clean returns a codec value that never sees an explicit history, for the
// metamorphic baseline: a brand-new value, except for zstd where building an
// encoder costs tens of megabytes; there one value per spec is kept whose
// pooled encoders have only ever processed complete, successful streams.
func (cs CodecSpec) clean() compress.Codec {
	if cs.Name != "zstd" {
		return cs.fresh()
	}
	codecMu.Lock()
	defer codecMu.Unlock()
	c := cleanCache[cs]
	if c == nil {
		c = cs.fresh()
		cleanCache[cs] = c
	}
	return c
}

// value returns the long-lived codec value of the spec: the entry of the
// compress.Codecs table for Shared, else one value per spec for the process,
// so that pooled objects are reused from case to case.
func (cs CodecSpec) value() compress.Codec {
	if cs.Shared {
		switch cs.Name {
		case "gzip":
			return compress.Codecs[compress.Gzip]
		case "lz4":
			return compress.Codecs[compress.Lz4]
		case "zstd":
			return compress.Codecs[compress.Zstd]
		default:
			return compress.Codecs[compress.Snappy]
		}
	}
	codecMu.Lock()
	defer codecMu.Unlock()
	c := codecCache[cs]
	if c == nil {
		c = cs.fresh()
		codecCache[cs] = c
	}
	return c
}

// sibling is another codec value whose readers/writers come from the same
// package-level pools (snappy: the other framing; gzip, zstd: another level).
func (cs CodecSpec) sibling() CodecSpec {
	s := cs
	s.Shared = false
	switch cs.Name {
	case "snappy":
		s.Unframed = !cs.Unframed
		s.Level = (cs.Level + 1) % 4
	case "gzip":
		if cs.Level == 1 {
			s.Level = 6
		} else {
			s.Level = 1
		}
	case "zstd":
		if cs.Level == 1 {
			s.Level = 3
		} else {
			s.Level = 1
		}
	}
	return s
}

// ---------------------------------------------------------------------------
// Sources and sinks.

type chunkReader struct {
	b           []byte
	chunk       int
	eofWithData bool
}

func (r *chunkReader) Read(p []byte) (int, error) {
	if len(r.b) == 0 {
		return 0, io.EOF
	}
	n := len(p)
	if r.chunk > 0 && n > r.chunk {
		n = r.chunk
	}
	if n > len(r.b) {
		n = len(r.b)
	}
	copy(p, r.b[:n])
	r.b = r.b[n:]
	if len(r.b) == 0 && r.eofWithData {
		return n, io.EOF
	}
	return n, nil
}

func source(kind string, chunk int, comp []byte) io.Reader {
	switch kind {
	case "buffer":
		return bytes.NewBuffer(append([]byte(nil), comp...))
	case "chunk":
		return &chunkReader{b: comp, chunk: chunk}
	case "eofdata":
		return &chunkReader{b: comp, chunk: chunk, eofWithData: true}
	default:
		return bytes.NewReader(comp)
	}
}

var errTooMuch = errors.New("harness: more output than the payload")
var errSink = errors.New("harness: sink failure")

// limitSink collects output and refuses to grow past limit, so that a reader
// that never ends cannot run away.
type limitSink struct {
	buf   bytes.Buffer
	limit int
}

func (s *limitSink) Write(p []byte) (int, error) {
	if s.buf.Len()+len(p) > s.limit {
		return 0, errTooMuch
	}
	return s.buf.Write(p)
}

// failSink accepts limit bytes and then fails (optionally after a short write).
type failSink struct {
	n, limit int
	short    bool
	failed   bool
}

func (s *failSink) Write(p []byte) (int, error) {
	room := s.limit - s.n
	if len(p) <= room {
		s.n += len(p)
		return len(p), nil
	}
	s.failed = true
	if s.short && room > 0 {
		s.n += room
		return room, errSink
	}
	return 0, errSink
}

// ---------------------------------------------------------------------------
// Reference decoders and encoders (never the code under test).

var xerialMagic = []byte{0x82, 'S', 'N', 'A', 'P', 'P', 'Y', 0}

// parseXerial splits a xerial stream into its raw snappy blocks; offs[i] is the
// offset of block i in comp.
func parseXerial(comp []byte) (blocks [][]byte, offs []int, err error) {
	if len(comp) < 16 {
		return nil, nil, fmt.Errorf("xerial: stream of %d bytes is shorter than the 16-byte header", len(comp))
	}
	if !bytes.Equal(comp[:8], xerialMagic) {
		return nil, nil, fmt.Errorf("xerial: bad magic % x", comp[:8])
	}
	if v := int32(binary.BigEndian.Uint32(comp[8:])); v != 1 {
		return nil, nil, fmt.Errorf("xerial: version %d, want 1", v)
	}
	if v := int32(binary.BigEndian.Uint32(comp[12:])); v != 1 {
		return nil, nil, fmt.Errorf("xerial: compatible version %d, want 1", v)
	}
	pos := 16
	for pos < len(comp) {
		if pos+4 > len(comp) {
			return nil, nil, fmt.Errorf("xerial: %d stray bytes where a block length is expected (offset %d)", len(comp)-pos, pos)
		}
		n := int(int32(binary.BigEndian.Uint32(comp[pos:])))
		pos += 4
		if n < 0 || pos+n > len(comp) {
			return nil, nil, fmt.Errorf("xerial: block length %d at offset %d exceeds the %d remaining bytes", n, pos-4, len(comp)-pos)
		}
		blocks = append(blocks, comp[pos:pos+n])
		offs = append(offs, pos)
		pos += n
	}
	if len(blocks) == 0 {
		return nil, nil, errors.New("xerial: header without any block")
	}
	return blocks, offs, nil
}

var refZstdDec = func() *zstdlib.Decoder {
	// the window limit of the reference decoders (libzstd and zstd-jni refuse frames that announce more than 2^27 bytes
	// unless told otherwise): a stream other clients can read stays below it
	d, err := zstdlib.NewReader(nil, zstdlib.WithDecoderConcurrency(1), zstdlib.WithDecoderMaxWindow(128<<20))
	if err != nil {
		panic(err)
	}
	return d
}()

// refDecode decodes comp with the reference decoder of the codec's format.
func refDecode(cs CodecSpec, comp []byte) ([]byte, error) {
	switch cs.Name {
	case "gzip":
		zr, err := stdgzip.NewReader(bytes.NewReader(comp))
		if err != nil {
			return nil, err
		}
		return io.ReadAll(zr)
	case "lz4":
		return io.ReadAll(lz4lib.NewReader(bytes.NewReader(comp)))
	case "zstd":
		return refZstdDec.DecodeAll(comp, nil)
	}
	if cs.Unframed {
		out, err := gsnappy.Decode(nil, comp)
		if err != nil {
			return nil, fmt.Errorf("raw snappy block: %w", err)
		}
		if len(comp) >= 8 { // go-xerial-snappy refuses inputs shorter than the magic
			if x, xerr := xerial.Decode(comp); xerr != nil || !bytes.Equal(x, out) {
				return nil, fmt.Errorf("go-xerial-snappy disagrees with golang/snappy on the raw block: err=%v", xerr)
			}
		}
		return out, nil
	}
	blocks, _, err := parseXerial(comp)
	if err != nil {
		return nil, err
	}
	var out []byte
	for i, b := range blocks {
		d, err := gsnappy.Decode(nil, b)
		if err != nil {
			return nil, fmt.Errorf("xerial block %d (%d bytes): %w", i, len(b), err)
		}
		out = append(out, d...)
	}
	if x, xerr := xerial.Decode(comp); xerr != nil || !bytes.Equal(x, out) {
		return nil, fmt.Errorf("go-xerial-snappy disagrees with the hand parse: err=%v", xerr)
	}
	return out, nil
}

func handXerial(payload []byte, blocks []int) []byte {
	out := append([]byte(nil), xerialMagic...)
	out = append(out, 0, 0, 0, 1, 0, 0, 0, 1)
	for i, k := 0, 0; i < len(payload); k++ {
		n := 0
		if len(blocks) > 0 {
			n = blocks[k%len(blocks)]
		}
		if n <= 0 || n > len(payload)-i {
			n = len(payload) - i
		}
		blk := gsnappy.Encode(nil, payload[i:i+n])
		var l [4]byte
		binary.BigEndian.PutUint32(l[:], uint32(len(blk)))
		out = append(out, l[:]...)
		out = append(out, blk...)
		i += n
	}
	return out
}

var (
	refEncMu     sync.Mutex // guards refZstdEnc
	zstdStreamMu sync.Mutex // the cached encoders are stateful in stream mode
	refZstdEnc   = map[string]*zstdlib.Encoder{}
)

func zstdEncoder(level, flags int) *zstdlib.Encoder {
	lv := []zstdlib.EncoderLevel{zstdlib.SpeedFastest, zstdlib.SpeedDefault, zstdlib.SpeedBetterCompression, zstdlib.SpeedBestCompression}[level&3]
	key := fmt.Sprintf("%d/%d", level&3, flags&1)
	refEncMu.Lock()
	defer refEncMu.Unlock()
	e := refZstdEnc[key]
	if e == nil {
		var err error
		e, err = zstdlib.NewWriter(nil, zstdlib.WithEncoderLevel(lv), zstdlib.WithEncoderCRC(flags&1 != 0), zstdlib.WithEncoderConcurrency(1))
		if err != nil {
			panic(err)
		}
		refZstdEnc[key] = e
	}
	return e
}

func chunksOf(payload []byte, sizes []int, f func(chunk []byte)) {
	for i, k := 0, 0; i < len(payload); k++ {
		n := 0
		if len(sizes) > 0 {
			n = sizes[k%len(sizes)]
		}
		if n <= 0 || n > len(payload)-i {
			n = len(payload) - i
		}
		f(payload[i : i+n])
		i += n
	}
}

func must(err error) {
	if err != nil {
		panic("harness: reference encoder failed: " + err.Error())
	}
}

// refEncode produces a stream of the codec's format with the reference encoder.
func refEncode(cs CodecSpec, r RefEnc, payload []byte) []byte {
	members := r.Members
	if members < 1 {
		members = 1
	}
	if members > 3 {
		members = 3
	}
	if members > len(payload) {
		members = len(payload)
	}
	part := func(m int) []byte { // m-th of `members` nearly equal non-empty parts
		lo, hi := len(payload)*m/members, len(payload)*(m+1)/members
		return payload[lo:hi]
	}
	var out bytes.Buffer
	switch cs.Name {
	case "gzip":
		levels := []int{stdgzip.DefaultCompression, stdgzip.NoCompression, stdgzip.BestSpeed, stdgzip.BestCompression, stdgzip.HuffmanOnly}
		for m := 0; m < members; m++ {
			zw, err := stdgzip.NewWriterLevel(&out, levels[((r.Level%5)+5)%5])
			must(err)
			if r.Flags&1 != 0 {
				zw.Name, zw.Comment, zw.Extra = "name.txt", "a comment", []byte{1, 2, 3, 4, 5}
			}
			chunksOf(part(m), r.Blocks, func(c []byte) {
				_, err := zw.Write(c)
				must(err)
				if r.Flags&2 != 0 {
					must(zw.Flush())
				}
			})
			must(zw.Close())
		}
	case "lz4":
		zw := lz4lib.NewWriter(&out)
		sizes := []lz4lib.BlockSize{lz4lib.Block64Kb, lz4lib.Block256Kb, lz4lib.Block1Mb, lz4lib.Block4Mb}
		lvls := []lz4lib.CompressionLevel{lz4lib.Fast, lz4lib.Level1, lz4lib.Level5, lz4lib.Level9}
		opts := []lz4lib.Option{
			lz4lib.BlockSizeOption(sizes[(r.Flags>>4)&3]),
			lz4lib.BlockChecksumOption(r.Flags&1 != 0),
			lz4lib.ChecksumOption(r.Flags&2 == 0),
			lz4lib.CompressionLevelOption(lvls[r.Level&3]),
		}
		if r.Flags&4 != 0 {
			opts = append(opts, lz4lib.SizeOption(uint64(len(payload))))
		}
		must(zw.Apply(opts...))
		chunksOf(payload, r.Blocks, func(c []byte) {
			_, err := zw.Write(c)
			must(err)
			if r.Flags&8 != 0 {
				must(zw.Flush())
			}
		})
		must(zw.Close())
	case "zstd":
		e := zstdEncoder(r.Level, r.Flags)
		if r.Variant != "all" {
			zstdStreamMu.Lock()
			defer zstdStreamMu.Unlock()
		}
		for m := 0; m < members; m++ {
			if r.Variant == "all" {
				out.Write(e.EncodeAll(part(m), nil)) // safe for concurrent use
				continue
			}
			e.Reset(&out)
			chunksOf(part(m), r.Blocks, func(c []byte) {
				_, err := e.Write(c)
				must(err)
				if r.Flags&2 != 0 {
					must(e.Flush())
				}
			})
			must(e.Close())
		}
	default:
		switch r.Variant {
		case "raw":
			return gsnappy.Encode(nil, payload)
		case "xerial-lib":
			return xerial.EncodeStream(nil, payload)
		default:
			return handXerial(payload, r.Blocks)
		}
	}
	return out.Bytes()
}

// refSimple is the reference-encoded stream used as input of history steps.
func refSimple(cs CodecSpec, payload []byte) []byte {
	r := RefEnc{Variant: "std", Members: 1}
	switch cs.Name {
	case "snappy":
		r.Variant, r.Blocks = "xerial", []int{32768}
		if cs.Unframed {
			r.Variant = "raw"
		}
	case "lz4":
		r.Variant = "frame"
	case "zstd":
		r.Variant = "all"
	}
	return refEncode(cs, r, payload)
}

// refReadsAsUnframed tells whether the codec's reader sees a raw snappy block.
func refReadsAsUnframed(cs CodecSpec, useRef bool, r RefEnc) bool {
	if cs.Name != "snappy" {
		return false
	}
	if useRef {
		return r.Variant == "raw"
	}
	return cs.Unframed
}

// ---------------------------------------------------------------------------
// Write and read sessions: one step = one call on the codec's object, so that
// several streams can be interleaved.

type failure struct{ sig, msg string }

func failf(sig, format string, args ...any) *failure {
	return &failure{sig, fmt.Sprintf(format, args...)}
}

const maxCalls = 70000 // after that many 1..7-byte calls the rest goes in one piece

type wsess struct {
	idx     int
	tag     string
	w       io.WriteCloser
	sink    bytes.Buffer
	payload []byte
	plan    WritePlan
	off, k  int
	done    bool
	twice   bool
	rfDone  bool
}

func (s *wsess) step() *failure {
	p := s.plan
	if p.Mode == "readfrom" && s.off >= p.Pre && !s.rfDone {
		if rf, ok := s.w.(io.ReaderFrom); ok {
			end := len(s.payload)
			if p.Post > 0 && end-p.Post > s.off {
				end -= p.Post
			}
			rest := s.payload[s.off:end]
			if p.Split > 0 && p.Split < len(rest) {
				n, err := rf.ReadFrom(&chunkReader{b: rest[:p.Split], chunk: p.SrcChunk, eofWithData: p.SrcEOF})
				if err != nil || n != int64(p.Split) {
					return failf("write/"+s.tag, "stream %d: first ReadFrom of %d bytes returned (%d, %v)", s.idx, p.Split, n, err)
				}
				rest = rest[p.Split:]
			}
			n, err := rf.ReadFrom(&chunkReader{b: rest, chunk: p.SrcChunk, eofWithData: p.SrcEOF})
			if err != nil || n != int64(len(rest)) {
				return failf("write/"+s.tag, "stream %d: ReadFrom of %d bytes returned (%d, %v)", s.idx, len(rest), n, err)
			}
			s.off = end
			s.rfDone = true
			if s.off == len(s.payload) {
				return s.close()
			}
			return nil
		}
	}
	n := 0
	if len(p.Chunks) > 0 {
		n = p.Chunks[s.k%len(p.Chunks)]
	}
	rest := len(s.payload) - s.off
	if p.Mode == "readfrom" && s.off < p.Pre && (n <= 0 || n > p.Pre-s.off) {
		n = p.Pre - s.off
	}
	if n <= 0 || n > rest || s.k >= maxCalls {
		n = rest
	}
	s.k++
	got, err := s.w.Write(s.payload[s.off : s.off+n])
	if err != nil || got != n {
		return failf("write/"+s.tag, "stream %d: Write #%d of %d bytes at offset %d returned (%d, %v)", s.idx, s.k, n, s.off, got, err)
	}
	s.off += n
	if s.off == len(s.payload) {
		return s.close()
	}
	return nil
}

func (s *wsess) close() *failure {
	s.done = true
	if err := s.w.Close(); err != nil {
		return failf("write/"+s.tag, "stream %d: Close of the writer returned %v", s.idx, err)
	}
	if s.twice {
		s.w.Close()
	}
	return nil
}

type rsess struct {
	idx      int
	tag      string
	r        io.ReadCloser
	out      limitSink
	plan     ReadPlan
	biglen   int
	k, zeros int
	scratch  []byte
	done     bool
	twice    bool
}

func (s *rsess) step() *failure {
	p := s.plan
	if p.Mode == "writeto" && s.out.buf.Len() >= p.Pre {
		if wt, ok := s.r.(io.WriterTo); ok {
			before := s.out.buf.Len()
			n, err := wt.WriteTo(&s.out)
			if err != nil || n != int64(s.out.buf.Len()-before) {
				return failf("read/"+s.tag, "stream %d: WriteTo returned (%d, %v) after delivering %d bytes (%d bytes had been Read before)", s.idx, n, err, s.out.buf.Len()-before, before)
			}
			return s.close()
		}
	}
	n := 4096
	if len(p.Bufs) > 0 {
		n = p.Bufs[s.k%len(p.Bufs)]
	}
	if n <= 0 {
		n = s.biglen
	}
	if s.k >= maxCalls && n < 4096 {
		n = 4096
	}
	if p.Mode == "writeto" && s.out.buf.Len() < p.Pre && n > p.Pre-s.out.buf.Len() {
		n = p.Pre - s.out.buf.Len()
	}
	s.k++
	if cap(s.scratch) < n {
		s.scratch = make([]byte, n)
	}
	buf := s.scratch[:n]
	got, err := s.r.Read(buf)
	if got < 0 || got > n {
		return failf("read/"+s.tag, "stream %d: Read into %d bytes returned n=%d", s.idx, n, got)
	}
	if _, werr := s.out.Write(buf[:got]); werr != nil {
		return failf("read/"+s.tag, "stream %d: the reader delivers more than the %d bytes of the payload", s.idx, s.out.limit-64)
	}
	if err == io.EOF {
		if p.PostEOF {
			var one [16]byte
			if n2, err2 := s.r.Read(one[:]); n2 != 0 || err2 != io.EOF {
				return failf("read-after-eof/"+s.tag, "stream %d: the stream ended after %d bytes (Read returned %d, io.EOF); the next Read returned (%d, %v) instead of (0, io.EOF)", s.idx, s.out.buf.Len(), got, n2, err2)
			}
		}
		return s.close()
	}
	if err != nil {
		return failf("read/"+s.tag, "stream %d: Read #%d (buffer %d) after %d bytes returned error %v", s.idx, s.k, n, s.out.buf.Len(), err)
	}
	if got == 0 {
		if s.zeros++; s.zeros > 1000 {
			return failf("read/"+s.tag, "stream %d: Read keeps returning (0, nil) after %d bytes", s.idx, s.out.buf.Len())
		}
	} else {
		s.zeros = 0
	}
	return nil
}

func (s *rsess) close() *failure {
	s.done = true
	if err := s.r.Close(); err != nil {
		return failf("read/"+s.tag, "stream %d: Close of the reader returned %v", s.idx, err)
	}
	if s.twice {
		s.r.Close()
	}
	return nil
}

func diff(got, want []byte) string {
	i := 0
	for i < len(got) && i < len(want) && got[i] == want[i] {
		i++
	}
	return fmt.Sprintf("got %d bytes, want %d bytes, first difference at offset %d", len(got), len(want), i)
}

// runUse evaluates one use: all streams are open at the same time on the one
// codec value, their Write (then Read) calls are interleaved round-robin.
// It returns the compressed streams and the first oracle failure.
func runUse(c compress.Codec, cs CodecSpec, streams []Stream, useRef bool, ref RefEnc, seedShift uint64, closeTwice bool) (comps [][]byte, f *failure) {
	tag := cs.tag()
	defer func() {
		if p := recover(); p != nil {
			if s, ok := p.(string); ok && len(s) > 8 && s[:8] == "harness:" {
				panic(p)
			}
			f = failf("panic/"+tag, "panic: %v", p)
		}
	}()
	payloads := make([][]byte, len(streams))
	comps = make([][]byte, len(streams))
	for i, st := range streams {
		payloads[i] = st.Payload.shifted(seedShift).Bytes()
	}
	if useRef {
		for i := range streams {
			comps[i] = refEncode(cs, ref, payloads[i])
			// self-check of the harness: the reference decoder reads the reference stream
			if d, err := refDecodeAs(cs, ref, comps[i]); err != nil || !bytes.Equal(d, payloads[i]) {
				panic(fmt.Sprintf("harness: reference decoder rejects the reference stream (%s %+v): %v", tag, ref, err))
			}
		}
	} else {
		ws := make([]*wsess, len(streams))
		for i, st := range streams {
			s := &wsess{idx: i, tag: tag, payload: payloads[i], plan: st.W, twice: closeTwice}
			s.w = c.NewWriter(&s.sink)
			ws[i] = s
		}
		for open := len(ws); open > 0; {
			for _, s := range ws {
				if s.done {
					continue
				}
				if f := s.step(); f != nil {
					return comps, f
				}
				if s.done {
					open--
				}
			}
		}
		for i, s := range ws {
			comps[i] = s.sink.Bytes()
			d, err := refDecode(cs, comps[i])
			if err != nil {
				return comps, failf("refdecode/"+tag, "stream %d: the reference decoder rejects the %d compressed bytes of a %d-byte payload: %v", i, len(comps[i]), len(payloads[i]), err)
			}
			if !bytes.Equal(d, payloads[i]) {
				return comps, failf("refdecode/"+tag, "stream %d: the reference decoder reads something else than the payload: %s", i, diff(d, payloads[i]))
			}
		}
	}
	rs := make([]*rsess, len(streams))
	for i, st := range streams {
		s := &rsess{idx: i, tag: tag, plan: st.R, biglen: len(payloads[i]) + 10, twice: closeTwice}
		s.out.limit = len(payloads[i]) + 64
		s.r = c.NewReader(source(st.R.Src, st.R.SrcChunk, comps[i]))
		rs[i] = s
	}
	for open := len(rs); open > 0; {
		for _, s := range rs {
			if s.done {
				continue
			}
			if f := s.step(); f != nil {
				if useRef {
					f.sig = "refinput/" + tag + "/" + ref.Variant
				}
				return comps, f
			}
			if s.done {
				open--
			}
		}
	}
	for i, s := range rs {
		if !bytes.Equal(s.out.buf.Bytes(), payloads[i]) {
			if useRef {
				return comps, failf("refinput/"+tag+"/"+ref.Variant, "stream %d: reading the reference-encoded stream (%+v): %s", i, ref, diff(s.out.buf.Bytes(), payloads[i]))
			}
			return comps, failf("roundtrip/"+tag, "stream %d: decompress(compress(payload)) != payload: %s", i, diff(s.out.buf.Bytes(), payloads[i]))
		}
	}
	return comps, nil
}

// refDecodeAs decodes a reference-encoded stream with the reference decoder
// (a raw snappy block given to a framed codec is still a raw block).
func refDecodeAs(cs CodecSpec, r RefEnc, comp []byte) ([]byte, error) {
	if cs.Name == "snappy" {
		cs.Unframed = r.Variant == "raw"
	}
	return refDecode(cs, comp)
}

// ---------------------------------------------------------------------------
// History steps.

func isErrOp(op string) bool {
	switch op {
	case "trunc_read", "corrupt_read", "garbage_read", "write_err":
		return true
	}
	return false
}

// corruptAt flips one byte of comp at a position where the damage cannot turn
// into a multi-gigabyte length field (those are the business of C20): anywhere
// for gzip and lz4, past the frame header for zstd, in the xerial magic or
// inside a snappy block past its length varint for snappy.  ok=false when the
// stream has no such position.
func corruptAt(cs CodecSpec, comp []byte, pos int, seed uint64) ([]byte, bool) {
	var safe [][2]int
	total := 0
	add := func(lo, hi int) {
		if hi > len(comp) {
			hi = len(comp)
		}
		if lo < hi {
			safe = append(safe, [2]int{lo, hi})
			total += hi - lo
		}
	}
	switch cs.Name {
	case "gzip", "lz4":
		add(0, len(comp))
	case "zstd":
		add(20, len(comp))
	default:
		if cs.Unframed {
			add(5, len(comp))
		} else {
			add(0, 8)
			if blocks, offs, err := parseXerial(comp); err == nil {
				for i, b := range blocks {
					add(offs[i]+5, offs[i]+len(b))
				}
			}
		}
	}
	if total == 0 {
		return nil, false
	}
	k := (pos * total / 1001) % total
	i := -1
	for _, r := range safe {
		if k < r[1]-r[0] {
			i = r[0] + k
			break
		}
		k -= r[1] - r[0]
	}
	out := append([]byte(nil), comp...)
	x := byte(sm(&seed))
	if x == 0 {
		x = 0x80
	}
	out[i] ^= x
	return out, true
}

// drain reads r until an error or EOF with the given buffer size (bounded) and
// reports whether it ended with an error other than io.EOF.
func drain(r io.Reader, buf int, viaWriteTo bool, limit int) bool {
	if wt, ok := r.(io.WriterTo); ok && viaWriteTo {
		_, err := wt.WriteTo(&limitSink{limit: limit})
		return err != nil
	}
	if buf <= 0 {
		buf = 64 << 10
	}
	b := make([]byte, buf)
	total, zeros := 0, 0
	for total <= limit && zeros < 100 {
		n, err := r.Read(b)
		total += n
		if err != nil {
			return err != io.EOF
		}
		if n == 0 {
			zeros++
		}
	}
	return false
}

// drainDamaged is drain for input that was damaged on purpose: what a decoder
// does with such input (even a panic) is not C16's business but C20's; only
// what happens to the next use is.
func drainDamaged(tag, op string, r io.Reader, buf int, viaWriteTo bool, limit int) (errored bool) {
	defer func() {
		if p := recover(); p != nil {
			ev.Count("panic_on_damaged_input/"+tag+"/"+op, 1)
			errored = true
		}
	}()
	return drain(r, buf, viaWriteTo, limit)
}

// runHist performs one earlier use.  It returns an oracle failure for the "ok"
// step (a complete use, which must itself be correct) and for a panic anywhere
// but in the reads of damaged input (NewReader/NewWriter, writing to a failing
// sink, Close and a second Close are all legitimate calls), and whether a
// stream of the step really ended in an error.
func runHist(c compress.Codec, cs CodecSpec, h HistStep) (f *failure, errored bool) {
	defer func() {
		if p := recover(); p != nil {
			if s, ok := p.(string); ok && len(s) > 8 && s[:8] == "harness:" {
				panic(p)
			}
			f = failf("panic/"+cs.tag()+"/hist-"+h.Op, "panic in a %s step (n=%d close_twice=%v): %v", h.Op, h.N, h.CloseTwice, p)
		}
	}()
	n := h.N
	if n < 1 {
		n = 1
	}
	if n > 3 {
		n = 3
	}
	closeR := func(r io.Closer) {
		r.Close()
		if h.CloseTwice {
			r.Close()
		}
	}
	switch h.Op {
	case "ok":
		streams := make([]Stream, n)
		for i := range streams {
			streams[i] = Stream{Payload: h.Payload.shifted(uint64(i)), W: WritePlan{Mode: "write", Chunks: []int{h.Buf}}, R: ReadPlan{Mode: "read", Bufs: []int{h.Buf}}}
		}
		_, f := runUse(c, cs, streams, false, RefEnc{}, 0, h.CloseTwice)
		if f != nil {
			f.sig = "histstep-" + f.sig
		}
		return f, false
	case "empty_writer":
		ws := make([]io.WriteCloser, n)
		for i := range ws {
			ws[i] = c.NewWriter(&bytes.Buffer{})
		}
		for _, w := range ws {
			closeR(w)
		}
		return nil, false
	case "empty_read":
		rs := make([]io.ReadCloser, n)
		for i := range rs {
			rs[i] = c.NewReader(bytes.NewReader(nil))
		}
		for _, r := range rs {
			errored = drainDamaged(cs.tag(), h.Op, r, 16, false, 1024) || errored
			closeR(r)
		}
		return nil, errored
	case "write_err":
		payload := h.Payload.Bytes()
		full := len(refSimple(cs, payload))
		ws := make([]io.WriteCloser, n)
		sinks := make([]*failSink, n)
		for i := range ws {
			sinks[i] = &failSink{limit: (full * (h.Pos % 1000) / 1000) / (i + 1), short: h.Pos%2 == 1}
			ws[i] = c.NewWriter(sinks[i])
		}
		for i, w := range ws {
			werr := false
			if rf, ok := w.(io.ReaderFrom); ok && h.ViaWriteTo {
				_, err := rf.ReadFrom(bytes.NewReader(payload))
				werr = err != nil
			} else {
				chunksOf(payload, []int{h.Buf}, func(ch []byte) {
					if !werr {
						_, err := w.Write(ch)
						werr = err != nil
					}
				})
			}
			if err := w.Close(); err != nil {
				werr = true
			}
			if h.CloseTwice {
				w.Close()
			}
			errored = errored || werr || sinks[i].failed
		}
		return nil, errored
	}
	// reader steps over a reference-encoded stream
	payload := h.Payload.Bytes()
	comp := refSimple(cs, payload)
	frac := func(total int) int { return total * (h.Pos % 1001) / 1000 }
	switch h.Op {
	case "trunc_read":
		cut := frac(len(comp))
		if cut >= len(comp) {
			cut = len(comp) - 1
		}
		comp = comp[:cut]
	case "corrupt_read":
		if cc, ok := corruptAt(cs, comp, h.Pos, h.Payload.Seed); ok {
			comp = cc
		} else {
			comp = comp[:len(comp)/2]
		}
	case "garbage_read":
		g := make([]byte, 1+h.Pos%64)
		s := h.Payload.Seed
		fillRand(g, &s)
		g[0] &= 0x7f // as a snappy length varint this stays below 128
		comp = g
	}
	rs := make([]io.ReadCloser, n)
	for i := range rs {
		rs[i] = c.NewReader(source([]string{"reader", "buffer", "chunk"}[(h.Pos+i)%3], 1+h.Pos%97, comp))
	}
	for _, r := range rs {
		if h.Op == "abandon_read" {
			want := frac(len(payload))
			buf := h.Buf
			if buf <= 0 || buf > want {
				buf = want
			}
			if buf > 0 {
				b := make([]byte, buf)
				for got := 0; got < want; {
					if len(b) > want-got {
						b = b[:want-got]
					}
					k, err := r.Read(b)
					got += k
					if err != nil || k == 0 {
						break
					}
				}
			}
		} else {
			errored = drainDamaged(cs.tag(), h.Op, r, h.Buf, h.ViaWriteTo, len(payload)+(1<<20)) || errored
		}
	}
	for i := len(rs) - 1; i >= 0; i-- {
		closeR(rs[i])
	}
	return nil, errored
}

// ---------------------------------------------------------------------------
// Case evaluation.

var boundaryLens = []int{15, 16, 17, 1023, 1024, 1025, 31743, 31744, 31745, 31746, 32767, 32768, 32769, 63489, 63490, 63491, 65535, 65536, 65537}

func isBoundary(n int) bool {
	for _, b := range boundaryLens[6:] {
		if n == b {
			return true
		}
	}
	return false
}

func normPlanSizes(xs []int, lo int) []int {
	out := make([]int, 0, len(xs))
	for _, x := range xs {
		if x < lo {
			x = lo
		}
		if x > maxPayload {
			x = maxPayload
		}
		out = append(out, x)
	}
	if len(out) > 8 {
		out = out[:8]
	}
	return out
}

func normalize(c Case) Case {
	c.Codec = normCodec(c.Codec)
	if len(c.Streams) == 0 {
		c.Streams = []Stream{{Payload: Payload{Kind: "rand", Len: 1}}}
	}
	if len(c.Streams) > 3 {
		c.Streams = c.Streams[:3]
	}
	if len(c.History) > 6 {
		c.History = c.History[:6]
	}
	ss := make([]Stream, len(c.Streams))
	for i, s := range c.Streams {
		if s.Payload.Len < 1 {
			s.Payload.Len = 1
		}
		if s.Payload.Len > maxPayload {
			s.Payload.Len = maxPayload
		}
		s.W.Chunks = normPlanSizes(s.W.Chunks, 0)
		s.R.Bufs = normPlanSizes(s.R.Bufs, -1)
		for j, b := range s.R.Bufs {
			if b == 0 {
				s.R.Bufs[j] = -1
			}
		}
		if s.W.Mode != "readfrom" {
			s.W.Mode = "write"
		}
		if s.R.Mode != "writeto" {
			s.R.Mode = "read"
		}
		// mixing Write+ReadFrom / Read+WriteTo on one object is only exercised on
		// the library's own xerial implementation, which is written for it
		if s.W.Pre < 0 || s.W.Mode != "readfrom" {
			s.W.Pre = 0
		}
		if s.W.Post < 0 || s.W.Mode != "readfrom" {
			s.W.Post = 0
		}
		if s.W.Pre >= s.Payload.Len {
			s.W.Pre = s.Payload.Len - 1
		}
		if s.W.Split < 0 || s.W.Mode != "readfrom" {
			s.W.Split = 0
		}
		// Read followed by WriteTo (what io.Copy does with a reader that was peeked into) on every codec: a reader that
		// offers WriteTo has to deliver the rest of the stream through it
		if s.R.Pre < 0 || s.R.Mode != "writeto" {
			s.R.Pre = 0
		}
		if s.R.Pre >= s.Payload.Len {
			s.R.Pre = s.Payload.Len - 1
		}
		if s.W.SrcChunk < 0 {
			s.W.SrcChunk = 0
		}
		if s.R.SrcChunk < 0 {
			s.R.SrcChunk = 0
		}
		ss[i] = s
	}
	c.Streams = ss
	hs := make([]HistStep, len(c.History))
	for i, h := range c.History {
		if h.Payload.Len < 1 {
			h.Payload.Len = 1
		}
		if h.Payload.Len > maxPayload {
			h.Payload.Len = maxPayload
		}
		if h.Pos < 0 {
			h.Pos = -h.Pos
		}
		if h.Buf == 0 || h.Buf < -1 {
			h.Buf = -1
		}
		hs[i] = h
	}
	c.History = hs
	if c.Goroutines < 1 {
		c.Goroutines = 1
	}
	if c.Goroutines > 8 {
		c.Goroutines = 8
	}
	if c.PerG < 1 {
		c.PerG = 1
	}
	if c.PerG > 6 {
		c.PerG = 6
	}
	if c.UseRef {
		c.Ref.Blocks = normPlanSizes(c.Ref.Blocks, 0)
		v := map[string][]string{"gzip": {"std"}, "snappy": {"raw", "xerial", "xerial-lib"}, "lz4": {"frame"}, "zstd": {"stream", "all"}}[c.Codec.Name]
		ok := false
		for _, x := range v {
			ok = ok || x == c.Ref.Variant
		}
		if !ok {
			c.Ref.Variant = v[0]
		}
		if c.Ref.Level < 0 {
			c.Ref.Level = -c.Ref.Level
		}
		if c.Ref.Flags < 0 {
			c.Ref.Flags = -c.Ref.Flags
		}
		if c.Codec.Name == "lz4" || c.Codec.Name == "snappy" {
			c.Ref.Members = 1
		}
	} else {
		c.Ref = RefEnc{}
	}
	return c
}

func chunked(sizes []int, n int) bool {
	for _, s := range sizes {
		if s > 0 && s < n {
			return true
		}
	}
	return false
}

// labels returns the coverage labels and the non-triviality of a case.
func labels(c Case, errStream bool) (ls []string, nontrivial bool) {
	ls = append(ls, "codec_"+c.Codec.tag())
	if c.Codec.Shared {
		ls = append(ls, "shared_codec_value")
	}
	big, cw, cr, bb := false, false, false, false
	for _, s := range c.Streams {
		n := s.Payload.Len
		big = big || n > 32768
		bb = bb || isBoundary(n)
		if !c.UseRef {
			if s.W.Mode == "readfrom" {
				ls = append(ls, "readfrom_path")
				if s.W.Split > 0 {
					ls = append(ls, "readfrom_two_sources")
				}
				cw = cw || (s.W.SrcChunk > 0 && s.W.SrcChunk < n) || s.W.Pre > 0
			} else {
				cw = cw || chunked(s.W.Chunks, n)
			}
		}
		if s.R.Mode == "writeto" {
			ls = append(ls, "writeto_path")
			cr = cr || s.R.Pre > 0
		} else {
			cr = cr || chunked(s.R.Bufs, n)
		}
		if s.R.Src != "reader" && s.R.Src != "" {
			ls = append(ls, "src_"+s.R.Src)
		}
		if n > 65536 {
			ls = append(ls, "payload_gt_64k")
		} else if n > 32768 {
			ls = append(ls, "payload_gt_32k")
		} else if n <= 16 {
			ls = append(ls, "payload_tiny")
		}
		ls = append(ls, "payload_"+s.Payload.Kind)
	}
	if bb {
		ls = append(ls, "block_boundary")
	}
	if cw {
		ls = append(ls, "chunked_write")
	}
	if cr {
		ls = append(ls, "chunked_read")
	}
	if len(c.Streams) > 1 && c.Goroutines <= 1 {
		ls = append(ls, "interleaved_streams")
	}
	if refReadsAsUnframed(c.Codec, c.UseRef, c.Ref) {
		ls = append(ls, "unframed_input")
	}
	if c.UseRef {
		ls = append(ls, "reference_encoded_input", "ref_"+c.Codec.Name+"_"+c.Ref.Variant)
		if c.Ref.Members > 1 {
			ls = append(ls, "ref_multi_member")
		}
	}
	if len(c.History) > 0 {
		ls = append(ls, "history_nonempty")
		for _, h := range c.History {
			ls = append(ls, "hist_"+h.Op)
			if h.CloseTwice {
				ls = append(ls, "hist_close_twice")
			}
			if h.Sibling {
				ls = append(ls, "hist_sibling_codec")
			}
		}
	}
	if errStream {
		ls = append(ls, "after_error_stream")
	}
	if c.Goroutines > 1 {
		ls = append(ls, "concurrent")
	}
	// dedupe, keeping order
	seen := map[string]bool{}
	out := ls[:0]
	for _, l := range ls {
		if !seen[l] {
			seen[l] = true
			out = append(out, l)
		}
	}
	return out, big || cw || cr || len(c.History) > 0 || c.Goroutines > 1 || len(c.Streams) > 1
}

var pinOnce sync.Once

// pin makes the sequential units run on one P: sync.Pool then hands a Put
// object back to the next Get deterministically, so that a history step really
// is the previous life of the object used next.
func pin() { pinOnce.Do(func() { runtime.GOMAXPROCS(1) }) }

// guarded runs fn with a watchdog.  The codecs do no I/O: a use of a few streams takes milliseconds (seconds for the
// largest payloads written byte by byte), so one that has not returned after hangLimit is a call that never comes back.  The
// goroutine is left behind (it may spin); reported as a timed rule, i.e. not on a machine that is itself late.
const hangLimit = 60 * time.Second

// once a call has hung, the ones left behind may be spinning on the only P: the attempts that follow (shrinking) get 3 s
var hangSeen atomic.Bool

func guarded(fn func()) (hung bool) {
	limit := hangLimit
	if hangSeen.Load() {
		limit = 3 * time.Second
	}
	done := make(chan struct{})
	var panicked interface{}
	go func() {
		defer close(done)
		defer func() { panicked = recover() }()
		fn()
	}()
	select {
	case <-done:
		if panicked != nil {
			panic(panicked) // on the caller's goroutine, where the test framework sees it
		}
		return false
	case <-time.After(limit):
		hangSeen.Store(true)
		return true
	}
}

func evaluate(tb ev.TB, kind string, c Case) {
	c = normalize(c)
	if c.Goroutines > 1 {
		evaluateConcurrent(tb, kind, c)
		return
	}
	pin()
	codec := c.Codec.value()
	errStream := false
	for i, h := range c.History {
		hc, hcs := codec, c.Codec
		if h.Sibling {
			hcs = normCodec(c.Codec.sibling())
			hc = hcs.value()
		}
		var f *failure
		var e bool
		if guarded(func() { f, e = runHist(hc, hcs, h) }) {
			ev.Fail(tb, kind, "hang/history/"+hcs.tag(), c, "history step %d (%s) on %s had not returned after %v", i, h.Op, hcs.tag(), hangLimit)
			return
		}
		errStream = errStream || e
		if f != nil {
			ev.Fail(tb, kind, f.sig, c, "history step %d (%s) on %s: %s", i, h.Op, hcs.tag(), f.msg)
			return
		}
	}
	var comps [][]byte
	var f *failure
	if guarded(func() { comps, f = runUse(codec, c.Codec, c.Streams, c.UseRef, c.Ref, 0, false) }) {
		ev.Fail(tb, kind, "hang/use/"+c.Codec.tag(), c, "%s: writing and reading the streams had not returned after %v (a call into the codec never comes back)", c.Codec.tag(), hangLimit)
		return
	}
	if f != nil {
		if len(c.History) > 0 {
			// metamorphic: the same use on a new codec value, no explicit history
			if _, base := runUse(c.Codec.fresh(), c.Codec, c.Streams, c.UseRef, c.Ref, 0, false); base == nil {
				f.sig = "history/" + f.sig
				f.msg = "only after the history (the same use passes on a fresh codec value): " + f.msg
			}
		}
		ev.Fail(tb, kind, f.sig, c, "%s: %s", c.Codec.tag(), f.msg)
		return
	}
	if kind == "history" && len(c.History) > 0 {
		bcomps, base := runUse(c.Codec.clean(), c.Codec, c.Streams, c.UseRef, c.Ref, 0, false)
		if base != nil {
			ev.Fail(tb, kind, "baseline/"+base.sig, c, "%s: the use passes after the history but fails on a fresh codec value: %s", c.Codec.tag(), base.msg)
			return
		}
		if !c.UseRef {
			same := true
			for i := range comps {
				same = same && bytes.Equal(comps[i], bcomps[i])
			}
			if same {
				ev.Count("compressed_bytes_same_as_fresh/"+c.Codec.tag(), 1)
			} else {
				ev.Count("compressed_bytes_differ_from_fresh/"+c.Codec.tag(), 1) // allowed: only the content is promised
			}
		}
	}
	ls, nt := labels(c, errStream)
	ev.Case(fmt.Sprintf("%s/%+v", kind, c), nt, ls...)
	ev.Sample(c)
}

// evaluateConcurrent shares one codec value between c.Goroutines goroutines;
// each performs PerG uses (with payload seeds of its own) and replays some of
// the history steps in between, so error streams and good streams overlap.
func evaluateConcurrent(tb ev.TB, kind string, c Case) {
	codec := c.Codec.value()
	sib := normCodec(c.Codec.sibling())
	sibc := sib.value()
	fails := make([]*failure, c.Goroutines)
	errs := make([]bool, c.Goroutines)
	start := make(chan struct{})
	var wg sync.WaitGroup
	for g := 0; g < c.Goroutines; g++ {
		wg.Add(1)
		go func(g int) {
			defer wg.Done()
			<-start
			for k := 0; k < c.PerG; k++ {
				if len(c.History) > 0 && (g+k)%2 == 0 {
					h := c.History[(g+k)/2%len(c.History)]
					hc, hcs := codec, c.Codec
					if h.Sibling {
						hc, hcs = sibc, sib
					}
					h.Payload = h.Payload.shifted(uint64(g*16 + k))
					f, e := runHist(hc, hcs, h)
					errs[g] = errs[g] || e
					if f != nil {
						f.msg = fmt.Sprintf("goroutine %d, history step %s: %s", g, h.Op, f.msg)
						fails[g] = f
						return
					}
				}
				st := c.Streams[(g+k)%len(c.Streams)]
				_, f := runUse(codec, c.Codec, []Stream{st}, c.UseRef, c.Ref, uint64(1+g*16+k), false)
				if f != nil {
					f.msg = fmt.Sprintf("goroutine %d of %d, use %d: %s", g, c.Goroutines, k, f.msg)
					fails[g] = f
					return
				}
			}
		}(g)
	}
	close(start)
	wg.Wait()
	errStream := false
	for g, f := range fails {
		errStream = errStream || errs[g]
		if f != nil {
			ev.Fail(tb, kind, "concurrent/"+f.sig, c, "%s: %s", c.Codec.tag(), f.msg)
			return
		}
	}
	ls, nt := labels(c, errStream)
	ev.Case(fmt.Sprintf("%s/%+v", kind, c), nt, ls...)
	ev.Sample(c)
}

func runRoundTrip(tb ev.TB, c Case)  { c.UseRef, c.Goroutines = false, 1; evaluate(tb, "roundtrip", c) }
func runInterop(tb ev.TB, c Case)    { c.UseRef, c.Goroutines = true, 1; evaluate(tb, "interop", c) }
func runHistory(tb ev.TB, c Case)    { c.Goroutines = 1; evaluate(tb, "history", c) }
func runConcurrent(tb ev.TB, c Case) { evaluate(tb, "concurrent", c) }

func init() {
	ev.Register("roundtrip", runRoundTrip)
	ev.Register("interop", runInterop)
	ev.Register("history", runHistory)
	ev.Register("concurrent", runConcurrent)
}

// ---------------------------------------------------------------------------
// Generators.

func genCodec(t *rapid.T) CodecSpec {
	cs := CodecSpec{Name: rapid.SampledFrom([]string{"snappy", "snappy", "snappy", "gzip", "gzip", "lz4", "zstd", "zstd"}).Draw(t, "codec")}
	cs.Shared = rapid.IntRange(0, 5).Draw(t, "shared") == 5
	if cs.Shared {
		return cs
	}
	switch cs.Name {
	case "gzip":
		cs.Level = rapid.SampledFrom([]int{0, -1, 1, 6, 9, 5, -2, -3}).Draw(t, "gzip_level")
	case "snappy":
		cs.Unframed = rapid.IntRange(0, 2).Draw(t, "framing") == 2
		cs.Level = rapid.IntRange(0, 3).Draw(t, "snappy_level")
	case "zstd":
		cs.Level = rapid.SampledFrom([]int{0, 1, 3, 1, 3, 7, 7, 11}).Draw(t, "zstd_level")
	}
	return cs
}

var lenClasses = []string{"tiny", "tiny", "small", "small", "boundary", "boundary", "boundary", "boundary", "mid", "big", "big", "huge"}

func genLen(t *rapid.T, label string, huge bool) int {
	// SampledFrom rather than IntRange: rapid biases integer ranges towards
	// their lower end, the classes are meant to be equally likely
	switch cl := rapid.SampledFrom(lenClasses).Draw(t, label+"_class"); {
	case cl == "tiny":
		return rapid.IntRange(1, 16).Draw(t, label)
	case cl == "small":
		return rapid.IntRange(17, 4096).Draw(t, label)
	case cl == "boundary":
		return rapid.SampledFrom(boundaryLens).Draw(t, label)
	case cl == "mid":
		return rapid.IntRange(4097, 31742).Draw(t, label)
	case cl == "big" || !huge:
		return rapid.IntRange(32770, 66000).Draw(t, label)
	default:
		return rapid.IntRange(66001, 200000).Draw(t, label)
	}
}

func genPayload(t *rapid.T, label string, huge bool) Payload {
	return Payload{
		Kind: rapid.SampledFrom([]string{"rand", "rep", "text", "mixed"}).Draw(t, label+"_kind"),
		Len:  genLen(t, label+"_len", huge),
		Seed: rapid.Uint64Range(0, 1<<32).Draw(t, label+"_seed"),
	}
}

var sizeAtoms = []int{1, 2, 7, 100, 1023, 1024, 1025, 4096, 16384, 31744, 31745, 31746, 32768, 32769, 65536}

func genSizes(t *rapid.T, label string, whole int) []int {
	switch rapid.IntRange(0, 6).Draw(t, label+"_shape") {
	case 0:
		return []int{whole}
	case 1:
		return []int{1}
	case 2:
		return []int{7}
	case 3:
		return []int{4096}
	case 4:
		return []int{rapid.SampledFrom(sizeAtoms).Draw(t, label+"_first"), whole}
	default:
		return rapid.SliceOfN(rapid.SampledFrom(sizeAtoms), 1, 4).Draw(t, label)
	}
}

func genStream(t *rapid.T, label string, cs CodecSpec, huge bool) Stream {
	s := Stream{Payload: genPayload(t, label+"_payload", huge)}
	s.W.Mode = "write"
	if rapid.IntRange(0, 4).Draw(t, label+"_wmode") == 4 {
		s.W.Mode = "readfrom"
		s.W.SrcChunk = rapid.SampledFrom([]int{0, 1, 7, 1000, 4096, 31745, 40000}).Draw(t, label+"_wsrc")
		s.W.SrcEOF = rapid.Bool().Draw(t, label+"_wsrceof")
		if rapid.Bool().Draw(t, label+"_wpre?") {
			s.W.Pre = rapid.SampledFrom([]int{1, 100, 31744, 31745, 40000}).Draw(t, label+"_wpre")
		}
		if rapid.IntRange(0, 2).Draw(t, label+"_wpost?") == 0 {
			s.W.Post = rapid.SampledFrom([]int{1, 100, 31745, 40000}).Draw(t, label+"_wpost")
		}
		if rapid.IntRange(0, 2).Draw(t, label+"_wsplit?") == 0 {
			s.W.Split = rapid.SampledFrom([]int{1, 100, 31745, 40000}).Draw(t, label+"_wsplit")
		}
	}
	s.W.Chunks = genSizes(t, label+"_chunks", 0)
	s.R.Mode = "read"
	if rapid.IntRange(0, 4).Draw(t, label+"_rmode") == 4 {
		s.R.Mode = "writeto"
		if rapid.Bool().Draw(t, label+"_rpre?") {
			s.R.Pre = rapid.SampledFrom([]int{1, 100, 32767, 32768, 40000}).Draw(t, label+"_rpre")
		}
	}
	s.R.Bufs = genSizes(t, label+"_bufs", -1)
	s.R.Src = rapid.SampledFrom([]string{"reader", "buffer", "chunk", "eofdata"}).Draw(t, label+"_src")
	s.R.PostEOF = rapid.IntRange(0, 2).Draw(t, label+"_postEOF") == 0
	if s.R.Src == "chunk" || s.R.Src == "eofdata" {
		s.R.SrcChunk = rapid.SampledFrom([]int{0, 1, 3, 17, 1000, 4096}).Draw(t, label+"_srcchunk")
	}
	return s
}

var histOps = []string{"ok", "abandon_read", "abandon_read", "trunc_read", "trunc_read", "corrupt_read", "garbage_read", "write_err", "write_err", "empty_writer", "empty_read"}

func genHist(t *rapid.T, min, max int) []HistStep {
	n := rapid.IntRange(min, max).Draw(t, "history_len")
	hs := make([]HistStep, n)
	for i := range hs {
		l := fmt.Sprintf("h%d", i)
		hs[i] = HistStep{
			Op:         rapid.SampledFrom(histOps).Draw(t, l+"_op"),
			Payload:    genPayload(t, l+"_payload", false),
			Pos:        rapid.IntRange(0, 1000).Draw(t, l+"_pos"),
			N:          rapid.IntRange(1, 3).Draw(t, l+"_n"),
			Buf:        rapid.SampledFrom([]int{-1, 1, 7, 4096, 1000}).Draw(t, l+"_buf"),
			CloseTwice: rapid.IntRange(0, 2).Draw(t, l+"_close2") == 2,
			Sibling:    rapid.IntRange(0, 3).Draw(t, l+"_sibling") == 3,
			ViaWriteTo: rapid.IntRange(0, 3).Draw(t, l+"_viawt") == 3,
		}
		if hs[i].Buf == 1 && hs[i].Payload.Len > 40000 {
			hs[i].Buf = 7
		}
	}
	return hs
}

func genRef(t *rapid.T, cs CodecSpec) RefEnc {
	r := RefEnc{Members: 1}
	switch cs.Name {
	case "gzip":
		r.Variant = "std"
		r.Level = rapid.IntRange(0, 4).Draw(t, "ref_level")
		r.Flags = rapid.IntRange(0, 3).Draw(t, "ref_flags")
		r.Members = rapid.SampledFrom([]int{1, 1, 2, 3}).Draw(t, "ref_members")
		r.Blocks = genSizes(t, "ref_blocks", 0)
	case "lz4":
		r.Variant = "frame"
		r.Level = rapid.IntRange(0, 3).Draw(t, "ref_level")
		r.Flags = rapid.IntRange(0, 63).Draw(t, "ref_flags")
		r.Blocks = genSizes(t, "ref_blocks", 0)
	case "zstd":
		r.Variant = rapid.SampledFrom([]string{"stream", "stream", "all"}).Draw(t, "ref_variant")
		r.Level = rapid.SampledFrom([]int{0, 1, 1, 2, 0, 1, 2, 3}).Draw(t, "ref_level")
		r.Flags = rapid.IntRange(0, 3).Draw(t, "ref_flags")
		r.Members = rapid.SampledFrom([]int{1, 1, 1, 2, 3}).Draw(t, "ref_members")
		r.Blocks = genSizes(t, "ref_blocks", 0)
	default:
		r.Variant = rapid.SampledFrom([]string{"raw", "raw", "xerial", "xerial", "xerial", "xerial-lib"}).Draw(t, "ref_variant")
		if r.Variant == "xerial" {
			r.Blocks = genSizes(t, "ref_blocks", 0)
		}
	}
	return r
}

func genStreams(t *rapid.T, cs CodecSpec, max int) []Stream {
	n := rapid.SampledFrom([]int{1, 1, 1, 2, 2, 3}[:2*max]).Draw(t, "streams")
	ss := make([]Stream, n)
	for i := range ss {
		ss[i] = genStream(t, fmt.Sprintf("s%d", i), cs, n == 1)
	}
	return ss
}

func TestRoundTrip(t *testing.T) {
	pin()
	rapid.Check(t, func(t *rapid.T) {
		cs := genCodec(t)
		c := Case{Codec: cs, Streams: genStreams(t, cs, 2), History: genHist(t, 0, 1)}
		runRoundTrip(t, c)
	})
}

func TestReferenceInterop(t *testing.T) {
	pin()
	rapid.Check(t, func(t *rapid.T) {
		cs := genCodec(t)
		c := Case{Codec: cs, UseRef: true, Ref: genRef(t, cs), Streams: genStreams(t, cs, 2), History: genHist(t, 0, 2)}
		runInterop(t, c)
	})
}

func TestHistoryIndependence(t *testing.T) {
	pin()
	rapid.Check(t, func(t *rapid.T) {
		cs := genCodec(t)
		c := Case{Codec: cs, History: genHist(t, 1, 4), Streams: genStreams(t, cs, 3)}
		if rapid.IntRange(0, 3).Draw(t, "use_ref") == 3 {
			c.UseRef, c.Ref = true, genRef(t, cs)
		}
		runHistory(t, c)
	})
}

func TestConcurrent(t *testing.T) {
	rapid.Check(t, func(t *rapid.T) {
		cs := genCodec(t)
		if cs.Name == "zstd" && cs.Level > 7 {
			cs.Level = 7 // eight "best" encoders at once cost ~300 MB
		}
		c := Case{Codec: cs, Goroutines: rapid.IntRange(2, 8).Draw(t, "goroutines"), PerG: rapid.IntRange(1, 4).Draw(t, "per_g")}
		ns := rapid.IntRange(1, 3).Draw(t, "streams")
		for i := 0; i < ns; i++ {
			s := genStream(t, fmt.Sprintf("s%d", i), cs, false)
			if s.Payload.Len > 70000 {
				s.Payload.Len = 70000
			}
			c.Streams = append(c.Streams, s)
		}
		c.History = genHist(t, 0, 3)
		if rapid.IntRange(0, 4).Draw(t, "use_ref") == 4 {
			c.UseRef, c.Ref = true, genRef(t, cs)
		}
		runConcurrent(t, c)
	})
}

// ---------------------------------------------------------------------------
// Native fuzzing: bytes -> Case.

type bsrc struct {
	b []byte
	i int
}

func (s *bsrc) byte() int {
	if s.i < len(s.b) {
		s.i++
		return int(s.b[s.i-1])
	}
	return 0
}

func (s *bsrc) pick(n int) int { return s.byte() % n }

func (s *bsrc) u16() int { return s.byte()<<8 | s.byte() }

func (s *bsrc) length() int {
	switch cl := s.pick(8); cl {
	case 0, 1:
		return 1 + s.pick(16)
	case 2, 3:
		return 17 + s.u16()%4080
	case 4, 5:
		return boundaryLens[s.pick(len(boundaryLens))]
	case 6:
		return 4097 + s.u16()%27000
	default:
		return 32770 + s.u16()%40000
	}
}

func (s *bsrc) payload() Payload {
	return Payload{Kind: []string{"rand", "rep", "text", "mixed"}[s.pick(4)], Len: s.length(), Seed: uint64(s.u16())}
}

func (s *bsrc) sizes(whole int) []int {
	n := 1 + s.pick(3)
	out := make([]int, n)
	for i := range out {
		if k := s.pick(len(sizeAtoms) + 1); k == len(sizeAtoms) {
			out[i] = whole
		} else {
			out[i] = sizeAtoms[k]
		}
	}
	return out
}

func decodeCase(data []byte) Case {
	s := &bsrc{b: data}
	var c Case
	c.Codec.Name = []string{"snappy", "gzip", "lz4", "zstd"}[s.pick(4)]
	f := s.byte()
	c.Codec.Shared = f&7 == 7
	c.Codec.Unframed = f&8 != 0
	switch c.Codec.Name {
	case "gzip":
		c.Codec.Level = []int{0, -1, 1, 6, 9, -2, -3, 5}[(f>>4)&7]
	case "snappy":
		c.Codec.Level = (f >> 4) & 3
	case "zstd":
		c.Codec.Level = []int{0, 1, 3, 7}[(f>>4)&3]
	}
	nh := s.pick(4)
	for i := 0; i < nh; i++ {
		g := s.byte()
		c.History = append(c.History, HistStep{
			Op: histOps[s.pick(len(histOps))], Payload: s.payload(), Pos: s.u16() % 1001, N: 1 + g&1,
			Buf: []int{-1, 7, 4096, 1000}[(g>>1)&3], CloseTwice: g&8 != 0, Sibling: g&0x30 == 0x30, ViaWriteTo: g&0x40 != 0,
		})
	}
	ns := 1 + s.pick(2)
	for i := 0; i < ns; i++ {
		st := Stream{Payload: s.payload()}
		g := s.byte()
		st.W.Mode, st.R.Mode = "write", "read"
		if g&3 == 3 {
			st.W.Mode = "readfrom"
			st.W.SrcChunk = []int{0, 1, 7, 4096}[(g>>2)&3]
			st.W.SrcEOF = g&16 != 0
			st.W.Pre = []int{0, 1, 31745, 40000}[s.pick(4)]
		}
		st.W.Chunks = s.sizes(0)
		if g&0x60 == 0x60 {
			st.R.Mode = "writeto"
			st.R.Pre = []int{0, 1, 32768, 40000}[s.pick(4)]
		}
		st.R.Bufs = s.sizes(-1)
		st.R.Src = []string{"reader", "buffer", "chunk", "eofdata"}[s.pick(4)]
		st.R.SrcChunk = []int{0, 1, 17, 4096}[s.pick(4)]
		c.Streams = append(c.Streams, st)
	}
	return c
}

func FuzzRoundTrip(f *testing.F) {
	f.Add([]byte{0, 0, 0, 0, 5, 0, 0, 0, 0, 1})
	f.Add([]byte{0, 8, 1, 0, 3, 2, 4, 8, 0, 9, 1, 200, 1, 0, 4, 9, 0, 7, 3, 2, 0, 1, 2, 1})
	f.Add([]byte{1, 0x10, 2, 0x18, 2, 1, 4, 7, 0, 1, 3, 0, 0x29, 4, 1, 6, 0, 2, 1, 1, 7, 9, 0, 44, 0x63, 2, 1, 2, 3})
	f.Add([]byte{2, 0, 1, 0x08, 7, 3, 7, 0x80, 0x10, 0, 3, 0, 3, 0, 7, 1, 2, 3, 0x7f, 1, 1, 2, 0, 9, 3, 2})
	f.Add([]byte{3, 0x20, 3, 0x4a, 4, 0, 6, 1, 0, 0, 2, 0x0b, 8, 1, 5, 9, 1, 77, 2, 0, 5, 2, 0xff, 0xff, 1, 0, 0x6f, 3, 1, 1, 2, 3, 1})
	f.Fuzz(func(t *testing.T, data []byte) {
		runRoundTrip(t, decodeCase(data))
	})
}
