// Package c04 decides the protocol-package half of property C04: every frame
// is the canonical Kafka encoding; decoding inverts it.  (The hand-written Conn
// codec is checked in c04conn_test.go through the fake broker.)
package c04

import (
	"bufio"
	"bytes"
	"encoding/hex"
	"fmt"
	"io"
	"reflect"
	"testing"

	"github.com/segmentio/kafka-go/protocol"
	"pgregory.net/rapid"

	"verif/internal/ev"
	"verif/internal/libtypes"
	"verif/refcodec"
)

func TestMain(m *testing.M) { ev.Main(m, "C04") }

// frameCase is the replayable form of one case: the reference encoding of the
// generated value (the value tree is recovered by reference-decoding it).
type frameCase struct {
	API      string `json:"api"`
	Key      int16  `json:"key"`
	Version  int16  `json:"version"`
	Dir      string `json:"dir"` // request | response | roundtrip-request | roundtrip-response
	FrameHex string `json:"frame_hex"`
	Corr     int32  `json:"correlation_id"`
	ClientID string `json:"client_id"`
}

func init() {
	ev.Register("frame", func(tb ev.TB, c frameCase) {
		a := refcodec.MustLookup(c.Key)
		fr, _ := hex.DecodeString(c.FrameHex)
		switch c.Dir {
		case "request":
			_, _, body, err := refcodec.DecodeRequest(fr)
			if err != nil {
				tb.Fatalf("replay: %v", err)
			}
			checkRequest(tb, a, c.Version, c.Corr, c.ClientID, body)
		case "response":
			checkResponseFrame(tb, a, c.Version, c.Corr, fr)
		case "roundtrip-request":
			_, _, body, err := refcodec.DecodeRequest(fr)
			if err != nil {
				tb.Fatalf("replay: %v", err)
			}
			checkRoundTrip(tb, a, c.Version, body, true)
		case "roundtrip-response":
			_, body, err := refcodec.DecodeResponse(a, c.Version, fr)
			if err != nil {
				tb.Fatalf("replay: %v", err)
			}
			checkRoundTrip(tb, a, c.Version, body, false)
		}
	})
}

func TestReplay(t *testing.T) { ev.RunReplay(t) }

func genAPI(t *rapid.T) (*refcodec.API, int16) {
	a := &refcodec.APIs[rapid.IntRange(0, len(refcodec.APIs)-1).Draw(t, "api")]
	ver := int16(rapid.IntRange(int(a.Min), int(a.Max)).Draw(t, "version"))
	return a, ver
}

// produce requests carry one batch with offsets 0..n-1 (what a producer sends)
func genProduceRecords(ver int16) func(t *rapid.T, path string) *refcodec.RecordSet {
	return func(t *rapid.T, path string) *refcodec.RecordSet {
		magic := int8(2)
		if ver < 3 {
			magic = 1
		}
		n := rapid.IntRange(1, 5).Draw(t, "nRecords")
		recs := refcodec.GenRecords(t, n, 0, magic, false, rapid.IntRange(0, 30).Draw(t, "big") == 0)
		codec := int8(rapid.SampledFrom([]int{0, 0, 1, 2, 3, 4}).Draw(t, "codec"))
		if magic == 2 {
			b := refcodec.MakeBatchV2(recs, codec)
			b.LeaderEpoch = -1
			return &refcodec.RecordSet{Batches: []refcodec.Batch{b}}
		}
		return &refcodec.RecordSet{Batches: []refcodec.Batch{{Magic: 1, Codec: codec, Records: recs, RelativeInner: true, SnappyXerial: true}}}
	}
}

// fetch responses carry any valid layout
func genFetchRecords(ver int16) func(t *rapid.T, path string) *refcodec.RecordSet {
	return func(t *rapid.T, path string) *refcodec.RecordSet {
		if rapid.IntRange(0, 6).Draw(t, "nullRecords") == 0 {
			return nil
		}
		rs := &refcodec.RecordSet{}
		off := int64(rapid.IntRange(0, 1000).Draw(t, "base"))
		nb := rapid.IntRange(1, 3).Draw(t, "nBatches")
		for i := 0; i < nb; i++ {
			magic := int8(2)
			if ver < 4 {
				magic = int8(rapid.IntRange(0, 1).Draw(t, "magic"))
			}
			n := rapid.IntRange(1, 4).Draw(t, "nRecords")
			recs := refcodec.GenRecords(t, n, off, magic, false, false)
			off = recs[len(recs)-1].Offset + 1
			codec := int8(rapid.SampledFrom([]int{0, 0, 1, 2, 3, 4}).Draw(t, "codec"))
			if magic == 2 {
				b := refcodec.MakeBatchV2(recs, codec)
				b.SnappyXerial = rapid.Bool().Draw(t, "xerial")
				rs.Batches = append(rs.Batches, b)
			} else {
				if magic == 0 {
					codec = 0 // compressed magic-0 wrappers (absolute inner offsets) are outside the statement
				}
				rs.Batches = append(rs.Batches, refcodec.Batch{Magic: magic, Codec: codec, Records: recs, RelativeInner: true, SnappyXerial: rapid.Bool().Draw(t, "xerial")})
			}
		}
		return rs
	}
}

func recsFor(a *refcodec.API, ver int16, request bool) func(t *rapid.T, path string) *refcodec.RecordSet {
	if a.Key == 0 && request {
		return genProduceRecords(ver)
	}
	if a.Key == 1 && !request {
		return genFetchRecords(ver)
	}
	return nil
}

func shapeOf(v any) string {
	switch x := v.(type) {
	case map[string]any:
		s := "{"
		for _, k := range sortedKeys(x) {
			s += k + ":" + shapeOf(x[k]) + ","
		}
		return s + "}"
	case []any:
		s := fmt.Sprintf("[%d", len(x))
		if len(x) > 0 {
			s += shapeOf(x[0])
		}
		return s + "]"
	case nil:
		return "N"
	case string:
		if x == "" {
			return "e"
		}
		return "s"
	case []byte:
		if len(x) == 0 {
			return "e"
		}
		return "b"
	case int64:
		if x == 0 {
			return "0"
		}
		return "i"
	case bool:
		if x {
			return "T"
		}
		return "F"
	case *refcodec.RecordSet:
		return fmt.Sprintf("R%d", len(x.Batches))
	}
	return "?"
}

func sortedKeys(m map[string]any) []string {
	ks := make([]string, 0, len(m))
	for k := range m {
		ks = append(ks, k)
	}
	for i := range ks {
		for j := i + 1; j < len(ks); j++ {
			if ks[j] < ks[i] {
				ks[i], ks[j] = ks[j], ks[i]
			}
		}
	}
	return ks
}

func nonDefault(v any) bool {
	switch x := v.(type) {
	case map[string]any:
		for _, e := range x {
			if nonDefault(e) {
				return true
			}
		}
	case []any:
		return len(x) > 0
	case string:
		return x != ""
	case []byte:
		return len(x) > 0
	case int64:
		return x != 0
	case bool:
		return x
	case float64:
		return x != 0
	case *refcodec.RecordSet:
		return x != nil
	}
	return false
}

func record(a *refcodec.API, ver int16, dir string, body map[string]any) {
	flex := "nonflex"
	if (dir == "request" && a.ReqFlexible(ver)) || (dir != "request" && a.RespFlexible(ver)) {
		flex = "flexible"
	}
	ev.Case(fmt.Sprintf("%s/%d/%s/%s", a.Name, ver, dir, shapeOf(body)), nonDefault(body), dir, flex)
	ev.Count("api_"+a.Name, 1)
}

// ---------------------------------------------------------------------------
// (1) requests: the library encodes, the reference decodes

func checkRequest(tb ev.TB, a *refcodec.API, ver int16, corr int32, clientID string, body map[string]any) {
	cas := func() frameCase {
		cid := clientID
		fr, _, _ := refcodec.EncodeRequest(a, ver, corr, &cid, body, nil)
		return frameCase{a.Name, a.Key, ver, "request", hex.EncodeToString(fr), corr, clientID}
	}
	sig := func(kind string) string { return fmt.Sprintf("req-%s/%s/v%d", kind, a.Name, ver) }
	msg := libtypes.NewRequest(a.Key)
	if err := refcodec.ToStruct(a.Req, ver, body, reflect.ValueOf(msg), libtypes.RecordsHook()); err != nil {
		tb.Fatalf("harness: cannot populate %T: %v", msg, err)
	}
	var buf bytes.Buffer
	if err := protocol.WriteRequest(&buf, ver, corr, clientID, msg); err != nil {
		ev.Fail(tb, "frame", sig("write-error"), cas(), "%s v%d WriteRequest failed: %v", a.Name, ver, err)
		return
	}
	got := buf.Bytes()
	h, _, back, err := refcodec.DecodeRequest(got)
	if err != nil {
		ev.Fail(tb, "frame", sig("decode"), cas(), "%s v%d: the reference decoder rejects the emitted request: %v\nframe=%x", a.Name, ver, err, got)
		return
	}
	gotCID := ""
	if h.ClientID != nil {
		gotCID = *h.ClientID
	} // an unset ("") client id may travel as null
	if h.ApiKey != a.Key || h.ApiVersion != ver || h.CorrelationID != corr || gotCID != clientID || (h.ClientID == nil && clientID != "") {
		ev.Fail(tb, "frame", sig("header"), cas(), "%s v%d: header %+v, want key=%d version=%d corr=%d client=%q", a.Name, ver, h, a.Key, ver, corr, clientID)
		return
	}
	if d := refcodec.Diff(a.Req, ver, body, back, false); d != "" {
		ev.Fail(tb, "frame", sig("value"), cas(), "%s v%d: emitted request decodes to different field values: %s", a.Name, ver, d)
		return
	}
	if !a.ReqFlexible(ver) && a.Key != 0 {
		cid := clientID
		want, _, err := refcodec.EncodeRequest(a, ver, corr, &cid, body, nil)
		if err != nil {
			tb.Fatalf("harness: reference encode: %v", err)
		}
		if !bytes.Equal(want, got) {
			ev.Fail(tb, "frame", sig("bytes"), cas(), "%s v%d: emitted bytes differ from the canonical encoding\n got=%x\nwant=%x", a.Name, ver, got, want)
		}
	}
}

func TestRequestEncode(t *testing.T) {
	rapid.Check(t, func(t *rapid.T) {
		a, ver := genAPI(t)
		body := refcodec.GenBody(t, a.Req, ver, refcodec.ForLibEncode, 0, recsFor(a, ver, true))
		corr := int32(rapid.Int32().Draw(t, "corr"))
		cid := rapid.StringMatching(`[a-zA-Z0-9\-_.]{0,20}`).Draw(t, "clientID")
		checkRequest(t, a, ver, corr, cid, body)
		record(a, ver, "request", body)
		ev.SampleTagged("request", 2, map[string]any{"api": a.Name, "version": ver, "body_shape": shapeOf(body)})
	})
}

// ---------------------------------------------------------------------------
// (2) responses: the reference encodes, the library decodes

var sentinel = func() []byte {
	fr, _, _ := refcodec.EncodeResponse(refcodec.MustLookup(12), 0, 0x5e171e1, map[string]any{"ErrorCode": int64(27)}, nil)
	return fr
}()

type chunkReader struct {
	r io.Reader
	n int
}

func (c *chunkReader) Read(p []byte) (int, error) {
	if len(p) > c.n {
		p = p[:c.n]
	}
	return c.r.Read(p)
}

func checkResponseFrame(tb ev.TB, a *refcodec.API, ver int16, corr int32, frame []byte) {
	cas := frameCase{a.Name, a.Key, ver, "response", hex.EncodeToString(frame), corr, ""}
	sig := func(kind string) string { return fmt.Sprintf("resp-%s/%s/v%d", kind, a.Name, ver) }
	_, want, err := refcodec.DecodeResponse(a, ver, frame)
	if err != nil {
		tb.Fatalf("harness: reference cannot decode its own frame: %v", err)
	}
	stream := append(append([]byte{}, frame...), sentinel...)
	// protocol.Conn reads through a bufio.Reader; small chunks exercise refills
	br := bufio.NewReaderSize(&chunkReader{bytes.NewReader(stream), 1 + int(uint32(corr)%97)}, 64)
	gotCorr, msg, err := protocol.ReadResponse(br, protocol.ApiKey(a.Key), ver)
	if err != nil {
		ev.Fail(tb, "frame", sig("read-error"), cas, "%s v%d ReadResponse failed on a well-formed frame: %v\nframe=%x", a.Name, ver, err, frame)
		return
	}
	if gotCorr != corr {
		ev.Fail(tb, "frame", sig("corr"), cas, "%s v%d: correlation id %d, want %d", a.Name, ver, gotCorr, corr)
		return
	}
	got, err := refcodec.FromStruct(a.Resp, ver, reflect.ValueOf(msg), libtypes.RecordsHook())
	if err != nil {
		ev.Fail(tb, "frame", sig("records"), cas, "%s v%d: reading decoded records: %v", a.Name, ver, err)
		return
	}
	if d := refcodec.Diff(a.Resp, ver, want, got, true); d != "" {
		ev.Fail(tb, "frame", sig("value"), cas, "%s v%d: decoded field values differ from what the broker encoded: %s", a.Name, ver, d)
		return
	}
	// exactly one frame consumed: the sentinel must follow intact
	c2, m2, err := protocol.ReadResponse(br, protocol.Heartbeat, 0)
	if err != nil || c2 != 0x5e171e1 {
		ev.Fail(tb, "frame", sig("framing"), cas, "%s v%d: after decoding, the next frame is not read intact (corr=%#x err=%v): the decoder consumed more or less than one frame", a.Name, ver, c2, err)
		return
	}
	if code := reflect.ValueOf(m2).Elem().FieldByName("ErrorCode").Int(); code != 27 {
		ev.Fail(tb, "frame", sig("framing"), cas, "%s v%d: sentinel frame decoded with error code %d", a.Name, ver, code)
	}
}

func TestResponseDecode(t *testing.T) {
	rapid.Check(t, func(t *rapid.T) {
		a, ver := genAPI(t)
		body := refcodec.GenBody(t, a.Resp, ver, refcodec.ForLibDecode, 0, recsFor(a, ver, false))
		corr := int32(rapid.Int32().Draw(t, "corr"))
		opt := &refcodec.EncOpts{OmitDefaultTagged: rapid.Bool().Draw(t, "omitDefaultTagged")}
		if a.RespFlexible(ver) {
			opt.UnknownTags = refcodec.GenUnknownTags(t)
		}
		frame, _, err := refcodec.EncodeResponse(a, ver, corr, body, opt)
		if err != nil {
			t.Fatalf("harness: %v", err)
		}
		checkResponseFrame(t, a, ver, corr, frame)
		record(a, ver, "response", body)
		ev.SampleTagged("response", 2, map[string]any{"api": a.Name, "version": ver, "frame_hex": hex.EncodeToString(frame[:min(len(frame), 120)])})
	})
}

// ---------------------------------------------------------------------------
// (3) round trip through the library alone

func checkRoundTrip(tb ev.TB, a *refcodec.API, ver int16, body map[string]any, request bool) {
	dir, fs := "roundtrip-response", a.Resp
	if request {
		dir, fs = "roundtrip-request", a.Req
	}
	mk := func() frameCase {
		var fr []byte
		if request {
			cid := "rt"
			fr, _, _ = refcodec.EncodeRequest(a, ver, 1, &cid, body, nil)
		} else {
			fr, _, _ = refcodec.EncodeResponse(a, ver, 1, body, nil)
		}
		return frameCase{a.Name, a.Key, ver, dir, hex.EncodeToString(fr), 1, "rt"}
	}
	sig := func(kind string) string { return fmt.Sprintf("%s-%s/%s/v%d", dir, kind, a.Name, ver) }
	var msg protocol.Message
	if request {
		msg = libtypes.NewRequest(a.Key)
	} else {
		msg = libtypes.NewResponse(a.Key)
	}
	if err := refcodec.ToStruct(fs, ver, body, reflect.ValueOf(msg), libtypes.RecordsHook()); err != nil {
		tb.Fatalf("harness: %v", err)
	}
	var buf bytes.Buffer
	var back protocol.Message
	var err error
	if request {
		if err = protocol.WriteRequest(&buf, ver, 77, "rt", msg); err == nil {
			var v int16
			var c int32
			var cid string
			v, c, cid, back, err = protocol.ReadRequest(bufio.NewReader(&buf))
			if err == nil && (v != ver || c != 77 || cid != "rt") {
				err = fmt.Errorf("header came back as version=%d corr=%d client=%q", v, c, cid)
			}
		}
	} else {
		if err = protocol.WriteResponse(&buf, ver, 77, msg); err == nil {
			var c int32
			c, back, err = protocol.ReadResponse(bufio.NewReader(&buf), protocol.ApiKey(a.Key), ver)
			if err == nil && c != 77 {
				err = fmt.Errorf("correlation id came back as %d", c)
			}
		}
	}
	if err != nil {
		ev.Fail(tb, "frame", sig("error"), mk(), "%s v%d %s: %v", a.Name, ver, dir, err)
		return
	}
	got, err := refcodec.FromStruct(fs, ver, reflect.ValueOf(back), libtypes.RecordsHook())
	if err != nil {
		ev.Fail(tb, "frame", sig("records"), mk(), "%s v%d %s: %v", a.Name, ver, dir, err)
		return
	}
	if d := refcodec.Diff(fs, ver, body, got, true); d != "" {
		ev.Fail(tb, "frame", sig("value"), mk(), "%s v%d %s: decode(encode(v)) != v: %s", a.Name, ver, dir, d)
		return
	}
	if a.Key == 0 || a.Key == 1 {
		return
	}
	// the same value through protocol.Marshal / protocol.Unmarshal (the entry points that the group protocol's metadata goes
	// through), with decodes of cut-off prefixes in between: a decode that fails leaves nothing behind for the next one
	b, err := protocol.Marshal(ver, reflect.ValueOf(msg).Elem().Interface())
	if err != nil {
		ev.Fail(tb, "frame", sig("marshal-error"), mk(), "%s v%d %s: Marshal: %v", a.Name, ver, dir, err)
		return
	}
	fresh := func() protocol.Message {
		if request {
			return libtypes.NewRequest(a.Key)
		}
		return libtypes.NewResponse(a.Key)
	}
	// the bytes belong to the caller: another Marshal (of an empty message of the same type, and of the same value) leaves
	// them alone
	keep := append([]byte{}, b...)
	_, _ = protocol.Marshal(ver, reflect.ValueOf(fresh()).Elem().Interface())
	if !bytes.Equal(b, keep) {
		ev.Fail(tb, "frame", sig("marshal-result-not-private"), mk(), "%s v%d %s: the bytes returned by Marshal changed when Marshal was called again for another value: were % x, are % x", a.Name, ver, dir, keep, b)
		return
	}
	if again, err := protocol.Marshal(ver, reflect.ValueOf(msg).Elem().Interface()); err != nil || !bytes.Equal(again, keep) {
		ev.Fail(tb, "frame", sig("marshal-not-deterministic"), mk(), "%s v%d %s: Marshal of the same value gave other bytes the second time: % x, then % x (err %v)", a.Name, ver, dir, keep, again, err)
		return
	}
	for _, cut := range []int{len(b) / 2, len(b) - 1} {
		if cut >= 0 && cut < len(b) {
			_ = protocol.Unmarshal(b[:cut], ver, fresh())
		}
	}
	back2 := fresh()
	if err := protocol.Unmarshal(b, ver, back2); err != nil {
		ev.Fail(tb, "frame", sig("unmarshal-error"), mk(), "%s v%d %s: Unmarshal(Marshal(v)) after Unmarshal calls on cut-off prefixes of the same bytes: %v", a.Name, ver, dir, err)
		return
	}
	got2, err := refcodec.FromStruct(fs, ver, reflect.ValueOf(back2), libtypes.RecordsHook())
	if err != nil {
		ev.Fail(tb, "frame", sig("records"), mk(), "%s v%d %s: %v", a.Name, ver, dir, err)
		return
	}
	if d := refcodec.Diff(fs, ver, body, got2, true); d != "" {
		ev.Fail(tb, "frame", sig("unmarshal-value"), mk(), "%s v%d %s: Unmarshal(Marshal(v)) != v: %s", a.Name, ver, dir, d)
	}
}

func TestRoundTrip(t *testing.T) {
	rapid.Check(t, func(t *rapid.T) {
		a, ver := genAPI(t)
		request := rapid.Bool().Draw(t, "request")
		fs := a.Resp
		if request {
			fs = a.Req
		}
		// the library's own writer emits one batch per record set with offsets 0..n-1
		body := refcodec.GenBody(t, fs, ver, refcodec.ForLibEncode, 0, func(t *rapid.T, p string) *refcodec.RecordSet {
			v := ver
			if a.Key == 1 {
				v = 3 // fetch responses: any magic the writer supports; use 2
				if ver < 4 {
					v = 0
				}
			}
			return genProduceRecords(v)(t, p)
		})
		checkRoundTrip(t, a, ver, body, request)
		dir := "roundtrip-response"
		if request {
			dir = "roundtrip-request"
		}
		record(a, ver, dir, body)
	})
}

// TestProducePageBoundary: produce requests whose second record set starts just below a multiple of 64 KiB in the encoder's
// buffer, swept byte by byte: the fields the encoder fills in afterwards (batch length, checksum, counts) then straddle or
// touch the page boundary.
func TestProducePageBoundary(t *testing.T) {
	a := refcodec.MustLookup(0)
	n := 0
	for _, ver := range []int16{2, 3, 7, 8} {
		if ver < a.Min || ver > a.Max {
			continue
		}
		magic := int8(2)
		if ver < 3 {
			magic = 1
		}
		step := 1
		if ev.Tier() != "thorough" {
			step = 3
		}
		for pages := 1; pages <= 2; pages++ {
			for delta := 0; delta <= 240; delta += step {
				big := make([]byte, pages*65536-delta)
				for i := range big {
					big[i] = byte(i*11 + delta)
				}
				mk := func(recs []refcodec.Record) *refcodec.RecordSet {
					if magic == 2 {
						return &refcodec.RecordSet{Batches: []refcodec.Batch{refcodec.MakeBatchV2(recs, 0)}}
					}
					return &refcodec.RecordSet{Batches: []refcodec.Batch{{Magic: 1, Records: recs, RelativeInner: true}}}
				}
				rs1 := mk([]refcodec.Record{{Offset: 0, Timestamp: 1000, KeyNull: true, Value: big}})
				rs2 := mk([]refcodec.Record{{Offset: 0, Timestamp: 2000, Key: []byte("k"), Value: []byte("second partition")}, {Offset: 1, Timestamp: 2001, KeyNull: true, Value: []byte("x")}})
				body := map[string]any{"Acks": int64(-1), "Timeout": int64(1000), "Topics": []any{map[string]any{"Topic": "t", "Partitions": []any{
					map[string]any{"Partition": int64(0), "RecordSet": rs1}, map[string]any{"Partition": int64(1), "RecordSet": rs2}}}}}
				if ver >= 3 {
					body["TransactionalID"] = nil
				}
				checkRequest(t, a, ver, int32(1000+delta), "c04", body)
				n++
			}
		}
	}
	ev.Bulk(int64(n), "produce_page_boundary_sweep")
}
