package c04

// The hand-written Conn codec half of property C04: every request a Conn (and
// the ConsumerGroup built on it) emits is decoded by the fake broker with the
// strict reference decoder (size prefix, header, canonical body, no trailing
// bytes) and its field values are compared with what the operation asked for.

import (
	"context"
	"encoding/binary"
	"errors"
	"fmt"
	"io"
	"sort"
	"strings"
	"testing"
	"time"

	kafka "github.com/segmentio/kafka-go"
	"pgregory.net/rapid"

	"verif/fakecluster"
	"verif/internal/ev"
	"verif/memnet"
	"verif/refcodec"
)

type connMsg struct {
	KeyLen   int `json:"key_len"` // -1 nil
	ValueLen int `json:"value_len"`
	Headers  int `json:"headers"`
}

type topicCfg struct {
	Name        string   `json:"name"`
	Partitions  int      `json:"partitions"`
	Replication int      `json:"replication"`
	Assign      [][]int  `json:"assign,omitempty"`  // per partition index: brokers
	Configs     []string `json:"configs,omitempty"` // k=v
}

type connOp struct {
	Kind       string     `json:"kind"`
	Topics     []string   `json:"topics,omitempty"`
	Offset     int64      `json:"offset,omitempty"`
	TimeMs     int64      `json:"time_ms,omitempty"`
	MinBytes   int        `json:"min_bytes,omitempty"`
	MaxBytes   int        `json:"max_bytes,omitempty"`
	Isolation  int        `json:"isolation,omitempty"`
	MaxWaitMs  int        `json:"max_wait_ms,omitempty"`
	DeadlineMs int        `json:"deadline_ms,omitempty"`
	Acks       int        `json:"acks,omitempty"`
	Msgs       []connMsg  `json:"msgs,omitempty"`
	Codec      int        `json:"codec,omitempty"`
	Create     []topicCfg `json:"create,omitempty"`
}

type connCase struct {
	ClientID    string `json:"client_id"`
	ProduceMax  int    `json:"produce_max"`
	FetchMax    int    `json:"fetch_max"`
	MetadataMax int    `json:"metadata_max"`
	// CreateMax / DeleteMax: highest CreateTopics / DeleteTopics version the broker advertises (0 in old cases = the fake's default)
	CreateMax int      `json:"create_max,omitempty"`
	Aborted   int      `json:"aborted,omitempty"` // aborted transactions the leader reports for t0/1 to read_committed fetches
	DeleteMax int      `json:"delete_max,omitempty"`
	Leader    bool     `json:"leader"` // DialLeader (conn bound to t0/1) or plain Dial
	Chunk     int      `json:"chunk"`  // >0: the broker delivers fetch responses in reads of at most this many bytes
	Ops       []connOp `json:"ops"`
}

type groupCase struct {
	ClientID      string           `json:"client_id"`
	GroupID       string           `json:"group_id"`
	Topics        []string         `json:"topics"`
	Balancers     []string         `json:"balancers"`
	SessionMs     int              `json:"session_ms"`
	RebalanceMs   int              `json:"rebalance_ms"`
	RetentionMs   int              `json:"retention_ms"` // 0 = unset
	Commits       map[string][]int `json:"commits"`      // topic -> offset per partition index (commit partition i at offset)
	SecondMember  bool             `json:"second_member"`
	OffsetFetchHi int              `json:"offset_fetch_max"`
}

func init() {
	ev.Register("conn-requests", func(tb ev.TB, c connCase) { runConnRequests(tb, c) })
	ev.Register("group-requests", func(tb ev.TB, c groupCase) { runGroupRequests(tb, c) })
}

func bi(m map[string]any, k string) int64 {
	switch v := m[k].(type) {
	case int64:
		return v
	case int:
		return int64(v)
	case int32:
		return int64(v)
	case int16:
		return int64(v)
	case int8:
		return int64(v)
	case bool:
		if v {
			return 1
		}
	}
	return 0
}

func bs(m map[string]any, k string) (string, bool) {
	switch v := m[k].(type) {
	case string:
		return v, true
	case *string:
		if v == nil {
			return "", false
		}
		return *v, true
	}
	return "", false
}

func ba(m map[string]any, k string) []map[string]any {
	var out []map[string]any
	if a, ok := m[k].([]any); ok {
		for _, e := range a {
			if mm, ok := e.(map[string]any); ok {
				out = append(out, mm)
			}
		}
	}
	return out
}

func bstrings(m map[string]any, k string) ([]string, bool) {
	a, ok := m[k].([]any)
	if !ok || m[k] == nil {
		return nil, false
	}
	out := []string{}
	for _, e := range a {
		switch v := e.(type) {
		case string:
			out = append(out, v)
		case map[string]any:
			// arrays of single-field structs are decoded as maps
			for _, x := range v {
				if s, ok := x.(string); ok {
					out = append(out, s)
				}
			}
		}
	}
	return out, true
}

// genericChecks: every request of the journal is a well-formed frame with the right header.
func genericChecks(cl *fakecluster.Cluster, clientID string, fail func(sig, format string, args ...any)) bool {
	if clientID == "" {
		clientID = kafka.DefaultClientID // documented default of Dialer.ClientID
	}
	if vs := cl.Violations(); len(vs) > 0 {
		fail("conn-req/malformed", "the broker's strict decoder rejected a request: %s", vs[0])
		return false
	}
	lastCorr := map[int]int32{}
	for _, ex := range cl.Journal() {
		if ex.DecodeErr != "" {
			fail("conn-req/malformed/"+ex.ApiName, "request seq %d (%s v%d) is not a well-formed frame: %s", ex.Seq, ex.ApiName, ex.Version, ex.DecodeErr)
			return false
		}
		if ex.ClientID != clientID {
			fail("conn-req/client-id/"+ex.ApiName, "request seq %d (%s v%d) carries client id %q, the Dialer was configured with %q", ex.Seq, ex.ApiName, ex.Version, ex.ClientID, clientID)
			return false
		}
		if prev, ok := lastCorr[ex.ConnID]; ok && ex.Corr <= prev {
			fail("conn-req/correlation-id/"+ex.ApiName, "request seq %d on connection %d carries correlation id %d after %d", ex.Seq, ex.ConnID, ex.Corr, prev)
			return false
		}
		lastCorr[ex.ConnID] = ex.Corr
		if b := cl.Broker(ex.BrokerID); b != nil {
			if r, ok := b.Versions[ex.ApiKey]; ok && (ex.Version < r[0] || ex.Version > r[1]) {
				fail("conn-req/version/"+ex.ApiName, "request seq %d uses %s v%d, the broker advertised v%d..v%d", ex.Seq, ex.ApiName, ex.Version, r[0], r[1])
				return false
			}
		}
	}
	return true
}

const writeBaseMs = int64(1_700_000_000_000)

// The Conn adds the fixed size of an empty fetch response to the byte limits it was given (conn.go fetchMinSize), so that
// a message of exactly MaxBytes fits: the limits on the wire are the requested ones plus at most this allowance.
const allowance = 256

func runConnRequests(tb ev.TB, c connCase) (labels []string, nontrivial bool) {
	nw := memnet.New()
	cl := fakecluster.New(nw, 2)
	defer cl.Close()
	cl.CreateTopic("t0", 2)
	cl.CreateTopic("t1", 1)
	var recs []refcodec.Record
	for i := 0; i < 20; i++ {
		// lengths and deltas of 64 and more take two varint bytes
		recs = append(recs, refcodec.Record{Offset: int64(i), Timestamp: int64(1000 + 70*i), Key: []byte(strings.Repeat("k", 60+i)), Value: []byte(fmt.Sprintf("v%d-%s", i, strings.Repeat("x", 190+i))),
			Headers: []refcodec.Header{{Key: "h", Value: []byte(strings.Repeat("y", 62+i))}}})
	}
	cl.AppendBatches("t0", 1, refcodec.MakeBatchV2(recs[:10], 0), refcodec.MakeBatchV2(recs[10:], 0))
	if c.Aborted > 0 {
		// read_committed fetches are answered with a list of aborted transactions in front of the records
		cl.Lock()
		for i := 0; i < c.Aborted; i++ {
			cl.PartitionUnlocked("t0", 1).Aborted = append(cl.PartitionUnlocked("t0", 1).Aborted, [2]int64{int64(7000 + i), int64(i)})
		}
		cl.Unlock()
	}
	if c.Chunk > 0 {
		cl.SetHook(func(cl *fakecluster.Cluster, r *fakecluster.Request) *fakecluster.Action {
			if r.ApiKey == 1 {
				return &fakecluster.Action{Chunk: c.Chunk, Tag: "chunked"}
			}
			return nil
		})
	}
	cl.SetVersions(0, 0, 0, int16(c.ProduceMax))
	cl.SetVersions(0, 1, 0, int16(c.FetchMax))
	cl.SetVersions(0, 3, 0, int16(c.MetadataMax))
	if c.CreateMax > 0 {
		cl.SetVersions(0, 19, 0, int16(c.CreateMax-1))
	}
	if c.DeleteMax > 0 {
		cl.SetVersions(0, 20, 0, int16(c.DeleteMax-1))
	}
	fail := func(sig, format string, args ...any) { ev.Fail(tb, "conn-requests", sig, c, format, args...) }
	d := &kafka.Dialer{Timeout: 3 * time.Second, ClientID: c.ClientID, DialFunc: nw.Dial}
	ctx, cancel := context.WithTimeout(context.Background(), 5*time.Second)
	defer cancel()
	var conn *kafka.Conn
	var err error
	if c.Leader {
		conn, err = d.DialLeader(ctx, "tcp", "b1.fake:9092", "t0", 1)
	} else {
		conn, err = d.DialContext(ctx, "tcp", "b1.fake:9092")
	}
	if err != nil {
		if !genericChecks(cl, c.ClientID, fail) {
			return
		}
		tb.Fatalf("harness: dial: %v", err)
	}
	defer conn.Close()
	lab := map[string]bool{}
	acks := -1
	curOffset := int64(-2) // symbolic first offset
	for oi, op := range c.Ops {
		before := cl.Seq()
		offsetBefore := curOffset
		deadline := time.Duration(op.DeadlineMs) * time.Millisecond
		if deadline <= 0 {
			deadline = 2 * time.Second
		}
		conn.SetDeadline(time.Now().Add(deadline))
		var opErr error
		switch op.Kind {
		case "apiVersions":
			_, opErr = conn.ApiVersions()
		case "brokers":
			_, opErr = conn.Brokers()
		case "controller":
			_, opErr = conn.Controller()
		case "readPartitions":
			_, opErr = conn.ReadPartitions(op.Topics...)
		case "readOffset":
			_, opErr = conn.ReadOffset(time.UnixMilli(op.TimeMs))
		case "readFirst":
			_, opErr = conn.ReadFirstOffset()
		case "readLast":
			_, opErr = conn.ReadLastOffset()
		case "seek":
			var o int64
			o, opErr = conn.Seek(op.Offset, kafka.SeekAbsolute)
			if opErr == nil {
				curOffset = o
			}
		case "readBatch":
			b := conn.ReadBatchWith(kafka.ReadBatchConfig{MinBytes: op.MinBytes, MaxBytes: op.MaxBytes, IsolationLevel: kafka.IsolationLevel(op.Isolation), MaxWait: time.Duration(op.MaxWaitMs) * time.Millisecond})
			// the response side of the hand-written codec: what is decoded equals what the broker encoded
			startedAt, decoded := curOffset, 0
			for {
				m, err := b.ReadMessage()
				if err != nil {
					if decoded == 0 && c.Leader && startedAt >= 0 && startedAt < int64(len(recs)) && op.MaxBytes >= 1<<20 && !errors.Is(err, io.EOF) {
						// records are stored at the position, the limits are generous, the broker answered: a well-formed
						// response has to decode
						var ke kafka.Error
						if !errors.As(err, &ke) {
							fail("conn-resp/fetch/rejected", "op %d: ReadBatchWith at offset %d (isolation %d, %d aborted transactions listed) could not read the well-formed fetch response: %v", oi, startedAt, op.Isolation, c.Aborted, err)
							return
						}
					}
					break
				}
				decoded++
				if m.Offset < 0 {
					fail("conn-resp/fetch/offset", "op %d: ReadMessage returned offset %d", oi, m.Offset)
					return
				}
				if m.Offset >= int64(len(recs)) {
					curOffset = m.Offset + 1
					continue // appended by an earlier write of this program (C05 compares those)
				}
				want := recs[m.Offset]
				gotH := ""
				if len(m.Headers) == 1 {
					gotH = m.Headers[0].Key + "=" + string(m.Headers[0].Value)
				}
				wantH := "h=" + string(want.Headers[0].Value)
				if c.FetchMax < 5 {
					wantH = "" // fetch v2: the broker converts to message format 1, which has no headers
				}
				if string(m.Key) != string(want.Key) || string(m.Value) != string(want.Value) || m.Time.UnixMilli() != want.Timestamp || gotH != wantH {
					fail("conn-resp/fetch/content", "op %d: the record decoded at offset %d (key %d bytes, value %d bytes, time %d ms, header %q) is not the record the broker encoded (key %d bytes, value %d bytes, time %d ms)%s",
						oi, m.Offset, len(m.Key), len(m.Value), m.Time.UnixMilli(), gotH, len(want.Key), len(want.Value), want.Timestamp, map[bool]string{true: fmt.Sprintf("; response delivered in reads of %d bytes", c.Chunk), false: ""}[c.Chunk > 0])
					return
				}
				curOffset = m.Offset + 1
				lab["fetch_record_compared"] = true
			}
			opErr = b.Close()
		case "setAcks":
			if conn.SetRequiredAcks(op.Acks) == nil {
				acks = op.Acks
			}
		case "write":
			var msgs []kafka.Message
			for i, m := range op.Msgs {
				km := kafka.Message{Value: []byte(strings.Repeat("x", m.ValueLen)), Time: time.UnixMilli(writeBaseMs + int64(oi)*1000 + int64(i)*7)}
				if m.KeyLen >= 0 {
					km.Key = []byte(strings.Repeat("k", m.KeyLen))
				}
				for h := 0; h < m.Headers; h++ {
					km.Headers = append(km.Headers, kafka.Header{Key: fmt.Sprintf("h%d", h), Value: []byte{byte(i)}})
				}
				msgs = append(msgs, km)
			}
			if op.Codec > 0 {
				_, opErr = conn.WriteCompressedMessages(kafka.Compression(op.Codec).Codec(), msgs...)
			} else {
				_, opErr = conn.WriteMessages(msgs...)
			}
		case "createTopics":
			var tcs []kafka.TopicConfig
			for _, tc := range op.Create {
				k := kafka.TopicConfig{Topic: tc.Name, NumPartitions: tc.Partitions, ReplicationFactor: tc.Replication}
				for pi, brokers := range tc.Assign {
					k.ReplicaAssignments = append(k.ReplicaAssignments, kafka.ReplicaAssignment{Partition: pi, Replicas: brokers})
				}
				for _, kv := range tc.Configs {
					p := strings.SplitN(kv, "=", 2)
					k.ConfigEntries = append(k.ConfigEntries, kafka.ConfigEntry{ConfigName: p[0], ConfigValue: p[1]})
				}
				tcs = append(tcs, k)
			}
			opErr = conn.CreateTopics(tcs...)
		case "deleteTopics":
			opErr = conn.DeleteTopics(op.Topics...)
		}
		_ = opErr
		after := cl.Seq()
		var mine []*fakecluster.Exchange
		for _, ex := range cl.Journal() {
			if ex.Seq > before && ex.Seq <= after {
				mine = append(mine, ex)
			}
		}
		find := func(key int16) *fakecluster.Exchange {
			for _, ex := range mine {
				if ex.ApiKey == key && ex.Body != nil {
					return ex
				}
			}
			return nil
		}
		sig := func(s string) string { return "conn-req/" + op.Kind + "/" + s }
		dms := deadline.Milliseconds()
		switch op.Kind {
		case "readPartitions":
			ex := find(3)
			if ex == nil {
				break
			}
			lab[fmt.Sprintf("metadata_v%d", ex.Version)] = true
			got, notNull := bstrings(ex.Body, "TopicNames")
			want := op.Topics
			if len(want) == 0 && c.Leader {
				want = []string{"t0"}
			}
			if len(want) == 0 {
				// all topics: null from v1 on
				if notNull {
					fail(sig("topics"), "op %d: ReadPartitions() of all topics sent Metadata v%d with the topic list %v, all topics is a null array", oi, ex.Version, got)
					return
				}
			} else if !notNull || strings.Join(got, ",") != strings.Join(want, ",") {
				fail(sig("topics"), "op %d: ReadPartitions(%v) sent Metadata v%d with topics %v (null=%v)", oi, want, ex.Version, got, !notNull)
				return
			}
		case "readOffset", "readFirst", "readLast":
			ex := find(2)
			if ex == nil {
				break
			}
			want := map[string]int64{"readFirst": -2, "readLast": -1, "readOffset": op.TimeMs}[op.Kind]
			ts := ba(ex.Body, "Topics")
			if bi(ex.Body, "ReplicaID") != -1 || len(ts) != 1 {
				fail(sig("shape"), "op %d: ListOffsets v%d request with replica id %d and %d topics", oi, ex.Version, bi(ex.Body, "ReplicaID"), len(ts))
				return
			}
			name, _ := bs(ts[0], "Topic")
			ps := ba(ts[0], "Partitions")
			if name != "t0" || len(ps) != 1 || bi(ps[0], "Partition") != 1 || bi(ps[0], "Timestamp") != want {
				fail(sig("fields"), "op %d: %s sent ListOffsets v%d for %q partitions %v, want t0/1 at timestamp %d", oi, op.Kind, ex.Version, name, ps, want)
				return
			}
		case "readBatch":
			ex := find(1)
			if ex == nil {
				break
			}
			lab[fmt.Sprintf("fetch_v%d", ex.Version)] = true
			b := ex.Body
			ts := ba(b, "Topics")
			if bi(b, "ReplicaID") != -1 || len(ts) != 1 {
				fail(sig("shape"), "op %d: Fetch v%d request with replica id %d and %d topics", oi, ex.Version, bi(b, "ReplicaID"), len(ts))
				return
			}
			if bi(b, "MinBytes") != int64(op.MinBytes) {
				fail(sig("min-bytes"), "op %d: Fetch v%d MinBytes %d, ReadBatchWith asked for %d", oi, ex.Version, bi(b, "MinBytes"), op.MinBytes)
				return
			}
			if ex.Version >= 3 && (bi(b, "MaxBytes") < int64(op.MaxBytes) || bi(b, "MaxBytes") > int64(op.MaxBytes)+allowance) {
				fail(sig("max-bytes"), "op %d: Fetch v%d MaxBytes %d, ReadBatchWith asked for %d", oi, ex.Version, bi(b, "MaxBytes"), op.MaxBytes)
				return
			}
			if ex.Version >= 4 && bi(b, "IsolationLevel") != int64(op.Isolation) {
				fail(sig("isolation"), "op %d: Fetch v%d IsolationLevel %d, ReadBatchWith asked for %d", oi, ex.Version, bi(b, "IsolationLevel"), op.Isolation)
				return
			}
			mw := bi(b, "MaxWaitTime")
			if op.MaxWaitMs > 0 {
				if mw != int64(op.MaxWaitMs) {
					fail(sig("max-wait"), "op %d: Fetch v%d MaxWaitTime %d ms, ReadBatchWith asked for %d ms", oi, ex.Version, mw, op.MaxWaitMs)
					return
				}
			} else if mw < 0 || mw > dms {
				fail(sig("max-wait"), "op %d: Fetch v%d MaxWaitTime %d ms with a read deadline %d ms away", oi, ex.Version, mw, dms)
				return
			}
			if ex.Version >= 7 && (bi(b, "SessionID") != 0 || bi(b, "SessionEpoch") != -1) {
				fail(sig("session"), "op %d: Fetch v%d session id %d epoch %d, a sessionless fetch carries 0 / -1", oi, ex.Version, bi(b, "SessionID"), bi(b, "SessionEpoch"))
				return
			}
			name, _ := bs(ts[0], "Topic")
			ps := ba(ts[0], "Partitions")
			if name != "t0" || len(ps) != 1 || bi(ps[0], "Partition") != 1 {
				fail(sig("fields"), "op %d: Fetch v%d for %q %v, want t0/1", oi, ex.Version, name, ps)
				return
			}
			if offsetBefore >= 0 && bi(ps[0], "FetchOffset") != offsetBefore {
				fail(sig("offset"), "op %d: Fetch v%d at offset %d, the Conn was positioned at %d", oi, ex.Version, bi(ps[0], "FetchOffset"), offsetBefore)
				return
			}
			if bi(ps[0], "PartitionMaxBytes") < int64(op.MaxBytes) || bi(ps[0], "PartitionMaxBytes") > int64(op.MaxBytes)+allowance {
				fail(sig("partition-max-bytes"), "op %d: Fetch v%d PartitionMaxBytes %d, ReadBatchWith asked for %d", oi, ex.Version, bi(ps[0], "PartitionMaxBytes"), op.MaxBytes)
				return
			}
			if ex.Version >= 9 && bi(ps[0], "CurrentLeaderEpoch") != -1 {
				fail(sig("leader-epoch"), "op %d: Fetch v%d CurrentLeaderEpoch %d from a client that tracks no epochs (want -1)", oi, ex.Version, bi(ps[0], "CurrentLeaderEpoch"))
				return
			}
		case "write":
			ex := find(0)
			if ex == nil {
				break
			}
			lab[fmt.Sprintf("produce_v%d", ex.Version)] = true
			b := ex.Body
			if bi(b, "Acks") != int64(acks) {
				fail(sig("acks"), "op %d: Produce v%d acks %d, the Conn is configured for %d", oi, ex.Version, bi(b, "Acks"), acks)
				return
			}
			if to := bi(b, "Timeout"); to <= 0 || to > dms {
				fail(sig("timeout"), "op %d: Produce v%d timeout %d ms with a write deadline %d ms away", oi, ex.Version, to, dms)
				return
			}
			if ex.Version >= 3 {
				if s, notNull := bs(b, "TransactionalID"); notNull {
					fail(sig("transactional-id"), "op %d: Produce v%d transactional id %q from a non-transactional Conn (want null)", oi, ex.Version, s)
					return
				}
			}
			ts := ba(b, "Topics")
			if len(ts) != 1 {
				fail(sig("shape"), "op %d: Produce v%d with %d topics", oi, ex.Version, len(ts))
				return
			}
			name, _ := bs(ts[0], "Topic")
			ps := ba(ts[0], "Partitions")
			if name != "t0" || len(ps) != 1 || bi(ps[0], "Partition") != 1 {
				fail(sig("fields"), "op %d: Produce v%d for %q %v, want t0/1", oi, ex.Version, name, ps)
				return
			}
			rs, _ := ps[0]["RecordSet"].(*refcodec.RecordSet)
			if rs == nil || len(rs.AllRecords()) != len(op.Msgs) {
				n := -1
				if rs != nil {
					n = len(rs.AllRecords())
				}
				fail(sig("records"), "op %d: Produce v%d carries %d records, WriteMessages was given %d", oi, ex.Version, n, len(op.Msgs))
				return
			}
			for i, rec := range rs.AllRecords() {
				m := op.Msgs[i]
				wantTs := writeBaseMs + int64(oi)*1000 + int64(i)*7
				wantKey := -1
				if m.KeyLen >= 0 {
					wantKey = m.KeyLen
				}
				gotKey := len(rec.Key)
				if rec.KeyNull {
					gotKey = -1
				} else if wantKey == -1 && gotKey == 0 {
					gotKey = -1 // message sets cannot tell a nil key from an empty one on this path (C05's business)
				}
				if rec.Timestamp != wantTs || len(rec.Value) != m.ValueLen || (gotKey != wantKey && !(wantKey == 0 && gotKey == -1)) {
					fail(sig("record-fields"), "op %d: Produce v%d (codec %d) record %d carries timestamp %d, key of %d and value of %d bytes; message %d was given time %d ms, key %d, value %d bytes",
						oi, ex.Version, op.Codec, i, rec.Timestamp, gotKey, len(rec.Value), i, wantTs, wantKey, m.ValueLen)
					return
				}
			}
		case "createTopics":
			ex := find(19)
			if ex == nil {
				break
			}
			b := ex.Body
			if to := bi(b, "TimeoutMs"); to <= 0 || to > dms {
				fail(sig("timeout"), "op %d: CreateTopics v%d timeout %d ms with a deadline %d ms away", oi, ex.Version, to, dms)
				return
			}
			ts := ba(b, "Topics")
			if len(ts) != len(op.Create) {
				fail(sig("shape"), "op %d: CreateTopics v%d with %d topics, %d were given", oi, ex.Version, len(ts), len(op.Create))
				return
			}
			for i, tc := range op.Create {
				name, _ := bs(ts[i], "Name")
				if name != tc.Name || bi(ts[i], "NumPartitions") != int64(tc.Partitions) || bi(ts[i], "ReplicationFactor") != int64(tc.Replication) {
					fail(sig("fields"), "op %d: CreateTopics v%d topic %d is %q partitions %d replication %d, given %+v", oi, ex.Version, i, name, bi(ts[i], "NumPartitions"), bi(ts[i], "ReplicationFactor"), tc)
					return
				}
				as := ba(ts[i], "Assignments")
				if len(as) != len(tc.Assign) {
					fail(sig("assignments"), "op %d: CreateTopics v%d topic %q has %d replica assignments, %d were given", oi, ex.Version, name, len(as), len(tc.Assign))
					return
				}
				for pi, brokers := range tc.Assign {
					var got []string
					if arr, ok := as[pi]["BrokerIDs"].([]any); ok {
						for _, x := range arr {
							got = append(got, fmt.Sprint(x))
						}
					}
					var want []string
					for _, x := range brokers {
						want = append(want, fmt.Sprint(x))
					}
					if bi(as[pi], "PartitionIndex") != int64(pi) || strings.Join(got, ",") != strings.Join(want, ",") {
						fail(sig("assignments"), "op %d: CreateTopics v%d topic %q assignment %d is partition %d brokers %v, given partition %d brokers %v", oi, ex.Version, name, pi, bi(as[pi], "PartitionIndex"), got, pi, want)
						return
					}
				}
				cs := ba(ts[i], "Configs")
				if len(cs) != len(tc.Configs) {
					fail(sig("configs"), "op %d: CreateTopics v%d topic %q has %d config entries, %d were given", oi, ex.Version, name, len(cs), len(tc.Configs))
					return
				}
				for ci, kv := range tc.Configs {
					p := strings.SplitN(kv, "=", 2)
					k, _ := bs(cs[ci], "Name")
					v, _ := bs(cs[ci], "Value")
					if k != p[0] || v != p[1] {
						fail(sig("configs"), "op %d: CreateTopics v%d topic %q config %d is %q=%q, given %q", oi, ex.Version, name, ci, k, v, kv)
						return
					}
				}
			}
		case "deleteTopics":
			ex := find(20)
			if ex == nil {
				break
			}
			got, _ := bstrings(ex.Body, "TopicNames")
			if strings.Join(got, ",") != strings.Join(op.Topics, ",") {
				fail(sig("topics"), "op %d: DeleteTopics v%d names %v, given %v", oi, ex.Version, got, op.Topics)
				return
			}
			if to := bi(ex.Body, "TimeoutMs"); to <= 0 || to > dms {
				fail(sig("timeout"), "op %d: DeleteTopics v%d timeout %d ms with a deadline %d ms away", oi, ex.Version, to, dms)
				return
			}
		}
		lab["op_"+op.Kind] = true
	}
	if !genericChecks(cl, c.ClientID, fail) {
		return
	}
	for k := range lab {
		labels = append(labels, k)
	}
	sort.Strings(labels)
	return labels, len(c.Ops) > 0
}

var identChars = "abcdefghijklmnopqrstuvwxyzABCDEFGHIJKLMNOPQRSTUVWXYZ0123456789._-"

func genIdent(t *rapid.T, label string, min, max int) string {
	n := rapid.IntRange(min, max).Draw(t, label+"Len")
	var sb strings.Builder
	for i := 0; i < n; i++ {
		sb.WriteByte(identChars[rapid.IntRange(0, len(identChars)-1).Draw(t, label+"Ch")])
	}
	return sb.String()
}

func genClientID(t *rapid.T) string {
	switch rapid.IntRange(0, 5).Draw(t, "clientIDKind") {
	case 0:
		return ""
	case 1:
		return "клиент-ü-" + genIdent(t, "cid", 0, 5) // multi-byte characters: length prefix counts bytes
	case 2:
		return strings.Repeat("c", rapid.SampledFrom([]int{63, 64, 127, 128, 255, 256, 300}).Draw(t, "cidLong"))
	}
	return genIdent(t, "cid", 1, 20)
}

func TestConnRequests(t *testing.T) {
	rapid.Check(t, func(t *rapid.T) {
		c := connCase{
			ClientID:    genClientID(t),
			ProduceMax:  rapid.SampledFrom([]int{2, 3, 6, 7, 9}).Draw(t, "produceMax"),
			FetchMax:    rapid.SampledFrom([]int{2, 4, 5, 9, 10, 11}).Draw(t, "fetchMax"),
			MetadataMax: rapid.SampledFrom([]int{1, 5, 6, 9}).Draw(t, "metadataMax"),
			Aborted:     rapid.SampledFrom([]int{0, 0, 1, 2, 5}).Draw(t, "aborted"),
			CreateMax:   1 + rapid.SampledFrom([]int{0, 1, 2, 3, 4}).Draw(t, "createMax"), // stored +1: the Conn implements v0..v2
			DeleteMax:   1 + rapid.SampledFrom([]int{0, 1, 3}).Draw(t, "deleteMax"),
			Leader:      rapid.IntRange(0, 3).Draw(t, "leader") != 0,
			Chunk:       rapid.SampledFrom([]int{0, 0, 1, 2, 3, 5, 7, 64, 1000}).Draw(t, "chunk"),
		}
		kinds := []string{"apiVersions", "brokers", "controller", "readPartitions", "createTopics", "deleteTopics"}
		if c.Leader {
			kinds = append(kinds, "readOffset", "readFirst", "readLast", "seek", "readBatch", "readBatch", "setAcks", "write", "write", "write")
		}
		n := rapid.IntRange(1, 8).Draw(t, "ops")
		sizes := []int{0, 1, 5, 63, 64, 65, 127, 128, 129, 200, 8191, 8192, 8193}
		for i := 0; i < n; i++ {
			op := connOp{Kind: rapid.SampledFrom(kinds).Draw(t, "kind"), DeadlineMs: rapid.SampledFrom([]int{300, 1000, 2500, 40000}).Draw(t, "deadlineMs")}
			switch op.Kind {
			case "readPartitions":
				op.Topics = rapid.SampledFrom([][]string{nil, {"t0"}, {"t1", "t0"}, {"t0", "nope"}, {""}}).Draw(t, "topics")
			case "readOffset":
				op.TimeMs = rapid.Int64Range(1, 1<<41).Draw(t, "timeMs")
			case "seek":
				op.Offset = rapid.Int64Range(0, 19).Draw(t, "seekTo")
			case "readBatch":
				op.MinBytes = rapid.SampledFrom([]int{1, 1, 10, 1000}).Draw(t, "minBytes")
				op.MaxBytes = op.MinBytes + rapid.SampledFrom([]int{0, 1, 100, 4096, 1 << 20}).Draw(t, "maxBytesExtra")
				op.Isolation = rapid.IntRange(0, 1).Draw(t, "isolation")
				op.MaxWaitMs = rapid.SampledFrom([]int{0, 0, 1, 50, 250}).Draw(t, "maxWaitMs")
				if op.MaxWaitMs == 0 && op.DeadlineMs > 1000 {
					op.DeadlineMs = 1000 // the wait is derived from the deadline: keep an empty fetch short
				}
			case "setAcks":
				op.Acks = rapid.SampledFrom([]int{-1, 0, 1}).Draw(t, "acks")
				if op.Acks == 0 {
					op.Acks = 1 // acks=0 has no response to observe the request by; covered by C01's acks generator through the Writer
				}
			case "write":
				k := rapid.IntRange(1, 4).Draw(t, "nmsgs")
				if rapid.IntRange(0, 9).Draw(t, "many") == 0 {
					k = rapid.SampledFrom([]int{63, 64, 65, 66, 129}).Draw(t, "nmsgsMany")
				}
				for j := 0; j < k; j++ {
					op.Msgs = append(op.Msgs, connMsg{KeyLen: rapid.SampledFrom(append([]int{-1}, sizes...)).Draw(t, "keyLen"), ValueLen: rapid.SampledFrom(sizes).Draw(t, "valueLen"), Headers: rapid.SampledFrom([]int{0, 0, 1, 3}).Draw(t, "headers")})
				}
				op.Codec = rapid.SampledFrom([]int{0, 0, 0, 1, 2, 3, 4}).Draw(t, "codec")
			case "createTopics":
				k := rapid.IntRange(1, 3).Draw(t, "ntopics")
				for j := 0; j < k; j++ {
					tc := topicCfg{Name: genIdent(t, "topic", 1, 12), Partitions: rapid.IntRange(1, 6).Draw(t, "parts"), Replication: rapid.IntRange(1, 2).Draw(t, "repl")}
					if rapid.IntRange(0, 2).Draw(t, "assign") == 0 {
						tc.Partitions, tc.Replication = -1, -1
						for pi := 0; pi < rapid.IntRange(1, 3).Draw(t, "nassign"); pi++ {
							tc.Assign = append(tc.Assign, rapid.SampledFrom([][]int{{1}, {2}, {1, 2}, {2, 1}}).Draw(t, "brokers"))
						}
					}
					for ci := 0; ci < rapid.IntRange(0, 3).Draw(t, "nconfigs"); ci++ {
						tc.Configs = append(tc.Configs, genIdent(t, "ck", 1, 10)+"="+genIdent(t, "cv", 0, 10))
					}
					op.Create = append(op.Create, tc)
				}
			case "deleteTopics":
				op.Topics = rapid.SampledFrom([][]string{{"t1"}, {"nope"}, {"t1", "gone", "x"}}).Draw(t, "delTopics")
			}
			c.Ops = append(c.Ops, op)
		}
		labels, nt := runConnRequests(t, c)
		var ks []string
		for _, o := range c.Ops {
			ks = append(ks, o.Kind)
		}
		ev.Case(fmt.Sprintf("conn cid%d p%d f%d m%d leader%v %v", len(c.ClientID), c.ProduceMax, c.FetchMax, c.MetadataMax, c.Leader, ks), nt, labels...)
		ev.Sample(c)
	})
}

// ---------------------------------------------------------------------------
// group requests through ConsumerGroup

func parseSubscription(b []byte) (version int16, topics []string, userData []byte, err error) {
	rd := func(n int) ([]byte, error) {
		if n < 0 || n > len(b) {
			return nil, fmt.Errorf("short")
		}
		x := b[:n]
		b = b[n:]
		return x, nil
	}
	x, e := rd(2)
	if e != nil {
		return 0, nil, nil, fmt.Errorf("no version")
	}
	version = int16(binary.BigEndian.Uint16(x))
	x, e = rd(4)
	if e != nil {
		return 0, nil, nil, fmt.Errorf("no topic count")
	}
	n := int(int32(binary.BigEndian.Uint32(x)))
	for i := 0; i < n; i++ {
		x, e = rd(2)
		if e != nil {
			return 0, nil, nil, fmt.Errorf("short topic length")
		}
		s, e := rd(int(int16(binary.BigEndian.Uint16(x))))
		if e != nil {
			return 0, nil, nil, fmt.Errorf("short topic")
		}
		topics = append(topics, string(s))
	}
	x, e = rd(4)
	if e != nil {
		return 0, nil, nil, fmt.Errorf("no user data length")
	}
	if l := int(int32(binary.BigEndian.Uint32(x))); l >= 0 {
		userData, e = rd(l)
		if e != nil {
			return 0, nil, nil, fmt.Errorf("short user data")
		}
	}
	if len(b) != 0 {
		return 0, nil, nil, fmt.Errorf("%d trailing bytes", len(b))
	}
	return
}

func parseAssignment(b []byte) (map[string][]int32, error) {
	out := map[string][]int32{}
	rd := func(n int) ([]byte, error) {
		if n < 0 || n > len(b) {
			return nil, fmt.Errorf("short")
		}
		x := b[:n]
		b = b[n:]
		return x, nil
	}
	if _, e := rd(2); e != nil {
		return nil, fmt.Errorf("no version")
	}
	x, e := rd(4)
	if e != nil {
		return nil, fmt.Errorf("no topic count")
	}
	for i, n := 0, int(int32(binary.BigEndian.Uint32(x))); i < n; i++ {
		x, e = rd(2)
		if e != nil {
			return nil, e
		}
		s, e := rd(int(int16(binary.BigEndian.Uint16(x))))
		if e != nil {
			return nil, e
		}
		x, e = rd(4)
		if e != nil {
			return nil, e
		}
		for j, k := 0, int(int32(binary.BigEndian.Uint32(x))); j < k; j++ {
			p, e := rd(4)
			if e != nil {
				return nil, e
			}
			out[string(s)] = append(out[string(s)], int32(binary.BigEndian.Uint32(p)))
		}
	}
	x, e = rd(4)
	if e != nil {
		return nil, fmt.Errorf("no user data length")
	}
	if l := int(int32(binary.BigEndian.Uint32(x))); l >= 0 {
		if _, e = rd(l); e != nil {
			return nil, fmt.Errorf("short user data")
		}
	}
	if len(b) != 0 {
		return nil, fmt.Errorf("%d trailing bytes", len(b))
	}
	return out, nil
}

func balancerOf(name string) kafka.GroupBalancer {
	switch name {
	case "roundrobin":
		return kafka.RoundRobinGroupBalancer{}
	case "rack-affinity":
		return kafka.RackAffinityGroupBalancer{Rack: "rack-7"}
	}
	return kafka.RangeGroupBalancer{}
}

func runGroupRequests(tb ev.TB, c groupCase) (labels []string, nontrivial bool) {
	nw := memnet.New()
	cl := fakecluster.New(nw, 2)
	defer cl.Close()
	parts := map[string]int{"t0": 3, "t1": 2, "t2": 1}
	for _, name := range []string{"t0", "t1", "t2"} {
		cl.CreateTopic(name, parts[name])
	}
	cl.SetVersions(0, 9, 0, int16(c.OffsetFetchHi))
	fail := func(sig, format string, args ...any) { ev.Fail(tb, "group-requests", sig, c, format, args...) }
	d := &kafka.Dialer{Timeout: 3 * time.Second, ClientID: c.ClientID, DialFunc: nw.Dial}
	var bals []kafka.GroupBalancer
	for _, b := range c.Balancers {
		bals = append(bals, balancerOf(b))
	}
	mk := func() (*kafka.ConsumerGroup, error) {
		return kafka.NewConsumerGroup(kafka.ConsumerGroupConfig{ID: c.GroupID, Brokers: []string{"b1.fake:9092"}, Dialer: d, Topics: c.Topics, GroupBalancers: bals,
			HeartbeatInterval: 20 * time.Millisecond, SessionTimeout: time.Duration(c.SessionMs) * time.Millisecond, RebalanceTimeout: time.Duration(c.RebalanceMs) * time.Millisecond,
			JoinGroupBackoff: 10 * time.Millisecond, RetentionTime: time.Duration(c.RetentionMs) * time.Millisecond, StartOffset: kafka.FirstOffset, Timeout: 2 * time.Second})
	}
	cg, err := mk()
	if err != nil {
		tb.Fatalf("harness: NewConsumerGroup: %v", err)
	}
	ctx, cancel := context.WithTimeout(context.Background(), 6*time.Second)
	defer cancel()
	gen, err := cg.Next(ctx)
	if err != nil {
		cg.Close()
		if !genericChecks(cl, c.ClientID, fail) {
			return
		}
		ev.Inconclusive("group_join_failed")
		return nil, false
	}
	commit := map[string]map[int]int64{}
	for topic, offs := range c.Commits {
		for pi, off := range offs {
			if _, ok := gen.Assignments[topic]; !ok {
				continue
			}
			if commit[topic] == nil {
				commit[topic] = map[int]int64{}
			}
			commit[topic][pi] = int64(off)
		}
	}
	var commitErr error
	committed := false
	if len(commit) > 0 {
		commitErr = gen.CommitOffsets(commit)
		committed = true
	}
	time.Sleep(50 * time.Millisecond) // a few heartbeats
	cg.Close()
	_ = commitErr
	if !genericChecks(cl, c.ClientID, fail) {
		return
	}
	lab := map[string]bool{}
	memberID := ""
	var generation int64 = -1
	for _, ex := range cl.Journal() {
		b := ex.Body
		if b == nil {
			continue
		}
		sig := func(s string) string { return "group-req/" + ex.ApiName + "/" + s }
		gid, _ := bs(b, "GroupID")
		switch ex.ApiKey {
		case 10:
			key, _ := bs(b, "Key")
			if key != c.GroupID || (ex.Version >= 1 && bi(b, "KeyType") != 0) {
				fail(sig("key"), "FindCoordinator v%d for key %q type %d, the group is %q", ex.Version, key, bi(b, "KeyType"), c.GroupID)
				return
			}
		case 11:
			pt, _ := bs(b, "ProtocolType")
			if gid != c.GroupID || pt != "consumer" {
				fail(sig("ids"), "JoinGroup v%d group %q protocol type %q, want %q / consumer", ex.Version, gid, pt, c.GroupID)
				return
			}
			if bi(b, "SessionTimeoutMS") != int64(c.SessionMs) {
				fail(sig("session-timeout"), "JoinGroup v%d session timeout %d ms, configured %d ms", ex.Version, bi(b, "SessionTimeoutMS"), c.SessionMs)
				return
			}
			if ex.Version >= 1 && bi(b, "RebalanceTimeoutMS") != int64(c.RebalanceMs) {
				fail(sig("rebalance-timeout"), "JoinGroup v%d rebalance timeout %d ms, configured %d ms", ex.Version, bi(b, "RebalanceTimeoutMS"), c.RebalanceMs)
				return
			}
			ps := ba(b, "Protocols")
			if len(ps) != len(c.Balancers) {
				fail(sig("protocols"), "JoinGroup v%d lists %d protocols, %d balancers are configured", ex.Version, len(ps), len(c.Balancers))
				return
			}
			for i, name := range c.Balancers {
				got, _ := bs(ps[i], "Name")
				if got != name {
					fail(sig("protocols"), "JoinGroup v%d protocol %d is %q, balancer %d is %q", ex.Version, i, got, i, name)
					return
				}
				md, _ := ps[i]["Metadata"].([]byte)
				_, topics, ud, err := parseSubscription(md)
				if err != nil {
					fail(sig("subscription"), "JoinGroup v%d protocol %q metadata %x is not a consumer subscription: %v", ex.Version, name, md, err)
					return
				}
				if strings.Join(topics, ",") != strings.Join(c.Topics, ",") {
					fail(sig("subscription"), "JoinGroup v%d protocol %q subscribes to %v, configured topics %v", ex.Version, name, topics, c.Topics)
					return
				}
				wantUD := ""
				if name == "rack-affinity" {
					wantUD = "rack-7"
				}
				if string(ud) != wantUD {
					fail(sig("user-data"), "JoinGroup v%d protocol %q user data %q, the balancer's user data is %q", ex.Version, name, ud, wantUD)
					return
				}
			}
			if ex.RespBody != nil && bi(ex.RespBody, "ErrorCode") == 0 {
				memberID, _ = bs(ex.RespBody, "MemberID")
				generation = bi(ex.RespBody, "GenerationID")
			}
			lab["join"] = true
		case 14:
			mid, _ := bs(b, "MemberID")
			if gid != c.GroupID || mid != memberID || bi(b, "GenerationID") != generation {
				fail(sig("ids"), "SyncGroup v%d for group %q member %q generation %d; joined as %q in generation %d of %q", ex.Version, gid, mid, bi(b, "GenerationID"), memberID, generation, c.GroupID)
				return
			}
			seen := map[string]int{}
			for _, a := range ba(b, "Assignments") {
				raw, _ := a["Assignment"].([]byte)
				as, err := parseAssignment(raw)
				if err != nil {
					fail(sig("assignment"), "SyncGroup v%d assignment %x is not a consumer assignment: %v", ex.Version, raw, err)
					return
				}
				for topic, ps := range as {
					seen[topic] += len(ps)
				}
			}
			if len(ba(b, "Assignments")) > 0 {
				for _, topic := range c.Topics {
					if seen[topic] != parts[topic] {
						fail(sig("assignment"), "SyncGroup v%d leader assignments cover %d partitions of %q, it has %d", ex.Version, seen[topic], topic, parts[topic])
						return
					}
				}
				lab["sync_as_leader"] = true
			}
		case 12:
			mid, _ := bs(b, "MemberID")
			if gid != c.GroupID || mid != memberID || bi(b, "GenerationID") != generation {
				fail(sig("ids"), "Heartbeat v%d for group %q member %q generation %d; joined as %q in generation %d", ex.Version, gid, mid, bi(b, "GenerationID"), memberID, generation)
				return
			}
			lab["heartbeat"] = true
		case 9:
			if gid != c.GroupID {
				fail(sig("ids"), "OffsetFetch v%d for group %q, want %q", ex.Version, gid, c.GroupID)
				return
			}
			for _, tpc := range ba(b, "Topics") {
				name, _ := bs(tpc, "Name")
				arr, _ := tpc["PartitionIndexes"].([]any)
				if parts[name] == 0 || len(arr) == 0 || len(arr) > parts[name] {
					fail(sig("partitions"), "OffsetFetch v%d asks for %d partitions of %q (it has %d)", ex.Version, len(arr), name, parts[name])
					return
				}
			}
			lab[fmt.Sprintf("offsetfetch_v%d", ex.Version)] = true
		case 8:
			mid, _ := bs(b, "MemberID")
			if gid != c.GroupID || mid != memberID || bi(b, "GenerationID") != generation {
				fail(sig("ids"), "OffsetCommit v%d for group %q member %q generation %d; joined as %q in generation %d", ex.Version, gid, mid, bi(b, "GenerationID"), memberID, generation)
				return
			}
			if ex.Version >= 2 && ex.Version <= 4 {
				want := int64(c.RetentionMs)
				if c.RetentionMs == 0 {
					want = -1
				}
				if got := bi(b, "RetentionTimeMs"); got != want {
					fail(sig("retention"), "OffsetCommit v%d retention %d ms, configured %d (0 = broker default = -1)", ex.Version, got, c.RetentionMs)
					return
				}
			}
			got := map[string]map[int]int64{}
			for _, tpc := range ba(b, "Topics") {
				name, _ := bs(tpc, "Name")
				for _, p := range ba(tpc, "Partitions") {
					if got[name] == nil {
						got[name] = map[int]int64{}
					}
					got[name][int(bi(p, "PartitionIndex"))] = bi(p, "CommittedOffset")
					if md, notNull := bs(p, "CommittedMetadata"); notNull && md != "" {
						fail(sig("metadata"), "OffsetCommit v%d carries metadata %q for %s/%d, none was given", ex.Version, md, name, bi(p, "PartitionIndex"))
						return
					}
				}
			}
			if fmt.Sprint(got) != fmt.Sprint(commit) {
				fail(sig("offsets"), "OffsetCommit v%d carries %v, CommitOffsets was given %v", ex.Version, got, commit)
				return
			}
			lab["commit"] = true
		case 13:
			mid, _ := bs(b, "MemberID")
			if gid != c.GroupID || (ex.Version <= 2 && mid != memberID) {
				fail(sig("ids"), "LeaveGroup v%d for group %q member %q; joined as %q", ex.Version, gid, mid, memberID)
				return
			}
			lab["leave"] = true
		}
	}
	if committed && !lab["commit"] && commitErr == nil {
		fail("group-req/OffsetCommit/missing", "CommitOffsets(%v) returned nil but no OffsetCommit request reached the coordinator", commit)
		return
	}
	for k := range lab {
		labels = append(labels, k)
	}
	sort.Strings(labels)
	return labels, lab["join"] && lab["heartbeat"]
}

func TestGroupRequests(t *testing.T) {
	rapid.Check(t, func(t *rapid.T) {
		c := groupCase{
			ClientID:      genClientID(t),
			GroupID:       genIdent(t, "group", 1, 24),
			Topics:        rapid.SampledFrom([][]string{{"t0"}, {"t1", "t0"}, {"t0", "t1", "t2"}, {"t2"}}).Draw(t, "topics"),
			Balancers:     rapid.SampledFrom([][]string{{"range"}, {"roundrobin"}, {"range", "roundrobin"}, {"rack-affinity", "range"}, {"roundrobin", "rack-affinity", "range"}}).Draw(t, "balancers"),
			SessionMs:     rapid.SampledFrom([]int{1000, 6000, 30000, 45001}).Draw(t, "sessionMs"),
			RebalanceMs:   rapid.SampledFrom([]int{150, 1000, 30000, 60001}).Draw(t, "rebalanceMs"),
			RetentionMs:   rapid.SampledFrom([]int{0, 0, 1000, 86400000, 1 << 40}).Draw(t, "retentionMs"),
			OffsetFetchHi: rapid.SampledFrom([]int{1, 3, 5}).Draw(t, "offsetFetchMax"),
			Commits:       map[string][]int{},
		}
		for _, topic := range c.Topics {
			if rapid.Bool().Draw(t, "commitTopic") {
				n := map[string]int{"t0": 3, "t1": 2, "t2": 1}[topic]
				var offs []int
				for i := 0; i < rapid.IntRange(1, n).Draw(t, "nparts"); i++ {
					offs = append(offs, rapid.SampledFrom([]int{0, 1, 63, 64, 1 << 20, 1 << 40}).Draw(t, "commitOffset"))
				}
				c.Commits[topic] = offs
			}
		}
		labels, nt := runGroupRequests(t, c)
		ev.Case(fmt.Sprintf("group %q topics%v bal%v s%d r%d ret%d commits%v", c.GroupID, c.Topics, c.Balancers, c.SessionMs, c.RebalanceMs, c.RetentionMs, c.Commits), nt, labels...)
		ev.Sample(c)
	})
}
